(** C06: specification ([fold_spec]) and proofs about ArgH/Cont.v. *)
From Coq Require Import List NArith ZArith Bool Arith Permutation Sorted Lia Morphisms RelationClasses.
Import ListNotations.
Require Import Celma.Common.Res Celma.Common.ListX Celma.ArgH.Key Celma.ArgH.Handler Celma.ArgH.Cont.

(* ------------------------------------------------------------------ *)
(** * The specification: the destination as a function of the flat token sequence *)

Section Spec.
Variable stp : str -> cont -> res cont.
Variable o : copts.

(** every element in order: counted, then checked / formatted / converted /
    de-duplicated / placed by [stp] *)
Fixpoint fold_tokens (toks : list str) (cnt : Z) (c : cont) : res (Z * cont) :=
  match toks with
  | [] => Ok (cnt, c)
  | t :: r => do n <- card_got (o_card o) cnt; do c' <- stp t c; fold_tokens r n c'
  end.

Definition norm (c : cont) : cont := if o_sort o then sort_cont c else c.

(** [used]: the argument was used at least once.  Earlier content is discarded
    once (before the first element), the elements follow in order, the result is
    sorted if so configured. *)
Definition fold_spec (st : cst) (used : bool) (toks : list str) : res cst :=
  if used then
    let c0 := pre_use (if c_clearp st then clear_cont (c_val st) else c_val st) in
    do r <- fold_tokens toks (c_cnt st) c0;
    Ok {| c_val := norm (snd r); c_clearp := false; c_cnt := fst r |}
  else Ok st.
End Spec.

Definition all_tokens (o : copts) (uses : list str) : list str := concat (map (tokens (o_sep o)) uses).

(** a use without any element still counts for the cardinality; without a
    cardinality (the default of every container but the tuple) it is invisible *)
Definition card_cut_ok (o : copts) (uses : list str) : Prop :=
  o_card o = CardNone \/ Forall (fun u => tokens (o_sep o) u <> []) uses.

Definition ints_kind (k : kind) : bool :=
  match k with
  | KVec | KDeque | KList | KQueue | KFwd | KStack | KSet | KMSet | KUSet | KUMSet | KPrio => true
  | _ => false
  end.

(* ------------------------------------------------------------------ *)
(** * Small tools *)

Definition res_rel {A} (R : A -> A -> Prop) (x y : res A) : Prop :=
  match x, y with
  | Ok a, Ok b => R a b
  | Err e, Err e' => e = e'
  | Fault f, Fault f' => f = f'
  | _, _ => False
  end.

Lemma res_rel_eq {A} (x y : res A) : res_rel eq x y -> x = y.
Proof. destruct x, y; simpl; intros; subst; auto; contradiction. Qed.

Lemma res_rel_refl {A} (R : A -> A -> Prop) (x : res A) : (forall a, R a a) -> res_rel R x x.
Proof. destruct x; simpl; auto. Qed.

Ltac inv_bind H :=
  match type of H with
  | bind ?r _ = Ok _ =>
      let a := fresh "a" in let E := fresh "E" in
      destruct r as [a| |] eqn:E; simpl in H; [|discriminate H|discriminate H]
  end.

Lemma z_in_In v l : z_in v l = true <-> In v l.
Proof.
  unfold z_in. rewrite existsb_exists. split.
  - intros [x [Hx He]]. apply Z.eqb_eq in He. subst. auto.
  - intros H. exists v. split; auto. apply Z.eqb_refl.
Qed.

Lemma z_in_perm v l l' : Permutation l l' -> z_in v l = z_in v l'.
Proof.
  intros P. destruct (z_in v l) eqn:E1, (z_in v l') eqn:E2; auto.
  - apply z_in_In in E1. eapply Permutation_in in E1; eauto. apply z_in_In in E1. congruence.
  - apply z_in_In in E2. eapply Permutation_in in E2; [|apply Permutation_sym; eauto].
    apply z_in_In in E2. congruence.
Qed.

(** formats (upper / lower case) never change how a text converts to int *)
Lemma fmt_char_facts f c :
  let g := match f with FUpper => to_upper | FLower => to_lower end in
  is_digit (g c) = is_digit c /\ (is_digit c = true -> g c = c) /\
  ceq (g c) 45 = ceq c 45 /\ ceq (g c) 43 = ceq c 43.
Proof.
  destruct f; simpl; unfold to_upper, to_lower, is_digit, ceq.
  - destruct (N.leb 97 c && N.leb c 122) eqn:E.
    + apply andb_true_iff in E. destruct E as [E1 E2]. apply N.leb_le in E1. apply N.leb_le in E2.
      repeat split.
      * destruct (N.leb_spec 48 (c - 32)), (N.leb_spec (c - 32) 57), (N.leb_spec 48 c), (N.leb_spec c 57);
          simpl; auto; lia.
      * intros H. apply andb_true_iff in H. destruct H as [_ H]. apply N.leb_le in H. lia.
      * destruct (N.eqb_spec (c - 32) 45), (N.eqb_spec c 45); auto; lia.
      * destruct (N.eqb_spec (c - 32) 43), (N.eqb_spec c 43); auto; lia.
    + repeat split; auto.
  - destruct (N.leb 65 c && N.leb c 90) eqn:E.
    + apply andb_true_iff in E. destruct E as [E1 E2]. apply N.leb_le in E1. apply N.leb_le in E2.
      repeat split.
      * destruct (N.leb_spec 48 (c + 32)), (N.leb_spec (c + 32) 57), (N.leb_spec 48 c), (N.leb_spec c 57);
          simpl; auto; lia.
      * intros H. apply andb_true_iff in H. destruct H as [_ H]. apply N.leb_le in H. lia.
      * destruct (N.eqb_spec (c + 32) 45), (N.eqb_spec c 45); auto; lia.
      * destruct (N.eqb_spec (c + 32) 43), (N.eqb_spec c 43); auto; lia.
    + repeat split; auto.
Qed.

Lemma digits_val_fmt f s : forall acc, digits_val acc (apply_fmt f s) = digits_val acc s.
Proof.
  induction s as [|c r IH]; intros acc; destruct f; simpl; auto.
  - destruct (fmt_char_facts FUpper c) as [H1 [H2 _]]. simpl in H1, H2. rewrite H1.
    destruct (is_digit c) eqn:E; auto. rewrite (H2 eq_refl). apply (IH _).
  - destruct (fmt_char_facts FLower c) as [H1 [H2 _]]. simpl in H1, H2. rewrite H1.
    destruct (is_digit c) eqn:E; auto. rewrite (H2 eq_refl). apply (IH _).
Qed.

Lemma parse_int_fmt f s : parse_int (apply_fmt f s) = parse_int s.
Proof.
  destruct s as [|c r]; [destruct f; reflexivity|].
  pose proof (digits_val_fmt f (c :: r) 0) as Hall. pose proof (digits_val_fmt f r 0) as Hr.
  destruct (fmt_char_facts f c) as [_ [_ [H45 H43]]].
  destruct f; simpl in *; rewrite H45, H43;
    (destruct (ceq c 45); [|destruct (ceq c 43)]);
    try (destruct r; simpl in *; [reflexivity|rewrite Hr; reflexivity]);
    rewrite Hall; reflexivity.
Qed.

Lemma lex_int_fmts fs : forall s, lex_int (apply_fmts fs s) = lex_int s.
Proof.
  unfold apply_fmts. induction fs as [|f r IH]; intros s; simpl; auto.
  rewrite IH. unfold lex_int. rewrite parse_int_fmt. reflexivity.
Qed.

Lemma lex_int_fmt_pos o idx s : lex_int (fmt_pos o idx s) = lex_int s.
Proof. unfold fmt_pos. destruct (Nat.ltb _ _); auto. apply lex_int_fmts. Qed.

Lemma lex_int_pos_ints k o l s : lex_int (pos_fmt_ints k o l s) = lex_int s.
Proof. destruct k; simpl; auto. apply lex_int_fmt_pos. Qed.

(* ------------------------------------------------------------------ *)
(** * Sorting *)

Lemma insert_sorted_perm {A} (lt : A -> A -> bool) x l : Permutation (insert_sorted lt x l) (x :: l).
Proof.
  induction l as [|y r IH]; simpl; auto.
  destruct (lt x y); auto.
  eapply perm_trans; [apply perm_skip; apply IH|apply perm_swap].
Qed.

Lemma fold_insert_perm {A} (lt : A -> A -> bool) l acc :
  Permutation (fold_left (fun a x => insert_sorted lt x a) l acc) (l ++ acc).
Proof.
  revert acc. induction l as [|x l IH]; intros acc; simpl; auto.
  eapply perm_trans; [apply IH|].
  eapply perm_trans; [apply Permutation_app_head; apply insert_sorted_perm|].
  apply Permutation_sym, Permutation_middle.
Qed.

Lemma sort_by_perm {A} (lt : A -> A -> bool) l : Permutation (sort_by lt l) l.
Proof. unfold sort_by. eapply perm_trans; [apply fold_insert_perm|]. rewrite app_nil_r. auto. Qed.

(** an order given by a boolean "less than" that is irreflexive, transitive
    in the mixed form needed for insertion, and total (antisymmetric "not less") *)
Section Order.
Context {A : Type}.
Variable lt : A -> A -> bool.
Definition le_of (a b : A) : Prop := lt b a = false.
Hypothesis lt_irrefl : forall a, lt a a = false.
Hypothesis lt_le_trans : forall x y z, lt x y = true -> lt z y = false -> lt z x = false.
Hypothesis le_antisym : forall a b, lt a b = false -> lt b a = false -> a = b.

Lemma insert_sorted_sorted x l :
  StronglySorted le_of l -> StronglySorted le_of (insert_sorted lt x l).
Proof.
  induction l as [|y r IH]; intros S; simpl.
  - constructor; auto.
  - inversion S as [|? ? Sr Fr]; subst.
    destruct (lt x y) eqn:E.
    + constructor; auto. constructor.
      * unfold le_of. eapply lt_le_trans; eauto.
      * eapply Forall_impl; [|apply Fr]. intros z Hz. unfold le_of in *. eapply lt_le_trans; eauto.
    + constructor; auto.
      eapply Permutation_Forall; [apply Permutation_sym, insert_sorted_perm|].
      constructor; auto.
Qed.

Lemma fold_insert_sorted l acc :
  StronglySorted le_of acc -> StronglySorted le_of (fold_left (fun a x => insert_sorted lt x a) l acc).
Proof. revert acc. induction l; intros; simpl; auto. apply IHl. apply insert_sorted_sorted; auto. Qed.

Lemma sort_by_sorted l : StronglySorted le_of (sort_by lt l).
Proof. unfold sort_by. apply fold_insert_sorted. constructor. Qed.

Lemma sorted_perm_unique l1 : forall l2,
  StronglySorted le_of l1 -> StronglySorted le_of l2 -> Permutation l1 l2 -> l1 = l2.
Proof.
  induction l1 as [|a r1 IH]; intros l2 S1 S2 P.
  - apply Permutation_nil in P. auto.
  - destruct l2 as [|b r2]; [apply Permutation_sym, Permutation_nil in P; discriminate|].
    inversion S1 as [|? ? S1r F1]; subst. inversion S2 as [|? ? S2r F2]; subst.
    assert (Hab : a = b).
    { assert (In a (b :: r2)) as Ia by (eapply Permutation_in; eauto; simpl; auto).
      assert (In b (a :: r1)) as Ib by (eapply Permutation_in; [apply Permutation_sym; eauto|simpl; auto]).
      rewrite Forall_forall in F1, F2.
      destruct Ia as [->|Ia]; auto. destruct Ib as [->|Ib]; auto.
      specialize (F2 _ Ia). specialize (F1 _ Ib). unfold le_of in *. apply le_antisym; auto. }
    subst. f_equal. apply IH; auto. eapply Permutation_cons_inv; eauto.
Qed.

Lemma sort_by_perm_eq l l' : Permutation l l' -> sort_by lt l = sort_by lt l'.
Proof.
  intros P. apply sorted_perm_unique; try apply sort_by_sorted.
  eapply perm_trans; [apply sort_by_perm|]. eapply perm_trans; [apply P|]. apply Permutation_sym, sort_by_perm.
Qed.
End Order.

Lemma Z_lt_irrefl : forall a, Z.ltb a a = false.
Proof. intros. apply Z.ltb_irrefl. Qed.
Lemma Z_lt_le_trans : forall x y z, Z.ltb x y = true -> Z.ltb z y = false -> Z.ltb z x = false.
Proof. intros x y z H1 H2. apply Z.ltb_lt in H1. apply Z.ltb_ge in H2. apply Z.ltb_ge. lia. Qed.
Lemma Z_le_antisym : forall a b, Z.ltb a b = false -> Z.ltb b a = false -> a = b.
Proof. intros a b H1 H2. apply Z.ltb_ge in H1. apply Z.ltb_ge in H2. lia. Qed.

Lemma sort_by_Z_perm_eq l l' : Permutation l l' -> sort_by Z.ltb l = sort_by Z.ltb l'.
Proof. apply sort_by_perm_eq; [apply Z_lt_irrefl|apply Z_lt_le_trans|apply Z_le_antisym]. Qed.

Lemma sort_by_Z_sorted l : StronglySorted Z.le (sort_by Z.ltb l).
Proof.
  pose proof (sort_by_sorted Z.ltb Z_lt_irrefl Z_lt_le_trans l) as S.
  induction S; constructor; auto.
  eapply Forall_impl; [|eauto]. intros b Hb. unfold le_of in Hb. apply Z.ltb_ge in Hb. auto.
Qed.

Lemma str_lt_irrefl : forall a, str_ltb a a = false.
Proof.
  induction a as [|x a IH]; simpl; auto.
  rewrite N.ltb_irrefl, IH. simpl. apply andb_false_r.
Qed.

Lemma str_ltb_cons x a y b :
  str_ltb (x :: a) (y :: b) = true <-> (x < y)%N \/ (x = y /\ str_ltb a b = true).
Proof.
  simpl. unfold ceq. rewrite orb_true_iff, andb_true_iff, N.ltb_lt, N.eqb_eq. tauto.
Qed.

Lemma str_ltb_cons_false x a y b :
  str_ltb (x :: a) (y :: b) = false <-> (y <= x)%N /\ (x = y -> str_ltb a b = false).
Proof.
  simpl. unfold ceq. rewrite orb_false_iff, andb_false_iff, N.ltb_ge, N.eqb_neq. split.
  - intros [H1 [H2|H2]]; split; auto; intros; congruence.
  - intros [H1 H2]; split; auto. destruct (N.eq_dec x y); auto.
Qed.

Lemma str_lt_le_trans : forall x y z, str_ltb x y = true -> str_ltb z y = false -> str_ltb z x = false.
Proof.
  induction x as [|xh xt IH]; intros y z H1 H2.
  - destruct z; reflexivity.
  - destruct y as [|yh yt]; [discriminate H1|].
    destruct z as [|zh zt]; [discriminate H2|].
    apply str_ltb_cons in H1. apply str_ltb_cons_false in H2. apply str_ltb_cons_false.
    destruct H2 as [H2 H3]. destruct H1 as [H1|[H1 H4]].
    + split; [lia|]. intros; lia.
    + subst yh. split; auto. intros ->. eapply IH; eauto.
Qed.

Lemma str_le_antisym : forall a b, str_ltb a b = false -> str_ltb b a = false -> a = b.
Proof.
  induction a as [|x a IH]; intros b H1 H2.
  - destruct b; auto. discriminate H1.
  - destruct b as [|y b]; [discriminate H2|].
    apply str_ltb_cons_false in H1. apply str_ltb_cons_false in H2.
    destruct H1 as [H1 H3], H2 as [H2 H4].
    assert (x = y) by lia. subst. f_equal. apply IH; auto.
Qed.

Lemma sort_by_str_perm_eq l l' : Permutation l l' -> sort_by str_ltb l = sort_by str_ltb l'.
Proof. apply sort_by_perm_eq; [apply str_lt_irrefl|apply str_lt_le_trans|apply str_le_antisym]. Qed.

(* ------------------------------------------------------------------ *)
(** * The generic refinement: uses = fold over the concatenated tokens *)

Lemma pre_use_idem c : pre_use (pre_use c) = pre_use c.
Proof. destruct c; simpl; auto. destruct size; simpl; auto. Qed.

Lemma pre_use_sort c : pre_use c = c -> pre_use (sort_cont c) = sort_cont c.
Proof. destruct c; simpl; auto. Qed.

Section Refine.
Variable stp : str -> cont -> res cont.
Variable o : copts.
Variable eqv : cont -> cont -> Prop.
Hypothesis eqv_refl : forall c, eqv c c.
Hypothesis eqv_trans : forall a b c, eqv a b -> eqv b c -> eqv a c.
Hypothesis H_step : forall t c c', eqv c c' -> res_rel eqv (stp t c) (stp t c').
Hypothesis H_norm_self : forall c, eqv (norm o c) c.
Hypothesis H_norm_eqv : forall c c', eqv c c' -> norm o c = norm o c'.
Hypothesis H_pre : forall t c c', pre_use c = c -> stp t c = Ok c' -> pre_use c' = c'.

Lemma pre_use_norm c : pre_use c = c -> pre_use (norm o c) = norm o c.
Proof. unfold norm. destruct (o_sort o); auto. apply pre_use_sort. Qed.

Lemma assign_tokens_fold toks : forall n c,
  assign_tokens stp o toks false n c = fold_tokens stp o toks n c.
Proof. induction toks as [|t r IH]; intros; simpl; auto. destruct (card_got (o_card o) n); simpl; auto.
  destruct (stp t c); simpl; auto. Qed.

Lemma fold_tokens_app t1 : forall t2 n c,
  fold_tokens stp o (t1 ++ t2) n c = do r <- fold_tokens stp o t1 n c; fold_tokens stp o t2 (fst r) (snd r).
Proof.
  induction t1 as [|t r IH]; intros; simpl; auto.
  destruct (card_got (o_card o) n); simpl; auto. destruct (stp t c); simpl; auto.
Qed.

Definition pair_rel (a b : Z * cont) : Prop := fst a = fst b /\ eqv (snd a) (snd b).

Lemma fold_tokens_eqv toks : forall n c c',
  eqv c c' -> res_rel pair_rel (fold_tokens stp o toks n c) (fold_tokens stp o toks n c').
Proof.
  induction toks as [|t r IH]; intros n c c' E; simpl.
  - split; auto.
  - destruct (card_got (o_card o) n); simpl; auto.
    pose proof (H_step t c c' E) as Hs.
    destruct (stp t c), (stp t c'); simpl in *; try contradiction; auto.
Qed.

Lemma fold_tokens_pre toks : forall n c n' c',
  pre_use c = c -> fold_tokens stp o toks n c = Ok (n', c') -> pre_use c' = c'.
Proof.
  induction toks as [|t r IH]; intros n c n' c' P H; simpl in H.
  - inversion H; subst; auto.
  - inv_bind H. inv_bind H. eapply IH; [|apply H]. eapply H_pre; eauto.
Qed.

(** one use, seen from a state whose clear flag is spent *)
Lemma use_value_fold st u :
  c_clearp st = false -> pre_use (c_val st) = c_val st ->
  (o_card o = CardNone \/ tokens (o_sep o) u <> []) ->
  use_value stp o st u =
  do r <- fold_tokens stp o (tokens (o_sep o) u) (c_cnt st) (c_val st);
  Ok {| c_val := norm o (snd r); c_clearp := false; c_cnt := fst r |}.
Proof.
  intros Hc Hp Hk. unfold use_value, assign_container. simpl. rewrite Hc, Hp.
  destruct (tokens (o_sep o) u) as [|t r] eqn:Et.
  - destruct Hk as [Hk|Hk]; [|congruence]. rewrite Hk. simpl. reflexivity.
  - simpl. destruct (card_got (o_card o) (c_cnt st)); simpl; auto.
    destruct (stp t (c_val st)); simpl; auto. rewrite assign_tokens_fold. reflexivity.
Qed.

Lemma run_tail uses : forall st c,
  uses <> [] -> c_clearp st = false -> pre_use (c_val st) = c_val st -> eqv (c_val st) c ->
  card_cut_ok o uses ->
  run_uses_gen stp o st uses =
  do r <- fold_tokens stp o (all_tokens o uses) (c_cnt st) c;
  Ok {| c_val := norm o (snd r); c_clearp := false; c_cnt := fst r |}.
Proof.
  induction uses as [|u rest IH]; intros st c Hne Hc Hp He Hk; [congruence|].
  assert (Hku : o_card o = CardNone \/ tokens (o_sep o) u <> []).
  { destruct Hk as [Hk|Hk]; auto. inversion Hk; auto. }
  assert (Hkr : card_cut_ok o rest).
  { destruct Hk as [Hk|Hk]; [left; auto|right; inversion Hk; auto]. }
  simpl. rewrite use_value_fold; auto.
  unfold all_tokens. simpl. rewrite fold_tokens_app.
  pose proof (fold_tokens_eqv (tokens (o_sep o) u) (c_cnt st) _ _ He) as Hr.
  destruct (fold_tokens stp o (tokens (o_sep o) u) (c_cnt st) (c_val st)) as [[n1 c1]| |] eqn:E1;
    destruct (fold_tokens stp o (tokens (o_sep o) u) (c_cnt st) c) as [[n1' c1']| |] eqn:E2;
    simpl in Hr; try contradiction; try (subst; reflexivity).
  destruct Hr as [Hn Hv]. simpl in Hn, Hv. subst n1'. simpl.
  destruct rest as [|u2 rest'].
  - simpl. rewrite (H_norm_eqv _ _ Hv). reflexivity.
  - change (concat (map (tokens (o_sep o)) (u2 :: rest'))) with (all_tokens o (u2 :: rest')).
    apply (IH {| c_val := norm o c1; c_clearp := false; c_cnt := n1 |} c1'); auto; try discriminate.
    + simpl. apply pre_use_norm. eapply fold_tokens_pre; eauto.
    + simpl. eapply eqv_trans; [apply H_norm_self|]. auto.
Qed.

Theorem run_uses_fold st uses :
  card_cut_ok o uses ->
  run_uses_gen stp o st uses = fold_spec stp o st (negb (is_nil uses)) (all_tokens o uses).
Proof.
  intros Hk. destruct uses as [|u rest]; [reflexivity|].
  unfold fold_spec. simpl negb. cbv iota.
  set (c0 := pre_use (if c_clearp st then clear_cont (c_val st) else c_val st)).
  set (st0 := {| c_val := c0; c_clearp := false; c_cnt := c_cnt st |}).
  assert (Hc0 : pre_use c0 = c0) by (unfold c0; apply pre_use_idem).
  assert (Hsame : run_uses_gen stp o st (u :: rest) = run_uses_gen stp o st0 (u :: rest)).
  { simpl. unfold use_value, assign_container. simpl. fold c0. rewrite Hc0. reflexivity. }
  rewrite Hsame. apply (run_tail (u :: rest) st0 c0); auto; try discriminate.
Qed.
End Refine.

(* ------------------------------------------------------------------ *)
(** * Facts about one element step *)

Ltac step_inv_all :=
  repeat match goal with
  | H : bind ?r _ = Ok _ |- _ => inv_bind H
  | H : (if ?b then _ else _) = Ok _ |- _ => let E := fresh "E" in destruct b eqn:E
  | H : (let '(_, _) := ?p in _) = Ok _ |- _ => let E := fresh "E" in destruct p eqn:E
  | H : match ?n with _ => _ end = Ok _ |- _ => let E := fresh "E" in destruct n eqn:E
  | H : Err _ = Ok _ |- _ => discriminate H
  | H : Fault _ = Ok _ |- _ => discriminate H
  | H : Ok _ = Ok _ |- _ => inversion H; subst; clear H
  end.
Ltac step_inv H := step_inv_all.

Ltac step_unfold H :=
  unfold step, step_pinned, step_gen in H;
  unfold step_arr, step_strs, step_tuple, step_bits, step_vb, step_map, step_kv, step_ints in H.

(** every kind: an element that is stored passed all checks *)
Lemma step_gen_checks p k o t c c' : step_gen p k o t c = Ok c' -> run_checks (o_checks o) t = Ok tt.
Proof.
  intros H. destruct k, c; step_unfold H; simpl in H; try discriminate H;
    step_inv H; try (match goal with u : unit |- _ => destruct u end); auto.
Qed.

Lemma vb_size_pre size l : pre_use (CVBool size l) = CVBool size l -> size <> 0%N.
Proof. destruct size; simpl; intros H; [discriminate H|discriminate]. Qed.

Lemma pre_use_vb size l : size <> 0%N -> pre_use (CVBool size l) = CVBool size l.
Proof. destruct size; simpl; congruence. Qed.

Lemma step_gen_pre p k o t c c' : pre_use c = c -> step_gen p k o t c = Ok c' -> pre_use c' = c'.
Proof.
  intros P H. destruct k, c; step_unfold H; simpl in H; try discriminate H;
    step_inv H; try reflexivity.
  apply vb_size_pre in P.
  destruct p; unfold vb_store, vb_store_pinned.
  - assert (Hs : (if (size <=? a0)%N then (a0 + a0 / 2)%N else size) <> 0%N).
    { destruct (N.leb_spec size a0); auto. pose proof (N.le_add_r a0 (a0 / 2)). lia. }
    destruct (N.ltb a0 _); apply pre_use_vb; auto.
  - apply pre_use_vb. destruct (N.leb_spec size a0); auto. lia.
Qed.

(* ------------------------------------------------------------------ *)
(** * Content up to the order of the elements (what sorting forgets) *)

Definition cperm (c c' : cont) : Prop :=
  match c, c' with
  | CInts l, CInts l' => Permutation l l'
  | CArr l i, CArr l' i' => i = i' /\ Permutation (firstn i l) (firstn i l') /\ skipn i l = skipn i l'
  | CStrs l, CStrs l' => Permutation l l'
  | _, _ => c = c'
  end.

Lemma cperm_refl c : cperm c c.
Proof. destruct c; simpl; auto. Qed.

Lemma cperm_trans a b c : cperm a b -> cperm b c -> cperm a c.
Proof.
  destruct a, b; simpl; intros H1; try discriminate H1; try (inversion H1; subst; auto; fail);
    destruct c; simpl; intros H2; try discriminate H2; try (inversion H2; subst; auto; fail).
  - eapply perm_trans; eauto.
  - destruct H1 as [-> [P1 S1]], H2 as [-> [P2 S2]]. repeat split; [eapply perm_trans; eauto|congruence].
  - eapply perm_trans; eauto.
Qed.

Lemma str_in_In v l : str_in v l = true <-> exists x, In x l /\ str_eqb x v = true.
Proof.
  induction l as [|y r IH]; simpl.
  - split; [discriminate|intros [x [[] _]]].
  - rewrite orb_true_iff, IH. split.
    + intros [H|[x [Hx He]]]; [exists y; auto|exists x; auto].
    + intros [x [[->|Hx] He]]; [left; auto|right; exists x; auto].
Qed.

Lemma str_in_perm v l l' : Permutation l l' -> str_in v l = str_in v l'.
Proof.
  intros P. destruct (str_in v l) eqn:E1, (str_in v l') eqn:E2; auto.
  - apply str_in_In in E1. destruct E1 as [x [Hx He]]. eapply Permutation_in in Hx; eauto.
    assert (str_in v l' = true) by (apply str_in_In; eauto). congruence.
  - apply str_in_In in E2. destruct E2 as [x [Hx He]].
    eapply Permutation_in in Hx; [|apply Permutation_sym; eauto].
    assert (str_in v l = true) by (apply str_in_In; eauto). congruence.
Qed.

Lemma place_perm k v l l' : sortable k = true -> Permutation l l' -> Permutation (place k v l) (place k v l').
Proof.
  intros S P. destruct k; simpl in S; try discriminate S; simpl; auto using Permutation_app_tail.
Qed.

Lemma firstn_S_upd l i v : firstn (S i) (arr_set l i v) = firstn i l ++ [v].
Proof.
  unfold arr_set. destruct (Nat.le_gt_cases i (length l)) as [H|H].
  - replace (S i) with (length (firstn i l) + 1) at 1 by (rewrite firstn_length; lia).
    rewrite firstn_app_2. simpl. reflexivity.
  - rewrite (firstn_all2 l) by lia. rewrite (skipn_all2 l) by lia.
    rewrite firstn_all2; auto. rewrite app_length. simpl. lia.
Qed.

Lemma skipn_S_upd l i v : skipn (S i) (arr_set l i v) = skipn (S i) l.
Proof.
  unfold arr_set. destruct (Nat.le_gt_cases i (length l)) as [H|H].
  - replace (S i) with (length (firstn i l) + 1) at 1 by (rewrite firstn_length; lia).
    rewrite skipn_app. rewrite skipn_all2 by (rewrite firstn_length; lia).
    replace (length (firstn i l) + 1 - length (firstn i l)) with 1 by lia. reflexivity.
  - rewrite (firstn_all2 l) by lia. rewrite (skipn_all2 l) by lia.
    rewrite skipn_all2; auto. rewrite app_length. simpl. lia.
Qed.

Lemma skipn_S_eq {A} (l l' : list A) i : skipn i l = skipn i l' -> skipn (S i) l = skipn (S i) l'.
Proof.
  intros H. change (S i) with (1 + i). rewrite <- !skipn_skipn'. rewrite H. reflexivity.
Qed.

Lemma step_arr_cperm n o t l l0 idx :
  Permutation (firstn idx l) (firstn idx l0) -> skipn idx l = skipn idx l0 ->
  res_rel cperm (step_arr arr_contains n o t l idx) (step_arr arr_contains n o t l0 idx).
Proof.
  intros P Sk. unfold step_arr.
  destruct (Nat.eqb idx n); simpl; auto.
  destruct (run_checks (o_checks o) t); simpl; auto.
  destruct (lex_int (fmt_pos o idx (apply_fmts (o_fmts o) t))) as [v| |]; simpl; auto.
  unfold arr_contains. rewrite (z_in_perm v _ _ P).
  destruct (o_uniq o && z_in v (firstn idx l0)); cbn -[firstn skipn].
  - destruct (o_dup_err o); simpl; auto.
  - repeat split.
    + rewrite !firstn_S_upd. apply Permutation_app_tail; auto.
    + rewrite !skipn_S_upd. apply skipn_S_eq; auto.
Qed.

Lemma step_gen_cperm k o t c c' :
  sortable k = true -> cperm c c' -> res_rel cperm (step k o t c) (step k o t c').
Proof.
  intros S E.
  destruct c, c'; simpl in E; try discriminate E;
    try (inversion E; subst; apply res_rel_refl; apply cperm_refl).
  - (* CInts *)
    assert (H : res_rel cperm (do l1 <- step_ints k o t l; Ok (CInts l1)) (do l1 <- step_ints k o t l0; Ok (CInts l1))).
    { unfold step_ints. destruct (run_checks (o_checks o) t); simpl; auto.
      rewrite !lex_int_pos_ints.
      destruct (lex_int (apply_fmts (o_fmts o) t)); simpl; auto.
      rewrite (z_in_perm a0 l l0 E).
      destruct (o_uniq o && z_in a0 l0); simpl; [destruct (o_dup_err o); simpl; auto|].
      apply place_perm; auto. }
    destruct k; simpl in S; try discriminate S; exact H.
  - (* CArr *)
    destruct E as [<- [P Sk]].
    destruct k; simpl in S; try discriminate S;
      try (unfold step, step_gen; simpl; auto; fail);
      unfold step, step_gen; apply step_arr_cperm; auto.
  - (* CStrs *)
    destruct k; simpl in S; try discriminate S;
      try (unfold step, step_gen; simpl; auto; fail).
    unfold step, step_gen, step_strs.
    destruct (run_checks (o_checks o) t); simpl; auto.
    rewrite (Permutation_length E). rewrite (str_in_perm _ l l0 E).
    destruct (o_uniq o && str_in (fmt_pos o (length l0) (apply_fmts (o_fmts o) t)) l0); simpl;
      [destruct (o_dup_err o); simpl; auto|].
    apply Permutation_app_tail; auto.
Qed.

Lemma sort_cont_cperm c : cperm (sort_cont c) c.
Proof.
  destruct c; simpl; auto; try apply sort_by_perm.
  repeat split.
  - destruct (Nat.le_gt_cases idx (length l)) as [H|H].
    + assert (Hl : length (sort_by Z.ltb (firstn idx l)) = idx).
      { rewrite (Permutation_length (sort_by_perm Z.ltb (firstn idx l))), firstn_length. lia. }
      rewrite firstn_app, Hl, Nat.sub_diag. simpl firstn at 2. rewrite app_nil_r.
      rewrite firstn_all2 by lia. apply sort_by_perm.
    + rewrite (skipn_all2 l) by lia. rewrite app_nil_r.
      rewrite (firstn_all2 l) by lia. rewrite firstn_all2.
      * apply sort_by_perm.
      * rewrite (Permutation_length (sort_by_perm Z.ltb l)). lia.
  - destruct (Nat.le_gt_cases idx (length l)) as [H|H].
    + assert (Hl : length (sort_by Z.ltb (firstn idx l)) = idx).
      { rewrite (Permutation_length (sort_by_perm Z.ltb (firstn idx l))), firstn_length. lia. }
      rewrite skipn_app, Hl, Nat.sub_diag. rewrite skipn_all2 by lia. reflexivity.
    + rewrite (skipn_all2 l) by lia. rewrite app_nil_r. apply skipn_all2.
      rewrite (Permutation_length (sort_by_perm Z.ltb _)), firstn_length. lia.
Qed.

Lemma sort_cont_cperm_eq c c' : cperm c c' -> sort_cont c = sort_cont c'.
Proof.
  destruct c, c'; simpl; intros E; try discriminate E; try (inversion E; subst; reflexivity).
  - f_equal. apply sort_by_Z_perm_eq; auto.
  - destruct E as [<- [P S]]. f_equal. rewrite S. f_equal. apply sort_by_Z_perm_eq; auto.
  - f_equal. apply sort_by_str_perm_eq; auto.
Qed.

Lemma setup_ok_sort k o : setup_ok k o = true -> o_sort o = true -> sortable k = true.
Proof.
  unfold setup_ok. intros H S. rewrite S in H. rewrite !andb_true_iff in H.
  destruct H as [[[[H _] _] _] _]. destruct (sortable k); auto.
Qed.

(* ------------------------------------------------------------------ *)
(** * The main theorems *)

Theorem cont_fold k o st uses :
  setup_ok k o = true -> card_cut_ok o uses ->
  run_uses k o st uses = fold_spec (step k o) o st (negb (is_nil uses)) (all_tokens o uses).
Proof.
  intros Hs Hk. unfold run_uses. destruct (o_sort o) eqn:So.
  - apply (run_uses_fold (step k o) o cperm); auto.
    + apply cperm_refl.
    + apply cperm_trans.
    + intros. apply step_gen_cperm; auto. eapply setup_ok_sort; eauto.
    + intros. unfold norm. rewrite So. apply sort_cont_cperm.
    + intros. unfold norm. rewrite So. apply sort_cont_cperm_eq; auto.
    + intros. eapply step_gen_pre; eauto.
  - apply (run_uses_fold (step k o) o eq); auto.
    + intros; congruence.
    + intros; subst. apply res_rel_refl; auto.
    + intros. unfold norm. rewrite So. reflexivity.
    + intros; subst; reflexivity.
    + intros. eapply step_gen_pre; eauto.
Qed.

Theorem cont_cut_independent k o st uses1 uses2 :
  setup_ok k o = true -> card_cut_ok o uses1 -> card_cut_ok o uses2 ->
  all_tokens o uses1 = all_tokens o uses2 -> is_nil uses1 = is_nil uses2 ->
  run_uses k o st uses1 = run_uses k o st uses2.
Proof. intros Hs H1 H2 Ht Hn. rewrite !cont_fold; auto. rewrite Ht, Hn. reflexivity. Qed.

(* ------------------------------------------------------------------ *)
(** * Free values *)

Definition use_text (u : use) : str := match u with UKey v | UFree v => v | UFlag => [] end.
Definition is_key (u : use) : bool := match u with UKey _ => true | _ => false end.
Definition not_flag (u : use) : bool := match u with UFlag => false | _ => true end.

(** in multi-value mode a free value is one more use of the argument *)
Theorem cont_free_values stp o st fc us :
  (o_multi o = true /\ forallb not_flag us = true) \/ forallb is_key us = true ->
  run_events stp o st true fc us = do st' <- run_uses_gen stp o st (map use_text us); Ok (st', fc).
Proof.
  revert st. induction us as [|u r IH]; intros st H; [reflexivity|].
  assert (Hr : (o_multi o = true /\ forallb not_flag r = true) \/ forallb is_key r = true).
  { destruct H as [[H1 H2]|H]; simpl in *; [left|right]; rewrite andb_true_iff in *; tauto. }
  destruct u as [v|v|]; cbn [run_events map use_text run_uses_gen].
  - destruct (use_value stp o st v); simpl; auto.
  - destruct H as [[H _]|H]; [|simpl in H; discriminate H]. rewrite H.
    destruct (use_value stp o st v); simpl; auto.
  - destruct H as [[_ H]|H]; simpl in H; discriminate H.
Qed.

(** without multi-value mode the first free value ends the evaluation with an error *)
Theorem cont_free_value_refused stp o st hl fc pre v post :
  o_multi o = false -> forall r, run_events stp o st hl fc (pre ++ UFree v :: post) <> Ok r.
Proof.
  intros Hm. revert st hl fc. induction pre as [|u r IH]; intros st hl fc res; cbn [app run_events].
  - rewrite Hm, andb_false_r. discriminate.
  - destruct u as [w|w|]; cbn [run_events].
    + destruct (use_value stp o st w); simpl; try discriminate. apply IH.
    + rewrite Hm, andb_false_r. discriminate.
    + destruct (card_got flag_card fc); cbn [bind]; try discriminate. apply IH.
Qed.

(** a flag ends the value list: a free value that follows a use of the flag
    does not reach the container - without a positional argument the command
    line is refused, in multi-value mode too *)
Theorem cont_flag_ends_value_list stp o st hl fc pre v post :
  forall r, run_events stp o st hl fc (pre ++ UFlag :: UFree v :: post) <> Ok r.
Proof.
  revert st hl fc. induction pre as [|u r IH]; intros st hl fc res; cbn [app run_events].
  - destruct (card_got flag_card fc); cbn [bind andb]; discriminate.
  - destruct u as [w|w|]; cbn [run_events].
    + destruct (use_value stp o st w); simpl; try discriminate. apply IH.
    + destruct (hl && o_multi o); [|discriminate].
      destruct (use_value stp o st w); simpl; try discriminate. apply IH.
    + destruct (card_got flag_card fc); cbn [bind]; try discriminate. apply IH.
Qed.

(** whatever command line is accepted: the container is the result of its own
    uses (keyed and free values in order) - the flag changes acceptance only *)
Theorem cont_events_uses stp o us : forall st hl fc st1 fc1,
  run_events stp o st hl fc us = Ok (st1, fc1) ->
  run_uses_gen stp o st (map use_text (filter not_flag us)) = Ok st1.
Proof.
  induction us as [|u r IH]; intros st hl fc st1 fc1 H.
  - simpl in *. congruence.
  - destruct u as [w|w|]; cbn [run_events filter not_flag map use_text run_uses_gen] in *.
    + destruct (use_value stp o st w); cbn [bind] in *; try discriminate. eapply IH; eauto.
    + destruct (hl && o_multi o); [|discriminate].
      destruct (use_value stp o st w); cbn [bind] in *; try discriminate. eapply IH; eauto.
    + destruct (card_got flag_card fc); cbn [bind] in *; try discriminate. eapply IH; eauto.
Qed.

(* ------------------------------------------------------------------ *)
(** * Clear before assign: exactly once *)

Definition no_clear (o : copts) : copts :=
  {| o_sep := o_sep o; o_clear := false; o_sort := o_sort o; o_uniq := o_uniq o; o_dup_err := o_dup_err o;
     o_multi := o_multi o; o_checks := o_checks o; o_ftab := o_ftab o; o_card := o_card o |}.

Lemma assign_tokens_ext stp o o' toks : o_card o = o_card o' ->
  forall first n c, assign_tokens stp o toks first n c = assign_tokens stp o' toks first n c.
Proof.
  intros Hc. induction toks as [|t r IH]; intros; simpl; auto. rewrite Hc.
  destruct (if first then Ok n else card_got (o_card o') n); simpl; auto.
  destruct (stp t c); simpl; auto.
Qed.

Lemma run_uses_gen_ext stp o o' :
  o_sep o = o_sep o' -> o_card o = o_card o' -> o_sort o = o_sort o' ->
  forall uses st, run_uses_gen stp o st uses = run_uses_gen stp o' st uses.
Proof.
  intros Hs Hc Ho. induction uses as [|u r IH]; intros; simpl; auto.
  unfold use_value, assign_container. rewrite Hs, Hc, Ho.
  destruct (card_got (o_card o') (c_cnt st)); simpl; auto.
  rewrite (assign_tokens_ext stp o o' _ Hc).
  destruct (assign_tokens stp o' (tokens (o_sep o') u) true a _); simpl; auto.
Qed.

(** with clear-before-assign the uses behave exactly like the uses of the same
    argument without that option on the emptied destination: the content from
    before is gone, what the first use stored is kept by all later uses *)
Theorem cont_clear_once k o before u rest :
  o_clear o = true ->
  run_uses k o (init_state o before) (u :: rest) =
  run_uses k (no_clear o) (init_state (no_clear o) (clear_cont before)) (u :: rest).
Proof.
  intros Hc. unfold run_uses.
  change (step k (no_clear o)) with (step k o).
  rewrite <- (run_uses_gen_ext (step k o) o (no_clear o)); auto.
  simpl. unfold use_value, assign_container, init_state. simpl. rewrite Hc. reflexivity.
Qed.

(* ------------------------------------------------------------------ *)
(** * Sorted *)

Definition sorted_cont (c : cont) : Prop :=
  match c with
  | CInts l => StronglySorted Z.le l
  | CArr l i => StronglySorted Z.le (firstn i l)
  | CStrs l => StronglySorted (le_of str_ltb) l
  | _ => True
  end.

Lemma firstn_sorted_part l idx :
  firstn idx (sort_by Z.ltb (firstn idx l) ++ skipn idx l) = sort_by Z.ltb (firstn idx l).
Proof.
  assert (Hl : length (sort_by Z.ltb (firstn idx l)) = length (firstn idx l))
    by apply (Permutation_length (sort_by_perm Z.ltb (firstn idx l))).
  destruct (Nat.le_gt_cases idx (length l)) as [H|H].
  - rewrite firstn_length in Hl. rewrite firstn_app, Hl.
    replace (idx - Nat.min idx (length l)) with 0 by lia. simpl firstn at 2. rewrite app_nil_r.
    apply firstn_all2. rewrite (Permutation_length (sort_by_perm Z.ltb (firstn idx l))), firstn_length. lia.
  - rewrite (skipn_all2 l) by lia. rewrite app_nil_r. apply firstn_all2.
    rewrite Hl, firstn_length. lia.
Qed.

Lemma sort_cont_sorted c : sorted_cont (sort_cont c).
Proof.
  destruct c; simpl; auto.
  - apply sort_by_Z_sorted.
  - rewrite firstn_sorted_part. apply sort_by_Z_sorted.
  - apply sort_by_sorted; [apply str_lt_irrefl|apply str_lt_le_trans].
Qed.

Lemma run_last stp o uses : forall st st',
  uses <> [] -> run_uses_gen stp o st uses = Ok st' -> exists c, c_val st' = norm o c.
Proof.
  induction uses as [|u r IH]; intros st st' Hne H; [congruence|].
  simpl in H. inv_bind H. destruct r as [|u2 r'].
  - simpl in H. inversion H; subst. unfold use_value, assign_container in E.
    step_inv_all. simpl. eexists. reflexivity.
  - eapply IH; eauto. discriminate.
Qed.

Theorem cont_sorted_gen stp o st uses st' :
  o_sort o = true -> uses <> [] -> run_uses_gen stp o st uses = Ok st' -> sorted_cont (c_val st').
Proof.
  intros Hs Hne H. destruct (run_last _ _ _ _ _ Hne H) as [c Hc].
  rewrite Hc. unfold norm. rewrite Hs. apply sort_cont_sorted.
Qed.

Theorem cont_sorted k o st uses st' :
  o_sort o = true -> uses <> [] -> run_uses k o st uses = Ok st' -> sorted_cont (c_val st').
Proof. apply cont_sorted_gen. Qed.

(* ------------------------------------------------------------------ *)
(** * Invariants and per-element facts through any list of uses *)

Section Inv.
Variable stp : str -> cont -> res cont.
Variable o : copts.
Variable I : cont -> Prop.
Variable P : str -> Prop.
Hypothesis H_step : forall t c c', I c -> stp t c = Ok c' -> I c' /\ P t.
Hypothesis H_sort : forall c, I c -> I (sort_cont c).
Hypothesis H_clear : forall c, I c -> I (clear_cont c).
Hypothesis H_pre : forall c, I c -> I (pre_use c).

Lemma assign_tokens_inv toks : forall first n c n' c',
  I c -> assign_tokens stp o toks first n c = Ok (n', c') -> I c' /\ Forall P toks.
Proof.
  induction toks as [|t r IH]; intros first n c n' c' Hi H; simpl in H.
  - inversion H; subst. auto.
  - inv_bind H. inv_bind H. destruct (H_step _ _ _ Hi E0) as [Hi' Hp].
    destruct (IH _ _ _ _ _ Hi' H) as [Hi2 Hf]. auto.
Qed.

Lemma use_value_inv st u st' :
  I (c_val st) -> use_value stp o st u = Ok st' -> I (c_val st') /\ Forall P (tokens (o_sep o) u).
Proof.
  intros Hi H. unfold use_value, assign_container in H. simpl in H.
  inv_bind H. inv_bind H. inversion H; subst; clear H. destruct a0 as [n' c']. simpl.
  apply assign_tokens_inv in E0.
  - destruct E0 as [Hi' Hf]. split; auto. destruct (o_sort o); auto.
  - apply H_pre. destruct (c_clearp st); auto.
Qed.

Lemma run_uses_inv uses : forall st st',
  I (c_val st) -> run_uses_gen stp o st uses = Ok st' -> I (c_val st') /\ Forall P (all_tokens o uses).
Proof.
  induction uses as [|u r IH]; intros st st' Hi H; simpl in H.
  - inversion H; subst. split; auto. constructor.
  - inv_bind H. destruct (use_value_inv _ _ _ Hi E) as [Hi' Hf].
    destruct (IH _ _ Hi' H) as [Hi2 Hf2]. split; auto.
    unfold all_tokens. simpl. apply Forall_app. auto.
Qed.
End Inv.

(** every element that reaches any destination passed every check - for every
    kind, option set, list of uses, fixed and pinned element step *)
Theorem cont_checks_every_element p k o st uses st' :
  run_uses_gen (step_gen p k o) o st uses = Ok st' ->
  Forall (fun t => run_checks (o_checks o) t = Ok tt) (all_tokens o uses).
Proof.
  intros H.
  apply (run_uses_inv (step_gen p k o) o (fun _ => True) (fun t => run_checks (o_checks o) t = Ok tt)) in H; auto.
  - tauto.
  - intros t c c' _ Hs. split; auto. eapply step_gen_checks; eauto.
Qed.

Corollary cont_bad_element_refused p k o st uses t :
  In t (all_tokens o uses) -> run_checks (o_checks o) t <> Ok tt ->
  forall st', run_uses_gen (step_gen p k o) o st uses <> Ok st'.
Proof.
  intros Hin Hbad st' H. apply cont_checks_every_element in H.
  rewrite Forall_forall in H. auto.
Qed.

(* ------------------------------------------------------------------ *)
(** * Fixed-size destinations refuse what they cannot hold *)

Definition fill (c : cont) : nat :=
  match c with CArr _ i => i | CTuple _ _ _ n => n | _ => 0 end.

Lemma fill_sort c : fill (sort_cont c) = fill c. Proof. destruct c; auto. Qed.
Lemma fill_clear c : fill (clear_cont c) = fill c. Proof. destruct c; auto. Qed.
Lemma fill_pre c : fill (pre_use c) = fill c. Proof. destruct c; auto. destruct size; auto. Qed.

Section Count.
Variable stp : str -> cont -> res cont.
Variable o : copts.
Variable I : cont -> Prop.
Hypothesis H_step : forall t c c', I c -> stp t c = Ok c' -> I c' /\ fill c' = S (fill c).
Hypothesis H_sort : forall c, I c -> I (sort_cont c).
Hypothesis H_clear : forall c, I c -> I (clear_cont c).
Hypothesis H_pre : forall c, I c -> I (pre_use c).

Lemma assign_tokens_count toks : forall first n c n' c',
  I c -> assign_tokens stp o toks first n c = Ok (n', c') -> I c' /\ fill c' = fill c + length toks.
Proof.
  induction toks as [|t r IH]; intros first n c n' c' Hi H; simpl in H.
  - inversion H; subst. split; auto.
  - inv_bind H. inv_bind H. destruct (H_step _ _ _ Hi E0) as [Hi' Hp].
    destruct (IH _ _ _ _ _ Hi' H) as [Hi2 Hf]. split; auto. simpl. lia.
Qed.

Lemma run_uses_count uses : forall st st',
  I (c_val st) -> run_uses_gen stp o st uses = Ok st' ->
  I (c_val st') /\ fill (c_val st') = fill (c_val st) + length (all_tokens o uses).
Proof.
  induction uses as [|u r IH]; intros st st' Hi H; simpl in H.
  - inversion H; subst. split; auto.
  - inv_bind H. unfold use_value, assign_container in E. simpl in E.
    inv_bind E. inv_bind E. inversion E; subst; clear E. destruct a1 as [n' c'].
    apply assign_tokens_count in E1.
    + destruct E1 as [Hi' Hf].
      assert (Hi2 : I (if o_sort o then sort_cont c' else c')) by (destruct (o_sort o); auto).
      eapply IH in H; [|exact Hi2]. destruct H as [Hi3 Hf3]. split; auto.
      simpl in Hf3. rewrite Hf3. unfold all_tokens. simpl. rewrite app_length.
      assert (fill (if o_sort o then sort_cont c' else c') = fill c') by (destruct (o_sort o); auto using fill_sort).
      simpl in Hf. rewrite fill_pre in Hf.
      assert (fill (if c_clearp st then clear_cont (c_val st) else c_val st) = fill (c_val st))
        by (destruct (c_clearp st); auto using fill_clear).
      lia.
    + apply H_pre. destruct (c_clearp st); auto.
Qed.
End Count.

Definition arr_kind (k : kind) (n : nat) : Prop := k = KArr n \/ k = KStdArr n.
Definition arr_inv (n : nat) (c : cont) : Prop := exists l i, c = CArr l i /\ i <= n.

Lemma arr_inv_sort n c : arr_inv n c -> arr_inv n (sort_cont c).
Proof. intros [l [i [-> H]]]. simpl. eexists _, _. split; eauto. Qed.
Lemma arr_inv_clear n c : arr_inv n c -> arr_inv n (clear_cont c).
Proof. intros [l [i [-> H]]]. simpl. eexists _, _. split; eauto. Qed.
Lemma arr_inv_pre n c : arr_inv n c -> arr_inv n (pre_use c).
Proof. intros [l [i [-> H]]]. simpl. eexists _, _. split; eauto. Qed.

Lemma step_arr_inv p k n o t c c' :
  arr_kind k n -> arr_inv n c -> step_gen p k o t c = Ok c' ->
  arr_inv n c' /\ (o_uniq o = false -> fill c' = S (fill c)).
Proof.
  intros Hk [l [i [-> Hi]]] H.
  assert (H' : step_arr (if p then arr_contains_pinned else arr_contains) n o t l i = Ok c')
    by (destruct Hk; subst k; exact H).
  clear H. unfold step_arr in H'.
  destruct (Nat.eqb_spec i n); [discriminate H'|].
  step_inv_all.
  - split; [eexists _, _; split; eauto|]. intros Hu. rewrite Hu in E1. discriminate E1.
  - split; [eexists _, _; split; eauto; lia|]. reflexivity.
Qed.

(** T[N] / std::array<T,N>: never more than N elements; without unique-data
    every element takes one slot, so more than the free slots are refused *)
Theorem cont_fixed_refuses_overflow_array p k n o st uses st' l i :
  arr_kind k n -> c_val st = CArr l i -> i <= n ->
  run_uses_gen (step_gen p k o) o st uses = Ok st' ->
  exists l' i', c_val st' = CArr l' i' /\ i' <= n /\
    (o_uniq o = false -> i' = i + length (all_tokens o uses)).
Proof.
  intros Hk Hv Hi H.
  assert (Hinv : arr_inv n (c_val st)) by (rewrite Hv; eexists _, _; eauto).
  pose proof H as H2.
  apply (run_uses_inv (step_gen p k o) o (arr_inv n) (fun _ => True)) in H;
    auto using arr_inv_sort, arr_inv_clear, arr_inv_pre.
  - destruct H as [[l' [i' [Hc Hle]]] _]. exists l', i'. repeat split; auto.
    intros Hu.
    apply (run_uses_count (step_gen p k o) o (arr_inv n)) in H2;
      auto using arr_inv_sort, arr_inv_clear, arr_inv_pre.
    + destruct H2 as [_ Hf]. rewrite Hc, Hv in Hf. simpl in Hf. auto.
    + intros t c c' Hc' Hs. destruct (step_arr_inv _ _ _ _ _ _ _ Hk Hc' Hs). auto.
  - intros t c c' Hc' Hs. destruct (step_arr_inv _ _ _ _ _ _ _ Hk Hc' Hs). auto.
Qed.

Definition tuple_inv (c : cont) : Prop := exists a s b n, c = CTuple a s b n /\ n <= 3.

Lemma step_tuple_inv p o t c c' :
  tuple_inv c -> step_gen p KTuple o t c = Ok c' -> tuple_inv c' /\ fill c' = S (fill c).
Proof.
  intros [a [s [b [n [-> Hn]]]]] H. simpl in H. unfold step_tuple in H.
  step_inv_all; (split; [eexists _, _, _, _; split; eauto; lia|reflexivity]).
Qed.

(** std::tuple: every element fills the next position; a fourth one is refused *)
Theorem cont_fixed_refuses_overflow_tuple p o st uses st' a s b n :
  c_val st = CTuple a s b n -> n <= 3 ->
  run_uses_gen (step_gen p KTuple o) o st uses = Ok st' ->
  exists a' s' b' n', c_val st' = CTuple a' s' b' n' /\ n' <= 3 /\ n' = n + length (all_tokens o uses).
Proof.
  intros Hv Hn H.
  apply (run_uses_count (step_gen p KTuple o) o tuple_inv) in H.
  - destruct H as [[a' [s' [b' [n' [Hc Hle]]]]] Hf]. exists a', s', b', n'. repeat split; auto.
    rewrite Hc, Hv in Hf. simpl in Hf. auto.
  - intros. eapply step_tuple_inv; eauto.
  - intros c [a0 [s0 [b0 [n0 [-> H0]]]]]. simpl. eexists _, _, _, _. eauto.
  - intros c [a0 [s0 [b0 [n0 [-> H0]]]]]. simpl. eexists _, _, _, _. eauto.
  - intros c [a0 [s0 [b0 [n0 [-> H0]]]]]. simpl. eexists _, _, _, _. eauto.
  - rewrite Hv. eexists _, _, _, _. eauto.
Qed.

Definition bits_inv (n : N) (c : cont) : Prop := exists l, c = CBits l /\ Forall (fun p => (p < n)%N) l.

Lemma nset_add_In p l q : In q (nset_add p l) <-> q = p \/ In q l.
Proof.
  induction l as [|x r IH]; simpl; [intuition (subst; auto)|].
  destruct (N.ltb p x); simpl; [intuition (subst; auto)|].
  destruct (N.eqb_spec p x); simpl.
  - subst. intuition (subst; auto).
  - rewrite IH. intuition (subst; auto).
Qed.

(** std::bitset<N>: a position outside the bit set is refused *)
Theorem cont_fixed_refuses_overflow_bitset p n o st uses st' l :
  c_val st = CBits l -> Forall (fun q => (q < n)%N) l ->
  run_uses_gen (step_gen p (KBitset n) o) o st uses = Ok st' ->
  (exists l', c_val st' = CBits l' /\ Forall (fun q => (q < n)%N) l') /\
  Forall (fun t => exists q, lex_size (apply_fmts (o_fmts o) t) = Ok q /\ (q < n)%N) (all_tokens o uses).
Proof.
  intros Hv Hl H.
  apply (run_uses_inv (step_gen p (KBitset n) o) o (bits_inv n)
           (fun t => exists q, lex_size (apply_fmts (o_fmts o) t) = Ok q /\ (q < n)%N)) in H; auto.
  - intros t c c' [l0 [-> Hf]] Hs. simpl in Hs. unfold step_bits in Hs. step_inv_all.
    apply N.leb_gt in E1. split; [|eauto].
    eexists. split; eauto. rewrite Forall_forall in *. intros q Hq.
    apply nset_add_In in Hq. destruct Hq as [->|Hq]; auto.
  - intros c [l0 [-> Hf]]. simpl. eexists; eauto.
  - intros c [l0 [-> Hf]]. simpl. eexists; split; eauto.
  - intros c [l0 [-> Hf]]. simpl. eexists; eauto.
  - rewrite Hv. eexists; eauto.
Qed.

(* ------------------------------------------------------------------ *)
(** * History invariants: a predicate on (elements seen so far, content) *)

Section Hist.
Variable stp : str -> cont -> res cont.
Variable o : copts.
Variable I : list str -> cont -> Prop.
Hypothesis H_step : forall ts t c c', I ts c -> stp t c = Ok c' -> I (ts ++ [t]) c'.
Hypothesis H_norm : forall ts c, I ts c -> I ts (norm o c).
Hypothesis H_pre : forall ts c, I ts c -> I ts (pre_use c).

Lemma assign_tokens_hist toks : forall ts first n c n' c',
  I ts c -> assign_tokens stp o toks first n c = Ok (n', c') -> I (ts ++ toks) c'.
Proof.
  induction toks as [|t r IH]; intros ts first n c n' c' Hi H; simpl in H.
  - inversion H; subst. rewrite app_nil_r. auto.
  - inv_bind H. inv_bind H. apply (H_step _ _ _ _ Hi) in E0.
    apply (IH _ _ _ _ _ _ E0) in H. rewrite <- app_assoc in H. exact H.
Qed.

Lemma run_tail_hist uses : forall ts st st',
  c_clearp st = false -> I ts (c_val st) -> run_uses_gen stp o st uses = Ok st' ->
  I (ts ++ all_tokens o uses) (c_val st').
Proof.
  induction uses as [|u r IH]; intros ts st st' Hc Hi H; simpl in H.
  - inversion H; subst. unfold all_tokens. simpl. rewrite app_nil_r. auto.
  - inv_bind H. unfold use_value, assign_container in E. simpl in E. rewrite Hc in E.
    inv_bind E. inv_bind E. inversion E; subst; clear E. destruct a1 as [n' c'].
    apply (assign_tokens_hist _ ts) in E1; [|apply H_pre; auto].
    apply (IH (ts ++ tokens (o_sep o) u)) in H; simpl; auto.
    + unfold all_tokens in *. simpl. rewrite app_assoc. exact H.
    + apply H_norm. exact E1.
Qed.

Theorem run_uses_hist u rest st st' :
  I [] (pre_use (if c_clearp st then clear_cont (c_val st) else c_val st)) ->
  run_uses_gen stp o st (u :: rest) = Ok st' -> I (all_tokens o (u :: rest)) (c_val st').
Proof.
  intros Hi H. simpl in H. inv_bind H. unfold use_value, assign_container in E. simpl in E.
  inv_bind E. inv_bind E. inversion E; subst; clear E. destruct a1 as [n' c'].
  apply (assign_tokens_hist _ []) in E1; auto. simpl in E1.
  apply (run_tail_hist rest (tokens (o_sep o) u)) in H; simpl; auto.
  apply H_norm. exact E1.
Qed.
End Hist.

(* ------------------------------------------------------------------ *)
(** * Unique data, and the content of the int containers *)

Definition conv_int (o : copts) (t : str) : res Z :=
  do _ <- run_checks (o_checks o) t; lex_int (apply_fmts (o_fmts o) t).

Lemma step_ints_kind p k o t l :
  ints_kind k = true -> step_gen p k o t (CInts l) = do l' <- step_ints k o t l; Ok (CInts l').
Proof. destruct k; simpl; intros H; try discriminate H; reflexivity. Qed.

Lemma step_ints_spec k o t l l' :
  step_ints k o t l = Ok l' ->
  exists v, conv_int o t = Ok v /\
    ((o_uniq o = true /\ In v l /\ o_dup_err o = false /\ l' = l) \/
     ((o_uniq o = false \/ ~ In v l) /\ l' = place k v l)).
Proof.
  unfold step_ints, conv_int. intros H. inv_bind H. rewrite lex_int_pos_ints in H. inv_bind H.
  exists a0. simpl. split; auto.
  destruct (o_uniq o) eqn:Eu; simpl in H.
  - destruct (z_in a0 l) eqn:Ez.
    + destruct (o_dup_err o) eqn:Ed; [discriminate H|]. inversion H; subst.
      left. repeat split; auto. apply z_in_In; auto.
    + inversion H; subst. right. split; auto. right. intros Hin. apply z_in_In in Hin. congruence.
  - inversion H; subst. right. split; auto.
Qed.

Lemma insert_sorted_In {A} (lt : A -> A -> bool) x l z : In z (insert_sorted lt x l) <-> z = x \/ In z l.
Proof.
  split.
  - intros H. eapply Permutation_in in H; [|apply insert_sorted_perm]. simpl in H. intuition (subst; auto).
  - intros H. eapply Permutation_in; [apply Permutation_sym, insert_sorted_perm|]. simpl. intuition (subst; auto).
Qed.

Lemma place_In k v l z : In z (place k v l) <-> z = v \/ In z l.
Proof.
  destruct k; simpl; try (rewrite in_app_iff; simpl; intuition (subst; auto); fail);
    try (intuition (subst; auto); fail); try apply insert_sorted_In.
  - destruct (z_in v l) eqn:E; [|apply insert_sorted_In].
    apply z_in_In in E. intuition (subst; auto).
  - destruct (z_in v l) eqn:E; [|apply insert_sorted_In].
    apply z_in_In in E. intuition (subst; auto).
Qed.

Lemma place_perm_notin k v l : ~ In v l -> Permutation (place k v l) (v :: l).
Proof.
  intros Hn. assert (Hz : z_in v l = false).
  { destruct (z_in v l) eqn:E; auto. apply z_in_In in E. contradiction. }
  destruct k; simpl; rewrite ?Hz; auto using insert_sorted_perm;
    apply Permutation_sym, Permutation_cons_append.
Qed.

(** kinds that keep every element they are given (all but set / unordered_set) *)
Definition keeps_all (k : kind) : bool := match k with KSet | KUSet => false | _ => true end.

Lemma place_perm_keeps k v l : keeps_all k = true -> Permutation (place k v l) (v :: l).
Proof.
  destruct k; simpl; intros H; try discriminate H; auto using insert_sorted_perm;
    apply Permutation_sym, Permutation_cons_append.
Qed.

Definition start_of (st : cst) (l0 : list Z) : list Z := if c_clearp st then [] else l0.

Lemma start_cont st l0 :
  c_val st = CInts l0 ->
  pre_use (if c_clearp st then clear_cont (c_val st) else c_val st) = CInts (start_of st l0).
Proof. intros ->. unfold start_of. destruct (c_clearp st); reflexivity. Qed.

Lemma norm_ints o l : exists l', norm o (CInts l) = CInts l' /\ Permutation l' l.
Proof.
  unfold norm. destruct (o_sort o); simpl; eexists; split; eauto. apply sort_by_perm.
Qed.

(** unique data, duplicates dropped: no duplicates in the destination, and it
    holds exactly the earlier content and the values of all elements given *)
Theorem cont_unique_drop p k o st u rest st' l0 :
  ints_kind k = true -> o_uniq o = true -> o_dup_err o = false ->
  c_val st = CInts l0 -> NoDup (start_of st l0) ->
  run_uses_gen (step_gen p k o) o st (u :: rest) = Ok st' ->
  exists l, c_val st' = CInts l /\ NoDup l /\
    forall z, In z l <-> In z (start_of st l0) \/ exists t, In t (all_tokens o (u :: rest)) /\ conv_int o t = Ok z.
Proof.
  intros Hk Hu Hd Hv Hnd H.
  set (s0 := start_of st l0) in *.
  apply (run_uses_hist (step_gen p k o) o
          (fun ts c => exists l, c = CInts l /\ NoDup l /\
             forall z, In z l <-> In z s0 \/ exists t, In t ts /\ conv_int o t = Ok z)) in H; auto.
  - (* step *)
    intros ts t c c' [l [-> [Hn Hi]]] Hs. rewrite step_ints_kind in Hs; auto. inv_bind Hs.
    inversion Hs; subst; clear Hs. apply step_ints_spec in E.
    destruct E as [v [Hc [[_ [Hin [_ ->]]]|[Hor ->]]]].
    + exists l. split; [auto|split; [auto|]]. intros z. rewrite Hi. split.
      * intros [H1|[t' [H1 H2]]]; auto. right. exists t'. rewrite in_app_iff. auto.
      * intros [H1|[t' [H1 H2]]]; auto. rewrite in_app_iff in H1. destruct H1 as [H1|[<-|[]]]; eauto.
        assert (z = v) by congruence. subst. apply Hi in Hin. exact Hin.
    + assert (Hnv : ~ In v l) by (destruct Hor as [Hor|Hor]; [congruence|auto]).
      exists (place k v l). repeat split.
      * eapply Permutation_NoDup; [apply Permutation_sym, place_perm_notin; auto|]. constructor; auto.
      * intros Hz. apply place_In in Hz. destruct Hz as [->|Hz].
        -- right. exists t. rewrite in_app_iff. simpl. auto.
        -- apply Hi in Hz. destruct Hz as [Hz|[t' [H1 H2]]]; auto. right. exists t'. rewrite in_app_iff. auto.
      * intros Hz. apply place_In. destruct Hz as [Hz|[t' [H1 H2]]].
        -- right. apply Hi. auto.
        -- rewrite in_app_iff in H1. destruct H1 as [H1|[<-|[]]].
           ++ right. apply Hi. eauto.
           ++ left. congruence.
  - (* norm *)
    intros ts c [l [-> [Hn Hi]]]. destruct (norm_ints o l) as [l' [-> Hp]].
    exists l'. repeat split.
    + eapply Permutation_NoDup; [apply Permutation_sym; eauto|auto].
    + intros Hz. apply Hi. eapply Permutation_in; eauto.
    + intros Hz. apply Hi in Hz. eapply Permutation_in; [apply Permutation_sym; eauto|auto].
  - intros ts c [l [-> Hr]]. simpl. eauto.
  - rewrite (start_cont st l0 Hv). exists s0. repeat split; auto.
    intros [Hz|[t [[] _]]]. auto.
Qed.

(** unique data, duplicates are errors: the uses are accepted only if all
    values are new; then every element was stored *)
Theorem cont_unique_refuse p k o st u rest st' l0 :
  ints_kind k = true -> o_uniq o = true -> o_dup_err o = true ->
  c_val st = CInts l0 -> NoDup (start_of st l0) ->
  run_uses_gen (step_gen p k o) o st (u :: rest) = Ok st' ->
  exists l vals, c_val st' = CInts l /\
    Forall2 (fun t v => conv_int o t = Ok v) (all_tokens o (u :: rest)) vals /\
    Permutation l (start_of st l0 ++ vals) /\ NoDup (start_of st l0 ++ vals).
Proof.
  intros Hk Hu Hd Hv Hnd H.
  set (s0 := start_of st l0) in *.
  apply (run_uses_hist (step_gen p k o) o
          (fun ts c => exists l vals, c = CInts l /\ Forall2 (fun t v => conv_int o t = Ok v) ts vals /\
             Permutation l (s0 ++ vals) /\ NoDup l)) in H; auto.
  - destruct H as [l [vals [Hc [Hf [Hp Hn]]]]]. exists l, vals. repeat split; auto.
    eapply Permutation_NoDup; eauto.
  - intros ts t c c' [l [vals [-> [Hf [Hp Hn]]]]] Hs. rewrite step_ints_kind in Hs; auto. inv_bind Hs.
    inversion Hs; subst; clear Hs. apply step_ints_spec in E.
    destruct E as [v [Hc [[_ [_ [Hd' _]]]|[Hor ->]]]]; [congruence|].
    assert (Hnv : ~ In v l) by (destruct Hor as [Hor|Hor]; [congruence|auto]).
    exists (place k v l), (vals ++ [v]). repeat split.
    + apply Forall2_app; auto.
    + eapply perm_trans; [apply place_perm_notin; auto|].
      rewrite app_assoc. eapply perm_trans; [|apply Permutation_cons_append]. apply perm_skip; auto.
    + eapply Permutation_NoDup; [apply Permutation_sym, place_perm_notin; auto|]. constructor; auto.
  - intros ts c [l [vals [-> [Hf [Hp Hn]]]]]. destruct (norm_ints o l) as [l' [-> Hp']].
    exists l', vals. repeat split; auto.
    + eapply perm_trans; eauto.
    + eapply Permutation_NoDup; [apply Permutation_sym; eauto|auto].
  - intros ts c [l [vals [-> Hr]]]. simpl. eauto.
  - rewrite (start_cont st l0 Hv). exists s0, []. rewrite app_nil_r. repeat split; auto.
Qed.

(** without unique data, every kind but the sets keeps every element: the
    destination is the earlier content followed by all values in the order of
    the kind's own placement - sorted if so configured *)
Theorem cont_seq_content p k o st u rest st' l0 :
  ints_kind k = true -> keeps_all k = true -> o_uniq o = false ->
  c_val st = CInts l0 ->
  run_uses_gen (step_gen p k o) o st (u :: rest) = Ok st' ->
  exists l vals, c_val st' = CInts l /\
    Forall2 (fun t v => conv_int o t = Ok v) (all_tokens o (u :: rest)) vals /\
    Permutation l (start_of st l0 ++ vals) /\
    (o_sort o = false -> l = fold_left (fun acc v => place k v acc) vals (start_of st l0)) /\
    (o_sort o = true -> l = sort_by Z.ltb (start_of st l0 ++ vals)).
Proof.
  intros Hk Hka Hu Hv H.
  set (s0 := start_of st l0) in *.
  pose proof H as H2.
  apply (run_uses_hist (step_gen p k o) o
          (fun ts c => exists l vals, c = CInts l /\ Forall2 (fun t v => conv_int o t = Ok v) ts vals /\
             Permutation l (s0 ++ vals) /\
             (o_sort o = false -> l = fold_left (fun acc v => place k v acc) vals s0))) in H; auto.
  - destruct H as [l [vals [Hc [Hf [Hp Hn]]]]]. exists l, vals. repeat split; auto.
    intros Hs. apply cont_sorted_gen in H2; auto; [|discriminate]. rewrite Hc in H2. simpl in H2.
    apply (sorted_perm_unique Z.ltb Z_lt_irrefl Z_le_antisym).
    + clear - H2. induction H2; constructor; auto. eapply Forall_impl; [|eauto].
      intros b Hb. unfold le_of. apply Z.ltb_ge. auto.
    + apply sort_by_sorted; [apply Z_lt_irrefl|apply Z_lt_le_trans].
    + eapply perm_trans; eauto. apply Permutation_sym, sort_by_perm.
  - intros ts t c c' [l [vals [-> [Hf [Hp Hn]]]]] Hs. rewrite step_ints_kind in Hs; auto. inv_bind Hs.
    inversion Hs; subst; clear Hs. apply step_ints_spec in E.
    destruct E as [v [Hc [[Hu' _]|[_ ->]]]]; [congruence|].
    exists (place k v l), (vals ++ [v]). repeat split.
    + apply Forall2_app; auto.
    + eapply perm_trans; [apply place_perm_keeps; auto|].
      rewrite app_assoc. eapply perm_trans; [|apply Permutation_cons_append]. apply perm_skip; auto.
    + intros Hs. rewrite fold_left_app. simpl. rewrite <- Hn; auto.
  - intros ts c [l [vals [-> [Hf [Hp Hn]]]]]. unfold norm. destruct (o_sort o) eqn:Es; simpl.
    + exists (sort_by Z.ltb l), vals. repeat split; auto; [|discriminate].
      eapply perm_trans; [apply sort_by_perm|auto].
    + exists l, vals. repeat split; auto.
  - intros ts c [l [vals [-> Hr]]]. simpl. eauto.
  - rewrite (start_cont st l0 Hv). exists s0, []. rewrite app_nil_r. repeat split; auto.
Qed.

(** the placement of the kinds *)
Lemma place_fold_append k vals : forall l,
  match k with KVec | KDeque | KList | KQueue => true | _ => false end = true ->
  fold_left (fun acc v => place k v acc) vals l = l ++ vals.
Proof.
  induction vals as [|v r IH]; intros l Hk; simpl; [rewrite app_nil_r; auto|].
  rewrite IH; auto. destruct k; try discriminate Hk; simpl; rewrite <- app_assoc; reflexivity.
Qed.

Lemma place_fold_front k vals : forall l,
  match k with KFwd | KStack => true | _ => false end = true ->
  fold_left (fun acc v => place k v acc) vals l = rev vals ++ l.
Proof.
  induction vals as [|v r IH]; intros l Hk; simpl; auto.
  rewrite IH; auto. destruct k; try discriminate Hk; simpl; rewrite <- app_assoc; reflexivity.
Qed.

(* ------------------------------------------------------------------ *)
(** * The two defects of the pinned tree, on the pinned element steps *)

Definition o_plain (k : kind) : copts :=
  {| o_sep := default_sep k; o_clear := false; o_sort := false; o_uniq := false; o_dup_err := false;
     o_multi := false; o_checks := []; o_ftab := []; o_card := default_card k |}.
Definition o_uniq_only (k : kind) : copts :=
  {| o_sep := default_sep k; o_clear := false; o_sort := false; o_uniq := true; o_dup_err := false;
     o_multi := false; o_checks := []; o_ftab := []; o_card := default_card k |}.

(** "-l 0,5" *)
Definition w_arr : list str := [[45; 108]; [48; 44; 53]]%N.
(** "-l 1" *)
Definition w_vb : list str := [[45; 108]; [49]]%N.

(** T[4] with unique data: the value 0 is dropped because the unfilled slots hold 0 *)
Lemma pinned_array_unique_witness :
  option_map c_val (match eval_pinned (KArr 4) (o_uniq_only (KArr 4)) (CArr [0; 0; 0; 0]%Z 0) [] w_arr with
                    | Ok r => Some (fst r) | _ => None end) = Some (CArr [5; 0; 0; 0]%Z 1)
  /\ option_map c_val (match eval (KArr 4) (o_uniq_only (KArr 4)) (CArr [0; 0; 0; 0]%Z 0) [] w_arr with
                       | Ok r => Some (fst r) | _ => None end) = Some (CArr [0; 5; 0; 0]%Z 2).
Proof. split; vm_compute; reflexivity. Qed.

(** vector<bool> of size 1: position 1 is lost *)
Lemma pinned_vector_bool_witness :
  option_map c_val (match eval_pinned KVecBool (o_plain KVecBool) (CVBool 1 []) [] w_vb with
                    | Ok r => Some (fst r) | _ => None end) = Some (CVBool 1 [])
  /\ option_map c_val (match eval KVecBool (o_plain KVecBool) (CVBool 1 []) [] w_vb with
                       | Ok r => Some (fst r) | _ => None end) = Some (CVBool 2 [1%N]).
Proof. split; vm_compute; reflexivity. Qed.

(* ------------------------------------------------------------------ *)
(** * Arrays with unique data and vector<bool> on the fixed tree: nothing given is lost *)

(** T[N] / std::array, unique data (dropping): the filled part has no
    duplicates and holds exactly the values filled before and the values given *)
Theorem cont_array_unique_drop k n o st u rest st' l0 i0 :
  arr_kind k n -> o_uniq o = true -> o_dup_err o = false ->
  c_val st = CArr l0 i0 -> NoDup (firstn i0 l0) ->
  run_uses k o st (u :: rest) = Ok st' ->
  exists l i, c_val st' = CArr l i /\ NoDup (firstn i l) /\
    forall z, In z (firstn i l) <->
              In z (firstn i0 l0) \/ exists t, In t (all_tokens o (u :: rest)) /\ conv_int o t = Ok z.
Proof.
  intros Hk Hu Hd Hv Hnd H. unfold run_uses in H.
  apply (run_uses_hist (step k o) o
          (fun ts c => exists l i, c = CArr l i /\ NoDup (firstn i l) /\
             forall z, In z (firstn i l) <->
                       In z (firstn i0 l0) \/ exists t, In t ts /\ conv_int o t = Ok z)) in H; auto.
  - intros ts t c c' [l [i [-> [Hn Hi]]]] Hs.
    assert (Hs' : step_arr arr_contains n o t l i = Ok c') by (destruct Hk; subst k; exact Hs).
    clear Hs. unfold step_arr in Hs'. destruct (Nat.eqb i n); [discriminate Hs'|].
    inv_bind Hs'. inv_bind Hs'. rewrite Hu, Hd in Hs'. simpl in Hs'.
    rewrite lex_int_fmt_pos in E0.
    assert (Hc : conv_int o t = Ok a0) by (unfold conv_int; rewrite E; destruct a; exact E0).
    unfold arr_contains in Hs'. destruct (z_in a0 (firstn i l)) eqn:Ez; inversion Hs'; subst; clear Hs'.
    + apply z_in_In in Ez. exists l, i. split; [auto|split; [auto|]]. intros z. rewrite Hi. split.
      * intros [H1|[t' [H1 H2]]]; auto. right. exists t'. rewrite in_app_iff. auto.
      * intros [H1|[t' [H1 H2]]]; auto. rewrite in_app_iff in H1. destruct H1 as [H1|[<-|[]]]; eauto.
        assert (z = a0) by congruence. subst. apply Hi in Ez. exact Ez.
    + assert (Hnv : ~ In a0 (firstn i l)) by (intros Hin; apply z_in_In in Hin; congruence).
      exists (arr_set l i a0), (S i). rewrite firstn_S_upd. split; [auto|split].
      * eapply Permutation_NoDup; [apply Permutation_cons_append|]. constructor; auto.
      * intros z. rewrite in_app_iff. simpl. rewrite Hi. split.
        -- intros [[H1|[t' [H1 H2]]]|[<-|[]]]; auto.
           ++ right. exists t'. rewrite in_app_iff. auto.
           ++ right. exists t. rewrite in_app_iff. simpl. auto.
        -- intros [H1|[t' [H1 H2]]]; auto. rewrite in_app_iff in H1. destruct H1 as [H1|[<-|[]]]; eauto.
           right. left. congruence.
  - intros ts c [l [i [-> [Hn Hi]]]]. unfold norm. destruct (o_sort o); simpl; [|eauto].
    eexists _, _. split; [reflexivity|]. rewrite firstn_sorted_part. split.
    + eapply Permutation_NoDup; [apply Permutation_sym, sort_by_perm|auto].
    + intros z. rewrite <- Hi. split; intros Hz.
      * eapply Permutation_in; [apply (sort_by_perm Z.ltb)|exact Hz].
      * eapply Permutation_in; [apply Permutation_sym, (sort_by_perm Z.ltb)|exact Hz].
  - intros ts c [l [i [-> Hr]]]. simpl. eauto.
  - rewrite Hv. replace (if c_clearp st then clear_cont (CArr l0 i0) else CArr l0 i0) with (CArr l0 i0)
      by (destruct (c_clearp st); reflexivity).
    simpl. exists l0, i0. split; [auto|split; [auto|]]. intros z. split; auto.
    intros [Hz|[t [[] _]]]. auto.
Qed.

(** vector<bool>: exactly the positions set before (unless cleared) and the
    positions given are set, and the vector is large enough for all of them *)
Theorem cont_vector_bool_positions o st u rest st' size0 l0 :
  c_val st = CVBool size0 l0 -> Forall (fun q => (q < size0)%N) l0 ->
  run_uses KVecBool o st (u :: rest) = Ok st' ->
  exists size l, c_val st' = CVBool size l /\ Forall (fun q => (q < size)%N) l /\
    forall q, In q l <->
      In q (if c_clearp st then [] else l0) \/
      exists t, In t (all_tokens o (u :: rest)) /\ lex_size (apply_fmts (o_fmts o) t) = Ok q.
Proof.
  intros Hv Hb H. unfold run_uses in H.
  set (s0 := if c_clearp st then [] else l0) in *.
  apply (run_uses_hist (step KVecBool o) o
          (fun ts c => exists size l, c = CVBool size l /\ Forall (fun q => (q < size)%N) l /\
             forall q, In q l <-> In q s0 \/ exists t, In t ts /\ lex_size (apply_fmts (o_fmts o) t) = Ok q)) in H; auto.
  - intros ts t c c' [size [l [-> [Hf Hi]]]] Hs. unfold step, step_gen, step_vb in Hs.
    inv_bind Hs. inv_bind Hs. destruct (N.leb VB_LIMIT a0); [discriminate Hs|].
    inversion Hs; subst; clear Hs. unfold vb_store. eexists _, _. split; [reflexivity|]. split.
    + rewrite Forall_forall in *. intros q Hq. apply nset_add_In in Hq.
      destruct (N.leb_spec size a0); destruct Hq as [->|Hq]; try lia;
        specialize (Hf _ Hq); lia.
    + intros q. rewrite nset_add_In, Hi. split.
      * intros [->|[H1|[t' [H1 H2]]]]; auto.
        -- right. exists t. rewrite in_app_iff. simpl. auto.
        -- right. exists t'. rewrite in_app_iff. auto.
      * intros [H1|[t' [H1 H2]]]; auto. rewrite in_app_iff in H1. destruct H1 as [H1|[<-|[]]]; eauto.
        left. congruence.
  - intros ts c [size [l [-> Hr]]]. unfold norm. destruct (o_sort o); simpl; eauto.
  - intros ts c [size [l [-> [Hf Hi]]]]. destruct size; simpl; [|eauto].
    destruct l as [|q r]; [|inversion Hf; subst; lia].
    exists 10%N, []. split; [auto|split; [auto|]]. exact Hi.
  - rewrite Hv. unfold s0. destruct (c_clearp st); simpl.
    + exists 10%N, []. split; [auto|split; [auto|]]. intros q. split; [intros []|intros [[]|[t [[] _]]]].
    + destruct size0.
      * destruct l0 as [|q r]; [|inversion Hb; subst; lia]. simpl.
        exists 10%N, []. split; [auto|split; [auto|]]. intros q. split; [intros []|intros [[]|[t [[] _]]]].
      * simpl. exists (Npos p), l0. split; [auto|split; [auto|]]. intros q. split; auto.
        intros [Hq|[t [[] _]]]. auto.
Qed.
