(** Proofs about splitString (C07): splitting inverts escaping. *)
From Coq Require Import List NArith Lia Bool.
Import ListNotations.
Require Import Celma.ArgH.Split.
Local Open Scope N_scope.

Definition plain cu q o := {| cur := cu; inq := false; qc := q; bsl := false; out := o |}.
Lemma step_bs cu q o : step (plain cu q o) BS = {| cur := cu; inq := false; qc := q; bsl := true; out := o |}.
Proof. reflexivity. Qed.
Lemma step_after_bs cu q o c : step {| cur := cu; inq := false; qc := q; bsl := true; out := o |} c = plain (c :: cu) q o.
Proof. reflexivity. Qed.
Lemma step_ordinary cu q o c : special c = false -> step (plain cu q o) c = plain (c :: cu) q o.
Proof. unfold special. intros E. repeat (apply orb_false_iff in E as [E ?]).
  unfold step, plain. cbn [bsl inq cur qc out]. rewrite H, E, H1, H0. reflexivity. Qed.
Lemma step_space cu q o c t : cu = c :: t -> step (plain cu q o) SP = plain [] q (rev cu :: o).
Proof. intros ->. reflexivity. Qed.

Lemma feed_escape w : forall cu q o,
  fold_left step (escape w) (plain cu q o) = plain (rev w ++ cu) q o.
Proof.
  induction w as [|c t IH]; intros cu q o; [reflexivity|].
  cbn [escape]. destruct (special c) eqn:E.
  - cbn [fold_left]. rewrite step_bs, step_after_bs, IH. cbn [rev]. rewrite <- app_assoc. reflexivity.
  - cbn [fold_left]. rewrite step_ordinary by assumption. rewrite IH. cbn [rev]. rewrite <- app_assoc. reflexivity.
Qed.

Lemma rev_nonempty (w:list N) : w <> [] -> exists c t, rev w = c :: t.
Proof. intros H. destruct (rev w) eqn:Er; [|eauto]. apply (f_equal (@rev N)) in Er. rewrite rev_involutive in Er. cbn in Er. congruence. Qed.

Theorem split_join_escape : forall ws, Forall (fun w => w <> []) ws ->
  split (join (map escape ws)) = ws.
Proof.
  intros ws H. unfold split.
  assert (G : forall ws o q, Forall (fun w => w <> []) ws ->
     finish (fold_left step (join (map escape ws)) (plain [] q o)) = rev o ++ ws).
  { clear. induction ws as [|w t IH]; intros o q Hne.
    - cbn. rewrite app_nil_r. reflexivity.
    - inversion Hne as [|? ? Hw Ht]; subst. destruct (rev_nonempty w Hw) as (c0 & t0 & Er).
      destruct t as [|w2 t'].
      + cbn [map join]. rewrite feed_escape. unfold finish, plain. cbn [cur out]. rewrite app_nil_r, Er.
        rewrite <- Er, rev_involutive. cbn [rev]. reflexivity.
      + cbn [map join]. change (join (escape w2 :: map escape t')) with (join (map escape (w2 :: t'))).
        rewrite fold_left_app, feed_escape. cbn [fold_left]. rewrite app_nil_r.
        rewrite (step_space _ _ _ c0 t0 Er). rewrite rev_involutive. rewrite IH by assumption.
        cbn [rev]. rewrite <- app_assoc. reflexivity. }
  apply (G ws [] 45 H).
Qed.
