(** Proofs about splitString (C07): splitting inverts escaping. *)
From Coq Require Import List NArith Lia Bool.
Import ListNotations.
Require Import Celma.ArgH.Split.
Local Open Scope N_scope.

Definition plain cu q o := {| cur := cu; inq := false; qc := q; bsl := false; out := o |}.
Lemma step_bs cu q o : step (plain cu q o) BS = {| cur := cu; inq := false; qc := q; bsl := true; out := o |}.
Proof. reflexivity. Qed.
Lemma step_after_bs cu q o c : step {| cur := cu; inq := false; qc := q; bsl := true; out := o |} c = plain (c :: cu) q o.
Proof. reflexivity. Qed.
Lemma step_ordinary cu q o c : special c = false -> step (plain cu q o) c = plain (c :: cu) q o.
Proof. unfold special. intros E. repeat (apply orb_false_iff in E as [E ?]).
  unfold step, plain. cbn [bsl inq cur qc out]. rewrite H, E, H1, H0. reflexivity. Qed.
Lemma step_space cu q o c t : cu = c :: t -> step (plain cu q o) SP = plain [] q (rev cu :: o).
Proof. intros ->. reflexivity. Qed.

Lemma feed_escape w : forall cu q o,
  fold_left step (escape w) (plain cu q o) = plain (rev w ++ cu) q o.
Proof.
  induction w as [|c t IH]; intros cu q o; [reflexivity|].
  cbn [escape]. destruct (special c) eqn:E.
  - cbn [fold_left]. rewrite step_bs, step_after_bs, IH. cbn [rev]. rewrite <- app_assoc. reflexivity.
  - cbn [fold_left]. rewrite step_ordinary by assumption. rewrite IH. cbn [rev]. rewrite <- app_assoc. reflexivity.
Qed.

Lemma rev_nonempty (w:list N) : w <> [] -> exists c t, rev w = c :: t.
Proof. intros H. destruct (rev w) eqn:Er; [|eauto]. apply (f_equal (@rev N)) in Er. rewrite rev_involutive in Er. cbn in Er. congruence. Qed.

Theorem split_join_escape : forall ws, Forall (fun w => w <> []) ws ->
  split (join (map escape ws)) = ws.
Proof.
  intros ws H. unfold split.
  assert (G : forall ws o q, Forall (fun w => w <> []) ws ->
     finish (fold_left step (join (map escape ws)) (plain [] q o)) = rev o ++ ws).
  { clear. induction ws as [|w t IH]; intros o q Hne.
    - cbn. rewrite app_nil_r. reflexivity.
    - inversion Hne as [|? ? Hw Ht]; subst. destruct (rev_nonempty w Hw) as (c0 & t0 & Er).
      destruct t as [|w2 t'].
      + cbn [map join]. rewrite feed_escape. unfold finish, plain. cbn [cur out]. rewrite app_nil_r, Er.
        rewrite <- Er, rev_involutive. cbn [rev]. reflexivity.
      + cbn [map join]. change (join (escape w2 :: map escape t')) with (join (map escape (w2 :: t'))).
        rewrite fold_left_app, feed_escape. cbn [fold_left]. rewrite app_nil_r.
        rewrite (step_space _ _ _ c0 t0 Er). rewrite rev_involutive. rewrite IH by assumption.
        cbn [rev]. rewrite <- app_assoc. reflexivity. }
  apply (G ws [] 45 H).
Qed.

(* ------------------------------------------------------------------ *)
(** * Every way of quoting *)

(** [quoted w s] : the source text [s] is a quoted rendering of the word [w]:
    plain characters, backslash + any character, and segments between single
    or double quotes inside which a backslash still escapes the next character
    and everything except the closing quote stands for itself. *)
Inductive quoted : list N -> list N -> Prop :=
| q_nil : quoted [] []
| q_plain : forall c w s, special c = false -> quoted w s -> quoted (c :: w) (c :: s)
| q_esc : forall c w s, quoted w s -> quoted (c :: w) (BS :: c :: s)
| q_open : forall q w s, q = SQ \/ q = DQ -> inquote q w s -> quoted w (q :: s)
with inquote : N -> list N -> list N -> Prop :=
| iq_close : forall q w s, q = SQ \/ q = DQ -> quoted w s -> inquote q w (q :: s)
| iq_char : forall q c w s, c <> q -> c <> BS -> inquote q w s -> inquote q (c :: w) (c :: s)
| iq_esc : forall q c w s, inquote q w s -> inquote q (c :: w) (BS :: c :: s).

Scheme quoted_mut := Induction for quoted Sort Prop
  with inquote_mut := Induction for inquote Sort Prop.
Combined Scheme quoted_inquote_ind from quoted_mut, inquote_mut.

Definition inq_state cu q o := {| cur := cu; inq := true; qc := q; bsl := false; out := o |}.

Lemma step_open cu q0 o q : q = SQ \/ q = DQ -> step (plain cu q0 o) q = inq_state cu q o.
Proof. intros [-> | ->]; reflexivity. Qed.

Lemma step_close cu q o : q = SQ \/ q = DQ -> step (inq_state cu q o) q = plain cu 45 o.
Proof. intros [-> | ->]; reflexivity. Qed.

Lemma step_inq_char cu q o c : c <> q -> c <> BS -> step (inq_state cu q o) c = inq_state (c :: cu) q o.
Proof.
  intros H1 H2. unfold step, inq_state. cbn [bsl inq qc cur out].
  destruct (N.eqb_spec c BS); [contradiction|]. destruct (N.eqb_spec c q); [contradiction|]. reflexivity.
Qed.

Lemma step_inq_bs cu q o : step (inq_state cu q o) BS = {| cur := cu; inq := true; qc := q; bsl := true; out := o |}.
Proof. reflexivity. Qed.

Lemma step_inq_after_bs cu q o c :
  step {| cur := cu; inq := true; qc := q; bsl := true; out := o |} c = inq_state (c :: cu) q o.
Proof. reflexivity. Qed.

Lemma feed_quoted :
  (forall w s, quoted w s -> forall cu q0 o, exists q', fold_left step s (plain cu q0 o) = plain (rev w ++ cu) q' o) /\
  (forall q w s, inquote q w s -> forall cu o, exists q', fold_left step s (inq_state cu q o) = plain (rev w ++ cu) q' o).
Proof.
  apply quoted_inquote_ind.
  - intros cu q0 o. exists q0. reflexivity.
  - intros c w s Hc _ IH cu q0 o. cbn [fold_left]. rewrite step_ordinary by exact Hc.
    destruct (IH (c :: cu) q0 o) as (q' & Hq). exists q'. rewrite Hq. cbn [rev]. rewrite <- app_assoc. reflexivity.
  - intros c w s _ IH cu q0 o. cbn [fold_left]. rewrite step_bs, step_after_bs.
    destruct (IH (c :: cu) q0 o) as (q' & Hq). exists q'. rewrite Hq. cbn [rev]. rewrite <- app_assoc. reflexivity.
  - intros q w s Hq _ IH cu q0 o. cbn [fold_left]. rewrite (step_open cu q0 o q Hq). apply IH.
  - intros q w s Hq _ IH cu o. cbn [fold_left]. rewrite (step_close cu q o Hq). apply IH.
  - intros q c w s H1 H2 _ IH cu o. cbn [fold_left]. rewrite (step_inq_char cu q o c H1 H2).
    destruct (IH (c :: cu) o) as (q' & Hq). exists q'. rewrite Hq. cbn [rev]. rewrite <- app_assoc. reflexivity.
  - intros q c w s _ IH cu o. cbn [fold_left]. rewrite step_inq_bs, step_inq_after_bs.
    destruct (IH (c :: cu) o) as (q' & Hq). exists q'. rewrite Hq. cbn [rev]. rewrite <- app_assoc. reflexivity.
Qed.

(** Splitting inverts every quoting: for any list of non-empty words and any
    quoted rendering of each, joined by blanks, the words come back. *)
Theorem split_quoted : forall ws ss,
  Forall2 quoted ws ss -> Forall (fun w => w <> []) ws -> split (join ss) = ws.
Proof.
  intros ws ss H Hne. unfold split.
  assert (G : forall ws ss, Forall2 quoted ws ss -> Forall (fun w => w <> []) ws ->
     forall o q, finish (fold_left step (join ss) (plain [] q o)) = rev o ++ ws).
  { clear. induction 1 as [|w s ws ss Hq Hr IH]; intros Hne o q.
    - cbn. rewrite app_nil_r. reflexivity.
    - inversion Hne as [|? ? Hw Ht]; subst. destruct (rev_nonempty w Hw) as (c0 & t0 & Er).
      destruct (proj1 feed_quoted w s Hq [] q o) as (q' & Hfeed). rewrite app_nil_r in Hfeed.
      destruct ss as [|s2 ss'].
      + inversion Hr; subst. cbn [join]. rewrite Hfeed. unfold finish, plain. cbn [cur out]. rewrite Er.
        rewrite <- Er, rev_involutive. cbn [rev]. reflexivity.
      + destruct ws as [|w2 ws']; [inversion Hr|]. cbn [join].
        change (match ss' with [] => s2 | _ :: _ => s2 ++ SP :: join ss' end) with (join (s2 :: ss')).
        rewrite fold_left_app, Hfeed. cbn [fold_left].
        rewrite (step_space _ _ _ c0 t0 Er). rewrite rev_involutive. rewrite IH by assumption.
        cbn [rev]. rewrite <- app_assoc. reflexivity. }
  apply (G ws ss H Hne [] 45).
Qed.
