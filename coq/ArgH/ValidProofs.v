(** C03, grammar form: completeness.  A command line whose abstract content
    obeys every declared rule is accepted - stated for the scalar fragment
    (flags, int, string, optional<int> destinations with any checks, formats,
    cardinalities, requires / excludes, all_of / any_of / one_of). *)
From Coq Require Import List NArith ZArith Bool Arith Lia.
Import ListNotations.
Require Import Celma.Common.Res Celma.Common.ListX Celma.Common.Tactics
               Celma.ArgH.Key Celma.ArgH.Table Celma.ArgH.TableProofs
               Celma.ArgH.Lex Celma.ArgH.Handler Celma.ArgH.HandlerProofs
               Celma.ArgH.Spell Celma.ArgH.SpellProofs Celma.ArgH.UseProofs Celma.ArgH.RulesProofs.

Definition scalar_kind (k : dkind) : bool :=
  match k with DBool | DInt | DStr | DOptInt => true | _ => false end.

(** the destination of [d] accepts the use [u] *)
Definition value_accepts (d : argdef) (u : use) : Prop :=
  match u with
  | UFlag _ => a_kind d = DBool
  | UVal _ v =>
      match a_kind d with
      | DInt | DOptInt => run_checks (a_checks d) v = Ok tt /\ exists z, lex_int (apply_fmts (a_fmts d) v) = Ok z
      | DStr => run_checks (a_checks d) v = Ok tt
      | _ => False
      end
  end.

(** how many uses a cardinality allows (n = number of uses on the line) *)
Definition card_allows (cd : card) (n : nat) : Prop :=
  match cd with
  | CardNone => True
  | CardMax m => m = (-1)%Z \/ (Z.of_nat n <= m)%Z
  | CardExact m => n = 0 \/ Z.of_nat n = m
  | CardRange lo hi => (hi = (-1)%Z \/ (Z.of_nat n <= hi)%Z) /\ (n = 0 \/ (lo <= Z.of_nat n)%Z)
  end.

(** the handler constraints of the fragment, on the abstract line *)
Definition gc_valid (c : cfg) (us : list use) (g : gcon) : Prop :=
  match g with
  | GCAll ks => forall k, In k ks -> exists u, In u us /\ key_eq k (ukey c u) = true
  | GCAny ks => length (filter (in_list c ks) us) <= 1
  | GCOne ks => length (filter (in_list c ks) us) = 1
  | _ => False
  end.

(** the keys of an all_of list name different arguments *)
Definition gc_keys_ok (c : cfg) (g : gcon) : Prop :=
  match g with
  | GCAll ks => forall i, i < length (args c) ->
                  length (filter (fun k => key_eq k (a_key (argdef_of c i))) ks) <= 1
  | _ => True
  end.

Record valid (c : cfg) (us : list use) : Prop := {
  v_known : known c us;
  v_uses : Forall (fun u => let d := argdef_of c (use_index u) in
                           scalar_kind (a_kind d) = true /\ a_depr d = false /\ value_accepts d u) us;
  v_card : forall i, i < length (args c) -> card_allows (a_card (argdef_of c i)) (count_uses i us);
  v_excl : excl_rule c us;
  v_req : forall pre j post k, us = pre ++ j :: post -> In k (a_req (argdef_of c (use_index j))) ->
            exists u, In u post /\ key_eq k (ukey c u) = true;
  v_gc : Forall (gc_valid c us) (gcons c);
  v_gc_keys : Forall (gc_keys_ok c) (gcons c);
  v_mand : forall i, i < length (args c) -> a_mand (argdef_of c i) = true -> In i (map use_index us)
}.

(* ------------------------------------------------------------------ *)
(** * Step lemmas in the accepting direction *)

Lemma pend_identified_accepts p k :
  (forall ek, In (KExcluded, ek) p -> key_eq ek k = false) -> exists p', pend_identified p k = Ok p'.
Proof.
  induction p as [|[ck ek] r IH]; intros H; cbn.
  - eauto.
  - destruct (key_eq ek k) eqn:E.
    + destruct ck.
      * apply IH. intros ek' Hin. apply H. right. exact Hin.
      * rewrite (H ek (or_introl eq_refl)) in E. discriminate.
    + destruct IH as (p' & Hp'); [intros ek' Hin; apply H; right; exact Hin|].
      rewrite Hp'. cbn. eauto.
Qed.

Lemma assign_accepts d a u :
  scalar_kind (a_kind d) = true -> value_accepts d u ->
  exists a', assign d a (match u with UFlag _ => [] | UVal _ v => v end) = Ok a' /\
             hasval a' = true /\ cnt a' = cnt a.
Proof.
  unfold value_accepts, assign. intros Hk Hv. destruct u as [i|i v].
  - rewrite Hv. eexists. splits; reflexivity.
  - destruct (a_kind d); try discriminate; try contradiction.
    + destruct Hv as (Hc & z & Hz). rewrite Hc, Hz. cbn. eexists. splits; reflexivity.
    + rewrite Hv. cbn. eexists. splits; reflexivity.
    + destruct Hv as (Hc & z & Hz). rewrite Hc, Hz. cbn. eexists. splits; reflexivity.
Qed.

(** where the entries of the container come from *)
Definition pend_origin (c : cfg) (hist : list use) (p : list (ckind * key)) : Prop :=
  (forall ek, In (KExcluded, ek) p -> exists j, In j hist /\ In ek (a_excl (argdef_of c (use_index j)))) /\
  (forall ek, In (KRequired, ek) p ->
     exists pre j post, hist = pre ++ j :: post /\ In ek (a_req (argdef_of c (use_index j))) /\
                        forall u, In u post -> key_eq ek (ukey c u) = false).

Lemma fold_pend_add_origin k ks : forall p e,
  In e (fold_left (fun acc x => pend_add acc k x) ks p) -> In e p \/ (fst e = k /\ In (snd e) ks).
Proof.
  induction ks as [|x r IH]; intros p e H; cbn in H; auto.
  destruct (IH _ _ H) as [H1|[H1 H2]].
  - apply pend_add_keys in H1. destruct H1 as [H1| ->]; auto. right. cbn. auto.
  - right. split; auto. right. exact H2.
Qed.

Lemma activate_origin d p e :
  In e (activate d p) -> In e p \/ (fst e = KExcluded /\ In (snd e) (a_excl d)) \/ (fst e = KRequired /\ In (snd e) (a_req d)).
Proof.
  unfold activate. intros H. apply fold_pend_add_origin in H. destruct H as [H|H]; [|auto].
  apply fold_pend_add_origin in H. destruct H as [H|H]; auto.
Qed.

Lemma pend_origin_step c hist s ic u s' :
  fixed_notify c = true -> pend_origin c hist (pend s) -> use_step c s ic u = Ok s' ->
  pend_origin c (hist ++ [u]) (pend s').
Proof.
  intros Hf [Ho1 Ho2] H.
  destruct (use_step_inv c s ic u s' Hf H) as (p1 & g1 & n1 & a' & E1 & _ & _ & _ & _ & ->). cbn [pend].
  destruct (pend_identified_spec _ _ _ E1) as (A & B & C & D & F).
  split.
  - intros ek Hin. apply activate_origin in Hin. destruct Hin as [Hin|[[_ Hin]|[Hk _]]]; cbn in *.
    + destruct (Ho1 ek (B _ Hin)) as (j & Hj & Hk). exists j. split; [apply in_or_app; left; exact Hj|exact Hk].
    + exists u. split; [apply in_or_app; right; left; reflexivity|exact Hin].
    + discriminate.
  - intros ek Hin. apply activate_origin in Hin. destruct Hin as [Hin|[[Hk _]|[_ Hin]]]; cbn in *.
    + destruct (Ho2 ek (B _ Hin)) as (pre & j & post & Hh & Hk & Hn).
      exists pre, j, (post ++ [u]). splits.
      * rewrite Hh, <- app_assoc. reflexivity.
      * exact Hk.
      * intros u0 Hu0. apply in_app_or in Hu0. destruct Hu0 as [Hu0|[<-|[]]]; [apply Hn; exact Hu0|].
        apply F. exact Hin.
    + discriminate.
    + exists hist, u, []. splits; [reflexivity|exact Hin|intros u0 []].
Qed.

(* ------------------------------------------------------------------ *)
(** * Handler constraints in the accepting direction *)

Lemma remove_first_key_filter (r : list key) k :
  length (filter (fun x => key_eq x k) r) <= 1 ->
  remove_first_key r k = filter (fun x => negb (key_eq x k)) r.
Proof.
  induction r as [|x r IH]; intros H; cbn in *; auto.
  destruct (key_eq x k) eqn:E; cbn in *.
  - assert (Hn : filter (fun x0 => key_eq x0 k) r = []) by (destruct (filter _ r); [reflexivity|cbn in H; lia]).
    clear IH H. induction r as [|y r IHr]; cbn in *; auto.
    destruct (key_eq y k) eqn:Ey; cbn in *; [discriminate|]. f_equal. apply IHr; auto.
  - f_equal. apply IH. exact H.
Qed.

Lemma filter_filter_len {A} (f g : A -> bool) l : length (filter f (filter g l)) <= length (filter f l).
Proof.
  induction l as [|x r IH]; cbn; auto. destruct (g x); cbn; destruct (f x); cbn; lia.
Qed.

Lemma filter_none {A} (f : A -> bool) l : (forall x, In x l -> f x = true) -> filter f l = l.
Proof.
  induction l as [|x r IH]; intros H; cbn; auto. rewrite (H x (or_introl eq_refl)). f_equal. apply IH.
  intros y Hy. apply H. right. exact Hy.
Qed.

Definition keys_unique (c : cfg) (r : list key) : Prop :=
  forall i, i < length (args c) -> length (filter (fun k => key_eq k (a_key (argdef_of c i))) r) <= 1.

Lemma gc_step_filter c ks rem u :
  use_index u < length (args c) -> keys_unique c rem -> incl rem ks ->
  gc_step c ks rem u = filter (fun x => negb (key_eq x (ukey c u))) rem.
Proof.
  intros Hi Hu Hincl. unfold gc_step. destruct (in_list c ks u) eqn:E.
  - apply remove_first_key_filter. apply Hu. exact Hi.
  - symmetry. apply filter_none. intros x Hx. apply negb_true_iff.
    destruct (key_eq x (ukey c u)) eqn:Ex; [|reflexivity].
    unfold in_list, in_keys in E. assert (existsb (fun y => key_eq y (ukey c u)) ks = true).
    { apply existsb_exists. exists x. split; [apply Hincl; exact Hx|exact Ex]. }
    congruence.
Qed.

(** what is left of an all_of list after a history: listed keys that no use has matched *)
Lemma all_of_left c ks hist : forall rem,
  (forall u, In u hist -> use_index u < length (args c)) -> keys_unique c rem -> incl rem ks ->
  forall k, In k (fold_left (gc_step c ks) hist rem) ->
            In k rem /\ forall u, In u hist -> key_eq k (ukey c u) = false.
Proof.
  induction hist as [|u r IH]; intros rem Hk Hu Hincl k Hin; cbn [fold_left] in Hin.
  - split; [exact Hin|intros u []].
  - rewrite gc_step_filter in Hin; auto; [|apply Hk; left; reflexivity].
    destruct (IH (filter (fun x => negb (key_eq x (ukey c u))) rem)) with (k := k) as [H1 H2]; auto.
    + intros u0 Hu0. apply Hk. right. exact Hu0.
    + intros i Hi. eapply Nat.le_trans; [apply filter_filter_len|]. apply Hu. exact Hi.
    + intros x Hx. apply filter_In in Hx. apply Hincl. apply Hx.
    + apply filter_In in H1. destruct H1 as [H1 H1']. split; [exact H1|].
      intros u0 [<-|Hu0]; [apply negb_true_iff in H1'; exact H1'|apply H2; exact Hu0].
Qed.

Lemma gcs_exec_accepts c hist u rest : forall gs ss,
  Forall2 (gc_track c hist) gs ss -> Forall (gc_valid c (hist ++ u :: rest)) gs ->
  exists ss', gcs_exec gs ss (ukey c u) = Ok ss'.
Proof.
  induction gs as [|g gr IH]; intros ss Ht Hv; inversion Ht; subst; cbn [gcs_exec]; [eauto|].
  inversion Hv as [|? ? Hg Hr]; subst.
  assert (Hex : exists s1, gc_exec g y (ukey c u) = Ok s1).
  { unfold gc_track in H1. unfold gc_valid in Hg. unfold gc_exec.
    destruct g as [ks|ks|ks|ixs|i j]; destruct y as [rem|b]; try contradiction.
    - destruct (in_keys ks (ukey c u)); eauto.
    - destruct H1 as [Hb _]. destruct (in_keys ks (ukey c u)) eqn:E; [|eauto].
      rewrite filter_app, app_length in Hg. cbn [filter] in Hg. unfold in_list at 2 in Hg. rewrite E in Hg.
      cbn [length] in Hg. destruct b; [|eauto]. exfalso.
      symmetry in Hb. apply existsb_exists in Hb. destruct Hb as (x & Hx & Hx').
      assert (In x (filter (in_list c ks) hist)) by (apply filter_In; auto).
      destruct (filter (in_list c ks) hist); [contradiction|cbn in Hg; lia].
    - destruct H1 as [Hb _]. destruct (in_keys ks (ukey c u)) eqn:E; [|eauto].
      rewrite filter_app, app_length in Hg. cbn [filter] in Hg. unfold in_list at 2 in Hg. rewrite E in Hg.
      cbn [length] in Hg. destruct b; [|eauto]. exfalso.
      symmetry in Hb. apply existsb_exists in Hb. destruct Hb as (x & Hx & Hx').
      assert (In x (filter (in_list c ks) hist)) by (apply filter_In; auto).
      destruct (filter (in_list c ks) hist); [contradiction|cbn in Hg; lia]. }
  destruct Hex as (s1 & Hs1). rewrite Hs1. cbn [bind].
  destruct (IH _ H3 Hr) as (r1 & Hr1). rewrite Hr1. cbn [bind]. eauto.
Qed.

Lemma gcs_end_accepts c us as_ : forall gs ss,
  (forall u, In u us -> use_index u < length (args c)) ->
  Forall2 (gc_track c us) gs ss -> Forall (gc_valid c us) gs -> Forall (gc_keys_ok c) gs ->
  gcs_end as_ gs ss = Ok tt.
Proof.
  induction gs as [|g gr IH]; intros ss Hk Ht Hv Hu; inversion Ht; subst; cbn [gcs_end]; [reflexivity|].
  inversion Hv as [|? ? Hg Hr]; subst. inversion Hu as [|? ? Hgu Hru]; subst.
  assert (He : gc_end as_ g y = Ok tt).
  { unfold gc_track in H1. unfold gc_valid in Hg. unfold gc_keys_ok in Hgu. unfold gc_end.
    destruct g as [ks|ks|ks|ixs|i j]; destruct y as [rem|b]; try contradiction; auto.
    - destruct rem as [|k rem']; [reflexivity|]. exfalso.
      assert (Hin : In k (fold_left (gc_step c ks) us ks)) by (rewrite <- H1; left; reflexivity).
      destruct (all_of_left c ks us ks Hk Hgu (fun x H => H) k Hin) as [Hk1 Hk2].
      destruct (Hg k Hk1) as (u & Hu1 & Hu2). rewrite (Hk2 u Hu1) in Hu2. discriminate.
    - destruct H1 as [Hb _]. destruct b; [reflexivity|]. exfalso. symmetry in Hb.
      rewrite (existsb_false_filter _ _ Hb) in Hg. cbn in Hg. lia. }
  rewrite He. cbn [bind]. apply IH; auto.
Qed.

(* ------------------------------------------------------------------ *)
(** * The run *)

(** which cardinalities count the uses (CardinalityMax with the maximum -1 does not; CardinalityRange always does,
    since "fix: CardinalityRange counts the values also when the maximum is unlimited") *)
Definition counts (cd : card) : bool :=
  match cd with
  | CardNone => false
  | CardMax m => negb (Z.eqb m (-1))
  | CardExact _ | CardRange _ _ => true
  end.

Record run_inv (c : cfg) (hist : list use) (s : hstate) : Prop := {
  i_len : length (arts s) = length (args c);
  i_inv : inv s = false;
  i_specs : pend_specs c (pend s);
  i_origin : pend_origin c hist (pend s);
  i_gc : Forall2 (gc_track c hist) (gcons c) (gsts s);
  i_cnt : forall i, i < length (args c) ->
            cnt (nth i (arts s) dummy_art) = if counts (a_card (argdef_of c i)) then Z.of_nat (count_uses i hist) else 0%Z;
  i_hasval : forall i, In i (map use_index hist) -> hasval (nth i (arts s) dummy_art) = true
}.

Lemma count_uses_app i a b : count_uses i (a ++ b) = count_uses i a + count_uses i b.
Proof. unfold count_uses. rewrite filter_app, app_length. reflexivity. Qed.

Lemma count_uses_self u rest : 1 <= count_uses (use_index u) (u :: rest).
Proof. unfold count_uses. cbn [filter]. rewrite Nat.eqb_refl. cbn. lia. Qed.

Lemma card_got_accepts cd n total :
  card_allows cd total -> n + 1 <= total ->
  exists n1, card_got cd (if counts cd then Z.of_nat n else 0%Z) = Ok n1 /\
             n1 = (if counts cd then Z.of_nat (n + 1) else 0%Z).
Proof.
  unfold card_allows, counts, card_got. intros Ha Hn.
  destruct cd as [|m|m|lo hi].
  - eauto.
  - destruct (Z.eqb_spec m (-1)); cbn [negb]; [eauto|]. destruct Ha as [Ha|Ha]; [contradiction|].
    destruct (Z.ltb_spec m (Z.of_nat n + 1)); [lia|]. eexists. split; [reflexivity|lia].
  - destruct Ha as [Ha|Ha]; [lia|]. destruct (Z.ltb_spec m (Z.of_nat n + 1)); [lia|]. eexists. split; [reflexivity|lia].
  - destruct Ha as [Ha _]. destruct (Z.eqb_spec hi (-1)); [eexists; split; [reflexivity|lia]|].
    destruct Ha as [Ha|Ha]; [contradiction|].
    destruct (Z.ltb_spec hi (Z.of_nat n + 1)); [lia|]. eexists. split; [reflexivity|lia].
Qed.

Lemma in_split_hist {A} (x : A) l : In x l -> exists pre post, l = pre ++ x :: post.
Proof. apply in_split. Qed.

(** one use of a valid line is accepted and keeps the invariant *)
Lemma valid_step c hist u rest s :
  fixed_notify c = true -> specs_canonical c -> valid c (hist ++ u :: rest) -> run_inv c hist s ->
  exists s', use_step c s false u = Ok s' /\ run_inv c (hist ++ [u]) s'.
Proof.
  intros Hf Hc Hv Hi.
  pose proof (v_known _ _ Hv) as Hk. unfold known in Hk. rewrite Forall_app in Hk. destruct Hk as [Hkh Hku].
  inversion Hku as [|? ? Hiu Hkr]; subst.
  pose proof (v_uses _ _ Hv) as Hu. rewrite Forall_app in Hu. destruct Hu as [_ Hu].
  inversion Hu as [|? ? (Hsk & Hdep & Hacc) _]; subst. cbn zeta in Hsk, Hdep, Hacc.
  set (d := argdef_of c (use_index u)) in *.
  (* exclusions *)
  destruct (pend_identified_accepts (pend s) (a_key d)) as (p1 & Hp1).
  { intros ek Hin. destruct (i_origin _ _ _ Hi) as [Ho _]. destruct (Ho ek Hin) as (j & Hj & Hek).
    destruct (in_split_hist j hist Hj) as (pre & mid & ->).
    eapply (v_excl _ _ Hv pre j mid u rest ek); [rewrite <- !app_assoc; reflexivity|exact Hek]. }
  (* handler constraints *)
  destruct (gcs_exec_accepts c hist u rest (gcons c) (gsts s) (i_gc _ _ _ Hi) (v_gc _ _ Hv)) as (g1 & Hg1).
  unfold ukey in Hg1. fold d in Hg1.
  (* cardinality *)
  pose proof (v_card _ _ Hv (use_index u) Hiu) as Hcard.
  destruct (card_got_accepts (a_card d) (count_uses (use_index u) hist)
              (count_uses (use_index u) (hist ++ u :: rest)) Hcard) as (n1 & Hn1 & Hn1v).
  { rewrite count_uses_app. pose proof (count_uses_self u rest). lia. }
  unfold d in Hn1. rewrite <- (i_cnt _ _ _ Hi (use_index u) Hiu) in Hn1. fold d in Hn1.
  (* assignment *)
  set (a := nth (use_index u) (arts s) dummy_art) in *.
  destruct (assign_accepts d {| hasval := hasval a; cnt := n1; clearp := clearp a; val := val a; v2set := v2set a |} u Hsk Hacc)
    as (a' & Ha' & Hhv & Hcn). cbn [cnt] in Hcn.
  assert (Hstep : use_step c s false u =
                  Ok {| arts := upd (arts s) (use_index u) a'; pend := activate d p1; gsts := g1;
                        last := Some (use_index u); inv := false |}).
  { assert (G : handle_identified c (with_last s (Some (use_index u))) (use_index u) (a_key d) false
                  (match u with UFlag _ => [] | UVal _ v => v end) = Ok {| arts := upd (arts s) (use_index u) a';
                  pend := activate d p1; gsts := g1; last := Some (use_index u); inv := false |}).
    { unfold handle_identified, with_last. cbn [arts pend gsts last inv]. fold (argdef_of c (use_index u)). fold d.
      rewrite Hf, Hp1. cbn [bind]. rewrite Hg1. cbn [bind].
      unfold assign_value. cbn [arts pend gsts last inv]. fold (argdef_of c (use_index u)). fold d. fold a.
      rewrite Hdep, Hn1. cbn [bind]. rewrite (i_inv _ _ _ Hi), Ha'. reflexivity. }
    destruct u; exact G. }
  eexists. split; [exact Hstep|].
  destruct (pend_identified_spec _ _ _ Hp1) as (A & B & C & D & F).
  assert (Hsp1 : pend_specs c p1).
  { pose proof (i_specs _ _ _ Hi) as Hsp. unfold pend_specs in *. rewrite Forall_forall in *. intros e He. apply Hsp. apply B. exact He. }
  constructor; cbn [arts pend gsts inv].
  - unfold upd. rewrite (i_len _ _ _ Hi). destruct (Nat.ltb_spec (use_index u) (length (args c))); [|lia].
    rewrite app_length, firstn_length. cbn [length]. rewrite skipn_length, (i_len _ _ _ Hi). lia.
  - reflexivity.
  - destruct (activate_has c (use_index u) p1 Hc Hsp1 Hiu) as (S1 & _). exact S1.
  - exact (pend_origin_step c hist s false u _ Hf (i_origin _ _ _ Hi) Hstep).
  - eapply gcs_exec_track; [apply (i_gc _ _ _ Hi)|unfold ukey; fold d; exact Hg1].
  - intros i Hil. rewrite count_uses_snoc.
    destruct (Nat.eqb_spec (use_index u) i) as [<-|Hne].
    + rewrite upd_nth_same by (rewrite (i_len _ _ _ Hi); exact Hiu). rewrite Hcn, Hn1v.
      fold d. destruct (counts (a_card d)); [f_equal|reflexivity].
    + rewrite upd_nth_other by exact Hne. rewrite (i_cnt _ _ _ Hi i Hil), Nat.add_0_r. reflexivity.
  - intros i Hin. rewrite map_app in Hin. apply in_app_or in Hin.
    destruct (Nat.eq_dec (use_index u) i) as [<-|Hne].
    + rewrite upd_nth_same by (rewrite (i_len _ _ _ Hi); exact Hiu). exact Hhv.
    + rewrite upd_nth_other by exact Hne. destruct Hin as [Hin|[Hin|[]]]; [|congruence].
      apply (i_hasval _ _ _ Hi). exact Hin.
Qed.

Lemma valid_run c : forall rest hist s,
  fixed_notify c = true -> specs_canonical c -> valid c (hist ++ rest) -> run_inv c hist s ->
  exists s', fold_uses c s false rest = Ok s' /\ run_inv c (hist ++ rest) s'.
Proof.
  induction rest as [|u r IH]; intros hist s Hf Hc Hv Hi; cbn [fold_uses].
  - rewrite app_nil_r. eauto.
  - destruct (valid_step c hist u r s Hf Hc Hv Hi) as (s1 & Hs1 & Hi1). rewrite Hs1. cbn [bind].
    replace (hist ++ u :: r) with ((hist ++ [u]) ++ r) in * by (rewrite <- app_assoc; reflexivity).
    apply IH; auto.
Qed.

(** the end-of-line checks of a valid line succeed *)
Lemma check_mandatory_card_accepts : forall ds as_,
  length as_ = length ds ->
  (forall i, i < length ds -> (a_mand (nth i ds dummy_def) = true -> hasval (nth i as_ dummy_art) = true) /\
                              card_end (a_card (nth i ds dummy_def)) (cnt (nth i as_ dummy_art)) = Ok tt) ->
  check_mandatory_card ds as_ = Ok tt.
Proof.
  induction ds as [|d dr IH]; intros [|a ar] Hl H; cbn in *; try lia; auto.
  destruct (H 0 ltac:(lia)) as [H0 H0']. cbn in H0, H0'.
  destruct (a_mand d) eqn:Em; cbn.
  - rewrite (H0 eq_refl). cbn. rewrite H0'. cbn. apply IH; [lia|]. intros i Hi. apply (H (S i)). lia.
  - rewrite H0'. cbn. apply IH; [lia|]. intros i Hi. apply (H (S i)). lia.
Qed.

Lemma card_end_accepts cd n :
  card_allows cd n -> card_end cd (if counts cd then Z.of_nat n else 0%Z) = Ok tt.
Proof.
  unfold card_allows, counts, card_end. destruct cd as [|m|m|lo hi]; auto; intros H.
  - destruct H as [->|H]; cbn; auto. destruct (Z.ltb_spec 0 (Z.of_nat n)); cbn; auto.
    destruct (Z.eqb_spec (Z.of_nat n) m); cbn; auto. lia.
  - destruct H as [_ H].
    destruct (Z.eqb_spec (Z.of_nat n) 0); cbn; auto. destruct (Z.ltb_spec (Z.of_nat n) lo); cbn; auto. lia.
Qed.

(** Completeness on the scalar fragment: a valid abstract line is accepted. *)
Theorem valid_accepted c inits us :
  fixed_notify c = true -> specs_canonical c -> length inits = length (args c) ->
  valid c us ->
  exists s', fold_uses c (init_state c inits) false us = Ok s' /\ final_checks c s' = Ok tt.
Proof.
  intros Hf Hc Hl Hv.
  assert (Hi0 : run_inv c [] (init_state c inits)).
  { constructor.
    - apply init_state_length. exact Hl.
    - reflexivity.
    - constructor.
    - split; intros ek [].
    - unfold init_state. cbn [gsts]. apply gc_track_init.
    - intros i Hi. unfold init_state. cbn [arts].
      assert (Hc0 : forall l n, cnt (nth n (map (fun p => init_art (fst p) (snd p)) l) dummy_art) = 0%Z).
      { induction l as [|x r IHl]; intros [|n]; cbn; auto. }
      rewrite Hc0. unfold count_uses. cbn. destruct (counts _); reflexivity.
    - intros i []. }
  destruct (valid_run c us [] (init_state c inits) Hf Hc Hv Hi0) as (s' & Hs' & Hi). cbn [app] in Hi.
  exists s'. split; [exact Hs'|]. unfold final_checks.
  rewrite check_mandatory_card_accepts; cbn [bind].
  - assert (Hreq : pend_check_required (pend s') = Ok tt).
    { unfold pend_check_required. destruct (existsb _ (pend s')) eqn:E; [|reflexivity]. exfalso.
      apply existsb_exists in E. destruct E as ([ck ek] & Hin & Hk). cbn in Hk. destruct ck; [|discriminate].
      destruct (i_origin _ _ _ Hi) as [_ Ho]. destruct (Ho ek Hin) as (pre & j & post & Hh & Hek & Hn).
      destruct (v_req _ _ Hv pre j post ek Hh Hek) as (u & Hu & Hue). rewrite (Hn u Hu) in Hue. discriminate. }
    rewrite Hreq. cbn [bind].
    apply (gcs_end_accepts c us); auto.
    + pose proof (v_known _ _ Hv) as Hk. unfold known in Hk. rewrite Forall_forall in Hk. exact Hk.
    + apply (i_gc _ _ _ Hi).
    + apply (v_gc _ _ Hv).
    + apply (v_gc_keys _ _ Hv).
  - apply (i_len _ _ _ Hi).
  - intros i Hil. fold (argdef_of c i). split.
    + intros Hm. apply (i_hasval _ _ _ Hi). apply (v_mand _ _ Hv i Hil Hm).
    + rewrite (i_cnt _ _ _ Hi i Hil). apply card_end_accepts. apply (v_card _ _ Hv i Hil).
Qed.

(** ... in every legal spelling *)
Theorem valid_line_accepted c inits us ws :
  fixed_notify c = true -> specs_canonical c -> length inits = length (args c) ->
  valid c us -> spell c us ws ->
  exists s', eval_arguments c inits [] None ws = Ok s'.
Proof.
  intros Hf Hc Hl Hv Hsp.
  destruct (valid_accepted c inits us Hf Hc Hl Hv) as (s' & Hs' & Hfc).
  exists s'. unfold eval_arguments. cbn [eval_lines bind].
  rewrite (eval_words_spelled c Hf false us ws _ Hsp), Hs'. cbn [bind]. rewrite Hfc. reflexivity.
Qed.
