(** C08: the evaluation of a whole command line through an argument group is
    the evaluation of each member handler on exactly its own part of the line.

    Names in a group are pairs (member, argument index in the member).  A word
    belongs to the first member whose table resolves it (the members before it
    answer "unknown").  Instance of the generic simulation of GenSim.v with the
    state "list of member states" and the element step [offer]. *)
From Coq Require Import List NArith ZArith Bool Arith Lia.
Import ListNotations.
Require Import Celma.Common.Res Celma.Common.ListX Celma.Common.Tactics
               Celma.ArgH.Key Celma.ArgH.Table Celma.ArgH.Lex Celma.ArgH.Handler Celma.ArgH.Spell
               Celma.ArgH.SpellProofs Celma.ArgH.Groups Celma.ArgH.GenSim Celma.ArgH.HandlerSim.

Definition cfg0 : cfg := {| args := []; gcons := []; abbr := true; fixed_notify := true |}.
Definition st0 : hstate := {| arts := []; pend := []; gsts := []; last := None; inv := false |}.
Definition member (cs : list cfg) (m : nat) : cfg := nth m cs cfg0.

Definition gname := (nat * nat)%type.
Definition local (u : guse gname) : use :=
  match u with GFlag i => UFlag (snd i) | GVal i v => UVal (snd i) v | GFree _ => UFlag 0 end.
Definition owner (u : guse gname) : nat :=
  match u with GFlag i => fst i | GVal i _ => fst i | GFree _ => 0 end.
(** a use named by a key (not a free value) *)
Definition keyed (u : guse gname) : Prop := match u with GFree _ => False | _ => True end.

(** one use in a group: the owning member performs it, all other members
    forget their last argument *)
Fixpoint gstep_at (cs : list cfg) (ss : list hstate) (m : nat) (u : use) : res (list hstate) :=
  match cs, ss with
  | c :: cr, s :: sr =>
      match m with
      | O => do s1 <- use_step c s false u; Ok (s1 :: map forget_last sr)
      | S m' => do r <- gstep_at cr sr m' u; Ok (forget_last s :: r)
      end
  | _, _ => Err ERuntime
  end.

(** a free value in a group: whatever Groups::evalArguments does with a value
    element (first the member that identified the last argument, then the
    others); refused by all = the error of the loop *)
Definition gfree_step (cs : list cfg) (ss : list hstate) (v : str) : res (list hstate) :=
  do r <- offer false cs ss (EVal v) (bw []);
  let '(a, ss1, _) := r in
  match a with AUnknown => Err ERuntime | AConsumed => Ok ss1 end.

Definition gustep (cs : list cfg) (ss : list hstate) (u : guse gname) : res (list hstate) :=
  match u with
  | GFree v => gfree_step cs ss v
  | _ => gstep_at cs ss (owner u) (local u)
  end.

(** member [m] is the first one whose table resolves key [k] (to index [j]) *)
Fixpoint owns (cs : list cfg) (m : nat) (k : key) (j : nat) : Prop :=
  match cs with
  | [] => False
  | c :: cr =>
      match m with
      | O => lookup c k = Ok (Some j)
      | S m' => lookup c k = Ok None /\ owns cr m' k j
      end
  end.

Definition glname (cs : list cfg) (i : gname) (w : str) : Prop :=
  w <> [] /\ index_of EQSIGN w = None /\ exists k, parse_key w = Ok k /\ owns cs (fst i) k (snd i).
Definition gsname (cs : list cfg) (i : gname) (ch : N) : Prop :=
  ch <> DASH /\ owns cs (fst i) (key_of_char ch) (snd i).
Definition gtnone (cs : list cfg) (i : gname) : Prop := takes_none (member cs (fst i)) (snd i).
Definition gtreq (cs : list cfg) (i : gname) : Prop := takes_required (member cs (fst i)) (snd i).
Definition gtopt (cs : list cfg) (i : gname) : Prop := takes_optional (member cs (fst i)) (snd i).

(** the legal spellings of a line of group uses *)
Definition gspell_grp (cs : list cfg) : list (guse gname) -> list str -> Prop :=
  gspell gname (glname cs) (gsname cs) (gtnone cs) (gtreq cs) (gtopt cs).

(** the uses of member [m], in line order *)
Fixpoint proj (m : nat) (gus : list (guse gname)) : list use :=
  match gus with
  | [] => []
  | GFree _ :: r => proj m r
  | u :: r => if Nat.eqb (owner u) m then local u :: proj m r else proj m r
  end.

(* ------------------------------------------------------------------ *)
(** * One element owned by member m = one [gstep_at] *)

(** element [e] at [cur] is refused by the members before [m] and performed as
    use [u] by member [m], which leaves the iterator at [it'] *)
Fixpoint routed (cs : list cfg) (m : nat) (e : elem) (cur : it) (u : use) (it' : it) : Prop :=
  match cs with
  | [] => False
  | c :: cr =>
      match m with
      | O => forall s, eval_single c s false e cur = do s1 <- use_step c s false u; Ok (AConsumed, s1, it')
      | S m' => (forall s, eval_single c s false e cur = Ok (AUnknown, with_last s None, cur)) /\
                routed cr m' e cur u it'
      end
  end.

Lemma offer_routed e cur u it' : is_value e = false -> forall cs m ss,
  routed cs m e cur u it' -> length ss = length cs ->
  offer false cs ss e cur = do r <- gstep_at cs ss m u; Ok (AConsumed, r, it').
Proof.
  intros Hv. unfold offer. rewrite Hv. cbn [andb].
  induction cs as [|c cr IH]; intros m ss Hr Hl; [destruct Hr|].
  destruct ss as [|s sr]; [discriminate|]. cbn [routed] in Hr. destruct m as [|m'].
  - cbn [offer_sel gstep_at]. rewrite Hr. destruct (use_step c s false u) as [s1|e1|f1]; cbn [bind]; auto.
    rewrite Hv. reflexivity.
  - destruct Hr as (Hu & Hr). cbn [offer_sel gstep_at]. rewrite Hu. cbn [bind].
    rewrite (IH m' sr Hr) by (cbn in Hl; lia).
    destruct (gstep_at cr sr m' u) as [r|e1|f1]; cbn [bind]; auto. rewrite Hv. reflexivity.
Qed.

Lemma process_flag c s k j cur :
  fixed_notify c = true -> lookup c k = Ok (Some j) -> takes_none c j ->
  process_arg c s false k cur = do s1 <- use_step c s false (UFlag j); Ok (AConsumed, s1, cur).
Proof.
  intros Hfix Hl Hn. unfold process_arg. rewrite Hl. cbn [bind].
  unfold takes_none, argdef_of in Hn. rewrite Hn. unfold use_step, with_last, argdef_of.
  rewrite (handle_identified_key c _ j k (a_key (nth j (args c) dummy_def)) false [] Hfix). reflexivity.
Qed.

Lemma process_unknown c s k cur :
  lookup c k = Ok None -> process_arg c s false k cur = Ok (AUnknown, with_last s None, cur).
Proof. intros Hl. unfold process_arg. rewrite Hl. reflexivity. Qed.

Definition all_fixed (cs : list cfg) : Prop := Forall (fun c => fixed_notify c = true) cs.

Lemma owns_routed_flag e k cur :
  (forall c s, eval_single c s false e cur = process_arg c s false k cur) ->
  forall cs m j, all_fixed cs -> owns cs m k j -> takes_none (member cs m) j ->
  routed cs m e cur (UFlag j) cur.
Proof.
  intros He. induction cs as [|c cr IH]; intros m j Hf Ho Hn; [destruct Ho|].
  inversion Hf as [|? ? Hc Hfr]; subst. cbn [owns] in Ho. cbn [routed]. destruct m as [|m'].
  - intros s. rewrite He. apply process_flag; assumption.
  - destruct Ho as (Hl & Ho). split.
    + intros s. rewrite He. apply process_unknown. exact Hl.
    + apply IH; assumption.
Qed.

Lemma owns_routed_val e k cur v it2 :
  (forall c s, eval_single c s false e cur = process_arg c s false k cur) ->
  next true cur = Ok (Some (EVal v, it2)) ->
  forall cs m j, all_fixed cs -> owns cs m k j -> takes_required (member cs m) j ->
  routed cs m e cur (UVal j v) it2.
Proof.
  intros He Hnx. induction cs as [|c cr IH]; intros m j Hf Ho Hn; [destruct Ho|].
  inversion Hf as [|? ? Hc Hfr]; subst. cbn [owns] in Ho. cbn [routed]. destruct m as [|m'].
  - intros s. rewrite He. apply value_step; assumption.
  - destruct Ho as (Hl & Ho). split.
    + intros s. rewrite He. apply process_unknown. exact Hl.
    + apply IH; assumption.
Qed.

Lemma owns_routed_opt_none e k cur :
  (forall c s, eval_single c s false e cur = process_arg c s false k cur) -> no_value_ahead cur ->
  forall cs m j, all_fixed cs -> owns cs m k j -> takes_optional (member cs m) j ->
  routed cs m e cur (UFlag j) cur.
Proof.
  intros He Hnv. induction cs as [|c cr IH]; intros m j Hf Ho Hn; [destruct Ho|].
  inversion Hf as [|? ? Hc Hfr]; subst. cbn [owns] in Ho. cbn [routed]. destruct m as [|m'].
  - intros s. rewrite He. apply HandlerSim.opt_none_step; assumption.
  - destruct Ho as (Hl & Ho). split.
    + intros s. rewrite He. apply process_unknown. exact Hl.
    + apply IH; assumption.
Qed.

Lemma owns_routed_opt_val e k cur v it2 :
  (forall c s, eval_single c s false e cur = process_arg c s false k cur) ->
  next false cur = Ok (Some (EVal v, it2)) ->
  forall cs m j, all_fixed cs -> owns cs m k j -> takes_optional (member cs m) j ->
  routed cs m e cur (UVal j v) it2.
Proof.
  intros He Hnx. induction cs as [|c cr IH]; intros m j Hf Ho Hn; [destruct Ho|].
  inversion Hf as [|? ? Hc Hfr]; subst. cbn [owns] in Ho. cbn [routed]. destruct m as [|m'].
  - intros s. rewrite He. apply HandlerSim.opt_val_step; assumption.
  - destruct Ho as (Hl & Ho). split.
    + intros s. rewrite He. apply process_unknown. exact Hl.
    + apply IH; assumption.
Qed.

Lemma gstep_at_length cs : forall ss m u ss', gstep_at cs ss m u = Ok ss' -> length ss' = length ss.
Proof.
  induction cs as [|c cr IH]; intros [|s sr] m u ss' H; cbn [gstep_at] in H; try discriminate.
  destruct m as [|m'].
  - destruct (use_step c s false u); cbn [bind] in H; try discriminate. inversion H; subst.
    cbn [length]. rewrite map_length. reflexivity.
  - destruct (gstep_at cr sr m' u) as [r|?|?] eqn:E; cbn [bind] in H; try discriminate. inversion H; subst.
    cbn [length]. rewrite (IH _ _ _ _ E). reflexivity.
Qed.

(* ------------------------------------------------------------------ *)
(** * Free values: the iterator is only passed through *)

Definition with_it {A} (cur : it) (r : res (ares * A * it)) : res (ares * A * it) :=
  do x <- r; let '(a, s1, _) := x in Ok (a, s1, cur).

Lemma eval_single_val_cur c s ic v cur cur' :
  eval_single c s ic (EVal v) cur = with_it cur (eval_single c s ic (EVal v) cur').
Proof.
  unfold eval_single, with_it.
  assert (Hp : (do r <- lookup c POSKEY;
                match r with
                | Some j => do s2 <- handle_identified c s j POSKEY ic v; Ok (AConsumed, s2, cur)
                | None => Ok (AUnknown, s, cur) end)
               = do x <- (do r <- lookup c POSKEY;
                          match r with
                          | Some j => do s2 <- handle_identified c s j POSKEY ic v; Ok (AConsumed, s2, cur')
                          | None => Ok (AUnknown, s, cur') end);
                 let '(a, s1, _) := x in Ok (a, s1, cur)).
  { destruct (lookup c POSKEY) as [[j|]|?|?]; cbn [bind]; auto.
    destruct (handle_identified c s j POSKEY ic v); reflexivity. }
  destruct (last s) as [i|]; [|exact Hp].
  destruct (a_multi (nth i (args c) dummy_def)); [|exact Hp].
  destruct (assign_value c s i ic v); reflexivity.
Qed.

Lemma offer_sel_val_cur sel v cur cur' : forall cs ss,
  offer_sel sel false cs ss (EVal v) cur = with_it cur (offer_sel sel false cs ss (EVal v) cur').
Proof.
  induction cs as [|c cr IH]; intros [|s sr]; try reflexivity. cbn [offer_sel].
  destruct (sel s).
  - rewrite (eval_single_val_cur c s false v cur cur'). unfold with_it at 1.
    destruct (eval_single c s false (EVal v) cur') as [[[a s1] i1]|?|?]; cbn [bind with_it]; auto.
    destruct a; cbn [bind]; auto.
    rewrite (IH sr). unfold with_it.
    destruct (offer_sel sel false cr sr (EVal v) cur') as [[[a2 sr'] i2]|?|?]; reflexivity.
  - rewrite (IH sr). unfold with_it.
    destruct (offer_sel sel false cr sr (EVal v) cur') as [[[a2 sr'] i2]|?|?]; reflexivity.
Qed.

Lemma offer_val_cur v cur cur' cs ss :
  offer false cs ss (EVal v) cur = with_it cur (offer false cs ss (EVal v) cur').
Proof.
  unfold offer. cbn [is_value negb andb].
  rewrite (offer_sel_val_cur has_last v cur cur'). unfold with_it at 1.
  destruct (offer_sel has_last false cs ss (EVal v) cur') as [[[a ss1] i1]|?|?]; cbn [bind with_it]; auto.
  destruct a; auto. apply offer_sel_val_cur.
Qed.

Lemma offer_sel_length sel e cur : forall cs ss a ss' i',
  offer_sel sel false cs ss e cur = Ok (a, ss', i') -> length ss' = length ss.
Proof.
  induction cs as [|c cr IH]; intros [|s sr] a ss' i' H; cbn [offer_sel] in H; try (inversion H; reflexivity).
  destruct (sel s).
  - destruct (eval_single c s false e cur) as [[[a1 s1] i1]|?|?]; cbn [bind] in H; try discriminate.
    destruct a1.
    + cbn [orb] in H. destruct (is_value e); inversion H; subst; cbn [length]; rewrite ?map_length; reflexivity.
    + destruct (offer_sel sel false cr sr e cur) as [[[a2 sr'] i2]|?|?] eqn:E; cbn [bind] in H; try discriminate.
      inversion H; subst. cbn [length]. rewrite (IH _ _ _ _ E). reflexivity.
  - destruct (offer_sel sel false cr sr e cur) as [[[a2 sr'] i2]|?|?] eqn:E; cbn [bind] in H; try discriminate.
    inversion H; subst. cbn [length]. rewrite (IH _ _ _ _ E). reflexivity.
Qed.

Lemma offer_length e cur cs ss a ss' i' :
  offer false cs ss e cur = Ok (a, ss', i') -> length ss' = length ss.
Proof.
  unfold offer. destruct (is_value e && negb false).
  - destruct (offer_sel has_last false cs ss e cur) as [[[a1 ss1] i1]|?|?] eqn:E; cbn [bind]; try discriminate.
    destruct a1.
    + intros H; inversion H; subst. eapply offer_sel_length; eauto.
    + intros H. rewrite (offer_sel_length _ _ _ _ _ _ _ _ H). eapply offer_sel_length; eauto.
  - apply offer_sel_length.
Qed.

(* ------------------------------------------------------------------ *)
(** * The group loop on a spelled line = fold of [gustep] *)

Lemma iterate_group_giter cs fuel : forall ss cur,
  iterate_group fuel false cs ss cur = giter (list hstate) (offer false cs) ERuntime fuel ss cur.
Proof.
  induction fuel as [|f IH]; intros ss [[e i0]|]; cbn [iterate_group giter]; try reflexivity.
  destruct (offer false cs ss e i0) as [[[a s1] i1]|?|?]; cbn [bind]; auto.
  destruct a; auto. destruct (next false i1); cbn [bind]; auto.
Qed.

Theorem group_words_spelled cs gus ws ss :
  all_fixed cs -> length ss = length cs -> gspell_grp cs gus ws ->
  (do f0 <- first ws; iterate_group (S (words_size ws)) false cs ss f0)
  = gfold gname (list hstate) (gustep cs) ss gus.
Proof.
  intros Hf Hl Hsp.
  rewrite <- (gspell_eval gname (list hstate) (fun s => length s = length cs) (offer false cs) ERuntime
                (gustep cs) (glname cs) (gsname cs) (gtnone cs) (gtreq cs) (gtopt cs)) with (ws := ws); auto.
  - destruct (first ws); cbn [bind]; auto. apply iterate_group_giter.
  - intros i w (Hw & He & _). auto.
  - intros i ch (Hc & _). exact Hc.
  - intros s u s' Hs Hu. unfold gustep in Hu. destruct u as [i|i v|v].
    + rewrite (gstep_at_length _ _ _ _ _ Hu). exact Hs.
    + rewrite (gstep_at_length _ _ _ _ _ Hu). exact Hs.
    + unfold gfree_step in Hu.
      destruct (offer false cs s (EVal v) (bw [])) as [[[a ss1] i1]|?|?] eqn:E; cbn [bind] in Hu; try discriminate.
      destruct a; inversion Hu; subst. rewrite (offer_length _ _ _ _ _ _ _ E). exact Hs.
  - intros s [m j] w cur Hs (Hw & He & k & Hk & Ho) Hn. unfold gustep. cbn [owner local fst snd] in *.
    apply offer_routed; auto.
    apply (owns_routed_flag (EStr w) k cur); auto.
    intros c s0. unfold eval_single. rewrite Hk. reflexivity.
  - intros s [m j] ch cur Hs (Hc & Ho) Hn. unfold gustep. cbn [owner local fst snd] in *.
    apply offer_routed; auto.
    apply (owns_routed_flag (EChar ch) (key_of_char ch) cur); auto.
  - intros s [m j] w cur v it2 Hs (Hw & He & k & Hk & Ho) Hn Hnx. unfold gustep. cbn [owner local fst snd] in *.
    apply offer_routed; auto.
    apply (owns_routed_val (EStr w) k cur v it2); auto.
    intros c s0. unfold eval_single. rewrite Hk. reflexivity.
  - intros s [m j] ch cur v it2 Hs (Hc & Ho) Hn Hnx. unfold gustep. cbn [owner local fst snd] in *.
    apply offer_routed; auto.
    apply (owns_routed_val (EChar ch) (key_of_char ch) cur v it2); auto.
  - intros s [m j] w cur Hs (Hw & He & k & Hk & Ho) Hn Hnv. unfold gustep. cbn [owner local fst snd] in *.
    apply offer_routed; auto.
    apply (owns_routed_opt_none (EStr w) k cur); auto.
    intros c s0. unfold eval_single. rewrite Hk. reflexivity.
  - intros s [m j] ch cur Hs (Hc & Ho) Hn Hnv. unfold gustep. cbn [owner local fst snd] in *.
    apply offer_routed; auto.
    apply (owns_routed_opt_none (EChar ch) (key_of_char ch) cur); auto.
  - intros s [m j] w cur v it2 Hs (Hw & He & k & Hk & Ho) Hn Hnx. unfold gustep. cbn [owner local fst snd] in *.
    apply offer_routed; auto.
    apply (owns_routed_opt_val (EStr w) k cur v it2); auto.
    intros c s0. unfold eval_single. rewrite Hk. reflexivity.
  - intros s [m j] ch cur v it2 Hs (Hc & Ho) Hn Hnx. unfold gustep. cbn [owner local fst snd] in *.
    apply offer_routed; auto.
    apply (owns_routed_opt_val (EChar ch) (key_of_char ch) cur v it2); auto.
  - intros s v cur _. unfold gustep, gfree_step. rewrite (offer_val_cur v cur (bw [])). unfold with_it.
    destruct (offer false cs s (EVal v) (bw [])) as [[[a ss1] i1]|?|?]; cbn [bind]; auto. destruct a; reflexivity.
Qed.

(* ------------------------------------------------------------------ *)
(** * The fold of [gustep] = every member folds its own uses *)

Lemma use_step_forget c s ic u : use_step c (forget_last s) ic u = use_step c s ic u.
Proof. destruct u; reflexivity. Qed.

Lemma use_step_sim c s s' ic u : forget_last s = forget_last s' -> use_step c s ic u = use_step c s' ic u.
Proof. intros H. rewrite <- use_step_forget, H, use_step_forget. reflexivity. Qed.

Definition fl (r : res hstate) : res hstate :=
  match r with Ok s => Ok (forget_last s) | Err e => Err e | Fault f => Fault f end.

Lemma fold_uses_sim c ic us s s' :
  forget_last s = forget_last s' -> fl (fold_uses c s ic us) = fl (fold_uses c s' ic us).
Proof.
  intros H. destruct us as [|u r]; cbn [fold_uses fl].
  - f_equal. exact H.
  - rewrite (use_step_sim c s s' ic u H). reflexivity.
Qed.

Lemma final_checks_sim c s s' : forget_last s = forget_last s' -> final_checks c s = final_checks c s'.
Proof.
  intros H. unfold final_checks.
  assert (Ha : arts s = arts s') by (apply (f_equal arts) in H; exact H).
  assert (Hp : pend s = pend s') by (apply (f_equal pend) in H; exact H).
  assert (Hg : gsts s = gsts s') by (apply (f_equal gsts) in H; exact H).
  rewrite Ha, Hp, Hg. reflexivity.
Qed.

Lemma nth_map_forget l : forall m, m < length l -> nth m (map forget_last l) st0 = forget_last (nth m l st0).
Proof.
  induction l as [|x r IH]; intros [|m] H; cbn in *; try lia; auto. apply IH. lia.
Qed.

Lemma gstep_at_nth cs : forall ss m0 u ss1,
  length ss = length cs -> gstep_at cs ss m0 u = Ok ss1 ->
  use_step (member cs m0) (nth m0 ss st0) false u = Ok (nth m0 ss1 st0) /\
  forall m, m <> m0 -> m < length cs -> nth m ss1 st0 = forget_last (nth m ss st0).
Proof.
  induction cs as [|c cr IH]; intros [|s sr] m0 u ss1 Hl H; cbn [gstep_at] in H; try discriminate.
  destruct m0 as [|m0'].
  - destruct (use_step c s false u) as [s1|?|?] eqn:E; cbn [bind] in H; try discriminate.
    inversion H; subst. split; [exact E|].
    intros [|m] Hm Hlt; [congruence|]. cbn [nth]. apply nth_map_forget. cbn in Hl, Hlt. lia.
  - destruct (gstep_at cr sr m0' u) as [r|?|?] eqn:E; cbn [bind] in H; try discriminate.
    inversion H; subst. destruct (IH sr m0' u r ltac:(cbn in Hl; lia) E) as (Hu & Ho). split.
    + exact Hu.
    + intros [|m] Hm Hlt; [reflexivity|]. cbn [nth]. apply Ho; [congruence|cbn in Hlt; lia].
Qed.

Lemma gstep_at_ok cs : forall ss m0 u s1,
  length ss = length cs -> m0 < length cs ->
  use_step (member cs m0) (nth m0 ss st0) false u = Ok s1 ->
  exists ss1, gstep_at cs ss m0 u = Ok ss1.
Proof.
  induction cs as [|c cr IH]; intros [|s sr] m0 u s1 Hl Hm H; cbn in Hl, Hm; try lia.
  cbn [gstep_at]. destruct m0 as [|m0'].
  - cbn in H. rewrite H. cbn [bind]. eauto.
  - destruct (IH sr m0' u s1 ltac:(lia) ltac:(lia) H) as (r & Hr). rewrite Hr. cbn [bind]. eauto.
Qed.

Lemma forget_forget s : forget_last (forget_last s) = forget_last s.
Proof. reflexivity. Qed.

Lemma gustep_keyed cs ss u : keyed u -> gustep cs ss u = gstep_at cs ss (owner u) (local u).
Proof. destruct u; cbn; tauto. Qed.

Lemma proj_keyed m u r : keyed u ->
  proj m (u :: r) = if Nat.eqb (owner u) m then local u :: proj m r else proj m r.
Proof. destruct u; cbn; tauto. Qed.

(** a successful group fold: every member folds its own uses successfully and
    ends in the same state (up to the transient "last argument") *)
Lemma gfold_proj cs : forall gus ss ss',
  Forall keyed gus -> length ss = length cs ->
  gfold gname (list hstate) (gustep cs) ss gus = Ok ss' ->
  length ss' = length cs /\
  forall m, m < length cs ->
    exists sm, fold_uses (member cs m) (nth m ss st0) false (proj m gus) = Ok sm /\
               forget_last sm = forget_last (nth m ss' st0).
Proof.
  induction gus as [|u r IH]; intros ss ss' Hk Hl H; cbn [gfold] in H.
  - inversion H; subst. split; [exact Hl|]. intros m Hm. exists (nth m ss' st0). split; reflexivity.
  - inversion Hk as [|? ? Hku Hkr]; subst.
    destruct (gustep cs ss u) as [ss1|?|?] eqn:E; cbn [bind] in H; try discriminate.
    rewrite (gustep_keyed _ _ _ Hku) in E.
    assert (Hl1 : length ss1 = length cs) by (rewrite (gstep_at_length _ _ _ _ _ E); exact Hl).
    destruct (gstep_at_nth cs ss _ _ ss1 Hl E) as (Hu & Ho).
    destruct (IH ss1 ss' Hkr Hl1 H) as (Hl' & Hall). split; [exact Hl'|].
    intros m Hm. rewrite (proj_keyed m u r Hku). destruct (Nat.eqb_spec (owner u) m) as [Heq|Hne].
    + subst m. cbn [fold_uses]. rewrite Hu. cbn [bind]. apply Hall. exact Hm.
    + destruct (Hall m Hm) as (sm & Hf & Hs). rewrite (Ho m ltac:(congruence) Hm) in Hf.
      pose proof (fold_uses_sim (member cs m) false (proj m r) _ _ (forget_forget (nth m ss st0))) as Hsim.
      rewrite Hf in Hsim.
      destruct (fold_uses (member cs m) (nth m ss st0) false (proj m r)) as [sm'|?|?]; cbn [fl] in Hsim;
        try discriminate.
      exists sm'. split; [reflexivity|]. inversion Hsim. congruence.
Qed.

(** and conversely: when every member folds its own uses successfully, so does
    the group *)
Lemma gfold_proj_conv cs : forall gus ss,
  Forall keyed gus -> length ss = length cs -> Forall (fun u => owner u < length cs) gus ->
  (forall m, m < length cs -> is_ok (fold_uses (member cs m) (nth m ss st0) false (proj m gus)) = true) ->
  is_ok (gfold gname (list hstate) (gustep cs) ss gus) = true.
Proof.
  induction gus as [|u r IH]; intros ss Hk Hl Hown Hall; [reflexivity|].
  inversion Hown as [|? ? Hu Hr]; subst. inversion Hk as [|? ? Hku Hkr]; subst. cbn [gfold].
  pose proof (Hall (owner u) Hu) as H0. rewrite (proj_keyed _ u r Hku), Nat.eqb_refl in H0. cbn [fold_uses] in H0.
  destruct (use_step (member cs (owner u)) (nth (owner u) ss st0) false (local u)) as [s1|?|?] eqn:E;
    cbn [bind is_ok] in H0; try discriminate.
  destruct (gstep_at_ok cs ss (owner u) (local u) s1 Hl Hu E) as (ss1 & Hg).
  rewrite (gustep_keyed _ _ _ Hku), Hg. cbn [bind].
  assert (Hl1 : length ss1 = length cs) by (rewrite (gstep_at_length _ _ _ _ _ Hg); exact Hl).
  destruct (gstep_at_nth cs ss _ _ ss1 Hl Hg) as (Hus & Ho).
  apply IH; auto. intros m Hm. destruct (Nat.eq_dec m (owner u)) as [Heq|Hne].
  - subst m. rewrite E in Hus. inversion Hus as [Hs1]. rewrite <- Hs1. exact H0.
  - rewrite (Ho m Hne Hm).
    pose proof (Hall m Hm) as Hm'. rewrite (proj_keyed m u r Hku) in Hm'.
    destruct (Nat.eqb_spec (owner u) m) as [Heq|_]; [congruence|].
    pose proof (fold_uses_sim (member cs m) false (proj m r) _ _ (forget_forget (nth m ss st0))) as Hsim.
    destruct (fold_uses (member cs m) (nth m ss st0) false (proj m r)); cbn [is_ok] in Hm'; try discriminate.
    destruct (fold_uses (member cs m) (forget_last (nth m ss st0)) false (proj m r)); cbn [fl] in Hsim;
      try discriminate. reflexivity.
Qed.

(* ------------------------------------------------------------------ *)
(** * The complete group evaluation *)

Lemma group_final_nth cs : forall ss, length ss = length cs ->
  (group_final false cs ss = Ok tt <->
   forall m, m < length cs -> final_checks (member cs m) (nth m ss st0) = Ok tt).
Proof.
  induction cs as [|c cr IH]; intros [|s sr] Hl; cbn in Hl; try lia.
  - cbn. split; [intros _ m Hm; lia|reflexivity].
  - cbn [group_final length]. split.
    + intros H. destruct (final_checks c s) as [[]|?|?] eqn:E; cbn [bind] in H; try discriminate.
      intros [|m] Hm; [exact E|]. cbn [member nth]. apply (IH sr ltac:(lia)); [exact H|lia].
    + intros H. pose proof (H 0 ltac:(lia)) as H0. cbn in H0. rewrite H0. cbn [bind].
      apply (IH sr ltac:(lia)). intros m Hm. apply (H (S m)). lia.
Qed.

Lemma owns_lt cs : forall m k j, owns cs m k j -> m < length cs.
Proof.
  induction cs as [|c cr IH]; intros m k j H; [destruct H|]. destruct m as [|m']; cbn in *; [lia|].
  destruct H as (_ & H). apply IH in H. lia.
Qed.

Lemma gspell_owner_lt cs gus ws : cs <> [] -> gspell_grp cs gus ws -> Forall (fun u => owner u < length cs) gus.
Proof.
  assert (Hl : forall i w, glname cs i w -> fst i < length cs).
  { intros i w (_ & _ & k & _ & Ho). eapply owns_lt; eauto. }
  assert (Hs : forall i ch, gsname cs i ch -> fst i < length cs).
  { intros i ch (_ & Ho). eapply owns_lt; eauto. }
  assert (Hfs : forall fs, gflags_ok gname (gsname cs) (gtnone cs) fs ->
                           Forall (fun u => owner u < length cs) (map (fun p => GFlag (fst p)) fs)).
  { induction fs as [|[i ch] fr IHf]; intros Hf; cbn [map]; constructor;
      inversion Hf as [|? ? (Hsn & _) Hr]; subst; eauto. }
  intros Hne. assert (H0 : 0 < length cs) by (destruct cs; [congruence|cbn; lia]).
  unfold gspell_grp. induction 1.
  all: repeat match goal with
       | |- Forall _ (_ ++ _) => apply Forall_app; split
       | |- Forall _ (repeat _ _) => apply Forall_forall; intros ? Hrep; apply repeat_spec in Hrep; subst
       | |- Forall _ (map (fun p => GFlag (fst p)) _) => apply Hfs; assumption
       | |- Forall _ (map GFree _) =>
           apply Forall_forall; intros ? Hu; apply in_map_iff in Hu; destruct Hu as (? & <- & _)
       | |- Forall _ (_ :: _) => constructor
       | |- Forall _ [] => constructor
       end; cbn [owner]; eauto.
Qed.

Lemma init_states_length cs : forall initss, length initss = length cs ->
  length (map (fun p => init_state (fst p) (snd p)) (combine cs initss)) = length cs.
Proof. intros initss H. rewrite map_length, combine_length. lia. Qed.

Lemma init_states_nth cs : forall initss m, length initss = length cs -> m < length cs ->
  nth m (map (fun p => init_state (fst p) (snd p)) (combine cs initss)) st0
  = init_state (member cs m) (nth m initss []).
Proof.
  induction cs as [|c cr IH]; intros [|i ir] m Hl Hm; cbn in Hl, Hm; try lia.
  destruct m as [|m']; [reflexivity|]. cbn [combine map nth member]. apply IH; lia.
Qed.

Lemma eval_group_unfold c cr initss ws :
  eval_group false false (c :: cr) initss ws =
  do ss1 <- (do f <- first ws;
             iterate_group (S (words_size ws)) false (c :: cr)
               (map (fun p => init_state (fst p) (snd p)) (combine (c :: cr) initss)) f);
  do _ <- group_final false (c :: cr) ss1; Ok ss1.
Proof. unfold eval_group. destruct (first ws); reflexivity. Qed.

(** Group evaluation of a spelled line returns normally => every member
    handler, evaluating alone exactly its own uses in line order, accepts them,
    passes its complete end-of-line checks and stores the same values. *)
Theorem group_projection cs initss gus ws ss' :
  all_fixed cs -> length initss = length cs -> gspell_grp cs gus ws -> Forall keyed gus ->
  eval_group false false cs initss ws = Ok ss' ->
  forall m, m < length cs ->
    exists sm, fold_uses (member cs m) (init_state (member cs m) (nth m initss [])) false (proj m gus) = Ok sm /\
               final_checks (member cs m) sm = Ok tt /\
               forget_last sm = forget_last (nth m ss' st0).
Proof.
  intros Hf Hl Hsp Hk H m Hm. destruct cs as [|c cr]; [cbn in Hm; lia|].
  rewrite eval_group_unfold in H.
  rewrite (group_words_spelled (c :: cr) gus ws _ Hf (init_states_length _ _ Hl) Hsp) in H.
  destruct (gfold _ _ _ _ gus) as [ss1|?|?] eqn:E; cbn [bind] in H; try discriminate.
  destruct (group_final false (c :: cr) ss1) as [[]|?|?] eqn:Eg; cbn [bind] in H; try discriminate.
  inversion H; subst ss1.
  destruct (gfold_proj (c :: cr) gus _ ss' Hk (init_states_length _ _ Hl) E) as (Hl' & Hall).
  destruct (Hall m Hm) as (sm & Hfold & Hs). rewrite init_states_nth in Hfold by assumption.
  exists sm. splits; auto.
  rewrite (final_checks_sim _ _ _ Hs). apply (proj1 (group_final_nth (c :: cr) ss' Hl') Eg m Hm).
Qed.

(** ... and conversely the group accepts every line whose parts the members
    accept *)
Theorem group_accepts cs initss gus ws :
  cs <> [] -> all_fixed cs -> length initss = length cs -> gspell_grp cs gus ws -> Forall keyed gus ->
  (forall m, m < length cs ->
     exists sm, fold_uses (member cs m) (init_state (member cs m) (nth m initss [])) false (proj m gus) = Ok sm /\
                final_checks (member cs m) sm = Ok tt) ->
  exists ss', eval_group false false cs initss ws = Ok ss'.
Proof.
  intros Hne Hf Hl Hsp Hk Hall. destruct cs as [|c cr]; [congruence|].
  rewrite eval_group_unfold.
  rewrite (group_words_spelled (c :: cr) gus ws _ Hf (init_states_length _ _ Hl) Hsp).
  pose proof (gfold_proj_conv (c :: cr) gus _ Hk (init_states_length _ _ Hl) (gspell_owner_lt _ _ _ Hne Hsp)) as Hc.
  destruct (gfold _ _ _ _ gus) as [ss1|?|?] eqn:E.
  - cbn [bind]. destruct (gfold_proj (c :: cr) gus _ ss1 Hk (init_states_length _ _ Hl) E) as (Hl' & Hp).
    assert (Hg : group_final false (c :: cr) ss1 = Ok tt).
    { apply (group_final_nth (c :: cr) ss1 Hl'). intros m Hm.
      destruct (Hall m Hm) as (sm & Hfo & Hfin). destruct (Hp m Hm) as (sm' & Hfo' & Hs).
      rewrite init_states_nth in Hfo' by assumption. rewrite Hfo in Hfo'. inversion Hfo'; subst sm'.
      rewrite <- (final_checks_sim _ _ _ Hs). exact Hfin. }
    rewrite Hg. cbn [bind]. eauto.
  - exfalso. cbn [is_ok] in Hc. assert (false = true); [|discriminate]. apply Hc. intros m Hm.
    destruct (Hall m Hm) as (sm & Hfo & _). rewrite init_states_nth by assumption. rewrite Hfo. reflexivity.
  - exfalso. cbn [is_ok] in Hc. assert (false = true); [|discriminate]. apply Hc. intros m Hm.
    destruct (Hall m Hm) as (sm & Hfo & _). rewrite init_states_nth by assumption. rewrite Hfo. reflexivity.
Qed.

(** the same with the stand-alone evaluation of the member spelled out: any
    legal spelling [wsm] of the member's part, evaluated by the member alone
    through Handler::evalArguments *)
Corollary group_member_standalone cs initss gus ws ss' :
  all_fixed cs -> length initss = length cs -> gspell_grp cs gus ws -> Forall keyed gus ->
  eval_group false false cs initss ws = Ok ss' ->
  forall m wsm, m < length cs -> spell (member cs m) (proj m gus) wsm ->
    exists sm, eval_arguments (member cs m) (nth m initss []) [] None wsm = Ok sm /\
               arts sm = arts (nth m ss' st0) /\ pend sm = pend (nth m ss' st0) /\ gsts sm = gsts (nth m ss' st0).
Proof.
  intros Hf Hl Hsp Hk H m wsm Hm Hw.
  destruct (group_projection cs initss gus ws ss' Hf Hl Hsp Hk H m Hm) as (sm & Hfo & Hfin & Hs).
  exists sm. split.
  - unfold eval_arguments. cbn [eval_lines bind].
    assert (Hfm : fixed_notify (member cs m) = true).
    { unfold member. clear - Hf Hm. revert m Hm. induction Hf; intros [|m] Hm; cbn in *; try lia; auto.
      apply IHHf. lia. }
    rewrite (eval_words_spelled (member cs m) Hfm false (proj m gus) wsm _ Hw), Hfo. cbn [bind].
    rewrite Hfin. reflexivity.
  - splits; [apply (f_equal arts) in Hs|apply (f_equal pend) in Hs|apply (f_equal gsts) in Hs]; exact Hs.
Qed.
