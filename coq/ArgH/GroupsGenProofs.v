(** The generic group loop: (1) with plain member handlers it is
    [eval_group false false]; (2) members that own no sub-group argument behave
    like plain members; (3) it is total - never a read outside a word, never
    out of fuel - for plain members and for members with sub-group arguments. *)
From Coq Require Import List NArith ZArith Bool Arith Lia.
Import ListNotations.
Require Import Celma.Common.Res Celma.Common.ListX Celma.Common.Tactics
               Celma.ArgH.Key Celma.ArgH.Table Celma.ArgH.Lex Celma.ArgH.Handler Celma.ArgH.SafeProofs
               Celma.ArgH.Groups Celma.ArgH.SubGroup Celma.ArgH.SubGroupProofs Celma.ArgH.GroupsGen.

(* ------------------------------------------------------------------ *)
(** * (1) plain members *)

Definition plain_step (c : cfg) (s : hstate) (e : elem) (cur : it) := eval_single c s false e cur.

Lemma goffer_sel_plain sel e cur : forall cs ss,
  goffer_sel plain_step forget_last sel cs ss e cur = offer_sel sel false cs ss e cur.
Proof.
  induction cs as [|c cr IH]; intros [|s sr]; cbn [goffer_sel offer_sel orb]; try reflexivity.
  rewrite IH. reflexivity.
Qed.

Lemma goffer_plain cs ss e cur :
  goffer plain_step forget_last has_last cs ss e cur = offer false cs ss e cur.
Proof.
  unfold goffer, offer. cbn [negb]. rewrite andb_true_r. destruct (is_value e).
  - rewrite goffer_sel_plain. destruct (offer_sel has_last false cs ss e cur) as [[[a ss1] i1]|?|?]; cbn [bind]; auto.
    destruct a; auto. apply goffer_sel_plain.
  - apply goffer_sel_plain.
Qed.

Lemma giterate_plain cs : forall fuel ss cur,
  giterate plain_step forget_last has_last fuel cs ss cur = iterate_group fuel false cs ss cur.
Proof.
  induction fuel as [|f IH]; intros ss [[e i0]|]; cbn [giterate iterate_group]; try reflexivity.
  rewrite goffer_plain. destruct (offer false cs ss e i0) as [[[a ss1] i1]|?|?]; cbn [bind]; auto.
  destruct a; auto. destruct (next false i1); cbn [bind]; auto.
Qed.

Lemma gfinal_plain : forall cs ss, gfinal final_checks cs ss = group_final false cs ss.
Proof.
  induction cs as [|c cr IH]; intros [|s sr]; cbn [gfinal group_final]; try reflexivity.
  destruct (final_checks c s); cbn [bind]; auto.
Qed.

Theorem geval_plain cs initss argv :
  geval plain_step forget_last has_last final_checks cs
        (map (fun p => init_state (fst p) (snd p)) (combine cs initss)) argv
  = eval_group false false cs initss argv.
Proof.
  unfold geval, eval_group. destruct cs as [|c cr]; [reflexivity|].
  destruct (first argv); cbn [bind]; auto.
  rewrite giterate_plain. destruct (iterate_group _ _ _ _ _); cbn [bind]; auto.
  rewrite gfinal_plain. reflexivity.
Qed.

(* ------------------------------------------------------------------ *)
(** * (3) totality, for any kind of member whose single step is safe *)

Section Total.
Context {C St : Type}.
Variable step : C -> St -> elem -> it -> res (ares * St * it).
Variable forget : St -> St.
Variable haslast : St -> bool.
Variable final : C -> St -> res unit.

Definition gstep_ok (i0 : it) (r : res (ares * St * it)) : Prop :=
  match r with
  | Fault _ => False
  | Ok (_, _, i1) => it_ok i1 /\ msize i1 <= msize i0
  | Err _ => True
  end.
Definition goffer_ok (i0 : it) (r : res (ares * list St * it)) : Prop :=
  match r with
  | Fault _ => False
  | Ok (_, _, i1) => it_ok i1 /\ msize i1 <= msize i0
  | Err _ => True
  end.

Hypothesis step_safe : forall c s e cur, it_ok cur -> gstep_ok cur (step c s e cur).
Hypothesis final_safe : forall c s, nofault (final c s).

Lemma goffer_sel_ok sel e cur : it_ok cur -> forall cs ss, goffer_ok cur (goffer_sel step forget sel cs ss e cur).
Proof.
  intros Hok. induction cs as [|c cr IH]; intros [|s sr]; cbn [goffer_sel goffer_ok]; try (split; [exact Hok|lia]).
  specialize (IH sr). destruct (sel s).
  - pose proof (step_safe c s e cur Hok) as Hs.
    destruct (step c s e cur) as [[[a s1] i1]|?|?]; cbn [bind gstep_ok goffer_ok] in *; auto.
    destruct a; cbn [goffer_ok]; auto.
    destruct (goffer_sel step forget sel cr sr e cur) as [[[a2 sr'] i2]|?|?]; cbn [bind goffer_ok] in *; auto.
  - destruct (goffer_sel step forget sel cr sr e cur) as [[[a2 sr'] i2]|?|?]; cbn [bind goffer_ok] in *; auto.
Qed.

Lemma goffer_all_ok cs ss e cur : it_ok cur -> goffer_ok cur (goffer step forget haslast cs ss e cur).
Proof.
  intros Hok. unfold goffer. destruct (is_value e); [|apply goffer_sel_ok; exact Hok].
  pose proof (goffer_sel_ok haslast e cur Hok cs ss) as H1.
  destruct (goffer_sel step forget haslast cs ss e cur) as [[[a ss1] i1]|?|?]; cbn [bind goffer_ok] in *; auto.
  destruct a; cbn [goffer_ok]; auto. apply goffer_sel_ok. exact Hok.
Qed.

Lemma giterate_nofault cs : forall fuel ss e i0,
  it_ok i0 -> msize i0 < fuel -> nofault (giterate step forget haslast fuel cs ss (Some (e, i0))).
Proof.
  induction fuel as [|f IH]; intros ss e i0 Hok Hm; [lia|]. cbn [giterate].
  pose proof (goffer_all_ok cs ss e i0 Hok) as Ho.
  destruct (goffer step forget haslast cs ss e i0) as [[[a ss1] i1]|?|?]; cbn [bind goffer_ok nofault] in *; auto.
  destruct Ho as [Hok1 Hm1]. destruct a; cbn [nofault]; auto.
  pose proof (next_ok false i1 Hok1) as Hn.
  destruct (next false i1) as [[[e2 i2]|]|?|?]; cbn [bind step_ok nofault] in *; auto.
  - destruct Hn. apply IH; auto. lia.
  - destruct f; cbn; auto.
Qed.

Lemma gfinal_nofault : forall cs ss, nofault (gfinal final cs ss).
Proof.
  induction cs as [|c cr IH]; intros [|s sr]; cbn [gfinal nofault]; auto.
  apply bind_nofault; [apply final_safe|intros; apply IH].
Qed.

Theorem geval_nofault cs ss argv : nofault (geval step forget haslast final cs ss argv).
Proof.
  unfold geval. destruct cs as [|c cr]; [exact I|].
  pose proof (first_ok argv) as Hf.
  destruct (first argv) as [[[e i0]|]|?|?]; cbn [bind step_ok nofault] in *; auto.
  - destruct Hf. apply bind_nofault; [apply giterate_nofault; auto|intros ss1 _].
    apply bind_nofault; [apply gfinal_nofault|intros; exact I].
  - cbn [giterate bind]. apply bind_nofault; [apply gfinal_nofault|intros; exact I].
Qed.

End Total.

(** an argument group of plain handlers: evaluation of ANY words is total *)
Theorem eval_group_nofault cs initss argv : nofault (eval_group false false cs initss argv).
Proof.
  rewrite <- geval_plain. apply geval_nofault.
  - intros c s e cur Hok. pose proof (eval_single_ok c s false e cur Hok) as H. unfold plain_step, gstep_ok.
    destruct (eval_single c s false e cur) as [[[a s1] i1]|?|?]; cbn [single_ok] in *; auto.
  - intros c s. apply final_checks_nofault.
Qed.

(** ... and so is a group whose members own sub-group arguments *)
Theorem eval_group_sg_nofault cs inits argv : nofault (eval_group_sg cs inits argv).
Proof.
  unfold eval_group_sg. apply geval_nofault.
  - intros c st e cur Hok. pose proof (step_sg_ok c st false e cur Hok) as H. unfold gstep_ok.
    destruct (step_sg false c st false e cur) as [[[a s1] i1]|?|?]; cbn [single_ok_sg] in *; auto.
  - intros c st. apply final_checks_sg_nofault.
Qed.

(* ------------------------------------------------------------------ *)
(** * (2) members without sub-group arguments are plain members *)

Definition emb (m : hstate) : sgstate := {| sm := m; ss := []; scnt := []; scal := [] |}.
Definition plain_sg (c : cfg) : sgcfg := {| sg_main := c; sg_subs := []; sg_rules := [] |}.

Definition lift_r (r : res (ares * list hstate * it)) : res (ares * list sgstate * it) :=
  do x <- r; let '(a, l, i) := x in Ok (a, map emb l, i).

Lemma forget_sg_emb m : forget_sg (emb m) = emb (forget_last m).
Proof. reflexivity. Qed.

Lemma map_forget_emb l : map forget_sg (map emb l) = map emb (map forget_last l).
Proof. rewrite !map_map. apply map_ext. intros; reflexivity. Qed.

Lemma goffer_sel_sg_plain (sel : hstate -> bool) e cur : forall cs ss,
  goffer_sel (fun c st => step_sg false c st false) forget_sg (fun st => sel (sm st))
             (map plain_sg cs) (map emb ss) e cur
  = lift_r (goffer_sel plain_step forget_last sel cs ss e cur).
Proof.
  induction cs as [|c cr IH]; intros [|s sr]; cbn [map goffer_sel lift_r bind]; try reflexivity.
  cbn [emb sm]. rewrite IH. clear IH.
  rewrite (step_sg_conservative (plain_sg c) eq_refl false (emb s) false e cur). unfold lift_main.
  cbn [plain_sg sg_main emb sm ss scnt scal].
  change (eval_single c s false e cur) with (plain_step c s e cur).
  destruct (sel s).
  - destruct (plain_step c s e cur) as [[[a s1] i1]|?|?]; cbn [bind lift_r]; auto.
    destruct a; cbn [bind lift_r].
    + destruct (is_value e); cbn [map]; [reflexivity|]. rewrite map_forget_emb. reflexivity.
    + destruct (goffer_sel plain_step forget_last sel cr sr e cur) as [[[a2 sr'] i2]|?|?]; cbn [bind lift_r]; auto.
      destruct a2; cbn [map]; try reflexivity. destruct (is_value e); reflexivity.
  - destruct (goffer_sel plain_step forget_last sel cr sr e cur) as [[[a2 sr'] i2]|?|?]; cbn [bind lift_r]; auto.
    destruct a2; cbn [map]; try reflexivity. destruct (is_value e); reflexivity.
Qed.

Lemma goffer_sg_plain cs ss e cur :
  goffer (fun c st => step_sg false c st false) forget_sg (fun st => has_last (sm st))
         (map plain_sg cs) (map emb ss) e cur
  = lift_r (goffer plain_step forget_last has_last cs ss e cur).
Proof.
  unfold goffer. destruct (is_value e).
  - rewrite (goffer_sel_sg_plain has_last).
    destruct (goffer_sel plain_step forget_last has_last cs ss e cur) as [[[a ss1] i1]|?|?]; cbn [lift_r bind]; auto.
    destruct a; cbn [lift_r bind]; auto.
    apply (goffer_sel_sg_plain (fun s => negb (has_last s))).
  - apply (goffer_sel_sg_plain (fun _ => true)).
Qed.

Lemma giterate_sg_plain cs : forall fuel ss cur,
  giterate (fun c st => step_sg false c st false) forget_sg (fun st => has_last (sm st)) fuel
           (map plain_sg cs) (map emb ss) cur
  = do l <- giterate plain_step forget_last has_last fuel cs ss cur; Ok (map emb l).
Proof.
  induction fuel as [|f IH]; intros ss [[e i0]|]; cbn [giterate bind]; try reflexivity.
  rewrite goffer_sg_plain.
  destruct (goffer plain_step forget_last has_last cs ss e i0) as [[[a ss1] i1]|?|?]; cbn [lift_r bind]; auto.
  destruct a; cbn [bind]; auto. destruct (next false i1); cbn [bind]; auto.
Qed.

Lemma final_checks_sg_plain c m : final_checks_sg (plain_sg c) (emb m) = final_checks c m.
Proof.
  unfold final_checks_sg, final_checks. cbn [plain_sg sg_main sg_rules emb sm scnt scal check_sub_rules].
  destruct (check_mandatory_card (args c) (arts m)); cbn [bind]; auto.
Qed.

Lemma gfinal_sg_plain : forall cs ss,
  gfinal final_checks_sg (map plain_sg cs) (map emb ss) = gfinal final_checks cs ss.
Proof.
  induction cs as [|c cr IH]; intros [|s sr]; cbn [map gfinal]; try reflexivity.
  rewrite final_checks_sg_plain, IH. reflexivity.
Qed.

Lemma init_sg_plain c inits : init_sg (plain_sg c) inits [] = emb (init_state c inits).
Proof. reflexivity. Qed.

(** the group of members with sub-group arguments is a conservative extension
    of the group of plain handlers *)
Theorem eval_group_sg_conservative cs initss argv :
  eval_group_sg (map plain_sg cs) (map (fun i => (i, [])) initss) argv
  = do l <- eval_group false false cs initss argv; Ok (map emb l).
Proof.
  rewrite <- geval_plain. unfold eval_group_sg, geval.
  destruct cs as [|c cr]; [reflexivity|]. cbn [map].
  set (cs := c :: cr).
  assert (Ei : map (fun p => init_sg (fst p) (fst (snd p)) (snd (snd p)))
                   (combine (map plain_sg cs) (map (fun i => (i, @nil (list value))) initss))
               = map emb (map (fun p => init_state (fst p) (snd p)) (combine cs initss))).
  { clearbody cs. revert initss. induction cs as [|c0 cs IH]; intros [|i0 il]; cbn [map combine]; try reflexivity.
    cbn [fst snd]. rewrite init_sg_plain, IH. reflexivity. }
  change (plain_sg c :: map plain_sg cr) with (map plain_sg cs). rewrite Ei.
  destruct (first argv); cbn [bind]; auto.
  rewrite giterate_sg_plain.
  destruct (giterate plain_step forget_last has_last _ cs _ _) as [l|?|?]; cbn [bind]; auto.
  rewrite gfinal_sg_plain. destruct (gfinal final_checks cs l); cbn [bind]; auto.
Qed.
