(** C07: the argument that names an argument file.  The loop of ArgFile.v is
    (1) the loop of Handler.v when no such argument is defined, and (2) on every
    legal spelling the fold over the uses, where the use of the argument-file
    argument performs the uses of the file's lines in place. *)
From Coq Require Import List NArith ZArith Bool Arith Lia.
Import ListNotations.
Require Import Celma.Common.Res Celma.Common.ListX Celma.Common.Tactics
               Celma.ArgH.Key Celma.ArgH.Table Celma.ArgH.TableProofs Celma.ArgH.Lex Celma.ArgH.Handler
               Celma.ArgH.Spell Celma.ArgH.SpellProofs Celma.ArgH.Split Celma.ArgH.Sources
               Celma.ArgH.GenSim Celma.ArgH.HandlerSim Celma.ArgH.ArgFile.

Section Sim.
Variable c : cfg.
Variable af : afile.
Variable sub : hstate -> str -> res hstate.
Hypothesis Hfix : fixed_notify c = true.

(** (1) conservative: without an argument-file argument nothing changes *)
Lemma step_af_conservative s ic e cur :
  (forall k r, lookup c k = Ok r -> is_af af r = false) ->
  step_af c af sub s ic e cur = eval_single c s ic e cur.
Proof.
  intros Hno.
  assert (Hk : forall k e0, (forall s0, eval_single c s0 ic e0 cur = process_arg c s0 ic k cur) ->
                            step_key c af sub s ic k e0 cur = eval_single c s ic e0 cur).
  { intros k e0 He. unfold step_key. destruct (lookup c k) as [r|x|x] eqn:El; cbn [bind].
    - rewrite (Hno k r El). reflexivity.
    - rewrite He. unfold process_arg. rewrite El. reflexivity.
    - rewrite He. unfold process_arg. rewrite El. reflexivity. }
  destruct e as [ch|w|v|ch]; cbn [step_af]; try reflexivity.
  - apply Hk. reflexivity.
  - unfold eval_single at 1. destruct (parse_key w) as [k|x|x] eqn:Ep; cbn [bind]; try reflexivity.
    rewrite (Hk k (EStr w)).
    + unfold eval_single. rewrite Ep. reflexivity.
    + intros s0. unfold eval_single. rewrite Ep. reflexivity.
Qed.

Lemma loop_af_conservative ic :
  (forall k r, lookup c k = Ok r -> is_af af r = false) ->
  forall fuel s cur, loop_af c af sub fuel s ic cur = iterate fuel c s ic cur.
Proof.
  intros Hno. induction fuel as [|f IH]; intros s [[e i0]|]; cbn [loop_af iterate]; try reflexivity.
  rewrite (step_af_conservative s ic e i0 Hno).
  destruct (eval_single c s ic e i0) as [[[a s1] i1]|?|?]; cbn [bind]; auto.
  destruct a; auto. destruct (next false i1); cbn [bind]; auto.
Qed.

(** (2) the spelling-free semantics with the argument-file argument *)
Hypothesis Hreq : takes_required c (af_idx af).

Definition af_ustep (ic : bool) (s : hstate) (u : guse nat) : res hstate :=
  match u with
  | GVal i v => if Nat.eqb i (af_idx af) then af_use c af sub s ic v else use_step c s ic (UVal i v)
  | GFlag i => use_step c s ic (UFlag i)
  | GFree v => free_step c s ic v
  end.

Lemma none_not_af i : takes_none c i -> Nat.eqb i (af_idx af) = false.
Proof.
  intros Hn. apply Nat.eqb_neq. intros ->. unfold takes_none, takes_required in *. rewrite Hreq in Hn. discriminate.
Qed.

Lemma opt_not_af i : takes_optional c i -> Nat.eqb i (af_idx af) = false.
Proof.
  intros Hn. apply Nat.eqb_neq. intros ->. unfold takes_optional, takes_required in *. rewrite Hreq in Hn. discriminate.
Qed.

Lemma loop_af_giter ic fuel : forall s cur,
  loop_af c af sub fuel s ic cur
  = giter hstate (fun s e cur => step_af c af sub s ic e cur) EInvalidArgument fuel s cur.
Proof.
  induction fuel as [|f IH]; intros s [[e i0]|]; cbn [loop_af giter]; try reflexivity.
  destruct (step_af c af sub s ic e i0) as [[[a s1] i1]|?|?]; cbn [bind]; auto.
  destruct a; auto. destruct (next false i1); cbn [bind]; auto.
Qed.

Theorem words_af_spelled ic us ws s :
  xspell c us ws -> words_af c af sub s ic ws = gfold nat hstate (af_ustep ic) s us.
Proof.
  intros Hsp. unfold words_af.
  rewrite <- (gspell_eval nat hstate (fun _ => True) (fun s e cur => step_af c af sub s ic e cur) EInvalidArgument
                (af_ustep ic) (long_name c) (short_name c) (takes_none c) (takes_required c) (takes_optional c))
    with (ws := ws); auto.
  - destruct (first ws); cbn [bind]; auto. apply loop_af_giter.
  - intros i w (Hw & He & _). auto.
  - intros i ch (Hc & _). exact Hc.
  - (* long flag *)
    intros s0 i w cur _ Hl Hn. cbn [af_ustep step_af]. pose proof Hl as (Hw & He & k & Hk & Hlk).
    rewrite Hk. cbn [bind]. unfold step_key. rewrite Hlk. cbn [bind is_af]. rewrite (none_not_af i Hn).
    apply lookup_long_step; assumption.
  - (* short flag *)
    intros s0 i ch cur _ Hs Hn. cbn [af_ustep step_af]. unfold step_key. destruct Hs as (Hc & Hlk).
    rewrite Hlk. cbn [bind is_af]. rewrite (none_not_af i Hn). apply lookup_short_step; [assumption|split; assumption|assumption].
  - (* long key with value *)
    intros s0 i w cur v it2 _ (Hw & He & k & Hk & Hlk) Hr Hnx. cbn [af_ustep step_af].
    rewrite Hk. cbn [bind]. unfold step_key. rewrite Hlk. cbn [bind is_af].
    destruct (Nat.eqb i (af_idx af)).
    + rewrite Hnx. cbn [bind]. reflexivity.
    + unfold eval_single. rewrite Hk. cbn [bind]. apply value_step; auto.
  - (* short key with value *)
    intros s0 i ch cur v it2 _ (Hc & Hlk) Hr Hnx. cbn [af_ustep step_af]. unfold step_key.
    rewrite Hlk. cbn [bind is_af].
    destruct (Nat.eqb i (af_idx af)).
    + rewrite Hnx. cbn [bind]. reflexivity.
    + unfold eval_single. apply value_step; auto.
  - (* optional value, long key, no value *)
    intros s0 i w cur _ (Hw & He & k & Hk & Hlk) Ho Hn. cbn [af_ustep step_af].
    rewrite Hk. cbn [bind]. unfold step_key. rewrite Hlk. cbn [bind is_af]. rewrite (opt_not_af i Ho).
    unfold eval_single. rewrite Hk. cbn [bind]. apply opt_none_step; auto.
  - intros s0 i ch cur _ (Hc & Hlk) Ho Hn. cbn [af_ustep step_af]. unfold step_key.
    rewrite Hlk. cbn [bind is_af]. rewrite (opt_not_af i Ho). unfold eval_single. apply opt_none_step; auto.
  - intros s0 i w cur v it2 _ (Hw & He & k & Hk & Hlk) Ho Hn. cbn [af_ustep step_af].
    rewrite Hk. cbn [bind]. unfold step_key. rewrite Hlk. cbn [bind is_af]. rewrite (opt_not_af i Ho).
    unfold eval_single. rewrite Hk. cbn [bind]. apply opt_val_step; auto.
  - intros s0 i ch cur v it2 _ (Hc & Hlk) Ho Hn. cbn [af_ustep step_af]. unfold step_key.
    rewrite Hlk. cbn [bind is_af]. rewrite (opt_not_af i Ho). unfold eval_single. apply opt_val_step; auto.
  - (* free value *)
    intros s0 v cur _. cbn [af_ustep step_af]. apply free_step_single.
Qed.

(** lines of a file, each in a legal spelling *)
Fixpoint xspell_lines (uss : list (list (guse nat))) (lines : list (list str)) : Prop :=
  match uss, lines with
  | [], [] => True
  | us :: ur, l :: lr => xspell c us l /\ xspell_lines ur lr
  | _, _ => False
  end.

Fixpoint fold_lines (s : hstate) (uss : list (list (guse nat))) : res hstate :=
  match uss with
  | [] => Ok s
  | us :: r => do s1 <- gfold nat hstate (af_ustep true) s us; fold_lines s1 r
  end.

Lemma lines_af_spelled : forall uss lines s,
  xspell_lines uss lines -> lines_af c af sub s lines = fold_lines s uss.
Proof.
  induction uss as [|us ur IH]; intros [|l lr] s H; cbn [xspell_lines] in H; try contradiction; [reflexivity|].
  destruct H as (H1 & H2). cbn [lines_af fold_lines]. rewrite (words_af_spelled true us l s H1).
  destruct (gfold nat hstate (af_ustep true) s us); cbn [bind]; auto.
Qed.

End Sim.

(** The file named on the command line is evaluated in place: its uses are
    performed in read mode "file" between the two halves of the handling of
    the argument-file argument, at every nesting depth. *)
Theorem arg_file_in_place c af d ic s name t uss :
  fixed_notify c = true -> takes_required c (af_idx af) ->
  af_content (af_files af) name = Some t ->
  xspell_lines c uss (file_arg_lines t) ->
  af_use c af (read_file c af (S d)) s ic name =
  do s2 <- af_before c s (af_idx af) ic;
  do s3 <- fold_lines c af (read_file c af d) s2 uss;
  Ok (af_after c s3 (af_idx af)).
Proof.
  intros Hf Hr Hc Hl. unfold af_use. destruct (af_before c s (af_idx af) ic) as [s2|?|?]; cbn [bind]; auto.
  cbn [read_file]. rewrite Hc.
  rewrite (lines_af_spelled c af (read_file c af d) Hf Hr uss (file_arg_lines t) s2 Hl). reflexivity.
Qed.

(** a missing file is refused *)
Theorem arg_file_missing c af d ic s name s2 :
  af_content (af_files af) name = None -> af_before c s (af_idx af) ic = Ok s2 ->
  af_use c af (read_file c af (S d)) s ic name = Err ERuntime.
Proof. intros Hc Hb. unfold af_use. rewrite Hb. cbn [bind read_file]. rewrite Hc. reflexivity. Qed.

(** without an argument-file argument the whole evaluation is the one of
    Handler.v *)
Theorem eval_arguments_af_conservative c af inits fl env argv :
  (forall k r, lookup c k = Ok r -> is_af af r = false) ->
  eval_arguments_af c af inits fl env argv = eval_arguments c inits fl env argv.
Proof.
  intros Hno. unfold eval_arguments_af, eval_arguments.
  assert (Hw : forall s ic ws, words_af c af (read_file c af DEPTH) s ic ws = eval_words c s ic ws).
  { intros s ic ws. unfold words_af, eval_words. destruct (first ws); cbn [bind]; auto.
    apply loop_af_conservative. exact Hno. }
  assert (Hl : forall ls s, lines_af c af (read_file c af (DEPTH - 1)) s ls = eval_lines c s ls).
  { induction ls as [|l r IH]; intros s; cbn [lines_af eval_lines]; auto.
    unfold words_af at 1. fold (eval_words c s true l).
    assert (E : (do f <- first l; loop_af c af (read_file c af (DEPTH - 1)) (S (words_size l)) s true f)
                = eval_words c s true l).
    { unfold eval_words. destruct (first l); cbn [bind]; auto. apply loop_af_conservative. exact Hno. }
    rewrite E. destruct (eval_words c s true l); cbn [bind]; auto. }
  rewrite Hl. destruct (eval_lines c (init_state c inits) fl) as [s1|?|?]; cbn [bind]; auto.
  destruct env as [ws|]; rewrite ?Hw; [destruct (eval_words c s1 true ws) as [s2|?|?]|]; cbn [bind]; auto;
    rewrite Hw; reflexivity.
Qed.
