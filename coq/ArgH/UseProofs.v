(** C01/C03: which words designate an argument (link to the C05 theorems) and
    what one use stores (typed assignment, frame). *)
From Coq Require Import List NArith ZArith Bool Arith Lia.
Import ListNotations.
Require Import Celma.Common.Res Celma.Common.ListX Celma.Common.Tactics
               Celma.ArgH.Key Celma.ArgH.Table Celma.ArgH.TableProofs
               Celma.ArgH.Lex Celma.ArgH.Handler Celma.ArgH.Spell.

(* ------------------------------------------------------------------ *)
(** * Names *)

(** a word usable as a long key on the command line *)
Definition plain_long (w : str) : Prop :=
  2 <= length w /\ mem SPACE w = false /\ index_of COMMA w = None /\
  ceq (at0 w 0) DASH = false /\ ceq (at0 w 1) DASH = false.

Lemma parse_key_plain_long w : plain_long w -> parse_key w = Ok {| kc := 0%N; kw := w |}.
Proof.
  intros (Hl & Hs & Hc & H0 & H1). unfold parse_key.
  destruct w as [|x [|y r]]; cbn [length] in Hl; try lia.
  assert (E : str_eqb (x :: y :: r) [COMMA] = false).
  { cbn. destruct (ceq x COMMA); reflexivity. }
  rewrite E, Hs, Hc. unfold at0 in *. cbn [nth] in *. rewrite H0, H1. cbn [b2n Nat.add nth].
  rewrite H0. cbn [length Nat.sub Nat.eqb andb skipn]. reflexivity.
Qed.

Lemma index_table_in ds : forall n i d,
  nth_error ds i = Some d -> In (a_key d, n + i) (index_table ds n).
Proof.
  induction ds as [|d0 dr IH]; intros n i d H; [destruct i; discriminate|].
  destruct i as [|i]; cbn in *.
  - inversion H; subst. left. f_equal. lia.
  - right. replace (n + S i) with (S n + i) by lia. apply IH. exact H.
Qed.

Definition cfg_ok (c : cfg) : Prop := table_ok (index_table (args c) 0).

Lemma nth_error_nth_def (c : cfg) i : i < length (args c) -> nth_error (args c) i = Some (argdef_of c i).
Proof. intros H. unfold argdef_of. apply nth_error_nth'. exact H. Qed.

(** the exact long key of an argument designates it (in every definition order: C05) *)
Lemma long_name_exact c i w :
  cfg_ok c -> i < length (args c) -> kw (a_key (argdef_of c i)) = w ->
  plain_long w -> index_of EQSIGN w = None -> long_name c i w.
Proof.
  intros Hok Hi Hw Hp He. unfold long_name. splits.
  - destruct Hp as (Hl & _). destruct w; cbn in Hl; [lia|discriminate].
  - exact He.
  - exists {| kc := 0%N; kw := w |}. split; [apply parse_key_plain_long; exact Hp|].
    unfold lookup, find_arg.
    apply (find_exact (abbr c) (index_table (args c) 0) _ (a_key (argdef_of c i)) i None false Hok).
    + right. exists w. split; [|reflexivity]. destruct Hp as (Hl & _). destruct w; cbn in Hl; [lia|discriminate].
    + replace i with (0 + i) at 2 by lia. apply index_table_in. apply nth_error_nth_def. exact Hi.
    + apply eq_long_key.
      * destruct Hp as (Hl & _). destruct w; cbn in Hl; [lia|discriminate].
      * split; [|exact Hw]. unfold has_w. rewrite Hw. destruct Hp as (Hl & _). destruct w; cbn in Hl; [lia|reflexivity].
Qed.

(** the short key of an argument designates it *)
Lemma short_name_exact c i ch :
  cfg_ok c -> i < length (args c) -> kc (a_key (argdef_of c i)) = ch ->
  ch <> 0%N -> ch <> DASH -> short_name c i ch.
Proof.
  intros Hok Hi Hc H0 Hd. split; [exact Hd|].
  unfold lookup, find_arg.
  apply (find_exact (abbr c) (index_table (args c) 0) _ (a_key (argdef_of c i)) i None false Hok).
  - left. exists ch. split; [exact H0|reflexivity].
  - replace i with (0 + i) at 2 by lia. apply index_table_in. apply nth_error_nth_def. exact Hi.
  - apply eq_short_key; [exact H0|]. split; [|exact Hc]. unfold has_c. rewrite Hc.
    apply negb_true_iff. apply not_true_iff_false. rewrite ceq_true. exact H0.
Qed.

(** an abbreviation designates an argument when abbreviations are enabled and
    exactly one long key starts with it (and it is nobody's exact key) *)
Lemma long_name_abbrev c i p :
  plain_long p -> index_of EQSIGN p = None ->
  Forall (fun e : key * nat => key_eq (fst e) {| kc := 0%N; kw := p |} = false) (index_table (args c) 0) ->
  map snd (filter (fun e : key * nat => abbr c && key_starts_with (fst e) {| kc := 0%N; kw := p |})
                  (index_table (args c) 0)) = [i] ->
  long_name c i p.
Proof.
  intros Hp He Hne Hone. unfold long_name. splits.
  - destruct Hp as (Hl & _). destruct p; cbn in Hl; [lia|discriminate].
  - exact He.
  - exists {| kc := 0%N; kw := p |}. split; [apply parse_key_plain_long; exact Hp|].
    unfold lookup. rewrite find_prefix by exact Hne. rewrite Hone. reflexivity.
Qed.

(* ------------------------------------------------------------------ *)
(** * What one use stores *)

Lemma upd_in_range {A} (l : list A) i x :
  i < length l -> upd l i x = firstn i l ++ x :: skipn (S i) l.
Proof. intros H. unfold upd. destruct (Nat.ltb_spec i (length l)); [reflexivity|lia]. Qed.

Lemma upd_nth_same {A} (l : list A) i x d : i < length l -> nth i (upd l i x) d = x.
Proof.
  intros H. rewrite upd_in_range by exact H. rewrite app_nth2; rewrite firstn_length; [|lia].
  replace (i - Nat.min i (length l)) with 0 by lia. reflexivity.
Qed.

Lemma splice_nth_other {A} (x d : A) : forall (l : list A) i j,
  i < length l -> i <> j -> nth j (firstn i l ++ x :: skipn (S i) l) d = nth j l d.
Proof.
  induction l as [|a r IH]; intros i j Hi Hij; cbn [length] in Hi; [lia|].
  destruct i as [|i]; destruct j as [|j]; try lia; cbn [firstn skipn app nth]; auto.
  apply IH; lia.
Qed.

Lemma upd_nth_other {A} (l : list A) i j x d : i <> j -> nth j (upd l i x) d = nth j l d.
Proof.
  intros H. unfold upd. destruct (Nat.ltb_spec i (length l)); [|reflexivity].
  apply splice_nth_other; assumption.
Qed.

(** frame: a use changes the destination of its own argument only *)
Lemma handle_identified_frame c s i k ic v s' j :
  handle_identified c s i k ic v = Ok s' -> i <> j ->
  nth j (arts s') dummy_art = nth j (arts s) dummy_art.
Proof.
  unfold handle_identified, assign_value. intros H Hij.
  repeat match type of H with
  | bind ?r _ = Ok _ => let E := fresh "E" in destruct r eqn:E; cbn [bind] in H; try discriminate
  | (if ?b then _ else _) = Ok _ => destruct b; try discriminate
  | context [bind (if ?b then _ else _) _] => destruct b; cbn [bind] in H; try discriminate
  end.
  all: try (inversion H; subst; cbn [arts]).
  all: repeat match goal with
       | E : bind ?r _ = Ok _ |- _ => let E2 := fresh "E" in destruct r eqn:E2; cbn [bind] in E; try discriminate
       | E : (if ?b then _ else _) = Ok _ |- _ => destruct b; try discriminate
       | E : Ok _ = Ok _ |- _ => inversion E; subst; clear E
       end; cbn [arts]; try apply upd_nth_other; auto.
Qed.

Lemma use_step_frame c s ic u s' j :
  use_step c s ic u = Ok s' ->
  (match u with UFlag i | UVal i _ => i end) <> j ->
  nth j (arts s') dummy_art = nth j (arts s) dummy_art.
Proof.
  destruct u as [i|i v]; cbn [use_step]; intros H Hij;
    apply (handle_identified_frame _ _ _ _ _ _ _ j H Hij).
Qed.

(** what a use stores: the value assigned by the destination's assign() *)
Lemma handle_identified_stores c s i k ic v s' :
  handle_identified c s i k ic v = Ok s' -> i < length (arts s) ->
  exists a0 a',
    assign (argdef_of c i) a0 v = Ok a' /\ nth i (arts s') dummy_art = a' /\
    val a0 = val (nth i (arts s) dummy_art) /\ clearp a0 = clearp (nth i (arts s) dummy_art) /\
    v2set a0 = v2set (nth i (arts s) dummy_art) /\ a_depr (argdef_of c i) = false.
Proof.
  unfold handle_identified, assign_value, argdef_of. intros H Hi.
  destruct (pend_identified (pend s) _) as [p1|e|f] eqn:E1; cbn [bind] in H; try discriminate.
  destruct (gcs_exec (gcons c) (gsts s) _) as [g1|e|f] eqn:E2; cbn [bind] in H; try discriminate.
  cbn [arts pend gsts last inv] in H.
  destruct (a_depr (nth i (args c) dummy_def)) eqn:Ed; cbn [bind] in H; try discriminate.
  destruct (if ic then Ok (cnt (nth i (arts s) dummy_art)) else _) as [n1|e|f] eqn:E3; cbn [bind] in H; try discriminate.
  destruct (inv s); cbn [bind] in H; try discriminate.
  match type of H with context [assign ?d ?a0 v] =>
    destruct (assign d a0 v) as [a'|e|f] eqn:E4; cbn [bind] in H; try discriminate;
    exists a0, a' end.
  inversion H; subst. cbn [arts]. splits; auto. apply upd_nth_same. exact Hi.
Qed.

Lemma use_step_stores_scalar c s ic i v s' :
  use_step c s ic (UVal i v) = Ok s' -> i < length (arts s) ->
  let d := argdef_of c i in
  match a_kind d with
  | DInt => exists z, run_checks (a_checks d) v = Ok tt /\ lex_int (apply_fmts (a_fmts d) v) = Ok z /\
                      val (nth i (arts s') dummy_art) = VInt z
  | DOptInt => exists z, run_checks (a_checks d) v = Ok tt /\ lex_int (apply_fmts (a_fmts d) v) = Ok z /\
                         val (nth i (arts s') dummy_art) = VOpt (Some z)
  | DStr => run_checks (a_checks d) v = Ok tt /\ val (nth i (arts s') dummy_art) = VStr (apply_fmts (a_fmts d) v)
  | _ => True
  end.
Proof.
  cbn [use_step]. intros H Hi.
  destruct (handle_identified_stores _ _ _ _ _ _ _ H Hi) as (a0 & a' & Ha & Hn & _).
  cbn zeta. unfold assign in Ha. destruct (a_kind (argdef_of c i)); auto.
  - destruct (run_checks _ v) as [[]|e|f]; cbn [bind] in Ha; try discriminate.
    destruct (lex_int _) as [z|e|f]; cbn [bind] in Ha; try discriminate.
    exists z. rewrite Hn. inversion Ha. cbn. auto.
  - destruct (run_checks _ v) as [[]|e|f]; cbn [bind] in Ha; try discriminate.
    rewrite Hn. inversion Ha. cbn. auto.
  - destruct (run_checks _ v) as [[]|e|f]; cbn [bind] in Ha; try discriminate.
    destruct (lex_int _) as [z|e|f]; cbn [bind] in Ha; try discriminate.
    exists z. rewrite Hn. inversion Ha. cbn. auto.
Qed.

Lemma use_step_stores_flag c s ic i s' :
  use_step c s ic (UFlag i) = Ok s' -> i < length (arts s) -> a_kind (argdef_of c i) = DBool ->
  val (nth i (arts s') dummy_art) = VBool (v2set (nth i (arts s) dummy_art)).
Proof.
  cbn [use_step]. intros H Hi Hk.
  destruct (handle_identified_stores _ _ _ _ _ _ _ H Hi) as (a0 & a' & Ha & Hn & _ & _ & Hv & _).
  unfold assign in Ha. rewrite Hk in Ha. rewrite Hn. inversion Ha. cbn. rewrite Hv. reflexivity.
Qed.

Definition use_index (u : use) : nat := match u with UFlag i | UVal i _ => i end.

Lemma use_step_length c s ic u s' : use_step c s ic u = Ok s' -> length (arts s') = length (arts s).
Proof.
  destruct u as [i|i v]; cbn [use_step]; unfold handle_identified, assign_value; intros H.
  all: repeat match type of H with
       | bind ?r _ = Ok _ => let E := fresh "E" in destruct r eqn:E; cbn [bind] in H; try discriminate
       | (if ?b then _ else _) = Ok _ => destruct b; try discriminate
       end.
  all: repeat match goal with
       | E : bind ?r _ = Ok _ |- _ => let E2 := fresh "E" in destruct r eqn:E2; cbn [bind] in E; try discriminate
       | E : (if ?b then _ else _) = Ok _ |- _ => destruct b; try discriminate
       | E : Ok _ = Ok _ |- _ => inversion E; subst; clear E
       end; cbn [arts].
  all: unfold upd; cbn [arts]; match goal with |- context [if ?b then _ else _] => destruct b eqn:Eb end; auto.
  all: apply Nat.ltb_lt in Eb; rewrite app_length, firstn_length; cbn [length]; rewrite skipn_length; lia.
Qed.

(** destination variables of arguments that were not used keep their value *)
Lemma fold_uses_frame c ic us : forall s s' j,
  fold_uses c s ic us = Ok s' -> ~ In j (map use_index us) ->
  nth j (arts s') dummy_art = nth j (arts s) dummy_art.
Proof.
  induction us as [|u r IH]; intros s s' j H Hn; cbn [fold_uses] in H.
  - inversion H; reflexivity.
  - destruct (use_step c s ic u) as [s1|e|f] eqn:E; cbn [bind] in H; try discriminate.
    rewrite (IH s1 s' j H) by (intros Hin; apply Hn; right; exact Hin).
    apply (use_step_frame c s ic u s1 j E). intros Hi. apply Hn. left. destruct u; exact Hi.
Qed.

(** acceptance of one use, rule by rule (C03): an argument that is not
    deprecated, whose cardinality is not exhausted, that is not excluded by an
    earlier argument, whose handler constraints do not object and whose value
    passes checks and conversion is accepted *)
Lemma use_val_accepted c s (ic : bool) i v n1 p1 g1 a' :
  let d := argdef_of c i in
  let a := nth i (arts s) dummy_art in
  fixed_notify c = true ->
  a_depr d = false -> inv s = false ->
  (if ic then @Ok Z (cnt a) else card_got (a_card d) (cnt a)) = Ok n1 ->
  pend_identified (pend s) (a_key d) = Ok p1 ->
  gcs_exec (gcons c) (gsts s) (a_key d) = Ok g1 ->
  assign d {| hasval := hasval a; cnt := n1; clearp := clearp a; val := val a; v2set := v2set a |} v = Ok a' ->
  use_step c s ic (UVal i v) =
  Ok {| arts := upd (arts s) i a'; pend := activate d p1; gsts := g1; last := Some i; inv := false |}.
Proof.
  cbn zeta. intros Hf Hd Hi Hc Hp Hg Ha. cbn [use_step]. unfold handle_identified, with_last, argdef_of in *.
  cbn [arts pend gsts last inv]. rewrite Hf, Hp. cbn [bind]. rewrite Hg. cbn [bind].
  unfold assign_value. cbn [arts pend gsts last inv]. rewrite Hd, Hc. cbn [bind]. rewrite Hi, Ha. reflexivity.
Qed.
