(** Multi-value destinations (C06): mirror of the assign() functions of
    TypedArg< ContainerAdapter< T>>, TypedArg< KeyValueContainerAdapter< T>>,
    TypedArg< T[ N]>, TypedArg< std::array< T, N>>, TypedArg< std::tuple< T...>>,
    TypedArg< std::bitset< N>> and TypedArg< std::vector< bool>>
    (src/celma/prog_args/detail/typed_arg.hpp), the adapters of
    container_adapter.hpp / key_value_container_adapter.hpp (addValue,
    contains, sort, clear), TypedArgBase::assignValue, the format table
    (TypedArgBase::mFormats, internAddFormat, format( val, idx), addFormat /
    addFormatPos of the kinds) and the routing of free values to the last
    multi-value argument (Handler::evalSingleArgument).

    The content of a destination is kept in the order in which the harness
    prints it (iteration order; stack / priority queue: pop order; unordered
    containers: ascending).  No proofs here.

    The model mirrors the tree with fixes/C06-1 and C06-2 applied; the two
    pinned behaviours are kept as [arr_contains_pinned] / [vb_store_pinned]
    and selected by [step_pinned]. *)
From Coq Require Import List NArith ZArith Bool Arith.
Import ListNotations.
Require Import Celma.Common.Res Celma.ArgH.Key Celma.ArgH.Handler.

Inductive kind :=
| KVec | KDeque | KList | KQueue          (* push_back / push *)
| KFwd | KStack                           (* push_front / push, seen from the top *)
| KSet | KMSet | KUSet | KUMSet           (* insert; (unordered) printed ascending *)
| KPrio                                   (* push; printed in pop order *)
| KArr (n : nat) | KStdArr (n : nat)      (* T[N], std::array<T,N>: fill index *)
| KVecStr                                 (* std::vector<std::string> *)
| KTuple                                  (* std::tuple<int,std::string,int> *)
| KBitset (n : N) | KVecBool
| KMap                                    (* std::map<std::string,int> *)
| KMMap | KUMap | KUMMap.                 (* std::multimap / unordered_map / unordered_multimap<std::string,int> *)

(** [o_ftab] = TypedArgBase::mFormats: slot 0 holds the general formats
    (addFormat), slot i + 1 the formats of value position i (addFormatPos) *)
Record copts := {
  o_sep : N; o_clear : bool; o_sort : bool; o_uniq : bool; o_dup_err : bool; o_multi : bool;
  o_checks : list check; o_ftab : list (list fmt); o_card : card
}.

(** the general formats: format( val) = format( val, -1) applies slot 0 (an
    empty table has no slot 0: nothing is applied) *)
Definition o_fmts (o : copts) : list fmt := nth 0 (o_ftab o) [].

(** TypedArgBase::format( val, idx) for idx >= 0: the slot idx + 1 is used only
    if [-1 <= idx && idx + 1 < mFormats.size()] *)
Definition fmt_pos (o : copts) (idx : nat) (s : str) : str :=
  if Nat.ltb (idx + 1) (length (o_ftab o)) then apply_fmts (nth (idx + 1) (o_ftab o) []) s else s.

(** TypedArgBase::internAddFormat( val_idx, f) on the table: grow to
    val_idx + 10 slots when val_idx is outside, then append to the slot *)
Definition intern_add_format (tab : list (list fmt)) (i : nat) (f : fmt) : list (list fmt) :=
  let tab' := if Nat.leb (length tab) i then tab ++ repeat [] (i + 10 - length tab) else tab in
  firstn i tab' ++ (nth i tab' [] ++ [f]) :: skipn (S i) tab'.

Inductive cont :=
| CInts (l : list Z)
| CArr (l : list Z) (idx : nat)
| CStrs (l : list str)
| CTuple (a : Z) (s : str) (b : Z) (n : nat)
| CBits (l : list N)                      (* positions set, ascending *)
| CVBool (size : N) (l : list N)
| CMap (l : list (str * Z)).              (* map, multimap: iteration order = ascending by key, equal keys
                                             in insertion order; the unordered kinds: ascending by (key, value) *)

(* ------------------------------------------------------------------ *)
(** * What the definition-time setters accept *)

(** ContainerAdapter<>::HasIterators, resp. an own setUniqueData() *)
Definition has_iter (k : kind) : bool :=
  match k with KQueue | KStack | KPrio | KTuple | KBitset _ | KVecBool => false | _ => true end.

(** the destinations of TypedArg< KeyValueContainerAdapter< T>> *)
Definition kv_kind (k : kind) : bool :=
  match k with KMap | KMMap | KUMap | KUMMap => true | _ => false end.

(** !IsSorted && IsSortable, resp. an own setSortData() *)
Definition sortable (k : kind) : bool :=
  match k with KVec | KDeque | KList | KFwd | KArr _ | KStdArr _ | KVecStr => true | _ => false end.

(** an own setClearBeforeAssign() *)
Definition clearable (k : kind) : bool :=
  match k with KArr _ | KStdArr _ | KTuple => false | _ => true end.

Definition is_nil {A} (l : list A) : bool := match l with [] => true | _ => false end.

(** who accepts addFormat(): everybody but the tuple *)
Definition gen_fmt_allowed (k : kind) : bool := match k with KTuple => false | _ => true end.

(** who accepts addFormatPos( idx) for idx >= 0: std::vector (the only adapter
    with AllowsPositionFormat), the arrays and the tuple for their positions;
    everybody else inherits TypedArgBase::addFormatPos, which refuses *)
Definition pos_fmt_allowed (k : kind) (idx : nat) : bool :=
  match k with
  | KVec | KVecStr => true
  | KArr n | KStdArr n => Nat.ltb idx n
  | KTuple => Nat.ltb idx 3
  | _ => false
  end.

(** a format table that the setters of kind [k] can have produced *)
Definition ftab_ok (k : kind) (tab : list (list fmt)) : bool :=
  (is_nil (nth 0 tab []) || gen_fmt_allowed k)
  && forallb (fun i => is_nil (nth (S i) tab []) || pos_fmt_allowed k i) (seq 0 (length tab - 1)).

(** addFormat( f) *)
Definition add_format (k : kind) (tab : list (list fmt)) (f : fmt) : res (list (list fmt)) :=
  if gen_fmt_allowed k then Ok (intern_add_format tab 0 f) else Err ELogic.

(** addFormatPos( idx, f); idx = -1 is "all values" = the general slot
    (refused by the tuple); idx < -1 indexes mFormats in front of its start *)
Definition add_format_pos (k : kind) (tab : list (list fmt)) (idx : Z) (f : fmt) : res (list (list fmt)) :=
  if Z.ltb idx (-1) then Fault OOBWrite else
  match k with
  | KVec | KVecStr => Ok (intern_add_format tab (Z.to_nat (idx + 1)) f)
  | KArr n | KStdArr n =>
      if Z.leb (Z.of_nat n) idx then Err ERange else Ok (intern_add_format tab (Z.to_nat (idx + 1)) f)
  | KTuple =>
      if Z.eqb idx (-1) then Err ELogic
      else if Z.leb 3 idx then Err ERange else Ok (intern_add_format tab (Z.to_nat (idx + 1)) f)
  | _ => Err ELogic
  end.

Definition setup_ok (k : kind) (o : copts) : bool :=
  implb (o_sort o) (sortable k) && implb (o_uniq o) (has_iter k) && implb (o_clear o) (clearable k)
  && ftab_ok k (o_ftab o)
  && implb (kv_kind k) (negb (ceq (o_sep o) COMMA)).      (* setListSep: not a character of the pair separator *)

Definition default_sep (k : kind) : N := if kv_kind k then 59%N else COMMA.
Definition default_card (k : kind) : card := match k with KTuple => CardExact 3 | _ => CardNone end.

(* ------------------------------------------------------------------ *)
(** * addValue of the adapters *)

Definition place (k : kind) (v : Z) (l : list Z) : list Z :=
  match k with
  | KFwd | KStack => v :: l
  | KSet | KUSet => if z_in v l then l else insert_sorted Z.ltb v l
  | KMSet | KUMSet => insert_sorted Z.ltb v l
  | KPrio => insert_sorted Z.gtb v l
  | _ => l ++ [v]
  end.

Fixpoint nset_add (p : N) (l : list N) : list N :=
  match l with
  | [] => [p]
  | x :: r => if N.ltb p x then p :: l else if N.eqb p x then l else x :: nset_add p r
  end.

Definition map_has (k : str) (l : list (str * Z)) : bool := existsb (fun e => str_eqb (fst e) k) l.

(** std::map::insert: an existing key keeps its value *)
Fixpoint map_add (k : str) (v : Z) (l : list (str * Z)) : list (str * Z) :=
  match l with
  | [] => [(k, v)]
  | (k', v') :: r =>
      if str_ltb k k' then (k, v) :: l
      else if str_eqb k k' then l
      else (k', v') :: map_add k v r
  end.

(** std::multimap::insert: behind the last entry whose key is not greater (the
    upper bound of the key: equal keys stay in insertion order) *)
Definition key_ltb (a b : str * Z) : bool := str_ltb (fst a) (fst b).
Definition mmap_add (k : str) (v : Z) (l : list (str * Z)) : list (str * Z) := insert_sorted key_ltb (k, v) l.

(** std::unordered_multimap::insert always adds; the content is kept in the
    order in which the harness prints it: ascending by (key, value) *)
Definition pair_ltb (a b : str * Z) : bool :=
  str_ltb (fst a) (fst b) || (str_eqb (fst a) (fst b) && Z.ltb (snd a) (snd b)).
Definition ummap_add (k : str) (v : Z) (l : list (str * Z)) : list (str * Z) := insert_sorted pair_ltb (k, v) l.

(** addValue( key, value) = mDestCont.insert( { key, value}) of the four
    adapters; unordered_map: unique keys, printed ascending = like std::map *)
Definition kv_add (k : kind) : str -> Z -> list (str * Z) -> list (str * Z) :=
  match k with KMMap => mmap_add | KUMMap => ummap_add | _ => map_add end.

(** the key-value destination as the application left it: the pairs inserted in order *)
Definition init_map (k : kind) (l : list (str * Z)) : list (str * Z) :=
  fold_left (fun acc e => kv_add k (fst e) (snd e) acc) l [].

(** the destination as the application left it: [l] in the order the values
    were inserted by the application *)
Definition init_ints (k : kind) (l : list Z) : list Z :=
  match k with
  | KFwd => l                                   (* forward_list::assign *)
  | _ => fold_left (fun acc v => place k v acc) l []
  end.

(* ------------------------------------------------------------------ *)
(** * Conversions *)

Definition SIZE_MOD : Z := 18446744073709551616%Z.

(** boost::lexical_cast< size_t>: optional sign, digits; a minus sign negates
    modulo 2^64 *)
Definition parse_size (s : str) : option N :=
  let body (neg : bool) (r : str) : option N :=
    match r with
    | [] => None
    | _ => match digits_val 0 r with
           | Some v => if Z.ltb v SIZE_MOD
                       then Some (Z.to_N (if neg then Z.modulo (SIZE_MOD - v) SIZE_MOD else v))
                       else None
           | None => None
           end
    end in
  match s with
  | [] => None
  | c :: r => if ceq c 45 then body true r else if ceq c 43 then body false r else body false s
  end.

Definition lex_size (s : str) : res N :=
  match parse_size s with Some n => Ok n | None => Err EBadCast end.

(** common::split2 *)
Definition split2 (sep : N) (s : str) : str * str :=
  match index_of sep s with
  | None => ([], [])
  | Some i => (firstn i s, skipn (S i) s)
  end.

(* ------------------------------------------------------------------ *)
(** * One list element: the body of the loop of assign() after the
      cardinality step *)

(** std::vector only (AllowsPositionFormat): format( list_val, mDestVar.size())
    after the general formats - the position is the current size of the
    destination, so initial content and dropped duplicates shift it *)
Definition pos_fmt_ints (k : kind) (o : copts) (l : list Z) (s : str) : str :=
  match k with KVec => fmt_pos o (length l) s | _ => s end.

Definition step_ints (k : kind) (o : copts) (t : str) (l : list Z) : res (list Z) :=
  do _ <- run_checks (o_checks o) t;
  do v <- lex_int (pos_fmt_ints k o l (apply_fmts (o_fmts o) t));
  if o_uniq o && z_in v l then (if o_dup_err o then Err ERuntime else Ok l)
  else Ok (place k v l).

Definition step_strs (o : copts) (t : str) (l : list str) : res (list str) :=
  do _ <- run_checks (o_checks o) t;
  let v := fmt_pos o (length l) (apply_fmts (o_fmts o) t) in
  if o_uniq o && str_in v l then (if o_dup_err o then Err ERuntime else Ok l)
  else Ok (l ++ [v]).

(** fixed tree: the unique test looks at the elements filled so far *)
Definition arr_contains (v : Z) (l : list Z) (idx : nat) : bool := z_in v (firstn idx l).
(** pinned tree: common::contains( mDestVar, v) looks at all N slots *)
Definition arr_contains_pinned (v : Z) (l : list Z) (idx : nat) : bool := z_in v l.

(** mDestVar[ mIndex] = value *)
Definition arr_set (l : list Z) (i : nat) (v : Z) : list Z := firstn i l ++ v :: skipn (S i) l.

Definition step_arr (contains : Z -> list Z -> nat -> bool) (n : nat) (o : copts) (t : str)
    (l : list Z) (idx : nat) : res cont :=
  if Nat.eqb idx n then Err ERuntime else
  do _ <- run_checks (o_checks o) t;
  do v <- lex_int (fmt_pos o idx (apply_fmts (o_fmts o) t));     (* format( val); format( val, mIndex) *)
  if o_uniq o && contains v l idx then (if o_dup_err o then Err ERuntime else Ok (CArr l idx))
  else Ok (CArr (arr_set l idx v) (S idx)).

(** only the position format of the element that is filled next
    (format( list_val, mNumValuesSet)); common::tuple_at_index throws
    out_of_range beyond the last element *)
Definition step_tuple (o : copts) (t : str) (a : Z) (s : str) (b : Z) (n : nat) : res cont :=
  do _ <- run_checks (o_checks o) t;
  let t' := fmt_pos o n t in
  match n with
  | 0 => do v <- lex_int t'; Ok (CTuple v s b 1)
  | 1 => Ok (CTuple a t' b 2)
  | 2 => do v <- lex_int t'; Ok (CTuple a s v 3)
  | _ => Err EOutOfRange
  end.

Definition step_bits (n : N) (o : copts) (t : str) (l : list N) : res cont :=
  do _ <- run_checks (o_checks o) t;
  do p <- lex_size (apply_fmts (o_fmts o) t);
  if N.leb n p then Err ERuntime else Ok (CBits (nset_add p l)).

Definition VB_LIMIT : N := 1099511627776%N.

(** fixed tree: resize( max( pos + 1, pos * 1.5)) *)
Definition vb_store (size : N) (l : list N) (p : N) : cont :=
  let size' := if N.leb size p then N.max (p + 1) (p + p / 2) else size in
  CVBool size' (nset_add p l).
(** pinned tree: resize( pos * 1.5); for pos = 1 and size 1 the vector does not
    grow and the bit is written behind its end: the value is lost *)
Definition vb_store_pinned (size : N) (l : list N) (p : N) : cont :=
  let size' := if N.leb size p then (p + p / 2)%N else size in
  if N.ltb p size' then CVBool size' (nset_add p l) else CVBool size' l.

Definition step_vb (store : N -> list N -> N -> cont) (o : copts) (t : str) (size : N) (l : list N)
  : res cont :=
  do _ <- run_checks (o_checks o) t;
  do p <- lex_size (apply_fmts (o_fmts o) t);
  if N.leb VB_LIMIT p then Fault Wrap      (* pos * 1.5 as double -> size_t: outside the model *)
  else Ok (store size l p).

(** all four key-value destinations share one assign(); they differ in
    addValue() only ([add]).  Pair separator "," (the default, no setPairFormat in the configuration
    language); general formats are never applied to pairs (format( key, 0) /
    format( value, 1) select the slots of addFormatKey / addFormatValue, which
    are not in the configuration language; addFormatPos is refused) *)
Definition step_kv (add : str -> Z -> list (str * Z) -> list (str * Z)) (o : copts) (t : str)
    (l : list (str * Z)) : res cont :=
  do _ <- run_checks (o_checks o) t;
  let '(k, v) := split2 COMMA t in
  if is_nil k || is_nil v then Err ERuntime else
  (* unique data: the key is looked up (contains) whatever insert() would do with it; a dropped pair is
     dropped before its value is converted *)
  if o_uniq o && map_has k l then (if o_dup_err o then Err ERuntime else Ok (CMap l))
  else do z <- lex_int v; Ok (CMap (add k z l)).

Definition step_map := step_kv map_add.

Definition step_gen (pinned : bool) (k : kind) (o : copts) (t : str) (c : cont) : res cont :=
  match k, c with
  | (KArr n | KStdArr n), CArr l idx =>
      step_arr (if pinned then arr_contains_pinned else arr_contains) n o t l idx
  | KVecStr, CStrs l => do l' <- step_strs o t l; Ok (CStrs l')
  | KTuple, CTuple a s b n => step_tuple o t a s b n
  | KBitset n, CBits l => step_bits n o t l
  | KVecBool, CVBool size l => step_vb (if pinned then vb_store_pinned else vb_store) o t size l
  | (KMap | KUMap), CMap l => step_map o t l
  | KMMap, CMap l => step_kv mmap_add o t l
  | KUMMap, CMap l => step_kv ummap_add o t l
  | _, CInts l => do l' <- step_ints k o t l; Ok (CInts l')
  | _, _ => Fault NullDeref                 (* kind and content do not fit: not reachable *)
  end.

Definition step := step_gen false.
Definition step_pinned := step_gen true.

(* ------------------------------------------------------------------ *)
(** * assign(), assignValue(), the uses of one argument *)

Definition clear_cont (c : cont) : cont :=
  match c with
  | CInts _ => CInts []
  | CStrs _ => CStrs []
  | CBits _ => CBits []
  | CVBool _ _ => CVBool 0 []
  | CMap _ => CMap []
  | c => c
  end.

Definition sort_cont (c : cont) : cont :=
  match c with
  | CInts l => CInts (sort_by Z.ltb l)
  | CArr l i => CArr (sort_by Z.ltb (firstn i l) ++ skipn i l) i
  | CStrs l => CStrs (sort_by str_ltb l)
  | c => c
  end.

(** vector<bool>: if (mDestVar.size() == 0) mDestVar.resize( 10) *)
Definition pre_use (c : cont) : cont :=
  match c with
  | CVBool 0 _ => CVBool 10 []
  | c => c
  end.

(** run-time part of the argument: destination, mClearB4Assign, the counter of
    the cardinality object *)
Record cst := { c_val : cont; c_clearp : bool; c_cnt : Z }.

Section Assign.
Variable stp : str -> cont -> res cont.
Variable o : copts.

(** the token loop; [first]: no cardinality step for the first token of a value *)
Fixpoint assign_tokens (toks : list str) (first : bool) (cnt0 : Z) (c : cont) : res (Z * cont) :=
  match toks with
  | [] => Ok (cnt0, c)
  | t :: r =>
      do c1 <- (if first then Ok cnt0 else card_got (o_card o) cnt0);
      do c' <- stp t c;
      assign_tokens r false c1 c'
  end.

(** assign( value, inverted) *)
Definition assign_container (st : cst) (value : str) : res cst :=
  let c0 := pre_use (if c_clearp st then clear_cont (c_val st) else c_val st) in
  do r <- assign_tokens (tokens (o_sep o) value) true (c_cnt st) c0;
  Ok {| c_val := if o_sort o then sort_cont (snd r) else snd r; c_clearp := false; c_cnt := fst r |}.

(** TypedArgBase::assignValue( false, value, false) *)
Definition use_value (st : cst) (value : str) : res cst :=
  do n1 <- card_got (o_card o) (c_cnt st);
  assign_container {| c_val := c_val st; c_clearp := c_clearp st; c_cnt := n1 |} value.

(** every use delivers one value string: [-k v], or a free value in multi-value mode *)
Fixpoint run_uses_gen (st : cst) (uses : list str) : res cst :=
  match uses with
  | [] => Ok st
  | u :: r => do st1 <- use_value st u; run_uses_gen st1 r
  end.
End Assign.

Definition run_uses (k : kind) (o : copts) := run_uses_gen (step k o) o.
Definition run_uses_pinned (k : kind) (o : copts) := run_uses_gen (step_pinned k o) o.

Definition init_state (o : copts) (c : cont) : cst := {| c_val := c; c_clearp := o_clear o; c_cnt := 0 |}.

(* ------------------------------------------------------------------ *)
(** * The command line of a C06 case: uses of the one container argument,
      optionally interleaved with uses of one boolean flag argument *)

Inductive use := UKey (v : str) | UFree (v : str) | UFlag.

Definition dashed_word (w : str) : bool := match w with c :: _ => ceq c DASH | [] => false end.

(** [flags]: the spellings of the flag argument ("-f", "--flag").  Any other
    dashed word is the key of the container: the word after it is its value (a
    missing value or a word starting with a dash is refused); other words are
    free values *)
Fixpoint parse_words (flags : list str) (ws : list str) : res (list use) :=
  match ws with
  | [] => Ok []
  | w :: r =>
      if dashed_word w then
        if str_in w flags then do us <- parse_words flags r; Ok (UFlag :: us)
        else
          match r with
          | v :: r' => if dashed_word v then Err EArgument
                       else do us <- parse_words flags r'; Ok (UKey v :: us)
          | [] => Err EArgument
          end
      else do us <- parse_words flags r; Ok (UFree w :: us)
  end.

(** TypedArg< bool>: cardinality "at most once" *)
Definition flag_card : card := CardMax 1.

(** Handler::processArg sets mpLastArg to the argument found, whatever its
    value mode; Handler::evalSingleArgument, case value: the free value goes to
    the last argument if that takes multiple values; there is no positional
    argument.  [have_last]: mpLastArg is the container argument; [fc]: the
    counter of the flag's cardinality. *)
Fixpoint run_events (stp : str -> cont -> res cont) (o : copts) (st : cst) (have_last : bool) (fc : Z)
    (us : list use) : res (cst * Z) :=
  match us with
  | [] => Ok (st, fc)
  | UKey v :: r => do st1 <- use_value stp o st v; run_events stp o st1 true fc r
  | UFree v :: r =>
      if have_last && o_multi o then do st1 <- use_value stp o st v; run_events stp o st1 true fc r
      else Err EInvalidArgument
  | UFlag :: r => do fc1 <- card_got flag_card fc; run_events stp o st false fc1 r
  end.

(** TypedArg< bool>::assign: the destination gets the opposite of its initial value *)
Definition flag_value (init : bool) (fc : Z) : bool := if Z.ltb 0 fc then negb init else init.

(** evalArguments for a configuration with one container argument (and the flag) *)
Definition eval_gen (pinned : bool) (k : kind) (o : copts) (c : cont) (flags : list str) (words : list str)
  : res (cst * Z) :=
  do us <- parse_words flags words;
  do r <- run_events (step_gen pinned k o) o (init_state o c) false 0 us;
  do _ <- card_end (o_card o) (c_cnt (fst r));
  Ok r.

Definition eval := eval_gen false.
Definition eval_pinned := eval_gen true.
