(** Look-ups interleaved with definitions: the answer to a look-up is the
    answer of [find_arg] on the table made of the definitions accepted before
    it - earlier look-ups leave no trace, neither in later answers nor in the
    table. *)
From Coq Require Import List NArith Bool Arith Lia Permutation.
Import ListNotations.
Require Import Celma.Common.Res Celma.ArgH.Key Celma.ArgH.Table Celma.ArgH.TableProofs Celma.ArgH.TableOps.

Section OpsProofs.
Context {A : Type}.
Implicit Types (t : @table A) (ops : list (@top A)).

Lemma run_ops_app abbr : forall pre t post,
  run_ops abbr t (pre ++ post) =
  match run_ops abbr t pre with
  | Some (ps1, t1) =>
      match run_ops abbr t1 post with
      | Some (ps2, t2) => Some (ps1 ++ ps2, t2)
      | None => None
      end
  | None => None
  end.
Proof.
  induction pre as [|o pre IH]; intros t post; cbn [app run_ops].
  - destruct (run_ops abbr t post) as [[ps2 t2]|]; reflexivity.
  - destruct o as [k a tol|k].
    + destruct (add_argument t k a) as [t'|?|?]; [apply IH|destruct tol; [apply IH|reflexivity]..].
    + rewrite IH. destruct (run_ops abbr t pre) as [[ps1 t1]|]; [|reflexivity].
      destruct (run_ops abbr t1 post) as [[ps2 t2]|]; reflexivity.
Qed.

(** the look-ups change neither the verdict on the definitions nor the table *)
Lemma run_ops_defs abbr : forall ops t,
  match run_ops abbr t ops with
  | Some (ps, t1) => run_ops abbr t (defs_of ops) = Some ([], t1) /\ length ps = probes_in ops
  | None => run_ops abbr t (defs_of ops) = None
  end.
Proof.
  unfold defs_of, probes_in.
  induction ops as [|o ops IH]; intros t; cbn [run_ops filter is_def negb length]; [auto|].
  destruct o as [k a tol|k]; cbn [is_def negb run_ops].
  - destruct (add_argument t k a) as [t'|?|?]; [apply IH|destruct tol; [apply IH|reflexivity]..].
  - specialize (IH t). destruct (run_ops abbr t ops) as [[ps t1]|]; [|exact IH].
    destruct IH as [IH1 IH2]. split; [exact IH1|cbn [length]; congruence].
Qed.

(** the answer to the look-up behind [pre] is [find_arg] on the table of the
    definitions in [pre] alone *)
Theorem lookup_has_no_memory abbr t pre k post ps t2 :
  run_ops abbr t (pre ++ TProbe k :: post) = Some (ps, t2) ->
  exists t1, run_ops abbr t (defs_of pre) = Some ([], t1) /\
             nth_error ps (probes_in pre) = Some (find_arg abbr t1 k) /\
             run_ops abbr t (defs_of (pre ++ TProbe k :: post)) = Some ([], t2).
Proof.
  intros H. pose proof (run_ops_defs abbr (pre ++ TProbe k :: post) t) as Hall. rewrite H in Hall.
  rewrite run_ops_app in H. pose proof (run_ops_defs abbr pre t) as Hpre.
  destruct (run_ops abbr t pre) as [[ps1 t1]|]; [|discriminate].
  destruct Hpre as [Hd Hl]. exists t1. split; [exact Hd|]. split; [|apply Hall].
  cbn [run_ops] in H. destruct (run_ops abbr t1 post) as [[ps2 t2']|]; [|discriminate].
  inversion H; subst. rewrite <- Hl. rewrite nth_error_app2 by lia. rewrite Nat.sub_diag. reflexivity.
Qed.

(** with definitions that are all accepted the table of a prefix is the list
    of its definitions, so the theorems about [find_arg] on a built table
    apply to every look-up in the sequence *)
Definition def_pairs ops : list (key * A) :=
  flat_map (fun o => match o with TDef k a _ => [(k, a)] | TProbe _ => [] end) ops.

Lemma run_defs_build abbr : forall ops t,
  Forall (fun o => match o with TDef _ _ tol => tol = false | TProbe _ => True end) ops ->
  match run_ops abbr t (defs_of ops) with
  | Some (ps, t1) => build t (def_pairs ops) = Ok t1
  | None => forall t1, build t (def_pairs ops) <> Ok t1
  end.
Proof.
  unfold defs_of. induction ops as [|o ops IH]; intros t HF; cbn [filter run_ops def_pairs flat_map build]; [reflexivity|].
  inversion HF as [|? ? Ho HF']; subst. destruct o as [k a tol|k]; cbn [is_def app].
  - subst tol. cbn [run_ops build]. destruct (add_argument t k a) as [t'|?|?]; cbn [bind]; try (intros; discriminate).
    apply IH. exact HF'.
  - apply IH. exact HF'.
Qed.

(** an exact key selects its own argument at every point of the sequence, in
    whatever order the definitions before that point were made *)
Theorem staged_exact_key_order_independent abbr defs t pre k post ps t2 ka a :
  build [] defs = Ok t -> Permutation defs (def_pairs pre) ->
  Forall (fun o => match o with TDef _ _ tol => tol = false | TProbe _ => True end) pre ->
  run_ops abbr [] (pre ++ TProbe k :: post) = Some (ps, t2) ->
  typed_key k -> In (ka, a) defs -> key_eq ka k = true ->
  nth_error ps (probes_in pre) = Some (Ok (Some a)).
Proof.
  intros Hbd HP HF H Hk Hin Heq.
  destruct (lookup_has_no_memory abbr [] pre k post ps t2 H) as (t1 & Hd & Hn & _).
  pose proof (run_defs_build abbr pre [] HF) as Hb. rewrite Hd in Hb.
  rewrite Hn. f_equal.
  destruct (build_ok (def_pairs pre) [] t1 ltac:(constructor) Hb) as [_ Et]. cbn [app] in Et. subst t1.
  destruct (build_ok defs [] t ltac:(constructor) Hbd) as [_ Et]. cbn [app] in Et. subst t.
  exact (find_exact_order_independent abbr defs defs (def_pairs pre) k ka a Hbd HP Hk Hin Heq).
Qed.

End OpsProofs.
