(** Argument groups: mirror of Groups::evalArguments
    (src/library/prog_args/groups.cpp, after the two repairs): every element
    is offered to the member handlers in order, the first one that does not
    answer "unknown" wins; when an argument (not a free value) was identified
    the other members forget their last argument; at the end every member
    runs its end-of-line checks.  No proofs here. *)
From Coq Require Import List NArith Bool Arith.
Import ListNotations.
Require Import Celma.Common.Res Celma.ArgH.Key Celma.ArgH.Table Celma.ArgH.Lex Celma.ArgH.Handler.

Definition forget_last (s : hstate) : hstate :=
  {| arts := arts s; pend := pend s; gsts := gsts s; last := None; inv := inv s |}.

Definition is_value (e : elem) : bool := match e with EVal _ => true | _ => false end.

Definition has_last (s : hstate) : bool := match last s with Some _ => true | None => false end.

(** offer the element to the members selected by [sel], in order.  Result:
    consumed?, the new member states, the iterator to continue from.
    [pinned = true] models the tree before "fix: ... free value ..." (no
    forgetting). *)
Fixpoint offer_sel (sel : hstate -> bool) (pinned : bool) (cs : list cfg) (ss : list hstate) (e : elem) (cur : it)
  : res (ares * list hstate * it) :=
  match cs, ss with
  | c :: cr, s :: sr =>
      if sel s then
        do r <- eval_single c s false e cur;
        let '(a, s1, i1) := r in
        match a with
        | AConsumed =>
            Ok (AConsumed, s1 :: (if pinned || is_value e then sr else map forget_last sr), i1)
        | AUnknown =>
            do r2 <- offer_sel sel pinned cr sr e cur;
            let '(a2, sr', i2) := r2 in
            Ok (a2, (match a2 with
                     | AConsumed => if pinned || is_value e then s1 else forget_last s1
                     | AUnknown => s1 end) :: sr', i2)
        end
      else
        do r2 <- offer_sel sel pinned cr sr e cur;
        let '(a2, sr', i2) := r2 in
        Ok (a2, (match a2 with
                 | AConsumed => if pinned || is_value e then s else forget_last s
                 | AUnknown => s end) :: sr', i2)
  | _, _ => Ok (AUnknown, ss, cur)
  end.

(** Groups::evalArguments, one element: an argument is offered to all
    members in order; a free value first to the member that identified the last
    argument (the only one whose last argument is set), then to the others *)
Definition offer (pinned : bool) (cs : list cfg) (ss : list hstate) (e : elem) (cur : it)
  : res (ares * list hstate * it) :=
  if is_value e && negb pinned then
    do r <- offer_sel has_last pinned cs ss e cur;
    let '(a, ss1, i1) := r in
    match a with
    | AConsumed => Ok (a, ss1, i1)
    | AUnknown => offer_sel (fun s => negb (has_last s)) pinned cs ss1 e cur
    end
  else offer_sel (fun _ => true) pinned cs ss e cur.

Fixpoint iterate_group (fuel : nat) (pinned : bool) (cs : list cfg) (ss : list hstate)
    (cur : option (elem * it)) : res (list hstate) :=
  match cur with
  | None => Ok ss
  | Some (e, i0) =>
      match fuel with
      | O => Fault Fuel
      | S f =>
          do r <- offer pinned cs ss e i0;
          let '(a, ss1, i1) := r in
          match a with
          | AUnknown => Err ERuntime
          | AConsumed => do nx <- next false i1; iterate_group f pinned cs ss1 nx
          end
      end
  end.

(** the end of Groups::evalArguments; [pinned_end = true]: only the
    mandatory / cardinality check (tree before "fix: ... end-of-line checks") *)
Fixpoint group_final (pinned_end : bool) (cs : list cfg) (ss : list hstate) : res unit :=
  match cs, ss with
  | c :: cr, s :: sr =>
      do _ <- (if pinned_end then check_mandatory_card (args c) (arts s) else final_checks c s);
      group_final pinned_end cr sr
  | _, _ => Ok tt
  end.

Definition eval_group (pinned pinned_end : bool) (cs : list cfg) (initss : list (list value)) (argv : list str)
  : res (list hstate) :=
  match cs with
  | [] => Err ERuntime
  | _ =>
      let ss := map (fun p => init_state (fst p) (snd p)) (combine cs initss) in
      do f <- first argv;
      do ss1 <- iterate_group (S (words_size argv)) pinned cs ss f;
      do _ <- group_final pinned_end cs ss1;
      Ok ss1
  end.
