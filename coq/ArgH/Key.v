(** Argument keys: mirror of celma::prog_args::detail::ArgumentKey
    (src/library/prog_args/detail/argument_key.cpp).  No proofs here. *)
From Coq Require Import List NArith Bool Arith.
Import ListNotations.
Require Import Celma.Common.Res.

Definition str := list N.

Definition DASH : N := 45%N.
Definition COMMA : N := 44%N.
Definition SPACE : N := 32%N.
Definition ceq (a b : N) : bool := N.eqb a b.

(** [kc = 0] : no short key ('\0');  [kw = []] : no long key *)
Record key := { kc : N; kw : str }.

Fixpoint str_eqb (a b : str) : bool :=
  match a, b with
  | [], [] => true
  | x :: a', y :: b' => ceq x y && str_eqb a' b'
  | _, _ => false
  end.

(** std::string::operator[] (index = size yields '\0') *)
Definition at0 (s : str) (i : nat) : N := nth i s 0%N.

Fixpoint index_of (c : N) (s : str) : option nat :=
  match s with
  | [] => None
  | x :: t => if ceq x c then Some 0 else option_map S (index_of c t)
  end.

Fixpoint mem (c : N) (s : str) : bool :=
  match s with [] => false | x :: t => ceq x c || mem c t end.

(** anonymous-namespace helper remove_dashes() *)
Definition remove_dashes (s : str) : res str :=
  let s1 := if ceq (at0 s 0) DASH then tl s else s in
  let s2 := if ceq (at0 s1 0) DASH then tl s1 else s1 in
  if ceq (at0 s2 0) DASH then Err EInvalidArgument else Ok s2.

Definition b2n (b : bool) : nat := if b then 1 else 0.

(** ArgumentKey( const std::string& arg_spec) *)
Definition parse_key (s : str) : res key :=
  match s with
  | [] => Err EInvalidArgument
  | _ =>
    if str_eqb s [COMMA] then Err EInvalidArgument
    else if mem SPACE s then Err EInvalidArgument
    else match index_of COMMA s with
    | None =>
        let ign := b2n (ceq (at0 s 0) DASH) + b2n (ceq (at0 s 1) DASH) in
        if ceq (at0 s ign) DASH then Err EInvalidArgument
        else if Nat.eqb (length s - ign) 1 && Nat.ltb ign 2
             then Ok {| kc := at0 s ign; kw := [] |}
             else Ok {| kc := 0%N; kw := skipn ign s |}
    | Some p =>
        match index_of COMMA (skipn (p + 1) s) with
        | Some _ => Err EInvalidArgument
        | None =>
            do sb <- remove_dashes (firstn p s);
            do se <- remove_dashes (skipn (p + 1) s);
            if str_eqb sb se then Err EInvalidArgument
            else if Nat.eqb (length sb) 0 || Nat.eqb (length se) 0 then Err EInvalidArgument
            else if Nat.eqb (length sb) 1 && Nat.eqb (length se) 1 then Err EInvalidArgument
            else if Nat.eqb (length sb) 1 then Ok {| kc := at0 sb 0; kw := se |}
            else if Nat.eqb (length se) 1 then Ok {| kc := at0 se 0; kw := sb |}
            else Err EInvalidArgument
        end
    end
  end.

(** ArgumentKey( char) *)
Definition key_of_char (c : N) : key := {| kc := c; kw := [] |}.

Definition has_c (k : key) : bool := negb (ceq (kc k) 0%N).
Definition has_w (k : key) : bool := match kw k with [] => false | _ => true end.

(** ArgumentKey::operator== *)
Definition key_eq (a b : key) : bool :=
  if has_c a && has_c b then ceq (kc a) (kc b)
  else if has_w a && has_w b then str_eqb (kw a) (kw b)
  else negb (has_c a) && negb (has_c b) && negb (has_w a) && negb (has_w b).

(** ArgumentKey::mismatch *)
Definition key_mismatch (a b : key) : bool :=
  if has_c a && has_c b && has_w a && has_w b
  then negb (Bool.eqb (ceq (kc a) (kc b)) (str_eqb (kw a) (kw b)))
  else false.

Fixpoint is_prefix (p s : str) : bool :=
  match p, s with
  | [], _ => true
  | x :: p', y :: s' => ceq x y && is_prefix p' s'
  | _ :: _, [] => false
  end.

(** ArgumentKey::startsWith : this->mWord starts with other.mWord *)
Definition key_starts_with (a b : key) : bool :=
  has_w a && has_w b && is_prefix (kw b) (kw a).
