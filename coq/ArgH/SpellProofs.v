(** C01/C03: every legal spelling of an abstract command line is evaluated to
    the spelling-free semantics [fold_uses] - simulation between the argument
    list iterator + handler loop and the list of uses. *)
From Coq Require Import List NArith ZArith Bool Arith Lia.
Import ListNotations.
Require Import Celma.Common.Res Celma.Common.ListX Celma.Common.Tactics
               Celma.ArgH.Key Celma.ArgH.Table Celma.ArgH.TableProofs
               Celma.ArgH.Lex Celma.ArgH.Handler Celma.ArgH.Spell.

(** continue the handler loop from an iterator state (= ++ai, then iterate) *)
Definition run (c : cfg) (s : hstate) (ic : bool) (fuel : nat) (i0 : it) : res hstate :=
  do nx <- next false i0; iterate fuel c s ic nx.

(** between two words *)
Definition bw (ws : list str) : it := mk ws 0 false false.

Lemma ceq_dash_false ch : ch <> DASH -> ceq ch DASH = false.
Proof. intros H. apply not_true_iff_false. rewrite ceq_true. exact H. Qed.

Lemma iterate_step c s ic f e i0 :
  iterate (S f) c s ic (Some (e, i0)) =
  do r <- eval_single c s ic e i0;
  let '(a, s1, i1) := r in
  match a with
  | AUnknown => Err EInvalidArgument
  | AConsumed => run c s1 ic f i1
  end.
Proof. reflexivity. Qed.

Lemma iterate_end c s ic f : iterate f c s ic None = Ok s.
Proof. destruct f; reflexivity. Qed.

Lemma run_end c s ic f : run c s ic f (bw []) = Ok s.
Proof. unfold run, next, bw. cbn. apply iterate_end. Qed.

(** with the repaired notification the spelling of the key plays no role *)
Lemma handle_identified_key c s i k k' ic v :
  fixed_notify c = true -> handle_identified c s i k ic v = handle_identified c s i k' ic v.
Proof. intros H. unfold handle_identified. rewrite H. reflexivity. Qed.

(* ------------------------------------------------------------------ *)
(** * What the iterator yields for each word shape *)

Lemma next_long w ws :
  w <> [] ->
  next false (bw ((DASH :: DASH :: w) :: ws)) =
  match index_of EQSIGN w with
  | None => Ok (Some (EStr w, bw ws))
  | Some e => Ok (Some (EStr (firstn e w), mk ((DASH :: DASH :: w) :: ws) (1 + e + 2) true false))
  end.
Proof.
  intros Hw. destruct w as [|x w]; [congruence|].
  unfold next, bw, mk. cbn [rest cpos nextval dashed next_words orb andb negb Nat.eqb].
  unfold rdc. cbn [length Nat.leb nth bind]. rewrite (ceq_refl DASH). cbn [negb orb andb Nat.eqb length].
  unfold determine, rdc. cbn [length Nat.leb nth bind]. rewrite (ceq_refl DASH).
  cbn [Nat.add Nat.eqb length]. unfold cstr_at. cbn [length Nat.leb skipn bind]. reflexivity.
Qed.

Lemma index_of_app_eq w v : index_of EQSIGN w = None -> index_of EQSIGN (w ++ EQSIGN :: v) = Some (length w).
Proof.
  induction w as [|x w IH]; cbn; intros H.
  - try rewrite ceq_refl; reflexivity.
  - destruct (ceq x EQSIGN); [discriminate|]. destruct (index_of EQSIGN w); [discriminate|].
    rewrite IH by reflexivity. reflexivity.
Qed.

(** the value behind "=" *)
Lemma next_eq_value w v ws :
  next true (mk ((DASH :: DASH :: w ++ EQSIGN :: v) :: ws) (1 + length w + 2) true false)
  = Ok (Some (EVal v, bw ws)).
Proof.
  unfold next, mk, bw. cbn [rest cpos nextval dashed next_words orb].
  unfold cstr_at. cbn [length]. rewrite app_length. cbn [length].
  replace (1 + length w + 2 <=? S (S (length w + S (length v)))) with true
    by (symmetry; apply Nat.leb_le; lia).
  cbn [bind]. replace (1 + length w + 2) with (S (S (length w + 1))) by lia. cbn [skipn].
  rewrite skipn_app. replace (length w + 1 - length w) with 1 by lia.
  rewrite skipn_all2 by lia. cbn. reflexivity.
Qed.

(** a value word of its own, looked at on behalf of an argument that needs one *)
Lemma next_sep_value v ws rem :
  sep_value v -> next rem (bw (v :: ws)) = Ok (Some (EVal v, bw ws)).
Proof.
  intros Hv. unfold next, bw, mk. cbn [rest cpos nextval dashed next_words orb andb negb Nat.eqb].
  rewrite andb_false_r. cbn [orb]. unfold rdc. cbn [Nat.leb bind].
  destruct v as [|x r]; cbn [nth length].
  - cbn. reflexivity.
  - destruct Hv as [Hx Hc]. rewrite (ceq_dash_false x Hx). cbn [negb orb].
    destruct r as [|y r']; cbn [length Nat.eqb andb].
    + destruct (is_ctrl x) eqn:E; [exfalso; apply Hc; auto|]. reflexivity.
    + reflexivity.
Qed.

(** one character of a group behind a single dash: the word is
    DASH :: pre ++ ch :: post and the iterator stands on ch *)
Definition grp_word (pre : list N) (ch : N) (post : list N) : str := DASH :: pre ++ ch :: post.

Definition grp_pos (pre : list N) (ch : N) (post : list N) (ws : list str) : it :=
  match pre with
  | [] => bw (grp_word pre ch post :: ws)
  | _ => mk (grp_word pre ch post :: ws) (S (length pre)) false false
  end.

Definition grp_after (pre : list N) (ch : N) (post : list N) (ws : list str) : it :=
  match post with
  | [] => bw ws
  | _ => mk (grp_word pre ch post :: ws) (S (S (length pre))) false false
  end.

Lemma nth_grp pre ch post : nth (S (length pre)) (grp_word pre ch post) 0%N = ch.
Proof. unfold grp_word. cbn [nth]. rewrite app_nth2 by lia. rewrite Nat.sub_diag. reflexivity. Qed.

Lemma length_grp pre ch post : length (grp_word pre ch post) = S (length pre + S (length post)).
Proof. unfold grp_word. cbn [length]. rewrite app_length. reflexivity. Qed.

Lemma determine_grp dd pre ch post ws :
  ch <> DASH ->
  determine dd (grp_word pre ch post) ws (S (length pre)) false
  = Ok (Some (EChar ch, grp_after pre ch post ws)).
Proof.
  intros Hc. unfold determine, rdc. rewrite length_grp.
  replace (S (length pre) <=? S (length pre + S (length post))) with true
    by (symmetry; apply Nat.leb_le; lia).
  cbn [bind]. rewrite nth_grp, (ceq_dash_false ch Hc).
  unfold grp_after. destruct post as [|y post'].
  - cbn [length]. replace (Nat.eqb (S (length pre + 1)) (S (length pre) + 1)) with true
      by (symmetry; apply Nat.eqb_eq; lia). reflexivity.
  - cbn [length]. replace (Nat.eqb (S (length pre + S (S (length post')))) (S (length pre) + 1)) with false
      by (symmetry; apply Nat.eqb_neq; lia).
    replace (S (length pre) + 1) with (S (S (length pre))) by lia. reflexivity.
Qed.

Lemma next_grp pre ch post ws :
  ch <> DASH ->
  next false (grp_pos pre ch post ws) = Ok (Some (EChar ch, grp_after pre ch post ws)).
Proof.
  intros Hc. unfold grp_pos. destruct pre as [|x pre'].
  - unfold next, bw, mk. cbn [rest cpos nextval dashed next_words orb andb negb Nat.eqb].
    unfold rdc at 1. cbn [grp_word app length Nat.leb nth bind]. rewrite (ceq_refl DASH).
    cbn [negb orb andb Nat.eqb].
    apply (determine_grp _ [] ch post ws Hc).
  - unfold next, mk. cbn [rest cpos nextval dashed next_words orb andb negb].
    replace (Nat.eqb (S (length (x :: pre'))) 0) with false by reflexivity.
    cbn [negb andb orb]. apply determine_grp. exact Hc.
Qed.

(* ------------------------------------------------------------------ *)
(** * One use = one step of the loop *)

Section Steps.
Variable c : cfg.
Hypothesis Hfix : fixed_notify c = true.

Lemma lookup_long_step s ic w i cur :
  long_name c i w -> takes_none c i ->
  eval_single c s ic (EStr w) cur =
  do s1 <- use_step c s ic (UFlag i); Ok (AConsumed, s1, cur).
Proof.
  intros (Hw & He & k & Hk & Hl) Hn. unfold eval_single. rewrite Hk. cbn [bind].
  unfold process_arg. rewrite Hl. cbn [bind]. unfold takes_none, argdef_of in Hn. rewrite Hn.
  unfold use_step, with_last, argdef_of.
  rewrite (handle_identified_key c _ i k (a_key (nth i (args c) dummy_def)) ic [] Hfix). reflexivity.
Qed.

Lemma lookup_short_step s ic ch i cur :
  short_name c i ch -> takes_none c i ->
  eval_single c s ic (EChar ch) cur =
  do s1 <- use_step c s ic (UFlag i); Ok (AConsumed, s1, cur).
Proof.
  intros (Hc & Hl) Hn. unfold eval_single, process_arg. rewrite Hl. cbn [bind].
  unfold takes_none, argdef_of in Hn. rewrite Hn.
  unfold use_step, with_last, argdef_of.
  rewrite (handle_identified_key c _ i (key_of_char ch) (a_key (nth i (args c) dummy_def)) ic [] Hfix). reflexivity.
Qed.

Lemma value_step s ic k i cur v it2 :
  lookup c k = Ok (Some i) -> takes_required c i ->
  next true cur = Ok (Some (EVal v, it2)) ->
  process_arg c s ic k cur = do s1 <- use_step c s ic (UVal i v); Ok (AConsumed, s1, it2).
Proof.
  intros Hl Hr Hn. unfold process_arg. rewrite Hl. cbn [bind].
  unfold takes_required, argdef_of in Hr. rewrite Hr. rewrite Hn. cbn [bind].
  unfold use_step, with_last, argdef_of.
  rewrite (handle_identified_key c _ i k (a_key (nth i (args c) dummy_def)) ic v Hfix). reflexivity.
Qed.

(** run one step: an element that is consumed *)
Lemma run_consumed s ic f i0 e i1 (X : res hstate) i2 :
  next false i0 = Ok (Some (e, i1)) ->
  eval_single c s ic e i1 = (do s1 <- X; Ok (AConsumed, s1, i2)) ->
  run c s ic (S f) i0 = do s1 <- X; run c s1 ic f i2.
Proof.
  intros Hn He. unfold run at 1. rewrite Hn. cbn [bind]. rewrite iterate_step, He.
  destruct X as [s1|e1|f1]; reflexivity.
Qed.


(** position in a group word before the characters [post] (none left: the
    next word) *)
Definition grp_rest (pre post : list N) (ws : list str) : it :=
  match post with
  | [] => bw ws
  | ch :: post' => grp_pos pre ch post' ws
  end.

Lemma grp_word_shift pre ch ch' post' : grp_word pre ch (ch' :: post') = grp_word (pre ++ [ch]) ch' post'.
Proof. unfold grp_word. rewrite <- app_assoc. reflexivity. Qed.

Lemma grp_after_rest pre ch post ws : grp_after pre ch post ws = grp_rest (pre ++ [ch]) post ws.
Proof.
  unfold grp_after, grp_rest. destruct post as [|ch' post']; [reflexivity|].
  unfold grp_pos. rewrite <- grp_word_shift.
  destruct (pre ++ [ch]) as [|y r] eqn:E; [destruct pre; discriminate|].
  rewrite <- E, app_length. cbn [length]. replace (length pre + 1) with (S (length pre)) by lia. reflexivity.
Qed.

Lemma fold_uses_app ic us1 : forall us2 s,
  fold_uses c s ic (us1 ++ us2) = do s1 <- fold_uses c s ic us1; fold_uses c s1 ic us2.
Proof.
  induction us1 as [|u r IH]; intros us2 s; [reflexivity|].
  cbn [app fold_uses]. destruct (use_step c s ic u) as [s1|e|f]; cbn [bind]; auto.
Qed.

(** a run of flags inside a group behind one dash *)
Lemma run_flags ic ws : forall fs pre post s f,
  flags_ok c fs ->
  run c s ic (length fs + f) (grp_rest pre (map snd fs ++ post) ws) =
  do s1 <- fold_uses c s ic (map (fun p => UFlag (fst p)) fs);
  run c s1 ic f (grp_rest (pre ++ map snd fs) post ws).
Proof.
  induction fs as [|[i ch] fr IH]; intros pre post s f Hok.
  - cbn [map app length fold_uses bind]. rewrite app_nil_r. reflexivity.
  - inversion Hok as [|? ? [Hs Hn] Hr]; subst. cbn [fst snd] in Hs, Hn.
    cbn [map app length fst snd grp_rest fold_uses Nat.add].
    rewrite (run_consumed s ic (length fr + f) _ (EChar ch) (grp_after pre ch (map snd fr ++ post) ws)
               (use_step c s ic (UFlag i)) (grp_after pre ch (map snd fr ++ post) ws)).
    + destruct (use_step c s ic (UFlag i)) as [s1|e|f1]; cbn [bind]; auto.
      rewrite grp_after_rest, IH by assumption. rewrite <- app_assoc. reflexivity.
    + apply next_grp. apply Hs.
    + apply lookup_short_step; assumption.
Qed.

Lemma next_glued pre ch v ws :
  v <> [] -> next true (grp_after pre ch v ws) = Ok (Some (EVal v, bw ws)).
Proof.
  intros Hv. destruct v as [|x v']; [congruence|].
  unfold grp_after, next, mk, bw. cbn [rest cpos nextval dashed next_words orb andb negb Nat.eqb].
  unfold cstr_at. rewrite length_grp. cbn [length].
  replace (S (S (length pre)) <=? S (length pre + S (S (length v')))) with true
    by (symmetry; apply Nat.leb_le; lia).
  assert (E : skipn (S (S (length pre))) (grp_word pre ch (x :: v')) = x :: v').
  { unfold grp_word.
    change (skipn (S (S (length pre))) (DASH :: pre ++ ch :: x :: v'))
      with (skipn (S (length pre)) (pre ++ ch :: x :: v')).
    rewrite skipn_app, skipn_all2 by lia. replace (S (length pre) - length pre) with 1 by lia. reflexivity. }
  rewrite E. reflexivity.
Qed.

Lemma bw_grp ch post ws : bw ((DASH :: ch :: post) :: ws) = grp_rest [] (ch :: post) ws.
Proof. reflexivity. Qed.

(** Every legal spelling of an abstract line is evaluated to [fold_uses] of
    the line: same outcome (also the same error), same final state. *)
Theorem spell_run ic us ws :
  spell c us ws -> forall s f, run c s ic (length us + f) (bw ws) = fold_uses c s ic us.
Proof.
  induction 1 as [|i w us ws Hl Hn Hsp IH|i w v us ws Hl Hr Hsp IH|i w v us ws Hl Hr Hv Hsp IH
                  |fs us ws Hne Hf Hsp IH|fs i ch v us ws Hf Hs Hr Hv Hsp IH|fs i ch v us ws Hf Hs Hr Hv Hsp IH];
    intros s f.
  - apply run_end.
  - cbn [length Nat.add fold_uses].
    pose proof Hl as (Hw & He & _).
    rewrite (run_consumed s ic (length us + f) _ (EStr w) (bw ws) (use_step c s ic (UFlag i)) (bw ws)).
    + destruct (use_step c s ic (UFlag i)); cbn [bind]; auto.
    + rewrite next_long by assumption. rewrite He. reflexivity.
    + apply lookup_long_step; assumption.
  - cbn [length Nat.add fold_uses].
    pose proof Hl as (Hw & He & k & Hk & Hlk).
    rewrite (run_consumed s ic (length us + f) _ (EStr w)
               (mk ((DASH :: DASH :: w ++ EQSIGN :: v) :: ws) (1 + length w + 2) true false)
               (use_step c s ic (UVal i v)) (bw ws)).
    + destruct (use_step c s ic (UVal i v)); cbn [bind]; auto.
    + rewrite next_long by (destruct w; discriminate).
      rewrite (index_of_app_eq w v He), firstn_app_exact. reflexivity.
    + unfold eval_single. rewrite Hk. cbn [bind].
      apply value_step; auto. apply next_eq_value.
  - cbn [length Nat.add fold_uses].
    pose proof Hl as (Hw & He & k & Hk & Hlk).
    rewrite (run_consumed s ic (length us + f) _ (EStr w) (bw (v :: ws)) (use_step c s ic (UVal i v)) (bw ws)).
    + destruct (use_step c s ic (UVal i v)); cbn [bind]; auto.
    + rewrite next_long by assumption. rewrite He. reflexivity.
    + unfold eval_single. rewrite Hk. cbn [bind].
      apply value_step; auto. apply next_sep_value. exact Hv.
  - rewrite app_length, map_length, <- Nat.add_assoc.
    assert (E : bw ((DASH :: map snd fs) :: ws) = grp_rest [] (map snd fs ++ []) ws).
    { destruct fs as [|[i0 ch0] fr]; [congruence|]. rewrite app_nil_r. reflexivity. }
    rewrite E, run_flags by assumption. rewrite fold_uses_app.
    destruct (fold_uses c s ic (map (fun p => UFlag (fst p)) fs)) as [s1|e|f1]; cbn [bind]; auto.
  - rewrite app_length, map_length. cbn [length]. rewrite <- Nat.add_assoc.
    assert (E : bw ((DASH :: map snd fs ++ ch :: v) :: ws) = grp_rest [] (map snd fs ++ ch :: v) ws).
    { destruct fs as [|[i0 ch0] fr]; reflexivity. }
    rewrite E, run_flags by assumption. rewrite fold_uses_app. cbn [app].
    destruct (fold_uses c s ic (map (fun p => UFlag (fst p)) fs)) as [s1|e|f1]; cbn [bind]; auto.
    cbn [grp_rest fold_uses Nat.add].
    rewrite (run_consumed s1 ic (length us + f) _ (EChar ch) (grp_after (map snd fs) ch v ws)
               (use_step c s1 ic (UVal i v)) (bw ws)).
    + destruct (use_step c s1 ic (UVal i v)); cbn [bind]; auto.
    + apply next_grp. apply Hs.
    + unfold eval_single. apply value_step; auto; [apply Hs|]. apply next_glued. exact Hv.
  - rewrite app_length, map_length. cbn [length]. rewrite <- Nat.add_assoc.
    assert (E : bw ((DASH :: map snd fs ++ [ch]) :: v :: ws) = grp_rest [] (map snd fs ++ [ch]) (v :: ws)).
    { destruct fs as [|[i0 ch0] fr]; reflexivity. }
    rewrite E, run_flags by assumption. rewrite fold_uses_app. cbn [app].
    destruct (fold_uses c s ic (map (fun p => UFlag (fst p)) fs)) as [s1|e|f1]; cbn [bind]; auto.
    cbn [grp_rest fold_uses Nat.add].
    rewrite (run_consumed s1 ic (length us + f) _ (EChar ch) (grp_after (map snd fs) ch [] (v :: ws))
               (use_step c s1 ic (UVal i v)) (bw ws)).
    + destruct (use_step c s1 ic (UVal i v)); cbn [bind]; auto.
    + apply next_grp. apply Hs.
    + unfold eval_single. apply value_step; auto; [apply Hs|].
      unfold grp_after. apply next_sep_value. exact Hv.
Qed.

(** the constructor behaves like operator++ from "between words" on spelled lines *)
Lemma first_spelled us ws : spell c us ws -> first ws = next false (bw ws).
Proof.
  intros H. destruct H; try reflexivity.
  all: unfold first, next, bw, mk; cbn [rest cpos nextval dashed next_words orb andb negb Nat.eqb];
    unfold rdc; cbn [length Nat.leb nth bind]; rewrite (ceq_refl DASH); cbn [negb orb andb Nat.eqb];
    try reflexivity.
  all: match goal with fs : list (nat * N) |- _ => destruct fs as [|[? ?] ?] end; try congruence; reflexivity.
Qed.

Lemma spell_size us ws : spell c us ws -> length us <= words_size ws.
Proof.
  unfold words_size. induction 1; cbn [length fold_right] in *;
    repeat (rewrite ?app_length, ?map_length; cbn [length]); lia.
Qed.

(** evaluation of the words of any legal spelling = the spelling-free semantics *)
Theorem eval_words_spelled ic us ws s :
  spell c us ws -> eval_words c s ic ws = fold_uses c s ic us.
Proof.
  intros H. unfold eval_words. rewrite (first_spelled us ws H).
  pose proof (spell_size us ws H) as Hs.
  replace (S (words_size ws)) with (length us + (S (words_size ws) - length us)) by lia.
  apply (spell_run ic us ws H s).
Qed.

End Steps.

(* ------------------------------------------------------------------ *)
(** * Lines delivered in pieces (argument file lines, environment variable) *)

Lemma spell_app c us1 ws1 : spell c us1 ws1 -> forall us2 ws2, spell c us2 ws2 -> spell c (us1 ++ us2) (ws1 ++ ws2).
Proof.
  induction 1; intros us2 ws2 Hs2; cbn [app]; try rewrite <- ?app_assoc; cbn [app].
  - exact Hs2.
  - apply sp_long_flag; auto.
  - apply sp_long_eq; auto.
  - apply sp_long_sep; auto.
  - apply sp_flags; auto.
  - apply sp_glued; auto.
  - apply sp_short_sep; auto.
Qed.

Fixpoint spell_lines (c : cfg) (uss : list (list use)) (lines : list (list str)) : Prop :=
  match uss, lines with
  | [], [] => True
  | us :: ur, l :: lr => spell c us l /\ spell_lines c ur lr
  | _, _ => False
  end.

Lemma eval_lines_spelled c (Hf : fixed_notify c = true) : forall uss lines s,
  spell_lines c uss lines -> eval_lines c s lines = fold_uses c s true (concat uss).
Proof.
  induction uss as [|us ur IH]; intros [|l lr] s H; cbn in H; try contradiction; [reflexivity|].
  destruct H as [H1 H2]. cbn [eval_lines concat].
  rewrite (eval_words_spelled c Hf true us l s H1), fold_uses_app.
  destruct (fold_uses c s true us); cbn [bind]; auto.
Qed.

(** Arguments delivered through an argument file (already split into words
    per line), an environment variable and the command line are evaluated as
    ONE sequence of uses, in the order file, environment, command line - by the
    same rules; only the cardinality counting is switched off for the first
    two sources, so that a later value on the command line may override. *)
Theorem eval_arguments_sources c (Hf : fixed_notify c = true) inits uss lines envu envw argu argw :
  spell_lines c uss lines -> spell c envu envw -> spell c argu argw ->
  eval_arguments c inits lines (Some envw) argw =
  do s1 <- fold_uses c (init_state c inits) true (concat uss ++ envu);
  do s2 <- fold_uses c s1 false argu;
  do _ <- final_checks c s2; Ok s2.
Proof.
  intros Hl He Ha. unfold eval_arguments.
  rewrite (eval_lines_spelled c Hf uss lines _ Hl), fold_uses_app.
  destruct (fold_uses c (init_state c inits) true (concat uss)) as [s0|e|f]; cbn [bind]; auto.
  rewrite (eval_words_spelled c Hf true envu envw s0 He).
  destruct (fold_uses c s0 true envu) as [s1|e|f]; cbn [bind]; auto.
  rewrite (eval_words_spelled c Hf false argu argw s1 Ha). reflexivity.
Qed.
