(** Sub-group arguments (Handler::addArgument( spec, Handler& subGroup, desc) and
    the first part of Handler::processArg()): the main handler keeps them in a
    container of their own that is searched first; when one is identified, the
    following elements are offered to the sub-group handler as long as it
    consumes them, and the first element it does not know is evaluated by the
    main handler again.

    As in ArgFile.v the element loop of Handler.v is extended, not changed.
    [pinned = true] is the behaviour before the repair "the argument behind a
    sub-group argument is no longer skipped when the sub-group does not know
    it": the main iterator was advanced past the next element before the
    sub-group handler was asked.  No proofs here. *)
From Coq Require Import List NArith ZArith Bool Arith.
Import ListNotations.
Require Import Celma.Common.Res Celma.ArgH.Key Celma.ArgH.Table Celma.ArgH.Lex Celma.ArgH.Handler.

Record sgcfg := {
  sg_main : cfg;
  sg_subs : list (key * cfg);       (* key of the sub-group argument, its handler *)
  sg_rules : list (bool * card)     (* per sub-group argument: setIsMandatory(), setCardinality() *)
}.

(** run-time: the main handler, the sub-group handlers, how often each
    sub-group argument was used (its cardinality counter), whether it was used
    at all (TypedArgSubGroup::mWasCalled) *)
Record sgstate := {
  sm : hstate;
  ss : list hstate;
  scnt : list Z;
  scal : list bool
}.

(** a sub-group argument has no cardinality limit unless one is set
    (mpCardinality.reset() in its constructor) *)
Definition sub_rule (c : sgcfg) (j : nat) : bool * card := nth j (sg_rules c) (false, CardNone).

(** the definitions: Handler::addArgument( spec, subGroup, desc) and internAddArgument refuse a key that is taken in
    either container (after "fix: the key of a sub-group argument and the key of a plain argument of the same
    handler must differ"); [sg_keys_ok] is what an accepted sequence of definitions guarantees, in any order *)
Definition key_free (ks : list key) (k : key) : bool :=
  forallb (fun k' => negb (key_eq k' k) && negb (key_mismatch k' k)) ks.
Fixpoint keys_distinct (ks : list key) : bool :=
  match ks with [] => true | k :: r => key_free r k && keys_distinct r end.
Definition sg_keys_ok (c : sgcfg) : bool :=
  keys_distinct (map a_key (args (sg_main c)) ++ map fst (sg_subs c)).

Definition sub_table (c : sgcfg) : @table nat :=
  (fix go (l : list (key * cfg)) (i : nat) : @table nat :=
     match l with [] => [] | (k, _) :: r => (k, i) :: go r (S i) end) (sg_subs c) 0.

Definition sub_lookup (c : sgcfg) (k : key) : res (option nat) :=
  find_arg (abbr (sg_main c)) (sub_table c) k.

Definition cfg_nil : cfg := {| args := []; gcons := []; abbr := true; fixed_notify := true |}.
Definition st_nil : hstate := {| arts := []; pend := []; gsts := []; last := None; inv := false |}.

(** the sub-group handler takes elements as long as it consumes them.
    Returns its state and the iterator behind the last element consumed
    ([ai]: at first the iterator behind the sub-group key itself).
    [fuel] bounds the number of elements. *)
Fixpoint sub_take (fuel : nat) (cs : cfg) (s : hstate) (ai : it) : res (hstate * it) :=
  match fuel with
  | O => Fault Fuel
  | S f =>
      do nx <- next false ai;
      match nx with
      | None => Ok (s, ai)
      | Some (e, it_e) =>
          do r <- eval_single cs s false e it_e;
          let '(a, s1, it1) := r in
          match a with
          | AConsumed => sub_take f cs s1 it1
          | AUnknown => Ok (s1, ai)
          end
      end
  end.

Definition msize_it (i : it) : nat := words_size (rest i).

(** processArg for a key found among the sub-group arguments *)
Definition sub_use (pinned : bool) (c : sgcfg) (st : sgstate) (ic : bool) (j : nat) (cur : it)
  : res (sgstate * it) :=
  let k := fst (nth j (sg_subs c) (POSKEY, cfg_nil)) in
  let cs := snd (nth j (sg_subs c) (POSKEY, cfg_nil)) in
  let m := sm st in
  (* handleIdentifiedArg( p_arg_hdl, key): notifications *)
  do p1 <- pend_identified (pend m) k;
  do g1 <- gcs_exec (gcons (sg_main c)) (gsts m) k;
  do n1 <- (if ic then Ok (nth j (scnt st) 0%Z) else card_got (snd (sub_rule c j)) (nth j (scnt st) 0%Z));
  if inv m then Err ERuntime else
  let s0 := nth j (ss st) st_nil in
  do r <- sub_take (S (msize_it cur)) cs s0 cur;
  let '(s1, ai) := r in
  (* pinned: when the very next element is not known to the sub-group handler, the main iterator already stands
     behind it *)
  let ai' := if pinned then
               match next false cur with
               | Ok (Some (e, it_e)) =>
                   match eval_single cs s0 false e it_e with
                   | Ok (AUnknown, _, _) => it_e
                   | _ => ai
                   end
               | _ => ai
               end
             else ai in
  Ok ({| sm := {| arts := arts m; pend := p1; gsts := g1; last := None; inv := false |};
         ss := upd (ss st) j s1; scnt := upd (scnt st) j n1; scal := upd (scal st) j true |}, ai').

Section Loop.
Variable pinned : bool.
Variable c : sgcfg.

Definition lift_main (st : sgstate) (r : res (ares * hstate * it)) : res (ares * sgstate * it) :=
  do x <- r; let '(a, m1, i1) := x in Ok (a, {| sm := m1; ss := ss st; scnt := scnt st; scal := scal st |}, i1).

Definition step_key_sg (st : sgstate) (ic : bool) (k : key) (e : elem) (cur : it) : res (ares * sgstate * it) :=
  do r <- sub_lookup c k;
  match r with
  | Some j => do x <- sub_use pinned c st ic j cur; Ok (AConsumed, fst x, snd x)
  | None => lift_main st (eval_single (sg_main c) (sm st) ic e cur)
  end.

Definition step_sg (st : sgstate) (ic : bool) (e : elem) (cur : it) : res (ares * sgstate * it) :=
  match e with
  | EChar ch => step_key_sg st ic (key_of_char ch) e cur
  | EStr w => do k <- parse_key w; step_key_sg st ic k e cur
  | _ => lift_main st (eval_single (sg_main c) (sm st) ic e cur)
  end.

Fixpoint loop_sg (fuel : nat) (st : sgstate) (ic : bool) (cur : option (elem * it)) : res sgstate :=
  match cur with
  | None => Ok st
  | Some (e, i0) =>
      match fuel with
      | O => Fault Fuel
      | S f =>
          do r <- step_sg st ic e i0;
          let '(a, st1, i1) := r in
          match a with
          | AUnknown => Err EInvalidArgument
          | AConsumed => do nx <- next false i1; loop_sg f st1 ic nx
          end
      end
  end.

Definition words_sg (st : sgstate) (ic : bool) (ws : list str) : res sgstate :=
  do f <- first ws; loop_sg (S (words_size ws)) st ic f.

End Loop.

Definition init_sg (c : sgcfg) (inits : list value) (sub_inits : list (list value)) : sgstate :=
  {| sm := init_state (sg_main c) inits;
     ss := map (fun p => init_state (snd (fst p)) (snd p)) (combine (sg_subs c) sub_inits);
     scnt := map (fun _ => 0%Z) (sg_subs c);
     scal := map (fun _ => false) (sg_subs c) |}.

(** ArgumentContainer::checkMandatoryCardinality for the sub-group arguments *)
Fixpoint check_sub_rules (rules : list (bool * card)) (cnts : list Z) (cals : list bool) : res unit :=
  match rules, cnts, cals with
  | (m, cd) :: rr, n :: nr, b :: br =>
      if m && negb b then Err ERuntime
      else do _ <- card_end cd n; check_sub_rules rr nr br
  | _, _, _ => Ok tt
  end.

(** the end of Handler::evalArguments: mandatory / cardinality of the plain arguments, then of the sub-group
    arguments, then the pending requirements and the handler constraints *)
Definition final_checks_sg (c : sgcfg) (st : sgstate) : res unit :=
  do _ <- check_mandatory_card (args (sg_main c)) (arts (sm st));
  do _ <- check_sub_rules (sg_rules c) (scnt st) (scal st);
  do _ <- pend_check_required (pend (sm st));
  gcs_end (arts (sm st)) (gcons (sg_main c)) (gsts (sm st)).

(** Handler::evalArguments of the main handler (command line only) *)
Definition eval_sg (pinned : bool) (c : sgcfg) (inits : list value) (sub_inits : list (list value))
    (argv : list str) : res sgstate :=
  do st <- words_sg pinned c (init_sg c inits sub_inits) false argv;
  do _ <- final_checks_sg c st;
  Ok st.
