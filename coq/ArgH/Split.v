(** Splitting a command-line string into words: mirror of splitString() in
    src/library/appl/arg_string_2_array.cpp (five-way character automaton),
    plus the quoting functions of the specification.  No proofs here. *)
From Coq Require Import List NArith Bool.
Import ListNotations.
Local Open Scope N_scope.

Definition SP : N := 32. Definition SQ : N := 39. Definition DQ : N := 34. Definition BS : N := 92.

Record st := { cur : list N; inq : bool; qc : N; bsl : bool; out : list (list N) }.
(* cur and out are kept reversed for O(1) append *)
Definition step (s:st) (c:N) : st :=
  if bsl s then {| cur := c :: cur s; inq := inq s; qc := qc s; bsl := false; out := out s |}
  else if c =? BS then {| cur := cur s; inq := inq s; qc := qc s; bsl := true; out := out s |}
  else if inq s then
    if c =? qc s then {| cur := cur s; inq := false; qc := 45; bsl := false; out := out s |}
    else {| cur := c :: cur s; inq := true; qc := qc s; bsl := false; out := out s |}
  else if (c =? SQ) || (c =? DQ) then {| cur := cur s; inq := true; qc := c; bsl := false; out := out s |}
  else if c =? SP then
    match cur s with [] => s | _ => {| cur := []; inq := false; qc := qc s; bsl := false; out := rev (cur s) :: out s |} end
  else {| cur := c :: cur s; inq := false; qc := qc s; bsl := false; out := out s |}.
Definition init := {| cur := []; inq := false; qc := 45; bsl := false; out := [] |}.
Definition finish (s:st) := rev (match cur s with [] => out s | _ => rev (cur s) :: out s end).
Definition split (l:list N) := finish (fold_left step l init).

Definition special (c:N) := (c =? SP) || (c =? SQ) || (c =? DQ) || (c =? BS).
Fixpoint escape (w:list N) : list N :=
  match w with [] => [] | c :: t => if special c then BS :: c :: escape t else c :: escape t end.
Fixpoint join (ws:list (list N)) : list N :=
  match ws with [] => [] | [w] => w | w :: t => w ++ SP :: join t end.

