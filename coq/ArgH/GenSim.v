(** The simulation "every legal spelling = fold over the uses" once more, but
    generic in the state and in the function that evaluates one element, so
    that it can be instantiated with the group evaluation (offer the element to
    the member handlers) as well as with a single handler. *)
From Coq Require Import List NArith ZArith Bool Arith Lia.
Import ListNotations.
Require Import Celma.Common.Res Celma.Common.ListX Celma.Common.Tactics
               Celma.ArgH.Key Celma.ArgH.Table Celma.ArgH.TableProofs Celma.ArgH.Lex Celma.ArgH.Handler Celma.ArgH.Spell
               Celma.ArgH.SpellProofs.

(** a use, with an arbitrary type of argument names *)
Inductive guse (I : Type) :=
| GFlag (i : I)                 (* an argument that takes no value *)
| GVal (i : I) (v : str)        (* an argument with its value text *)
| GFree (v : str).              (* a word that is a value on its own (further value of a multi-value argument
                                   or positional argument) *)
Arguments GFlag {I}. Arguments GVal {I}. Arguments GFree {I}.

(** a word that stands as a value behind "--": anything but a single control character *)
Definition dd_value (v : str) : Prop := match v with [x] => is_ctrl x = false | _ => True end.

Lemma next_ddash vs : next false (bw ([DASH; DASH] :: vs)) = next false (mk vs 0 false true).
Proof.
  unfold next, bw, mk. cbn [rest cpos nextval dashed next_words orb andb negb Nat.eqb].
  unfold rdc. cbn [length Nat.leb nth bind]. rewrite (ceq_refl DASH). cbn [negb orb andb Nat.eqb].
  unfold determine, rdc. cbn [length Nat.leb nth bind]. rewrite (ceq_refl DASH). cbn [Nat.add Nat.eqb].
  reflexivity.
Qed.

Lemma next_dashed v vs : dd_value v ->
  next false (mk (v :: vs) 0 false true) = Ok (Some (EVal v, mk vs 0 false true)).
Proof.
  intros Hv. unfold next, mk. cbn [rest cpos nextval dashed next_words orb andb negb Nat.eqb].
  unfold rdc. cbn [Nat.leb bind]. rewrite orb_true_r.
  destruct v as [|x [|y r]]; cbn [length Nat.eqb andb nth]; try reflexivity.
  cbn in Hv. rewrite Hv. reflexivity.
Qed.

(** the iterator does not deliver a value next: the end of the words, or a key word *)
Definition no_value_ahead (cur : it) : Prop :=
  match next false cur with
  | Ok None => True
  | Ok (Some (EVal _, _)) => False
  | Ok (Some _) => True
  | _ => False
  end.

(** the remaining words start with a key word (or there are none): what may
    follow an argument with an optional value that is given without one *)
Definition nva (ws : list str) : Prop :=
  match ws with
  | [] => True
  | w :: _ => exists x r, w = DASH :: x :: r /\ (x <> DASH \/ r <> [])
  end.

Lemma nva_no_value ws : nva ws -> no_value_ahead (bw ws).
Proof.
  unfold no_value_ahead. destruct ws as [|w ws']; cbn [nva]; [intros _; reflexivity|].
  intros (x & r & -> & H). destruct (N.eq_dec x DASH) as [->|Hx].
  - destruct H as [H|H]; [congruence|]. rewrite next_long by exact H.
    destruct (index_of EQSIGN r); exact I.
  - pose proof (next_grp [] x r ws' Hx) as E. unfold grp_pos, grp_word in E. cbn [app] in E. rewrite E. exact I.
Qed.

Lemma grp_no_value pre ch ch' post ws : ch' <> DASH -> no_value_ahead (grp_after pre ch (ch' :: post) ws).
Proof.
  intros H. unfold no_value_ahead. rewrite grp_after_rest. cbn [grp_rest]. rewrite (next_grp _ ch' post ws H). exact I.
Qed.

(** the value behind "=", whoever asks *)
Lemma next_eq_value_any rem w v ws :
  next rem (mk ((DASH :: DASH :: w ++ EQSIGN :: v) :: ws) (1 + length w + 2) true false)
  = Ok (Some (EVal v, bw ws)).
Proof.
  unfold next, mk, bw. cbn [rest cpos nextval dashed next_words orb].
  unfold cstr_at. cbn [length]. rewrite app_length. cbn [length].
  replace (1 + length w + 2 <=? S (S (length w + S (length v)))) with true
    by (symmetry; apply Nat.leb_le; lia).
  cbn [bind]. replace (1 + length w + 2) with (S (S (length w + 1))) by lia. cbn [skipn].
  rewrite skipn_app. replace (length w + 1 - length w) with 1 by lia.
  rewrite skipn_all2 by lia. cbn. reflexivity.
Qed.

Section Gen.
Variable I : Type.
Variable St : Type.
Variable Sinv : St -> Prop.
Variable estep : St -> elem -> it -> res (ares * St * it).
Variable uerr : err.
Variable ustep : St -> guse I -> res St.

Fixpoint giter (fuel : nat) (s : St) (cur : option (elem * it)) : res St :=
  match cur with
  | None => Ok s
  | Some (e, i0) =>
      match fuel with
      | O => Fault Fuel
      | S f =>
          do r <- estep s e i0;
          let '(a, s1, i1) := r in
          match a with
          | AUnknown => Err uerr
          | AConsumed => do nx <- next false i1; giter f s1 nx
          end
      end
  end.

Definition grun (s : St) (fuel : nat) (i0 : it) : res St := do nx <- next false i0; giter fuel s nx.

Fixpoint gfold (s : St) (us : list (guse I)) : res St :=
  match us with
  | [] => Ok s
  | u :: r => do s1 <- ustep s u; gfold s1 r
  end.

Variables (lname : I -> str -> Prop) (sname : I -> N -> Prop) (tnone treq topt : I -> Prop).

Hypothesis lname_shape : forall i w, lname i w -> w <> [] /\ index_of EQSIGN w = None.
Hypothesis sname_shape : forall i ch, sname i ch -> ch <> DASH.
Hypothesis ustep_inv : forall s u s', Sinv s -> ustep s u = Ok s' -> Sinv s'.
Hypothesis H_lflag : forall s i w cur, Sinv s -> lname i w -> tnone i ->
  estep s (EStr w) cur = do s1 <- ustep s (GFlag i); Ok (AConsumed, s1, cur).
Hypothesis H_sflag : forall s i ch cur, Sinv s -> sname i ch -> tnone i ->
  estep s (EChar ch) cur = do s1 <- ustep s (GFlag i); Ok (AConsumed, s1, cur).
Hypothesis H_lval : forall s i w cur v it2, Sinv s -> lname i w -> treq i ->
  next true cur = Ok (Some (EVal v, it2)) ->
  estep s (EStr w) cur = do s1 <- ustep s (GVal i v); Ok (AConsumed, s1, it2).
Hypothesis H_sval : forall s i ch cur v it2, Sinv s -> sname i ch -> treq i ->
  next true cur = Ok (Some (EVal v, it2)) ->
  estep s (EChar ch) cur = do s1 <- ustep s (GVal i v); Ok (AConsumed, s1, it2).
(** an argument with an optional value (level counter): used as a flag when no
    value follows, with the value when one does *)
Hypothesis H_lopt_none : forall s i w cur, Sinv s -> lname i w -> topt i -> no_value_ahead cur ->
  estep s (EStr w) cur = do s1 <- ustep s (GFlag i); Ok (AConsumed, s1, cur).
Hypothesis H_sopt_none : forall s i ch cur, Sinv s -> sname i ch -> topt i -> no_value_ahead cur ->
  estep s (EChar ch) cur = do s1 <- ustep s (GFlag i); Ok (AConsumed, s1, cur).
Hypothesis H_lopt_val : forall s i w cur v it2, Sinv s -> lname i w -> topt i ->
  next false cur = Ok (Some (EVal v, it2)) ->
  estep s (EStr w) cur = do s1 <- ustep s (GVal i v); Ok (AConsumed, s1, it2).
Hypothesis H_sopt_val : forall s i ch cur v it2, Sinv s -> sname i ch -> topt i ->
  next false cur = Ok (Some (EVal v, it2)) ->
  estep s (EChar ch) cur = do s1 <- ustep s (GVal i v); Ok (AConsumed, s1, it2).
(** a free value: consumed (iterator unchanged) or unknown = the error of the loop *)
Hypothesis H_free : forall s v cur, Sinv s ->
  (do r <- estep s (EVal v) cur;
   let '(a, s1, i1) := r in
   match a with AUnknown => Err uerr | AConsumed => Ok (s1, i1) end)
  = do s1 <- ustep s (GFree v); Ok (s1, cur).

Definition gflags_ok (fs : list (I * N)) : Prop := Forall (fun p => sname (fst p) (snd p) /\ tnone (fst p)) fs.

Inductive gspell : list (guse I) -> list str -> Prop :=
| gsp_nil : gspell [] []
| gsp_long_flag : forall i w us ws,
    lname i w -> tnone i -> gspell us ws -> gspell (GFlag i :: us) ((DASH :: DASH :: w) :: ws)
| gsp_long_eq : forall i w v us ws,
    lname i w -> treq i -> gspell us ws -> gspell (GVal i v :: us) ((DASH :: DASH :: w ++ EQSIGN :: v) :: ws)
| gsp_long_sep : forall i w v us ws,
    lname i w -> treq i -> sep_value v -> gspell us ws -> gspell (GVal i v :: us) ((DASH :: DASH :: w) :: v :: ws)
| gsp_flags : forall fs us ws,
    fs <> [] -> gflags_ok fs -> gspell us ws ->
    gspell (map (fun p => GFlag (fst p)) fs ++ us) ((DASH :: map snd fs) :: ws)
| gsp_glued : forall fs i ch v us ws,
    gflags_ok fs -> sname i ch -> treq i -> v <> [] -> gspell us ws ->
    gspell (map (fun p => GFlag (fst p)) fs ++ GVal i v :: us) ((DASH :: map snd fs ++ ch :: v) :: ws)
| gsp_short_sep : forall fs i ch v us ws,
    gflags_ok fs -> sname i ch -> treq i -> sep_value v -> gspell us ws ->
    gspell (map (fun p => GFlag (fst p)) fs ++ GVal i v :: us) ((DASH :: map snd fs ++ [ch]) :: v :: ws)
| gsp_long_opt_none : forall i w us ws,
    lname i w -> topt i -> nva ws -> gspell us ws -> gspell (GFlag i :: us) ((DASH :: DASH :: w) :: ws)
| gsp_long_opt_eq : forall i w v us ws,
    lname i w -> topt i -> gspell us ws -> gspell (GVal i v :: us) ((DASH :: DASH :: w ++ EQSIGN :: v) :: ws)
| gsp_long_opt_sep : forall i w v us ws,
    lname i w -> topt i -> sep_value v -> gspell us ws -> gspell (GVal i v :: us) ((DASH :: DASH :: w) :: v :: ws)
| gsp_short_opt_rep : forall i ch n us ws,
    sname i ch -> topt i -> nva ws -> gspell us ws ->
    gspell (repeat (GFlag i) (S n) ++ us) ((DASH :: repeat ch (S n)) :: ws)
| gsp_short_opt_sep : forall i ch v us ws,
    sname i ch -> topt i -> sep_value v -> gspell us ws -> gspell (GVal i v :: us) ([DASH; ch] :: v :: ws)
| gsp_free : forall v us ws,
    sep_value v -> gspell us ws -> gspell (GFree v :: us) (v :: ws)
| gsp_ddash : forall vs,
    Forall dd_value vs -> gspell (map GFree vs) ([DASH; DASH] :: vs).

Lemma giter_end s f : giter f s None = Ok s.
Proof. destruct f; reflexivity. Qed.

Lemma grun_end s f : grun s f (bw []) = Ok s.
Proof. unfold grun, next, bw. cbn. apply giter_end. Qed.

Lemma grun_consumed s f i0 e i1 (X : res St) i2 :
  next false i0 = Ok (Some (e, i1)) ->
  estep s e i1 = (do s1 <- X; Ok (AConsumed, s1, i2)) ->
  grun s (S f) i0 = do s1 <- X; grun s1 f i2.
Proof.
  intros Hn He. unfold grun at 1. rewrite Hn. cbn [bind giter]. rewrite He.
  destruct X as [s1|e1|f1]; reflexivity.
Qed.

Lemma giter_factored s f e i0 :
  giter (S f) s (Some (e, i0)) =
  do p <- (do r <- estep s e i0;
           let '(a, s1, i1) := r in
           match a with AUnknown => Err uerr | AConsumed => Ok (s1, i1) end);
  let '(s1, i1) := p in do nx <- next false i1; giter f s1 nx.
Proof.
  cbn [giter]. destruct (estep s e i0) as [[[a s1] i1]|?|?]; cbn [bind]; auto. destruct a; reflexivity.
Qed.

Lemma grun_free s f i0 v i1 :
  Sinv s -> next false i0 = Ok (Some (EVal v, i1)) ->
  grun s (S f) i0 = do s1 <- ustep s (GFree v); grun s1 f i1.
Proof.
  intros Hi Hn. unfold grun at 1. rewrite Hn. cbn [bind]. rewrite giter_factored, (H_free s v i1 Hi).
  destruct (ustep s (GFree v)); reflexivity.
Qed.

Lemma gfold_app us1 : forall us2 s, gfold s (us1 ++ us2) = do s1 <- gfold s us1; gfold s1 us2.
Proof.
  induction us1 as [|u r IH]; intros us2 s; [reflexivity|].
  cbn [app gfold]. destruct (ustep s u) as [s1|e|f]; cbn [bind]; auto.
Qed.

Lemma gfold_inv us : forall s s', Sinv s -> gfold s us = Ok s' -> Sinv s'.
Proof.
  induction us as [|u r IH]; intros s s' Hi H; cbn [gfold] in H.
  - inversion H; subst; exact Hi.
  - destruct (ustep s u) as [s1|?|?] eqn:E; cbn [bind] in H; try discriminate.
    eapply IH; [eapply ustep_inv; eauto|exact H].
Qed.

Lemma grun_flags ws : forall fs pre post s f,
  Sinv s -> gflags_ok fs ->
  grun s (length fs + f) (grp_rest pre (map snd fs ++ post) ws) =
  do s1 <- gfold s (map (fun p => GFlag (fst p)) fs);
  grun s1 f (grp_rest (pre ++ map snd fs) post ws).
Proof.
  induction fs as [|[i ch] fr IH]; intros pre post s f Hi Hok.
  - cbn [map app length gfold bind]. rewrite app_nil_r. reflexivity.
  - inversion Hok as [|? ? [Hs Hn] Hr]; subst. cbn [fst snd] in Hs, Hn.
    cbn [map app length fst snd grp_rest gfold Nat.add].
    rewrite (grun_consumed s (length fr + f) _ (EChar ch) (grp_after pre ch (map snd fr ++ post) ws)
               (ustep s (GFlag i)) (grp_after pre ch (map snd fr ++ post) ws)).
    + destruct (ustep s (GFlag i)) as [s1|e|f1] eqn:E; cbn [bind]; auto.
      rewrite grp_after_rest, IH; auto; [|eapply ustep_inv; eauto]. rewrite <- app_assoc. reflexivity.
    + apply next_grp. eapply sname_shape; eauto.
    + apply H_sflag; assumption.
Qed.

Lemma grun_dashed : forall vs s f, Sinv s -> Forall dd_value vs ->
  grun s (length vs + f) (mk vs 0 false true) = gfold s (map GFree vs).
Proof.
  induction vs as [|v vs IH]; intros s f Hi Hv.
  - unfold grun, next, mk. cbn. apply giter_end.
  - inversion Hv as [|? ? Hv1 Hvr]; subst. cbn [length Nat.add map gfold].
    rewrite (grun_free s (length vs + f) _ v (mk vs 0 false true) Hi (next_dashed v vs Hv1)).
    destruct (ustep s (GFree v)) eqn:E; cbn [bind]; auto. apply IH; auto. eapply ustep_inv; eauto.
Qed.

(** -vvv : the same optional-value key several times behind one dash *)
Lemma grun_opt_rep i ch ws : sname i ch -> topt i -> nva ws -> forall n pre s f, Sinv s ->
  grun s (S n + f) (grp_rest pre (repeat ch (S n)) ws) =
  do s1 <- gfold s (repeat (GFlag i) (S n)); grun s1 f (bw ws).
Proof.
  intros Hs Ht Hw. pose proof (sname_shape _ _ Hs) as Hd.
  induction n as [|n IH]; intros pre s f Hi.
  - cbn [repeat grp_rest Nat.add gfold].
    rewrite (grun_consumed s f _ (EChar ch) (grp_after pre ch [] ws) (ustep s (GFlag i)) (grp_after pre ch [] ws)).
    + destruct (ustep s (GFlag i)); cbn [bind]; auto.
    + apply next_grp. exact Hd.
    + apply H_sopt_none; auto. unfold grp_after. apply nva_no_value. exact Hw.
  - change (repeat ch (S (S n))) with (ch :: repeat ch (S n)).
    change (repeat (GFlag i) (S (S n))) with (GFlag i :: repeat (GFlag i) (S n)).
    cbn [grp_rest gfold]. change (S (S n) + f) with (S (S n + f)).
    rewrite (grun_consumed s (S n + f) _ (EChar ch) (grp_after pre ch (repeat ch (S n)) ws) (ustep s (GFlag i))
               (grp_after pre ch (repeat ch (S n)) ws)).
    + destruct (ustep s (GFlag i)) eqn:E; cbn [bind]; auto.
      rewrite grp_after_rest. apply IH. eapply ustep_inv; eauto.
    + apply next_grp. exact Hd.
    + apply H_sopt_none; auto. cbn [repeat]. apply grp_no_value. exact Hd.
Qed.

Theorem gspell_run us ws :
  gspell us ws -> forall s f, Sinv s -> grun s (length us + f) (bw ws) = gfold s us.
Proof.
  induction 1 as [|i w us ws Hl Hn Hsp IH|i w v us ws Hl Hr Hsp IH|i w v us ws Hl Hr Hv Hsp IH
                  |fs us ws Hne Hf Hsp IH|fs i ch v us ws Hf Hs Hr Hv Hsp IH|fs i ch v us ws Hf Hs Hr Hv Hsp IH
                  |i w us ws Hl Ht Hw Hsp IH|i w v us ws Hl Ht Hsp IH|i w v us ws Hl Ht Hv Hsp IH
                  |i ch n us ws Hs Ht Hw Hsp IH|i ch v us ws Hs Ht Hv Hsp IH
                  |v us ws Hv Hsp IH|vs Hvs];
    intros s f Hi.
  - apply grun_end.
  - cbn [length Nat.add gfold]. destruct (lname_shape _ _ Hl) as (Hw & He).
    rewrite (grun_consumed s (length us + f) _ (EStr w) (bw ws) (ustep s (GFlag i)) (bw ws)).
    + destruct (ustep s (GFlag i)) eqn:E; cbn [bind]; auto. apply IH. eapply ustep_inv; eauto.
    + rewrite next_long by assumption. rewrite He. reflexivity.
    + apply H_lflag; assumption.
  - cbn [length Nat.add gfold]. destruct (lname_shape _ _ Hl) as (Hw & He).
    rewrite (grun_consumed s (length us + f) _ (EStr w)
               (mk ((DASH :: DASH :: w ++ EQSIGN :: v) :: ws) (1 + length w + 2) true false)
               (ustep s (GVal i v)) (bw ws)).
    + destruct (ustep s (GVal i v)) eqn:E; cbn [bind]; auto. apply IH. eapply ustep_inv; eauto.
    + rewrite next_long by (destruct w; discriminate).
      rewrite (index_of_app_eq w v He), firstn_app_exact. reflexivity.
    + apply H_lval; auto. apply next_eq_value.
  - cbn [length Nat.add gfold]. destruct (lname_shape _ _ Hl) as (Hw & He).
    rewrite (grun_consumed s (length us + f) _ (EStr w) (bw (v :: ws)) (ustep s (GVal i v)) (bw ws)).
    + destruct (ustep s (GVal i v)) eqn:E; cbn [bind]; auto. apply IH. eapply ustep_inv; eauto.
    + rewrite next_long by assumption. rewrite He. reflexivity.
    + apply H_lval; auto. apply next_sep_value. exact Hv.
  - rewrite app_length, map_length, <- Nat.add_assoc.
    assert (E : bw ((DASH :: map snd fs) :: ws) = grp_rest [] (map snd fs ++ []) ws).
    { destruct fs as [|[i0 ch0] fr]; [congruence|]. rewrite app_nil_r. reflexivity. }
    rewrite E, grun_flags by assumption. rewrite gfold_app.
    destruct (gfold s (map (fun p => GFlag (fst p)) fs)) as [s1|e|f1] eqn:Eg; cbn [bind]; auto.
    cbn [grp_rest]. apply IH. eapply gfold_inv; eauto.
  - rewrite app_length, map_length. cbn [length]. rewrite <- Nat.add_assoc.
    assert (E : bw ((DASH :: map snd fs ++ ch :: v) :: ws) = grp_rest [] (map snd fs ++ ch :: v) ws).
    { destruct fs as [|[i0 ch0] fr]; reflexivity. }
    rewrite E, grun_flags by assumption. rewrite gfold_app. cbn [app].
    destruct (gfold s (map (fun p => GFlag (fst p)) fs)) as [s1|e|f1] eqn:Eg; cbn [bind]; auto.
    assert (Hi1 : Sinv s1) by (eapply gfold_inv; eauto).
    cbn [grp_rest gfold Nat.add].
    rewrite (grun_consumed s1 (length us + f) _ (EChar ch) (grp_after (map snd fs) ch v ws)
               (ustep s1 (GVal i v)) (bw ws)).
    + destruct (ustep s1 (GVal i v)) eqn:E2; cbn [bind]; auto. apply IH. eapply ustep_inv; eauto.
    + apply next_grp. eapply sname_shape; eauto.
    + apply H_sval; auto. apply next_glued. exact Hv.
  - rewrite app_length, map_length. cbn [length]. rewrite <- Nat.add_assoc.
    assert (E : bw ((DASH :: map snd fs ++ [ch]) :: v :: ws) = grp_rest [] (map snd fs ++ [ch]) (v :: ws)).
    { destruct fs as [|[i0 ch0] fr]; reflexivity. }
    rewrite E, grun_flags by assumption. rewrite gfold_app. cbn [app].
    destruct (gfold s (map (fun p => GFlag (fst p)) fs)) as [s1|e|f1] eqn:Eg; cbn [bind]; auto.
    assert (Hi1 : Sinv s1) by (eapply gfold_inv; eauto).
    cbn [grp_rest gfold Nat.add].
    rewrite (grun_consumed s1 (length us + f) _ (EChar ch) (grp_after (map snd fs) ch [] (v :: ws))
               (ustep s1 (GVal i v)) (bw ws)).
    + destruct (ustep s1 (GVal i v)) eqn:E2; cbn [bind]; auto. apply IH. eapply ustep_inv; eauto.
    + apply next_grp. eapply sname_shape; eauto.
    + apply H_sval; auto. unfold grp_after. apply next_sep_value. exact Hv.
  - (* --opt, no value follows *)
    cbn [length Nat.add gfold]. destruct (lname_shape _ _ Hl) as (Hw0 & He).
    rewrite (grun_consumed s (length us + f) _ (EStr w) (bw ws) (ustep s (GFlag i)) (bw ws)).
    + destruct (ustep s (GFlag i)) eqn:E; cbn [bind]; auto. apply IH. eapply ustep_inv; eauto.
    + rewrite next_long by assumption. rewrite He. reflexivity.
    + apply H_lopt_none; auto. apply nva_no_value. exact Hw.
  - (* --opt=v *)
    cbn [length Nat.add gfold]. destruct (lname_shape _ _ Hl) as (Hw0 & He).
    rewrite (grun_consumed s (length us + f) _ (EStr w)
               (mk ((DASH :: DASH :: w ++ EQSIGN :: v) :: ws) (1 + length w + 2) true false)
               (ustep s (GVal i v)) (bw ws)).
    + destruct (ustep s (GVal i v)) eqn:E; cbn [bind]; auto. apply IH. eapply ustep_inv; eauto.
    + rewrite next_long by (destruct w; discriminate).
      rewrite (index_of_app_eq w v He), firstn_app_exact. reflexivity.
    + apply H_lopt_val; auto. apply next_eq_value_any.
  - (* --opt v *)
    cbn [length Nat.add gfold]. destruct (lname_shape _ _ Hl) as (Hw0 & He).
    rewrite (grun_consumed s (length us + f) _ (EStr w) (bw (v :: ws)) (ustep s (GVal i v)) (bw ws)).
    + destruct (ustep s (GVal i v)) eqn:E; cbn [bind]; auto. apply IH. eapply ustep_inv; eauto.
    + rewrite next_long by assumption. rewrite He. reflexivity.
    + apply H_lopt_val; auto. apply next_sep_value. exact Hv.
  - (* -vvv *)
    rewrite app_length, repeat_length, <- Nat.add_assoc.
    assert (E : bw ((DASH :: repeat ch (S n)) :: ws) = grp_rest [] (repeat ch (S n)) ws) by reflexivity.
    rewrite E, (grun_opt_rep i ch ws Hs Ht Hw n [] s (length us + f) Hi), gfold_app.
    destruct (gfold s (repeat (GFlag i) (S n))) eqn:Eg; cbn [bind]; auto. apply IH. eapply gfold_inv; eauto.
  - (* -v 3 *)
    cbn [length Nat.add gfold]. pose proof (sname_shape _ _ Hs) as Hd.
    assert (E : bw ([DASH; ch] :: v :: ws) = grp_rest [] [ch] (v :: ws)) by reflexivity.
    rewrite E. cbn [grp_rest].
    rewrite (grun_consumed s (length us + f) _ (EChar ch) (grp_after [] ch [] (v :: ws)) (ustep s (GVal i v)) (bw ws)).
    + destruct (ustep s (GVal i v)) eqn:E2; cbn [bind]; auto. apply IH. eapply ustep_inv; eauto.
    + apply next_grp. exact Hd.
    + apply H_sopt_val; auto. unfold grp_after. apply next_sep_value. exact Hv.
  - cbn [length Nat.add gfold].
    rewrite (grun_free s (length us + f) _ v (bw ws) Hi (next_sep_value v ws false Hv)).
    destruct (ustep s (GFree v)) eqn:E; cbn [bind]; auto. apply IH. eapply ustep_inv; eauto.
  - rewrite map_length. unfold grun at 1. rewrite next_ddash. apply (grun_dashed vs s f Hi Hvs).
Qed.

Ltac first_dash_word :=
  unfold first, next, bw, mk; cbn [rest cpos nextval dashed next_words orb andb negb Nat.eqb];
  unfold rdc; cbn [length Nat.leb nth bind]; rewrite (ceq_refl DASH); cbn [negb orb andb Nat.eqb];
  try reflexivity.

Lemma gfirst_spelled us ws : gspell us ws -> first ws = next false (bw ws).
Proof.
  intros H. destruct H as [| | | |fs ? ? Hne ? ?|fs ? ? ? ? ? ? ? ? ?|fs ? ? ? ? ? ? ? ? ?| | | | | |v us ws Hv Hsp|vs Hvs].
  - reflexivity.
  - first_dash_word.
  - first_dash_word.
  - first_dash_word.
  - first_dash_word. destruct fs as [|[? ?] ?]; try congruence; reflexivity.
  - first_dash_word. destruct fs as [|[? ?] ?]; reflexivity.
  - first_dash_word. destruct fs as [|[? ?] ?]; reflexivity.
  - first_dash_word.
  - first_dash_word.
  - first_dash_word.
  - first_dash_word.
  - first_dash_word.
  - rewrite (next_sep_value v ws false Hv). unfold first, rdc. cbn [Nat.leb bind].
    destruct v as [|x r]; cbn [nth].
    + cbn. reflexivity.
    + destruct Hv as [Hx _]. rewrite (ceq_dash_false x Hx). reflexivity.
  - first_dash_word.
Qed.

Lemma words_size_length (vs : list str) : length vs <= words_size vs.
Proof. unfold words_size. induction vs as [|v r IH]; cbn [length fold_right]; lia. Qed.

Lemma gspell_size us ws : gspell us ws -> length us <= words_size ws.
Proof.
  induction 1 as [| | | | | | | | | | | | |vs Hvs].
  14: { rewrite map_length. pose proof (words_size_length vs). unfold words_size in *. cbn [fold_right length]. lia. }
  all: unfold words_size in *; cbn [length fold_right] in *;
    repeat (rewrite ?app_length, ?map_length, ?repeat_length; cbn [length]); lia.
Qed.

(** first + loop over the words of a legal spelling = fold over the uses *)
Theorem gspell_eval us ws s :
  gspell us ws -> Sinv s ->
  (do f0 <- first ws; giter (S (words_size ws)) s f0) = gfold s us.
Proof.
  intros H Hi. rewrite (gfirst_spelled us ws H).
  pose proof (gspell_size us ws H) as Hs.
  replace (S (words_size ws)) with (length us + (S (words_size ws) - length us)) by lia.
  apply (gspell_run us ws H s _ Hi).
Qed.

End Gen.
