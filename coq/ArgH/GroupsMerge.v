(** C08: evaluating through an argument group = ONE handler owning all
    arguments.

    [merged cs] is the single handler that owns the arguments and the handler
    constraints of all members, in member order.  MergeProofs.v splits such a
    handler into its first member and the rest; here the split is iterated over
    the member list and combined with the projection theorem of GroupsSim.v
    (group = each member on its own part of the line). *)
From Coq Require Import List NArith ZArith Bool Arith Lia.
Import ListNotations.
Require Import Celma.Common.Res Celma.Common.ListX Celma.Common.Tactics
               Celma.ArgH.Key Celma.ArgH.Table Celma.ArgH.Lex Celma.ArgH.Handler Celma.ArgH.Spell
               Celma.ArgH.SpellProofs Celma.ArgH.UseProofs Celma.ArgH.RulesProofs Celma.ArgH.Groups
               Celma.ArgH.GenSim Celma.ArgH.GroupsSim Celma.ArgH.MergeProofs.

Fixpoint merged (cs : list cfg) : cfg :=
  match cs with
  | [] => cfg0
  | c :: r => merge2 c (merged r)
  end.

(** the members do not refer to each other: no requires / excludes list and no
    handler constraint of a member names an argument of another member, and
    no two members use the same specification key *)
Fixpoint separated (cs : list cfg) : Prop :=
  match cs with
  | [] => True
  | c :: r => separate c (merged r) /\ separated r
  end.

(** only key constraints (all_of / any_of / one_of) *)
Definition key_cons (cs : list cfg) : Prop := Forall (fun c => forallb key_con (gcons c) = true) cs.

(** position of argument (member, index) in the merged handler *)
Fixpoint glob (cs : list cfg) (m j : nat) : nat :=
  match cs with
  | [] => j
  | c :: r => match m with O => j | S m' => length (args c) + glob r m' j end
  end.

Definition name (u : guse gname) : gname :=
  match u with GFlag i => i | GVal i _ => i | GFree _ => (0, 0) end.

Definition globalize (cs : list cfg) (u : guse gname) : use :=
  match u with
  | GFlag i => UFlag (glob cs (fst i) (snd i))
  | GVal i v => UVal (glob cs (fst i) (snd i)) v
  | GFree _ => UFlag 0
  end.

Definition valid_name (cs : list cfg) (i : gname) : Prop :=
  fst i < length cs /\ snd i < length (args (member cs (fst i))).

(** the uses of the members behind the first, renumbered *)
Definition tail_use (u : guse gname) : list (guse gname) :=
  match u with
  | GFlag (S m, j) => [GFlag (m, j)]
  | GVal (S m, j) v => [GVal (m, j) v]
  | _ => []
  end.
Definition tail_uses (gus : list (guse gname)) : list (guse gname) := flat_map tail_use gus.

(* ------------------------------------------------------------------ *)
(** * Book-keeping *)

Lemma merged_args_length cs : length (args (merged cs)) = fold_right (fun c n => length (args c) + n) 0 cs.
Proof. induction cs as [|c r IH]; cbn [merged merge2 args fold_right]; [reflexivity|]. rewrite app_length, IH. reflexivity. Qed.

Lemma glob_lt cs : forall m j, valid_name cs (m, j) -> glob cs m j < length (args (merged cs)).
Proof.
  induction cs as [|c r IH]; intros m j (Hm & Hj); cbn [fst snd] in *; [cbn in Hm; lia|].
  cbn [merged merge2 args glob]. rewrite app_length. unfold member in Hj. destruct m as [|m']; cbn [nth] in Hj.
  - lia.
  - assert (glob r m' j < length (args (merged r))); [|lia]. apply IH. split; cbn [fst snd length] in *; [lia|exact Hj].
Qed.

Lemma proj_tail m : forall gus, Forall keyed gus -> proj (S m) gus = proj m (tail_uses gus).
Proof.
  induction gus as [|u r IH]; intros Hk; [reflexivity|]. inversion Hk as [|? ? Hu Hr]; subst.
  unfold tail_uses. cbn [flat_map]. fold (tail_uses r).
  destruct u as [[m0 j]|[m0 j] v|v]; cbn [keyed] in Hu; [| |contradiction]; cbn [proj owner local fst snd tail_use];
    destruct m0 as [|m0]; cbn [Nat.eqb app proj owner local fst snd]; rewrite ?IH by assumption; try reflexivity;
    destruct (Nat.eqb m0 m); reflexivity.
Qed.

Lemma tail_keyed gus : Forall keyed (tail_uses gus).
Proof.
  unfold tail_uses. apply Forall_forall. intros u Hu. apply in_flat_map in Hu. destruct Hu as (u0 & _ & Hu).
  destruct u0 as [[[|m] j]|[[|m] j] v|v]; cbn in Hu; try contradiction; destruct Hu as [<-|[]]; exact I.
Qed.

Lemma tail_valid c r gus :
  Forall (fun u => valid_name (c :: r) (name u)) gus -> Forall keyed gus ->
  Forall (fun u => valid_name r (name u)) (tail_uses gus).
Proof.
  intros Hv Hk. unfold tail_uses. apply Forall_forall. intros u Hu. apply in_flat_map in Hu.
  destruct Hu as (u0 & Hin & Hu). rewrite Forall_forall in Hv. pose proof (Hv u0 Hin) as (H1 & H2).
  destruct u0 as [[[|m] j]|[[|m] j] v|v]; cbn in Hu; try contradiction; destruct Hu as [<-|[]];
    cbn [name fst snd] in *; (split; cbn [fst snd]; [cbn in H1; lia|exact H2]).
Qed.

Section Split.
Variable c : cfg.
Variable r : list cfg.

Lemma part1_cons u l : part1 c (u :: l) = if in1 c u then u :: part1 c l else part1 c l.
Proof. reflexivity. Qed.

Lemma part2_cons u l : part2 c (u :: l) = if in1 c u then part2 c l else shift c u :: part2 c l.
Proof. unfold part2. cbn [filter]. destruct (in1 c u); reflexivity. Qed.

Lemma in1_first j : j < length (args c) -> forall u, use_index u = j -> in1 c u = true.
Proof. intros H u <-. unfold in1. apply Nat.ltb_lt. exact H. Qed.

Lemma in1_rest k : forall u, use_index u = length (args c) + k -> in1 c u = false.
Proof. intros u E. unfold in1. rewrite E. apply Nat.ltb_ge. lia. Qed.

Lemma part1_proj : forall gus, Forall keyed gus -> Forall (fun u => valid_name (c :: r) (name u)) gus ->
  part1 c (map (globalize (c :: r)) gus) = proj 0 gus.
Proof.
  induction gus as [|u g IH]; intros Hk Hv; [reflexivity|].
  inversion Hk as [|? ? Hu Hkr]; inversion Hv as [|? ? (H1 & H2) Hvr]; subst.
  cbn [map]. rewrite part1_cons, (proj_keyed 0 u g Hu), (IH Hkr Hvr).
  destruct u as [[m j]|[m j] v|v]; cbn [keyed] in Hu; [| |contradiction];
    cbn [globalize name owner local fst snd glob] in *; unfold member in H2; destruct m as [|m]; cbn [nth Nat.eqb] in *.
  - rewrite (in1_first j H2); reflexivity.
  - rewrite (in1_rest (glob r m j)); reflexivity.
  - rewrite (in1_first j H2); reflexivity.
  - rewrite (in1_rest (glob r m j)); reflexivity.
Qed.

Lemma part2_tail : forall gus, Forall keyed gus -> Forall (fun u => valid_name (c :: r) (name u)) gus ->
  part2 c (map (globalize (c :: r)) gus) = map (globalize r) (tail_uses gus).
Proof.
  induction gus as [|u g IH]; intros Hk Hv; [reflexivity|].
  inversion Hk as [|? ? Hu Hkr]; inversion Hv as [|? ? (H1 & H2) Hvr]; subst.
  cbn [map]. rewrite part2_cons, (IH Hkr Hvr). unfold tail_uses. cbn [flat_map]. fold (tail_uses g).
  destruct u as [[m j]|[m j] v|v]; cbn [keyed] in Hu; [| |contradiction];
    cbn [globalize name fst snd glob tail_use] in *; unfold member in H2; destruct m as [|m]; cbn [nth app map] in *.
  - rewrite (in1_first j H2); reflexivity.
  - rewrite (in1_rest (glob r m j)) by reflexivity. cbn [shift globalize fst snd]. f_equal. f_equal. lia.
  - rewrite (in1_first j H2); reflexivity.
  - rewrite (in1_rest (glob r m j)) by reflexivity. cbn [shift globalize fst snd]. f_equal. f_equal. lia.
Qed.

End Split.

(* ------------------------------------------------------------------ *)
(** * The merged state is made of the member states *)

Fixpoint njoined (cs : list cfg) (s : hstate) (sms : list hstate) : Prop :=
  match cs, sms with
  | [], [] => arts s = [] /\ pend s = [] /\ gsts s = [] /\ inv s = false
  | c :: r, sm :: smr => exists s2, joined c (merged r) s sm s2 /\ njoined r s2 smr
  | _, _ => False
  end.

Lemma njoined_length cs : forall s sms, njoined cs s sms -> length sms = length cs.
Proof.
  induction cs as [|c r IH]; intros s [|sm smr] H; cbn [njoined] in H; try contradiction; [reflexivity|].
  destruct H as (s2 & _ & H). cbn [length]. rewrite (IH _ _ H). reflexivity.
Qed.

Lemma njoined_arts cs : forall s sms, njoined cs s sms -> arts s = concat (map arts sms).
Proof.
  induction cs as [|c r IH]; intros s [|sm smr] H; cbn [njoined] in H; try contradiction.
  - destruct H as (H & _). exact H.
  - destruct H as (s2 & J & H). cbn [map concat]. rewrite (j_arts _ _ _ _ _ J), (IH _ _ H). reflexivity.
Qed.

Lemma merged_key_con cs : key_cons cs -> forallb key_con (gcons (merged cs)) = true.
Proof.
  induction 1 as [|c r Hc Hr IH]; [reflexivity|]. cbn [merged merge2 gcons]. rewrite forallb_app, Hc, IH. reflexivity.
Qed.

Lemma njoined_final cs : key_cons cs -> separated cs -> forall s sms, njoined cs s sms ->
  is_ok (final_checks (merged cs) s) = forallb (fun p => is_ok (final_checks (fst p) (snd p))) (combine cs sms).
Proof.
  induction cs as [|c r IH]; intros Hk Hs s [|sm smr] H; cbn [njoined] in H; try contradiction.
  - destruct H as (Ha & Hp & Hg & _). unfold final_checks. cbn [merged cfg0 args gcons]. rewrite Ha, Hp, Hg. reflexivity.
  - destruct H as (s2 & J & H). inversion Hk as [|? ? Hc Hr]; subst. destruct Hs as (Hs1 & Hs2).
    cbn [merged combine forallb fst snd].
    rewrite (final_checks_merge c (merged r) s sm s2 J Hc (merged_key_con r Hr)).
    rewrite (IH Hr Hs2 s2 smr H). reflexivity.
Qed.

Lemma njoined_init cs : forall initss, length initss = length cs ->
  (forall m, m < length cs -> length (nth m initss []) = length (args (member cs m))) ->
  njoined cs (init_state (merged cs) (concat initss))
             (map (fun p => init_state (fst p) (snd p)) (combine cs initss)).
Proof.
  induction cs as [|c r IH]; intros [|i ir] Hl Hi; cbn [length] in Hl; try discriminate.
  - cbn. auto.
  - cbn [merged concat combine map fst snd njoined].
    exists (init_state (merged r) (concat ir)). split.
    + apply joined_init.
      * apply (Hi 0). cbn. lia.
      * rewrite merged_args_length. clear - Hl Hi. revert ir Hl Hi.
        induction r as [|c' r' IHr]; intros [|i' ir'] Hl Hi; cbn [length] in Hl; try discriminate; [reflexivity|].
        cbn [concat fold_right]. rewrite app_length. f_equal.
        -- apply (Hi 1). cbn. lia.
        -- apply IHr; [lia|]. intros m Hm. destruct m as [|m]; [apply (Hi 0); cbn; lia|].
           apply (Hi (S (S m))). cbn in *. lia.
    + apply IH; [lia|]. intros m Hm. apply (Hi (S m)). cbn. lia.
Qed.

(* ------------------------------------------------------------------ *)
(** * A line of uses: the merged handler and the members one by one *)

Theorem nfold_merge : forall cs, separated cs -> forall gus s sms,
  njoined cs s sms -> Forall keyed gus -> Forall (fun u => valid_name cs (name u)) gus ->
  (forall s', fold_uses (merged cs) s false (map (globalize cs) gus) = Ok s' ->
     exists sms', (forall m, m < length cs ->
                     fold_uses (member cs m) (nth m sms st0) false (proj m gus) = Ok (nth m sms' st0)) /\
                  njoined cs s' sms') /\
  ((forall m, m < length cs -> is_ok (fold_uses (member cs m) (nth m sms st0) false (proj m gus)) = true) ->
   is_ok (fold_uses (merged cs) s false (map (globalize cs) gus)) = true).
Proof.
  induction cs as [|c r IH]; intros Hsep gus s sms J Hk Hv.
  - destruct gus as [|u g].
    + cbn. split; [|reflexivity]. intros s' H. inversion H; subst. exists sms. split; [intros m Hm; lia|exact J].
    + inversion Hv as [|? ? (H1 & _) _]. cbn in H1. lia.
  - destruct sms as [|sm smr]; cbn [njoined] in J; [contradiction|]. destruct J as (s2 & J & Jr).
    destruct Hsep as (Hs1 & Hs2). cbn [merged].
    assert (Hrange : Forall (fun u => use_index u < length (args c) + n2 (merged r)) (map (globalize (c :: r)) gus)).
    { apply Forall_forall. intros u Hu. apply in_map_iff in Hu. destruct Hu as (g & <- & Hg).
      rewrite Forall_forall in Hv, Hk. pose proof (Hv g Hg) as Hvg. pose proof (Hk g Hg) as Hkg.
      pose proof (glob_lt (c :: r) (fst (name g)) (snd (name g))) as Hlt.
      rewrite <- surjective_pairing in Hlt. specialize (Hlt Hvg). cbn [merged merge2 args] in Hlt.
      rewrite app_length in Hlt. unfold n2.
      destruct g; cbn [keyed] in Hkg; try contradiction; cbn [globalize use_index name] in *; exact Hlt. }
    destruct (fold_merge c (merged r) Hs1 false (map (globalize (c :: r)) gus) s sm s2 J Hrange) as (D1 & D2).
    rewrite (part1_proj c r gus Hk Hv), (part2_tail c r gus Hk Hv) in D1, D2.
    destruct (IH Hs2 (tail_uses gus) s2 smr Jr (tail_keyed gus) (tail_valid c r gus Hv Hk)) as (I1 & I2).
    split.
    + intros s' H. destruct (D1 s' H) as (sm' & s2' & F1 & F2 & J').
      destruct (I1 s2' F2) as (smr' & Fm & Jr'). exists (sm' :: smr'). split.
      * intros [|m] Hm; cbn [nth member].
        -- exact F1.
        -- rewrite (proj_tail m gus Hk). apply Fm. cbn in Hm. lia.
      * cbn [njoined]. exists s2'. split; assumption.
    + intros Hall.
      pose proof (Hall 0 ltac:(cbn; lia)) as H0. cbn [nth member] in H0.
      destruct (fold_uses c sm false (proj 0 gus)) as [sm'|?|?] eqn:E0; try discriminate.
      assert (H2 : is_ok (fold_uses (merged r) s2 false (map (globalize r) (tail_uses gus))) = true).
      { apply I2. intros m Hm. rewrite <- (proj_tail m gus Hk). apply (Hall (S m)). cbn. lia. }
      destruct (fold_uses (merged r) s2 false (map (globalize r) (tail_uses gus))) as [s2'|?|?] eqn:E2; try discriminate.
      destruct (D2 sm' s2' eq_refl eq_refl) as (s' & Hs' & _). rewrite Hs'. reflexivity.
Qed.

(* ------------------------------------------------------------------ *)
(** * Group evaluation = the merged handler *)

Lemma merged_fixed cs : fixed_notify (merged cs) = true.
Proof. destruct cs; reflexivity. Qed.

Lemma eval_group_length cs initss gus ws ss' :
  all_fixed cs -> length initss = length cs -> gspell_grp cs gus ws -> Forall keyed gus ->
  eval_group false false cs initss ws = Ok ss' -> length ss' = length cs.
Proof.
  intros Hf Hl Hsp Hk H. destruct cs as [|c cr]; [discriminate|].
  rewrite eval_group_unfold in H.
  rewrite (group_words_spelled (c :: cr) gus ws _ Hf (init_states_length _ _ Hl) Hsp) in H.
  destruct (gfold _ _ _ _ gus) as [ss1|?|?] eqn:E; cbn [bind] in H; try discriminate.
  destruct (group_final false (c :: cr) ss1) as [[]|?|?]; cbn [bind] in H; try discriminate.
  inversion H; subst ss1.
  apply (gfold_proj (c :: cr) gus _ ss' Hk (init_states_length _ _ Hl) E).
Qed.

Lemma forallb_combine_nth cs : forall sms, length sms = length cs ->
  (forallb (fun p => is_ok (final_checks (fst p) (snd p))) (combine cs sms) = true <->
   forall m, m < length cs -> final_checks (member cs m) (nth m sms st0) = Ok tt).
Proof.
  induction cs as [|c r IH]; intros [|sm smr] Hl; cbn [length] in Hl; try discriminate.
  - cbn. split; [intros _ m Hm; lia|reflexivity].
  - cbn [combine forallb fst snd length]. rewrite andb_true_iff, (IH smr) by lia. split.
    + intros (H0 & Hr) [|m] Hm; cbn [member nth].
      * destruct (final_checks c sm) as [[]|?|?]; [reflexivity|discriminate|discriminate].
      * apply Hr. lia.
    + intros H. split.
      * pose proof (H 0 ltac:(lia)) as H0. cbn in H0. rewrite H0. reflexivity.
      * intros m Hm. apply (H (S m)). lia.
Qed.

(** The theorem.  For every group whose members do not refer to each other,
    every line of uses named by keys and every spelling of it that designates
    the same arguments in the group and in the merged handler: the group
    accepts the line exactly when the single handler owning all arguments
    accepts it, and all destinations end with the same values. *)
Theorem group_equals_merged cs initss gus ws :
  cs <> [] -> all_fixed cs -> separated cs -> key_cons cs ->
  length initss = length cs ->
  (forall m, m < length cs -> length (nth m initss []) = length (args (member cs m))) ->
  Forall keyed gus -> Forall (fun u => valid_name cs (name u)) gus ->
  gspell_grp cs gus ws -> spell (merged cs) (map (globalize cs) gus) ws ->
  is_ok (eval_group false false cs initss ws) = is_ok (eval_arguments (merged cs) (concat initss) [] None ws) /\
  forall ss' s', eval_group false false cs initss ws = Ok ss' ->
                 eval_arguments (merged cs) (concat initss) [] None ws = Ok s' ->
                 arts s' = concat (map arts ss').
Proof.
  intros Hne Hf Hsep Hkc Hl Hil Hk Hv Hg Hm.
  pose proof (njoined_init cs initss Hl Hil) as J0.
  destruct (nfold_merge cs Hsep gus _ _ J0 Hk Hv) as (N1 & N2).
  assert (Hinit : forall m, m < length cs ->
            nth m (map (fun p => init_state (fst p) (snd p)) (combine cs initss)) st0
            = init_state (member cs m) (nth m initss [])).
  { intros m Hmm. apply init_states_nth; assumption. }
  assert (Em : eval_arguments (merged cs) (concat initss) [] None ws =
               do s3 <- fold_uses (merged cs) (init_state (merged cs) (concat initss)) false (map (globalize cs) gus);
               do _ <- final_checks (merged cs) s3; Ok s3).
  { unfold eval_arguments. cbn [eval_lines bind].
    rewrite (eval_words_spelled (merged cs) (merged_fixed cs) false _ ws _ Hm). reflexivity. }
  (* the group accepts -> the merged handler accepts, with the same destinations *)
  assert (Fwd : forall ss', eval_group false false cs initss ws = Ok ss' ->
            exists s', eval_arguments (merged cs) (concat initss) [] None ws = Ok s' /\ arts s' = concat (map arts ss')).
  { intros ss' H.
    pose proof (group_projection cs initss gus ws ss' Hf Hl Hg Hk H) as P.
    pose proof (eval_group_length cs initss gus ws ss' Hf Hl Hg Hk H) as Hlen.
    assert (A : is_ok (fold_uses (merged cs) (init_state (merged cs) (concat initss)) false (map (globalize cs) gus)) = true).
    { apply N2. intros m Hmm. rewrite (Hinit m Hmm). destruct (P m Hmm) as (sm & Hfo & _). rewrite Hfo. reflexivity. }
    destruct (fold_uses (merged cs) _ false (map (globalize cs) gus)) as [s3|?|?] eqn:E3; try discriminate.
    destruct (N1 s3 eq_refl) as (sms' & Fm & J3).
    assert (Hfin : is_ok (final_checks (merged cs) s3) = true).
    { rewrite (njoined_final cs Hkc Hsep s3 sms' J3).
      apply (forallb_combine_nth cs sms' (njoined_length _ _ _ J3)). intros m Hmm.
      destruct (P m Hmm) as (sm & Hfo & Hfin & _). pose proof (Fm m Hmm) as Hfm. rewrite (Hinit m Hmm), Hfo in Hfm.
      inversion Hfm as [Hsm]. rewrite <- Hsm. exact Hfin. }
    rewrite Em. cbn [bind]. destruct (final_checks (merged cs) s3) as [[]|?|?]; try discriminate. cbn [bind].
    exists s3. split; [reflexivity|]. rewrite (njoined_arts cs s3 sms' J3). f_equal.
    apply (nth_ext _ _ [] []).
    - rewrite !map_length, (njoined_length _ _ _ J3), Hlen. reflexivity.
    - intros m Hmm. rewrite map_length, (njoined_length _ _ _ J3) in Hmm.
      change [] with (arts st0). rewrite !map_nth.
      destruct (P m Hmm) as (sm & Hfo & _ & Hs). pose proof (Fm m Hmm) as Hfm. rewrite (Hinit m Hmm), Hfo in Hfm.
      inversion Hfm as [Hsm]. apply (f_equal arts) in Hs. cbn [forget_last arts] in Hs. rewrite <- Hsm. exact Hs. }
  assert (Rej : (forall ss', eval_group false false cs initss ws <> Ok ss') ->
                false = is_ok (eval_arguments (merged cs) (concat initss) [] None ws)).
  { intros Hno. rewrite Em.
    destruct (fold_uses (merged cs) _ false (map (globalize cs) gus)) as [s3|?|?] eqn:E3; cbn [bind]; try reflexivity.
    destruct (final_checks (merged cs) s3) as [[]|?|?] eqn:Ef; cbn [bind is_ok]; try reflexivity.
    exfalso. destruct (N1 s3 eq_refl) as (sms' & Fm & J3).
    pose proof (njoined_final cs Hkc Hsep s3 sms' J3) as Hfin. rewrite Ef in Hfin. cbn [is_ok] in Hfin. symmetry in Hfin.
    pose proof (proj1 (forallb_combine_nth cs sms' (njoined_length _ _ _ J3)) Hfin) as Hfm.
    destruct (group_accepts cs initss gus ws Hne Hf Hl Hg Hk) as (ss' & Hss).
    { intros m Hmm. exists (nth m sms' st0). split; [rewrite <- (Hinit m Hmm); apply Fm; exact Hmm|apply Hfm; exact Hmm]. }
    exact (Hno ss' Hss). }
  split.
  - destruct (eval_group false false cs initss ws) as [ss'|e|f] eqn:Eg; cbn [is_ok].
    + destruct (Fwd ss' eq_refl) as (s' & Hs' & _). rewrite Hs'. reflexivity.
    + (* rejected by the group -> rejected by the merged handler *)
      apply Rej. intros ss'. discriminate.
    + apply Rej. intros ss'. discriminate.
  - intros ss' s' H1 H2. destruct (Fwd ss' H1) as (s'' & Hs'' & Ha). rewrite H2 in Hs''. inversion Hs''; subst. exact Ha.
Qed.
