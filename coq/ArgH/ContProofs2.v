(** C06, second part: vector<string> destinations (unique data, formats before
    the unique test), map<string,int> destinations (placement of key-value
    pairs, existing keys, refusal), and the accept / refuse table of the
    definition-time setters. *)
From Coq Require Import List NArith ZArith Bool Arith Permutation Sorted Lia.
Import ListNotations.
Require Import Celma.Common.Res Celma.ArgH.Key Celma.ArgH.Handler Celma.ArgH.Cont Celma.ArgH.ContProofs.

(* ------------------------------------------------------------------ *)
(** * Strings: equality test, membership *)

Lemma str_eqb_eq a : forall b, str_eqb a b = true <-> a = b.
Proof.
  induction a as [|x a IH]; intros [|y b]; simpl; split; intros H; try discriminate; auto.
  - apply andb_true_iff in H. destruct H as [H1 H2]. unfold ceq in H1. apply N.eqb_eq in H1.
    apply IH in H2. congruence.
  - inversion H; subst. unfold ceq. rewrite N.eqb_refl. simpl. apply IH. reflexivity.
Qed.

Lemma str_eqb_neq a b : str_eqb a b = false <-> a <> b.
Proof.
  split.
  - intros H E. apply str_eqb_eq in E. congruence.
  - intros H. destruct (str_eqb a b) eqn:E; auto. apply str_eqb_eq in E. contradiction.
Qed.

Lemma str_in_iff v l : str_in v l = true <-> In v l.
Proof.
  rewrite str_in_In. split.
  - intros [x [Hx He]]. apply str_eqb_eq in He. subst. auto.
  - intros H. exists v. split; auto. apply str_eqb_eq. reflexivity.
Qed.

(* ------------------------------------------------------------------ *)
(** * vector<string> *)

(** what is stored for an element: the element after all checks passed, with
    all formats applied - the unique test sees the formatted value *)
Definition conv_str (o : copts) (t : str) : res str :=
  do _ <- run_checks (o_checks o) t; Ok (apply_fmts (o_fmts o) t).

Lemma step_strs_spec o t l l' :
  step_strs o t l = Ok l' ->
  exists v, conv_str o t = Ok v /\
    ((o_uniq o = true /\ In v l /\ o_dup_err o = false /\ l' = l) \/
     ((o_uniq o = false \/ ~ In v l) /\ l' = l ++ [v])).
Proof.
  unfold step_strs, conv_str. intros H. inv_bind H. exists (apply_fmts (o_fmts o) t). simpl. split; auto.
  destruct (o_uniq o) eqn:Eu; simpl in H.
  - destruct (str_in (apply_fmts (o_fmts o) t) l) eqn:Ez.
    + destruct (o_dup_err o) eqn:Ed; [discriminate H|]. inversion H; subst.
      left. repeat split; auto. apply str_in_iff; auto.
    + inversion H; subst. right. split; auto. right. intros Hin. apply str_in_iff in Hin. congruence.
  - inversion H; subst. right. split; auto.
Qed.

Lemma step_strs_kind p o t l :
  step_gen p KVecStr o t (CStrs l) = do l' <- step_strs o t l; Ok (CStrs l').
Proof. reflexivity. Qed.

Definition start_strs (st : cst) (l0 : list str) : list str := if c_clearp st then [] else l0.

Lemma start_cont_strs st l0 :
  c_val st = CStrs l0 ->
  pre_use (if c_clearp st then clear_cont (c_val st) else c_val st) = CStrs (start_strs st l0).
Proof. intros ->. unfold start_strs. destruct (c_clearp st); reflexivity. Qed.

Lemma norm_strs o l : exists l', norm o (CStrs l) = CStrs l' /\ Permutation l' l.
Proof. unfold norm. destruct (o_sort o); simpl; eexists; split; eauto. apply sort_by_perm. Qed.

(** unique data, duplicates dropped: no two equal strings, exactly the earlier
    content and the formatted values of all elements *)
Theorem cont_strs_unique_drop p o st u rest st' l0 :
  o_uniq o = true -> o_dup_err o = false ->
  c_val st = CStrs l0 -> NoDup (start_strs st l0) ->
  run_uses_gen (step_gen p KVecStr o) o st (u :: rest) = Ok st' ->
  exists l, c_val st' = CStrs l /\ NoDup l /\
    forall z, In z l <-> In z (start_strs st l0) \/ exists t, In t (all_tokens o (u :: rest)) /\ conv_str o t = Ok z.
Proof.
  intros Hu Hd Hv Hnd H.
  set (s0 := start_strs st l0) in *.
  apply (run_uses_hist (step_gen p KVecStr o) o
          (fun ts c => exists l, c = CStrs l /\ NoDup l /\
             forall z, In z l <-> In z s0 \/ exists t, In t ts /\ conv_str o t = Ok z)) in H; auto.
  - intros ts t c c' [l [-> [Hn Hi]]] Hs. rewrite step_strs_kind in Hs. inv_bind Hs.
    inversion Hs; subst; clear Hs. apply step_strs_spec in E.
    destruct E as [v [Hc [[_ [Hin [_ ->]]]|[Hor ->]]]].
    + exists l. split; [auto|split; [auto|]]. intros z. rewrite Hi. split.
      * intros [H1|[t' [H1 H2]]]; auto. right. exists t'. rewrite in_app_iff. auto.
      * intros [H1|[t' [H1 H2]]]; auto. rewrite in_app_iff in H1. destruct H1 as [H1|[<-|[]]]; eauto.
        assert (z = v) by congruence. subst. apply Hi in Hin. exact Hin.
    + assert (Hnv : ~ In v l) by (destruct Hor as [Hor|Hor]; [congruence|auto]).
      exists (l ++ [v]). split; [auto|split].
      * eapply Permutation_NoDup; [apply Permutation_cons_append|]. constructor; auto.
      * intros z. rewrite in_app_iff. simpl. rewrite Hi. split.
        -- intros [[H1|[t' [H1 H2]]]|[<-|[]]]; auto.
           ++ right. exists t'. rewrite in_app_iff. auto.
           ++ right. exists t. rewrite in_app_iff. simpl. auto.
        -- intros [H1|[t' [H1 H2]]]; auto. rewrite in_app_iff in H1. destruct H1 as [H1|[<-|[]]]; eauto.
           right. left. congruence.
  - intros ts c [l [-> [Hn Hi]]]. destruct (norm_strs o l) as [l' [-> Hp]].
    exists l'. repeat split.
    + eapply Permutation_NoDup; [apply Permutation_sym; eauto|auto].
    + intros Hz. apply Hi. eapply Permutation_in; eauto.
    + intros Hz. apply Hi in Hz. eapply Permutation_in; [apply Permutation_sym; eauto|auto].
  - intros ts c [l [-> Hr]]. simpl. eauto.
  - rewrite (start_cont_strs st l0 Hv). exists s0. repeat split; auto.
    intros [Hz|[t [[] _]]]. auto.
Qed.

(** unique data, duplicates refused: accepted only if all formatted values are new *)
Theorem cont_strs_unique_refuse p o st u rest st' l0 :
  o_uniq o = true -> o_dup_err o = true ->
  c_val st = CStrs l0 -> NoDup (start_strs st l0) ->
  run_uses_gen (step_gen p KVecStr o) o st (u :: rest) = Ok st' ->
  exists l vals, c_val st' = CStrs l /\
    Forall2 (fun t v => conv_str o t = Ok v) (all_tokens o (u :: rest)) vals /\
    Permutation l (start_strs st l0 ++ vals) /\ NoDup (start_strs st l0 ++ vals) /\
    (o_sort o = false -> l = start_strs st l0 ++ vals).
Proof.
  intros Hu Hd Hv Hnd H.
  set (s0 := start_strs st l0) in *.
  apply (run_uses_hist (step_gen p KVecStr o) o
          (fun ts c => exists l vals, c = CStrs l /\ Forall2 (fun t v => conv_str o t = Ok v) ts vals /\
             Permutation l (s0 ++ vals) /\ NoDup l /\ (o_sort o = false -> l = s0 ++ vals))) in H; auto.
  - destruct H as [l [vals [Hc [Hf [Hp [Hn He]]]]]]. exists l, vals. repeat split; auto.
    eapply Permutation_NoDup; eauto.
  - intros ts t c c' [l [vals [-> [Hf [Hp [Hn He]]]]]] Hs. rewrite step_strs_kind in Hs. inv_bind Hs.
    inversion Hs; subst; clear Hs. apply step_strs_spec in E.
    destruct E as [v [Hc [[_ [_ [Hd' _]]]|[Hor ->]]]]; [congruence|].
    assert (Hnv : ~ In v l) by (destruct Hor as [Hor|Hor]; [congruence|auto]).
    exists (l ++ [v]), (vals ++ [v]). repeat split.
    + apply Forall2_app; auto.
    + rewrite app_assoc. apply Permutation_app_tail. auto.
    + eapply Permutation_NoDup; [apply Permutation_cons_append|]. constructor; auto.
    + intros Hs. rewrite (He Hs), app_assoc. reflexivity.
  - intros ts c [l [vals [-> [Hf [Hp [Hn He]]]]]]. unfold norm. destruct (o_sort o) eqn:Es; simpl.
    + exists (sort_by str_ltb l), vals. repeat split; auto; try discriminate.
      * eapply perm_trans; [apply sort_by_perm|auto].
      * eapply Permutation_NoDup; [apply Permutation_sym, sort_by_perm|auto].
    + exists l, vals. repeat split; auto.
  - intros ts c [l [vals [-> Hr]]]. simpl. eauto.
  - rewrite (start_cont_strs st l0 Hv). exists s0, []. rewrite app_nil_r. repeat split; auto.
Qed.

(** without unique data: the earlier content followed by the formatted values
    of all elements in order - sorted in byte order if so configured *)
Theorem cont_strs_content p o st u rest st' l0 :
  o_uniq o = false -> c_val st = CStrs l0 ->
  run_uses_gen (step_gen p KVecStr o) o st (u :: rest) = Ok st' ->
  exists l vals, c_val st' = CStrs l /\
    Forall2 (fun t v => conv_str o t = Ok v) (all_tokens o (u :: rest)) vals /\
    (o_sort o = false -> l = start_strs st l0 ++ vals) /\
    (o_sort o = true -> l = sort_by str_ltb (start_strs st l0 ++ vals)).
Proof.
  intros Hu Hv H.
  set (s0 := start_strs st l0) in *.
  pose proof H as H2.
  apply (run_uses_hist (step_gen p KVecStr o) o
          (fun ts c => exists l vals, c = CStrs l /\ Forall2 (fun t v => conv_str o t = Ok v) ts vals /\
             Permutation l (s0 ++ vals) /\ (o_sort o = false -> l = s0 ++ vals))) in H; auto.
  - destruct H as [l [vals [Hc [Hf [Hp He]]]]]. exists l, vals. repeat split; auto.
    intros Hs. apply cont_sorted_gen in H2; auto; [|discriminate]. rewrite Hc in H2. simpl in H2.
    apply (sorted_perm_unique str_ltb str_lt_irrefl str_le_antisym); auto.
    + apply sort_by_sorted; [apply str_lt_irrefl|apply str_lt_le_trans].
    + eapply perm_trans; eauto. apply Permutation_sym, sort_by_perm.
  - intros ts t c c' [l [vals [-> [Hf [Hp He]]]]] Hs. rewrite step_strs_kind in Hs. inv_bind Hs.
    inversion Hs; subst; clear Hs. apply step_strs_spec in E.
    destruct E as [v [Hc [[Hu' _]|[_ ->]]]]; [congruence|].
    exists (l ++ [v]), (vals ++ [v]). repeat split.
    + apply Forall2_app; auto.
    + rewrite app_assoc. apply Permutation_app_tail. auto.
    + intros Hs. rewrite (He Hs), app_assoc. reflexivity.
  - intros ts c [l [vals [-> [Hf [Hp He]]]]]. unfold norm. destruct (o_sort o) eqn:Es; simpl.
    + exists (sort_by str_ltb l), vals. repeat split; auto; try discriminate.
      eapply perm_trans; [apply sort_by_perm|auto].
    + exists l, vals. repeat split; auto.
  - intros ts c [l [vals [-> Hr]]]. simpl. eauto.
  - rewrite (start_cont_strs st l0 Hv). exists s0, []. rewrite app_nil_r. repeat split; auto.
Qed.

(* ------------------------------------------------------------------ *)
(** * map<string,int> *)

Definition slt (a b : str) : Prop := str_ltb a b = true.

Lemma slt_irrefl a : ~ slt a a.
Proof. unfold slt. rewrite str_lt_irrefl. discriminate. Qed.

Lemma slt_trans a b c : slt a b -> slt b c -> slt a c.
Proof.
  unfold slt. intros H1 H2. destruct (str_ltb a c) eqn:E; auto.
  pose proof (str_lt_le_trans b c a H2 E). congruence.
Qed.

Lemma slt_total a b : str_ltb a b = false -> str_eqb a b = false -> slt b a.
Proof.
  unfold slt. intros H1 H2. destruct (str_ltb b a) eqn:E; auto.
  pose proof (str_le_antisym a b H1 E). apply str_eqb_neq in H2. contradiction.
Qed.

Definition map_get (key : str) (l : list (str * Z)) : option Z :=
  match find (fun e => str_eqb (fst e) key) l with Some e => Some (snd e) | None => None end.

(** std::map: keys strictly ascending *)
Definition keys_sorted (l : list (str * Z)) : Prop := StronglySorted slt (map fst l).

Lemma map_has_get key l : map_has key l = true <-> map_get key l <> None.
Proof.
  unfold map_has, map_get. induction l as [|[k v] r IH]; simpl.
  - split; [discriminate|congruence].
  - destruct (str_eqb k key); simpl; [split; [discriminate|auto]|exact IH].
Qed.

Lemma map_get_none_notin key l : map_get key l = None <-> ~ In key (map fst l).
Proof.
  unfold map_get. induction l as [|[k v] r IH]; simpl.
  - split; auto.
  - destruct (str_eqb k key) eqn:E.
    + apply str_eqb_eq in E. subst. split; [discriminate|intros H; exfalso; apply H; auto].
    + apply str_eqb_neq in E. rewrite IH. split; [intros H [H1|H1]; auto|intros H H1; apply H; auto].
Qed.

Lemma map_add_keys k v l x : In x (map fst (map_add k v l)) -> x = k \/ In x (map fst l).
Proof.
  induction l as [|[k' v'] r IH]; simpl.
  - intros [H|[]]; auto.
  - destruct (str_ltb k k'); simpl; [intros [H|[H|H]]; auto|].
    destruct (str_eqb k k'); simpl; [intros [H|H]; auto|].
    intros [H|H]; auto. apply IH in H. destruct H; auto.
Qed.

Lemma map_add_sorted k v l : keys_sorted l -> keys_sorted (map_add k v l).
Proof.
  unfold keys_sorted. induction l as [|[k' v'] r IH]; simpl; intros S.
  - constructor; auto.
  - inversion S as [|? ? Sr Fr]; subst.
    destruct (str_ltb k k') eqn:E1; simpl.
    + constructor; [constructor; auto|]. constructor; [exact E1|].
      eapply Forall_impl; [|apply Fr]. intros a Ha. eapply slt_trans; eauto.
    + destruct (str_eqb k k') eqn:E2; simpl; [constructor; auto|].
      constructor; [apply IH; auto|].
      rewrite Forall_forall in *. intros x Hx. apply map_add_keys in Hx.
      destruct Hx as [->|Hx]; auto. apply slt_total; auto.
Qed.

Lemma map_get_below key l k : Forall (slt k) (map fst l) -> (key = k \/ slt key k) -> map_get key l = None.
Proof.
  intros F Hk. apply map_get_none_notin. intros Hin. rewrite Forall_forall in F. specialize (F _ Hin).
  destruct Hk as [->|Hk]; [eapply slt_irrefl; eauto|]. eapply slt_irrefl. eapply slt_trans; eauto.
Qed.

(** std::map::insert( {k, v}): a new key is added, an existing key keeps its value *)
Lemma map_get_add k v l key :
  keys_sorted l ->
  map_get key (map_add k v l) =
  if str_eqb k key then (match map_get k l with Some v' => Some v' | None => Some v end) else map_get key l.
Proof.
  unfold keys_sorted. induction l as [|[k' v'] r IH]; simpl; intros S.
  - unfold map_get. simpl. destruct (str_eqb k key); reflexivity.
  - inversion S as [|? ? Sr Fr]; subst.
    destruct (str_ltb k k') eqn:E1.
    + (* k in front of everything *)
      assert (Hn : map_get k ((k', v') :: r) = None).
      { apply map_get_none_notin. simpl. intros [H|H].
        - subst. eapply slt_irrefl; eauto.
        - rewrite Forall_forall in Fr. specialize (Fr _ H). eapply slt_irrefl. eapply slt_trans; eauto. }
      rewrite Hn. unfold map_get at 1. simpl. destruct (str_eqb k key); reflexivity.
    + destruct (str_eqb k k') eqn:E2.
      * apply str_eqb_eq in E2. subst k'. unfold map_get. simpl.
        destruct (str_eqb k key) eqn:E3; [|reflexivity].
        rewrite (proj2 (str_eqb_eq k k) eq_refl). reflexivity.
      * assert (Hk : slt k' k) by (apply slt_total; auto).
        unfold map_get at 1. simpl. fold (map_get key (map_add k v r)).
        destruct (str_eqb k' key) eqn:E3.
        -- apply str_eqb_eq in E3. subst key.
           assert (str_eqb k k' = false) by exact E2. rewrite H.
           unfold map_get. simpl. rewrite (proj2 (str_eqb_eq k' k') eq_refl). reflexivity.
        -- etransitivity; [exact (IH Sr)|].
           assert (Hg : forall q, str_eqb k' q = false -> map_get q ((k', v') :: r) = map_get q r).
           { intros q Hq. unfold map_get. simpl. rewrite Hq. reflexivity. }
           rewrite (Hg key E3).
           assert (E2' : str_eqb k' k = false).
           { apply str_eqb_neq. apply str_eqb_neq in E2. congruence. }
           rewrite (Hg k E2'). reflexivity.
Qed.

(** the key and the value text of one list element "key,value" *)
Definition tok_key (t : str) : str := fst (split2 COMMA t).
Definition tok_val (t : str) : str := snd (split2 COMMA t).
Definition first_tok (key : str) (ts : list str) : option str :=
  find (fun t => str_eqb (tok_key t) key) ts.

Lemma find_app {A} (f : A -> bool) l1 l2 :
  find f (l1 ++ l2) = match find f l1 with Some x => Some x | None => find f l2 end.
Proof. induction l1 as [|x r IH]; simpl; auto. destruct (f x); auto. Qed.

Lemma step_map_spec o t l c' :
  step_map o t l = Ok c' ->
  run_checks (o_checks o) t = Ok tt /\ tok_key t <> [] /\ tok_val t <> [] /\
  ((o_uniq o = true /\ map_has (tok_key t) l = true /\ o_dup_err o = false /\ c' = CMap l) \/
   ((o_uniq o = false \/ map_has (tok_key t) l = false) /\
    exists z, lex_int (tok_val t) = Ok z /\ c' = CMap (map_add (tok_key t) z l))).
Proof.
  unfold step_map, tok_key, tok_val. intros H. inv_bind H. destruct a.
  destruct (split2 COMMA t) as [k v]. simpl.
  destruct (is_nil k || is_nil v) eqn:En; [discriminate H|].
  apply orb_false_iff in En. destruct En as [Ek Ev].
  split; auto. split; [destruct k; [discriminate Ek|discriminate]|].
  split; [destruct v; [discriminate Ev|discriminate]|].
  destruct (o_uniq o) eqn:Eu; simpl in H.
  - destruct (map_has k l) eqn:Eh.
    + destruct (o_dup_err o); [discriminate H|]. inversion H; subst. left. auto.
    + inv_bind H. inversion H; subst. right. split; eauto.
  - inv_bind H. inversion H; subst. right. split; eauto.
Qed.

Lemma step_map_kind p o t l : step_gen p KMap o t (CMap l) = step_map o t l.
Proof. reflexivity. Qed.

Definition start_map (st : cst) (l0 : list (str * Z)) : list (str * Z) := if c_clearp st then [] else l0.

Lemma start_cont_map st l0 :
  c_val st = CMap l0 ->
  pre_use (if c_clearp st then clear_cont (c_val st) else c_val st) = CMap (start_map st l0).
Proof. intros ->. unfold start_map. destruct (c_clearp st); reflexivity. Qed.

Lemma norm_map o l : norm o (CMap l) = CMap l.
Proof. unfold norm. destruct (o_sort o); reflexivity. Qed.

(** what the map holds for a key after the uses, given what it held before and
    the elements in order: an earlier entry keeps its value; otherwise the
    first element with that key decides (its value converts); otherwise the
    key is absent *)
Definition map_entry_spec (start : list (str * Z)) (ts : list str) (key : str) (got : option Z) : Prop :=
  match map_get key start, first_tok key ts with
  | Some v, _ => got = Some v
  | None, Some t0 => exists z, lex_int (tok_val t0) = Ok z /\ got = Some z
  | None, None => got = None
  end.

Theorem cont_map_content p o st u rest st' l0 :
  c_val st = CMap l0 -> keys_sorted (start_map st l0) ->
  run_uses_gen (step_gen p KMap o) o st (u :: rest) = Ok st' ->
  exists l, c_val st' = CMap l /\ keys_sorted l /\
    forall key, map_entry_spec (start_map st l0) (all_tokens o (u :: rest)) key (map_get key l).
Proof.
  intros Hv Hs H.
  set (s0 := start_map st l0) in *.
  apply (run_uses_hist (step_gen p KMap o) o
          (fun ts c => exists l, c = CMap l /\ keys_sorted l /\
             forall key, map_entry_spec s0 ts key (map_get key l))) in H; auto.
  - intros ts t c c' [l [-> [Hk Hi]]] Hst. rewrite step_map_kind in Hst. apply step_map_spec in Hst.
    destruct Hst as [_ [_ [_ [[_ [Hh [_ ->]]]|[_ [z [Hz ->]]]]]]].
    + (* key present, element dropped *)
      exists l. split; [auto|split; [auto|]]. intros key. specialize (Hi key).
      unfold map_entry_spec, first_tok in *. rewrite find_app.
      destruct (map_get key s0); auto.
      destruct (find (fun t0 => str_eqb (tok_key t0) key) ts); auto. simpl.
      destruct (str_eqb (tok_key t) key) eqn:Ek; auto.
      apply str_eqb_eq in Ek. subst key. apply map_has_get in Hh. contradiction.
    + exists (map_add (tok_key t) z l). split; [auto|split; [apply map_add_sorted; auto|]].
      intros key. specialize (Hi key). rewrite map_get_add; auto.
      unfold map_entry_spec, first_tok in *. rewrite find_app.
      destruct (str_eqb (tok_key t) key) eqn:Ek.
      * apply str_eqb_eq in Ek. subst key.
        destruct (map_get (tok_key t) s0).
        -- rewrite Hi. reflexivity.
        -- destruct (find (fun t0 => str_eqb (tok_key t0) (tok_key t)) ts).
           ++ destruct Hi as [z0 [Hz0 ->]]. eauto.
           ++ rewrite Hi. simpl. rewrite (proj2 (str_eqb_eq (tok_key t) (tok_key t)) eq_refl). eauto.
      * destruct (map_get key s0); auto.
        destruct (find (fun t0 => str_eqb (tok_key t0) key) ts); auto. simpl. rewrite Ek. auto.
  - intros ts c [l [-> Hr]]. rewrite norm_map. eauto.
  - intros ts c [l [-> Hr]]. simpl. eauto.
  - rewrite (start_cont_map st l0 Hv). exists s0. split; [auto|split; [auto|]].
    intros key. unfold map_entry_spec. simpl. destruct (map_get key s0); auto.
Qed.

(** unique data, duplicate keys refused: accepted only if the keys of all
    elements are new and pairwise different *)
Theorem cont_map_unique_refuse p o st u rest st' l0 :
  o_uniq o = true -> o_dup_err o = true ->
  c_val st = CMap l0 -> keys_sorted (start_map st l0) ->
  run_uses_gen (step_gen p KMap o) o st (u :: rest) = Ok st' ->
  NoDup (map fst (start_map st l0) ++ map tok_key (all_tokens o (u :: rest))).
Proof.
  intros Hu Hd Hv Hs H.
  set (s0 := start_map st l0) in *.
  apply (run_uses_hist (step_gen p KMap o) o
          (fun ts c => exists l, c = CMap l /\ keys_sorted l /\
             NoDup (map fst s0 ++ map tok_key ts) /\
             forall key, In key (map fst s0 ++ map tok_key ts) -> map_get key l <> None)) in H; auto.
  - destruct H as [l [_ [_ [Hn _]]]]. exact Hn.
  - intros ts t c c' [l [-> [Hk [Hn Hi]]]] Hst. rewrite step_map_kind in Hst. apply step_map_spec in Hst.
    destruct Hst as [_ [_ [_ [[_ [_ [Hd' _]]]|[Hor [z [Hz ->]]]]]]]; [congruence|].
    assert (Hh : map_has (tok_key t) l = false) by (destruct Hor; [congruence|auto]).
    exists (map_add (tok_key t) z l). split; [auto|split; [apply map_add_sorted; auto|]]. split.
    + rewrite map_app, app_assoc. simpl.
      eapply Permutation_NoDup; [apply Permutation_cons_append|]. constructor; auto.
      intros Hin. apply Hi in Hin. apply map_has_get in Hin. congruence.
    + intros key Hin. rewrite map_get_add; auto.
      destruct (str_eqb (tok_key t) key) eqn:Ek.
      * destruct (map_get (tok_key t) l); discriminate.
      * apply Hi. rewrite map_app, app_assoc in Hin. apply in_app_iff in Hin.
        destruct Hin as [Hin|[Hin|[]]]; auto. apply str_eqb_neq in Ek. contradiction.
  - intros ts c [l [-> Hr]]. rewrite norm_map. eauto.
  - intros ts c [l [-> Hr]]. simpl. eauto.
  - rewrite (start_cont_map st l0 Hv). exists s0. split; [auto|split; [auto|]]. simpl. rewrite app_nil_r. split.
    + clear - Hs. unfold keys_sorted in Hs. induction Hs; constructor; auto.
      intros Hin. rewrite Forall_forall in H. apply H in Hin. eapply slt_irrefl; eauto.
    + intros key Hin. intros Hn. apply map_get_none_notin in Hn. contradiction.
Qed.

(** every accepted element has the form key,value with both parts non-empty
    (and passed the checks as a whole) *)
Theorem cont_map_pair_format p o st uses st' l0 :
  c_val st = CMap l0 ->
  run_uses_gen (step_gen p KMap o) o st uses = Ok st' ->
  Forall (fun t => tok_key t <> [] /\ tok_val t <> []) (all_tokens o uses).
Proof.
  intros Hv H.
  apply (run_uses_inv (step_gen p KMap o) o (fun c => exists l, c = CMap l)
           (fun t => tok_key t <> [] /\ tok_val t <> [])) in H; [tauto| | | | |rewrite Hv; eauto].
  - intros t c c' [l ->] Hs. rewrite step_map_kind in Hs. pose proof Hs as Hs2. apply step_map_spec in Hs.
    destruct Hs as [_ [H1 [H2 [[_ [_ [_ ->]]]|[_ [z [_ ->]]]]]]]; split; eauto.
  - intros c [l ->]. simpl. eauto.
  - intros c [l ->]. simpl. eauto.
  - intros c [l ->]. simpl. eauto.
Qed.

(* ------------------------------------------------------------------ *)
(** * The accept / refuse table of the definition-time setters *)

Theorem setup_ok_table k o :
  setup_ok k o = true <->
  (o_sort o = true -> sortable k = true) /\
  (o_uniq o = true -> has_iter k = true) /\
  (o_clear o = true -> clearable k = true) /\
  (o_fmts o <> [] -> k <> KTuple) /\
  (k = KMap -> o_sep o <> COMMA).
Proof.
  unfold setup_ok. rewrite !andb_true_iff. split.
  - intros [[[[H1 H2] H3] H4] H5]. repeat split.
    + intros E. rewrite E in H1. destruct (sortable k); auto.
    + intros E. rewrite E in H2. destruct (has_iter k); auto.
    + intros E. rewrite E in H3. destruct (clearable k); auto.
    + intros E ->. destruct (o_fmts o); [congruence|discriminate H4].
    + intros -> E. rewrite E in H5. discriminate H5.
  - intros [H1 [H2 [H3 [H4 H5]]]]. repeat split.
    + destruct (o_sort o); simpl; auto.
    + destruct (o_uniq o); simpl; auto.
    + destruct (o_clear o); simpl; auto.
    + destruct (o_fmts o); simpl; auto. destruct k; auto. exfalso. apply H4; [discriminate|reflexivity].
    + destruct k; simpl; auto. unfold ceq. destruct (N.eqb_spec (o_sep o) COMMA); simpl; auto.
      exfalso. apply H5; auto.
Qed.

Theorem sortable_table k :
  sortable k = true <->
  In k [KVec; KDeque; KList; KFwd; KVecStr] \/ exists n, k = KArr n \/ k = KStdArr n.
Proof.
  split.
  - destruct k; simpl; intros H; try discriminate H; eauto 10.
  - intros [H|[n [->| ->]]]; auto. simpl in H. intuition (subst; auto).
Qed.

Theorem has_iter_table k :
  has_iter k = true <->
  In k [KVec; KDeque; KList; KFwd; KSet; KMSet; KUSet; KUMSet; KVecStr; KMap] \/ exists n, k = KArr n \/ k = KStdArr n.
Proof.
  split.
  - destruct k; simpl; intros H; try discriminate H; eauto 14.
  - intros [H|[n [->| ->]]]; auto. simpl in H. intuition (subst; auto).
Qed.

Theorem clearable_table k :
  clearable k = false <-> k = KTuple \/ exists n, k = KArr n \/ k = KStdArr n.
Proof.
  split.
  - destruct k; simpl; intros H; try discriminate H; eauto.
  - intros [->|[n [->| ->]]]; auto.
Qed.
