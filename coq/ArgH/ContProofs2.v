(** C06, second part: vector<string> destinations (unique data, formats before
    the unique test), map<string,int> destinations (placement of key-value
    pairs, existing keys, refusal), and the accept / refuse table of the
    definition-time setters. *)
From Coq Require Import List NArith ZArith Bool Arith Permutation Sorted Lia.
Import ListNotations.
Require Import Celma.Common.Res Celma.ArgH.Key Celma.ArgH.Handler Celma.ArgH.Cont Celma.ArgH.ContProofs.

(* ------------------------------------------------------------------ *)
(** * Strings: equality test, membership *)

Lemma str_eqb_eq a : forall b, str_eqb a b = true <-> a = b.
Proof.
  induction a as [|x a IH]; intros [|y b]; simpl; split; intros H; try discriminate; auto.
  - apply andb_true_iff in H. destruct H as [H1 H2]. unfold ceq in H1. apply N.eqb_eq in H1.
    apply IH in H2. congruence.
  - inversion H; subst. unfold ceq. rewrite N.eqb_refl. simpl. apply IH. reflexivity.
Qed.

Lemma str_eqb_neq a b : str_eqb a b = false <-> a <> b.
Proof.
  split.
  - intros H E. apply str_eqb_eq in E. congruence.
  - intros H. destruct (str_eqb a b) eqn:E; auto. apply str_eqb_eq in E. contradiction.
Qed.

Lemma str_in_iff v l : str_in v l = true <-> In v l.
Proof.
  rewrite str_in_In. split.
  - intros [x [Hx He]]. apply str_eqb_eq in He. subst. auto.
  - intros H. exists v. split; auto. apply str_eqb_eq. reflexivity.
Qed.

(* ------------------------------------------------------------------ *)
(** * vector<string> *)

(** the range rule of TypedArgBase::format never hides a registered format: a
    slot outside the table is an empty slot *)
Lemma fmt_pos_nth o idx s : fmt_pos o idx s = apply_fmts (nth (idx + 1) (o_ftab o) []) s.
Proof.
  unfold fmt_pos. destruct (Nat.ltb_spec (idx + 1) (length (o_ftab o))); auto.
  rewrite nth_overflow by lia. reflexivity.
Qed.

(** no position formats registered *)
Definition pos_free (o : copts) : Prop := forall idx s, fmt_pos o idx s = s.

(** what is stored for an element that lands at position [pos]: the element
    after all checks passed, with the general formats and then the formats of
    that position applied - the unique test sees this value *)
Definition conv_str_at (o : copts) (pos : nat) (t : str) : res str :=
  do _ <- run_checks (o_checks o) t; Ok (fmt_pos o pos (apply_fmts (o_fmts o) t)).
Definition conv_str (o : copts) (t : str) : res str :=
  do _ <- run_checks (o_checks o) t; Ok (apply_fmts (o_fmts o) t).

Lemma conv_str_at_free o pos t : pos_free o -> conv_str_at o pos t = conv_str o t.
Proof. intros H. unfold conv_str_at, conv_str. rewrite H. reflexivity. Qed.

Lemma step_strs_spec o t l l' :
  step_strs o t l = Ok l' ->
  exists v, conv_str_at o (length l) t = Ok v /\
    ((o_uniq o = true /\ In v l /\ o_dup_err o = false /\ l' = l) \/
     ((o_uniq o = false \/ ~ In v l) /\ l' = l ++ [v])).
Proof.
  unfold step_strs, conv_str_at. intros H. inv_bind H.
  exists (fmt_pos o (length l) (apply_fmts (o_fmts o) t)). simpl. split; auto.
  destruct (o_uniq o) eqn:Eu; simpl in H.
  - destruct (str_in (fmt_pos o (length l) (apply_fmts (o_fmts o) t)) l) eqn:Ez.
    + destruct (o_dup_err o) eqn:Ed; [discriminate H|]. inversion H; subst.
      left. repeat split; auto. apply str_in_iff; auto.
    + inversion H; subst. right. split; auto. right. intros Hin. apply str_in_iff in Hin. congruence.
  - inversion H; subst. right. split; auto.
Qed.

Lemma step_strs_kind p o t l :
  step_gen p KVecStr o t (CStrs l) = do l' <- step_strs o t l; Ok (CStrs l').
Proof. reflexivity. Qed.

Definition start_strs (st : cst) (l0 : list str) : list str := if c_clearp st then [] else l0.

Lemma start_cont_strs st l0 :
  c_val st = CStrs l0 ->
  pre_use (if c_clearp st then clear_cont (c_val st) else c_val st) = CStrs (start_strs st l0).
Proof. intros ->. unfold start_strs. destruct (c_clearp st); reflexivity. Qed.

Lemma norm_strs o l : exists l', norm o (CStrs l) = CStrs l' /\ Permutation l' l.
Proof. unfold norm. destruct (o_sort o); simpl; eexists; split; eauto. apply sort_by_perm. Qed.

(** unique data: never two equal strings in the destination - with or without
    position formats *)
Theorem cont_strs_unique_nodup p o st u rest st' l0 :
  o_uniq o = true ->
  c_val st = CStrs l0 -> NoDup (start_strs st l0) ->
  run_uses_gen (step_gen p KVecStr o) o st (u :: rest) = Ok st' ->
  exists l, c_val st' = CStrs l /\ NoDup l.
Proof.
  intros Hu Hv Hnd H.
  apply (run_uses_hist (step_gen p KVecStr o) o (fun _ c => exists l, c = CStrs l /\ NoDup l)) in H; auto.
  - intros ts t c c' [l [-> Hn]] Hs. rewrite step_strs_kind in Hs. inv_bind Hs.
    inversion Hs; subst; clear Hs. apply step_strs_spec in E.
    destruct E as [v [Hc [[_ [Hin [_ ->]]]|[Hor ->]]]]; [eauto|].
    assert (Hnv : ~ In v l) by (destruct Hor as [Hor|Hor]; [congruence|auto]).
    exists (l ++ [v]). split; auto.
    eapply Permutation_NoDup; [apply Permutation_cons_append|]. constructor; auto.
  - intros ts c [l [-> Hn]]. destruct (norm_strs o l) as [l' [-> Hp]]. exists l'. split; auto.
    eapply Permutation_NoDup; [apply Permutation_sym; eauto|auto].
  - intros ts c [l [-> Hr]]. simpl. eauto.
  - rewrite (start_cont_strs st l0 Hv). eauto.
Qed.

(** unique data, duplicates dropped (no position formats): no two equal
    strings, exactly the earlier content and the formatted values of all elements *)
Theorem cont_strs_unique_drop p o st u rest st' l0 :
  pos_free o -> o_uniq o = true -> o_dup_err o = false ->
  c_val st = CStrs l0 -> NoDup (start_strs st l0) ->
  run_uses_gen (step_gen p KVecStr o) o st (u :: rest) = Ok st' ->
  exists l, c_val st' = CStrs l /\ NoDup l /\
    forall z, In z l <-> In z (start_strs st l0) \/ exists t, In t (all_tokens o (u :: rest)) /\ conv_str o t = Ok z.
Proof.
  intros Hpf Hu Hd Hv Hnd H.
  set (s0 := start_strs st l0) in *.
  apply (run_uses_hist (step_gen p KVecStr o) o
          (fun ts c => exists l, c = CStrs l /\ NoDup l /\
             forall z, In z l <-> In z s0 \/ exists t, In t ts /\ conv_str o t = Ok z)) in H; auto.
  - intros ts t c c' [l [-> [Hn Hi]]] Hs. rewrite step_strs_kind in Hs. inv_bind Hs.
    inversion Hs; subst; clear Hs. apply step_strs_spec in E. rewrite (conv_str_at_free o _ _ Hpf) in E.
    destruct E as [v [Hc [[_ [Hin [_ ->]]]|[Hor ->]]]].
    + exists l. split; [auto|split; [auto|]]. intros z. rewrite Hi. split.
      * intros [H1|[t' [H1 H2]]]; auto. right. exists t'. rewrite in_app_iff. auto.
      * intros [H1|[t' [H1 H2]]]; auto. rewrite in_app_iff in H1. destruct H1 as [H1|[<-|[]]]; eauto.
        assert (z = v) by congruence. subst. apply Hi in Hin. exact Hin.
    + assert (Hnv : ~ In v l) by (destruct Hor as [Hor|Hor]; [congruence|auto]).
      exists (l ++ [v]). split; [auto|split].
      * eapply Permutation_NoDup; [apply Permutation_cons_append|]. constructor; auto.
      * intros z. rewrite in_app_iff. simpl. rewrite Hi. split.
        -- intros [[H1|[t' [H1 H2]]]|[<-|[]]]; auto.
           ++ right. exists t'. rewrite in_app_iff. auto.
           ++ right. exists t. rewrite in_app_iff. simpl. auto.
        -- intros [H1|[t' [H1 H2]]]; auto. rewrite in_app_iff in H1. destruct H1 as [H1|[<-|[]]]; eauto.
           right. left. congruence.
  - intros ts c [l [-> [Hn Hi]]]. destruct (norm_strs o l) as [l' [-> Hp]].
    exists l'. repeat split.
    + eapply Permutation_NoDup; [apply Permutation_sym; eauto|auto].
    + intros Hz. apply Hi. eapply Permutation_in; eauto.
    + intros Hz. apply Hi in Hz. eapply Permutation_in; [apply Permutation_sym; eauto|auto].
  - intros ts c [l [-> Hr]]. simpl. eauto.
  - rewrite (start_cont_strs st l0 Hv). exists s0. repeat split; auto.
    intros [Hz|[t [[] _]]]. auto.
Qed.

(** the values of the elements [ts] when every one of them is stored, the first
    at position [p]: general formats, then the formats of its own position *)
Fixpoint pos_vals (o : copts) (p : nat) (ts : list str) : list str :=
  match ts with
  | [] => []
  | t :: r => fmt_pos o p (apply_fmts (o_fmts o) t) :: pos_vals o (S p) r
  end.

Lemma pos_vals_length o ts : forall p, length (pos_vals o p ts) = length ts.
Proof. induction ts; intros; simpl; auto. Qed.

Lemma pos_vals_app o a : forall p b, pos_vals o p (a ++ b) = pos_vals o p a ++ pos_vals o (p + length a) b.
Proof.
  induction a as [|t r IH]; intros p b; simpl.
  - rewrite Nat.add_0_r. reflexivity.
  - rewrite IH. replace (S p + length r) with (p + S (length r)) by lia. reflexivity.
Qed.

(** unique data, duplicates refused: accepted only if all values are new; then
    every element was stored, at the position after its predecessor *)
Theorem cont_strs_unique_refuse p o st u rest st' l0 :
  o_uniq o = true -> o_dup_err o = true ->
  c_val st = CStrs l0 -> NoDup (start_strs st l0) ->
  run_uses_gen (step_gen p KVecStr o) o st (u :: rest) = Ok st' ->
  let vals := pos_vals o (length (start_strs st l0)) (all_tokens o (u :: rest)) in
  exists l, c_val st' = CStrs l /\
    Permutation l (start_strs st l0 ++ vals) /\ NoDup (start_strs st l0 ++ vals) /\
    (o_sort o = false -> l = start_strs st l0 ++ vals).
Proof.
  intros Hu Hd Hv Hnd H.
  set (s0 := start_strs st l0) in *. simpl.
  apply (run_uses_hist (step_gen p KVecStr o) o
          (fun ts c => exists l, c = CStrs l /\
             Permutation l (s0 ++ pos_vals o (length s0) ts) /\ NoDup l /\
             (o_sort o = false -> l = s0 ++ pos_vals o (length s0) ts))) in H; auto.
  - destruct H as [l [Hc [Hp [Hn He]]]]. exists l. repeat split; auto.
    eapply Permutation_NoDup; eauto.
  - intros ts t c c' [l [-> [Hp [Hn He]]]] Hs. rewrite step_strs_kind in Hs. inv_bind Hs.
    inversion Hs; subst; clear Hs. apply step_strs_spec in E.
    destruct E as [v [Hc [[_ [_ [Hd' _]]]|[Hor ->]]]]; [congruence|].
    assert (Hnv : ~ In v l) by (destruct Hor as [Hor|Hor]; [congruence|auto]).
    assert (Hlen : length l = length s0 + length ts).
    { rewrite (Permutation_length Hp), app_length, pos_vals_length. reflexivity. }
    assert (Hv' : pos_vals o (length s0) (ts ++ [t]) = pos_vals o (length s0) ts ++ [v]).
    { rewrite pos_vals_app. simpl. unfold conv_str_at in Hc. inv_bind Hc. inversion Hc; subst.
      rewrite Hlen. reflexivity. }
    exists (l ++ [v]). rewrite Hv'. repeat split.
    + rewrite app_assoc. apply Permutation_app_tail. auto.
    + eapply Permutation_NoDup; [apply Permutation_cons_append|]. constructor; auto.
    + intros Hs. rewrite (He Hs), app_assoc. reflexivity.
  - intros ts c [l [-> [Hp [Hn He]]]]. unfold norm. destruct (o_sort o) eqn:Es; simpl.
    + exists (sort_by str_ltb l). repeat split; auto; try discriminate.
      * eapply perm_trans; [apply sort_by_perm|auto].
      * eapply Permutation_NoDup; [apply Permutation_sym, sort_by_perm|auto].
    + exists l. repeat split; auto.
  - intros ts c [l [-> Hr]]. simpl. eauto.
  - rewrite (start_cont_strs st l0 Hv). exists s0. simpl. rewrite app_nil_r. repeat split; auto.
Qed.

(** without unique data: the earlier content followed by the values of all
    elements in order, element i formatted for position |earlier content| + i,
    whatever the cut into value strings - sorted in byte order if so configured *)
Theorem cont_strs_content p o st u rest st' l0 :
  o_uniq o = false -> c_val st = CStrs l0 ->
  run_uses_gen (step_gen p KVecStr o) o st (u :: rest) = Ok st' ->
  let vals := pos_vals o (length (start_strs st l0)) (all_tokens o (u :: rest)) in
  exists l, c_val st' = CStrs l /\
    (o_sort o = false -> l = start_strs st l0 ++ vals) /\
    (o_sort o = true -> l = sort_by str_ltb (start_strs st l0 ++ vals)).
Proof.
  intros Hu Hv H.
  set (s0 := start_strs st l0) in *. simpl.
  pose proof H as H2.
  apply (run_uses_hist (step_gen p KVecStr o) o
          (fun ts c => exists l, c = CStrs l /\
             Permutation l (s0 ++ pos_vals o (length s0) ts) /\
             (o_sort o = false -> l = s0 ++ pos_vals o (length s0) ts))) in H; auto.
  - destruct H as [l [Hc [Hp He]]]. exists l. repeat split; auto.
    intros Hs. apply cont_sorted_gen in H2; auto; [|discriminate]. rewrite Hc in H2. simpl in H2.
    apply (sorted_perm_unique str_ltb str_lt_irrefl str_le_antisym); auto.
    + apply sort_by_sorted; [apply str_lt_irrefl|apply str_lt_le_trans].
    + eapply perm_trans; eauto. apply Permutation_sym, sort_by_perm.
  - intros ts t c c' [l [-> [Hp He]]] Hs. rewrite step_strs_kind in Hs. inv_bind Hs.
    inversion Hs; subst; clear Hs. apply step_strs_spec in E.
    destruct E as [v [Hc [[Hu' _]|[_ ->]]]]; [congruence|].
    assert (Hlen : length l = length s0 + length ts).
    { rewrite (Permutation_length Hp), app_length, pos_vals_length. reflexivity. }
    assert (Hv' : pos_vals o (length s0) (ts ++ [t]) = pos_vals o (length s0) ts ++ [v]).
    { rewrite pos_vals_app. simpl. unfold conv_str_at in Hc. inv_bind Hc. inversion Hc; subst.
      rewrite Hlen. reflexivity. }
    exists (l ++ [v]). rewrite Hv'. repeat split.
    + rewrite app_assoc. apply Permutation_app_tail. auto.
    + intros Hs. rewrite (He Hs), app_assoc. reflexivity.
  - intros ts c [l [-> [Hp He]]]. unfold norm. destruct (o_sort o) eqn:Es; simpl.
    + exists (sort_by str_ltb l). repeat split; auto; try discriminate.
      eapply perm_trans; [apply sort_by_perm|auto].
    + exists l. repeat split; auto.
  - intros ts c [l [-> Hr]]. simpl. eauto.
  - rewrite (start_cont_strs st l0 Hv). exists s0. simpl. rewrite app_nil_r. repeat split; auto.
Qed.

(** every accepted element passed the checks (see also cont_checks_every_element) and
    Forall2-style: the stored values are exactly [pos_vals] - the checks do not alter them *)

(* ------------------------------------------------------------------ *)
(** * std::tuple<int,std::string,int>: element k is the k-th value given *)

(** element [k] of the tuple (a, s, b) is the value [t], formatted with the
    formats of position [k] and converted to the element's type *)
Definition tuple_elem_ok (o : copts) (a : Z) (s : str) (b : Z) (k : nat) (t : str) : Prop :=
  match k with
  | 0 => lex_int (fmt_pos o 0 t) = Ok a
  | 1 => s = fmt_pos o 1 t
  | 2 => lex_int (fmt_pos o 2 t) = Ok b
  | _ => False
  end.

Theorem cont_tuple_elements p o st u rest st' a0 s0 b0 n0 :
  c_val st = CTuple a0 s0 b0 n0 ->
  run_uses_gen (step_gen p KTuple o) o st (u :: rest) = Ok st' ->
  exists a s b, c_val st' = CTuple a s b (n0 + length (all_tokens o (u :: rest))) /\
    (forall j t, nth_error (all_tokens o (u :: rest)) j = Some t -> tuple_elem_ok o a s b (n0 + j) t) /\
    (n0 + length (all_tokens o (u :: rest)) <= 0 \/ 0 < n0 -> a = a0) /\
    (n0 + length (all_tokens o (u :: rest)) <= 1 \/ 1 < n0 -> s = s0) /\
    (n0 + length (all_tokens o (u :: rest)) <= 2 \/ 2 < n0 -> b = b0).
Proof.
  intros Hv H.
  apply (run_uses_hist (step_gen p KTuple o) o
          (fun ts c => exists a s b, c = CTuple a s b (n0 + length ts) /\
             (forall j t, nth_error ts j = Some t -> tuple_elem_ok o a s b (n0 + j) t) /\
             (n0 + length ts <= 0 \/ 0 < n0 -> a = a0) /\
             (n0 + length ts <= 1 \/ 1 < n0 -> s = s0) /\
             (n0 + length ts <= 2 \/ 2 < n0 -> b = b0))) in H; auto.
  - intros ts t c c' [a [s [b [-> [He [Ha [Hs Hb]]]]]]] Hst.
    simpl in Hst. unfold step_tuple in Hst. inv_bind Hst.
    assert (Hnth : forall j t', nth_error (ts ++ [t]) j = Some t' ->
                     (j < length ts /\ nth_error ts j = Some t') \/ (j = length ts /\ t' = t)).
    { intros j t' Hj. destruct (Nat.lt_ge_cases j (length ts)) as [Hl|Hl].
      - left. split; auto. rewrite nth_error_app1 in Hj; auto.
      - right. rewrite nth_error_app2 in Hj; auto.
        destruct (j - length ts) as [|m] eqn:Em; simpl in Hj.
        + inversion Hj. split; auto. lia.
        + destruct m; discriminate Hj. }
    rewrite app_length. simpl length.
    destruct (n0 + length ts) as [|[|[|m]]] eqn:En; [| | |discriminate Hst].
    + inv_bind Hst. inversion Hst; subst; clear Hst. exists a2, s, b.
      split; [f_equal; lia|]. split; [|split; [intros; lia|split; intros; [apply Hs|apply Hb]; lia]].
      intros j t' Hj. apply Hnth in Hj. destruct Hj as [[Hl Hj]|[-> ->]]; [lia|].
      replace (n0 + length ts) with 0 by lia. exact E0.
    + inversion Hst; subst; clear Hst. exists a, (fmt_pos o 1 t), b.
      split; [f_equal; lia|]. split; [|split; [intros; apply Ha; lia|split; intros; [lia|apply Hb; lia]]].
      intros j t' Hj. apply Hnth in Hj. destruct Hj as [[Hl Hj]|[-> ->]].
      * specialize (He _ _ Hj). assert (Hq : n0 + j = 0) by lia. rewrite Hq in *. exact He.
      * rewrite En. reflexivity.
    + inv_bind Hst. inversion Hst; subst; clear Hst. exists a, s, a2.
      split; [f_equal; lia|]. split; [|split; [intros; apply Ha; lia|split; intros; [apply Hs; lia|lia]]].
      intros j t' Hj. apply Hnth in Hj. destruct Hj as [[Hl Hj]|[-> ->]].
      * specialize (He _ _ Hj).
        assert (n0 + j = 0 \/ n0 + j = 1) as [Hq|Hq] by lia; rewrite Hq in *; exact He.
      * rewrite En. exact E0.
  - intros ts c [a [s [b [-> Hr]]]]. unfold norm. destruct (o_sort o); simpl; eauto 6.
  - intros ts c [a [s [b [-> Hr]]]]. simpl. eauto 6.
  - rewrite Hv. replace (if c_clearp st then clear_cont (CTuple a0 s0 b0 n0) else CTuple a0 s0 b0 n0)
      with (CTuple a0 s0 b0 n0) by (destruct (c_clearp st); reflexivity).
    simpl. exists a0, s0, b0. rewrite Nat.add_0_r. split; auto. split; [intros [|j] t Hj; discriminate Hj|auto].
Qed.

(* ------------------------------------------------------------------ *)
(** * T[N] / std::array<T,N> without unique data: slot i0 + i gets the i-th value *)

Lemma Forall2_len {A B} (R : A -> B -> Prop) l1 l2 : Forall2 R l1 l2 -> length l1 = length l2.
Proof. induction 1; simpl; auto. Qed.

Theorem cont_array_content p k n o st u rest st' l0 i0 :
  arr_kind k n -> o_uniq o = false -> c_val st = CArr l0 i0 ->
  run_uses_gen (step_gen p k o) o st (u :: rest) = Ok st' ->
  exists l vals, c_val st' = CArr l (i0 + length (all_tokens o (u :: rest))) /\
    Forall2 (fun t v => conv_int o t = Ok v) (all_tokens o (u :: rest)) vals /\
    (o_sort o = false -> firstn (i0 + length vals) l = firstn i0 l0 ++ vals) /\
    (o_sort o = true -> firstn (i0 + length vals) l = sort_by Z.ltb (firstn i0 l0 ++ vals)).
Proof.
  intros Hk Hu Hv H.
  pose proof H as H2.
  apply (run_uses_hist (step_gen p k o) o
          (fun ts c => exists l vals, c = CArr l (i0 + length ts) /\
             Forall2 (fun t v => conv_int o t = Ok v) ts vals /\
             Permutation (firstn (i0 + length ts) l) (firstn i0 l0 ++ vals) /\
             (o_sort o = false -> firstn (i0 + length ts) l = firstn i0 l0 ++ vals))) in H; auto.
  - destruct H as [l [vals [Hc [Hf [Hp He]]]]]. exists l, vals.
    rewrite <- (Forall2_len _ _ _ Hf). repeat split; auto.
    intros Hs. apply cont_sorted_gen in H2; auto; [|discriminate]. rewrite Hc in H2. simpl in H2.
    apply (sorted_perm_unique Z.ltb Z_lt_irrefl Z_le_antisym).
    + clear - H2. induction H2; constructor; auto. eapply Forall_impl; [|eauto].
      intros b Hb. unfold le_of. apply Z.ltb_ge. auto.
    + apply sort_by_sorted; [apply Z_lt_irrefl|apply Z_lt_le_trans].
    + eapply perm_trans; eauto. apply Permutation_sym, sort_by_perm.
  - intros ts t c c' [l [vals [-> [Hf [Hp He]]]]] Hs.
    assert (Hs' : step_arr (if p then arr_contains_pinned else arr_contains) n o t l (i0 + length ts) = Ok c')
      by (destruct Hk; subst k; exact Hs).
    clear Hs. unfold step_arr in Hs'. destruct (Nat.eqb (i0 + length ts) n); [discriminate Hs'|].
    inv_bind Hs'. inv_bind Hs'. rewrite Hu in Hs'. simpl in Hs'. inversion Hs'; subst; clear Hs'.
    rewrite lex_int_fmt_pos in E0.
    assert (Hc : conv_int o t = Ok a0) by (unfold conv_int; rewrite E; destruct a; exact E0).
    exists (arr_set l (i0 + length ts) a0), (vals ++ [a0]).
    rewrite app_length. simpl length. replace (i0 + (length ts + 1)) with (S (i0 + length ts)) by lia.
    rewrite firstn_S_upd. repeat split.
    + apply Forall2_app; auto.
    + rewrite app_assoc. apply Permutation_app_tail. auto.
    + intros Hs. rewrite (He Hs), app_assoc. reflexivity.
  - intros ts c [l [vals [-> [Hf [Hp He]]]]]. unfold norm. destruct (o_sort o) eqn:Es; simpl.
    + eexists _, vals. split; [reflexivity|]. rewrite firstn_sorted_part. repeat split; auto; try discriminate.
      eapply perm_trans; [apply sort_by_perm|auto].
    + exists l, vals. repeat split; auto.
  - intros ts c [l [vals [-> Hr]]]. simpl. eauto.
  - rewrite Hv. replace (if c_clearp st then clear_cont (CArr l0 i0) else CArr l0 i0) with (CArr l0 i0)
      by (destruct (c_clearp st); reflexivity).
    simpl. exists l0, []. rewrite Nat.add_0_r, app_nil_r. repeat split; auto.
Qed.

(* ------------------------------------------------------------------ *)
(** * map<string,int> *)

Definition slt (a b : str) : Prop := str_ltb a b = true.

Lemma slt_irrefl a : ~ slt a a.
Proof. unfold slt. rewrite str_lt_irrefl. discriminate. Qed.

Lemma slt_trans a b c : slt a b -> slt b c -> slt a c.
Proof.
  unfold slt. intros H1 H2. destruct (str_ltb a c) eqn:E; auto.
  pose proof (str_lt_le_trans b c a H2 E). congruence.
Qed.

Lemma slt_total a b : str_ltb a b = false -> str_eqb a b = false -> slt b a.
Proof.
  unfold slt. intros H1 H2. destruct (str_ltb b a) eqn:E; auto.
  pose proof (str_le_antisym a b H1 E). apply str_eqb_neq in H2. contradiction.
Qed.

Definition map_get (key : str) (l : list (str * Z)) : option Z :=
  match find (fun e => str_eqb (fst e) key) l with Some e => Some (snd e) | None => None end.

(** std::map: keys strictly ascending *)
Definition keys_sorted (l : list (str * Z)) : Prop := StronglySorted slt (map fst l).

Lemma map_has_get key l : map_has key l = true <-> map_get key l <> None.
Proof.
  unfold map_has, map_get. induction l as [|[k v] r IH]; simpl.
  - split; [discriminate|congruence].
  - destruct (str_eqb k key); simpl; [split; [discriminate|auto]|exact IH].
Qed.

Lemma map_get_none_notin key l : map_get key l = None <-> ~ In key (map fst l).
Proof.
  unfold map_get. induction l as [|[k v] r IH]; simpl.
  - split; auto.
  - destruct (str_eqb k key) eqn:E.
    + apply str_eqb_eq in E. subst. split; [discriminate|intros H; exfalso; apply H; auto].
    + apply str_eqb_neq in E. rewrite IH. split; [intros H [H1|H1]; auto|intros H H1; apply H; auto].
Qed.

Lemma map_add_keys k v l x : In x (map fst (map_add k v l)) -> x = k \/ In x (map fst l).
Proof.
  induction l as [|[k' v'] r IH]; simpl.
  - intros [H|[]]; auto.
  - destruct (str_ltb k k'); simpl; [intros [H|[H|H]]; auto|].
    destruct (str_eqb k k'); simpl; [intros [H|H]; auto|].
    intros [H|H]; auto. apply IH in H. destruct H; auto.
Qed.

Lemma map_add_sorted k v l : keys_sorted l -> keys_sorted (map_add k v l).
Proof.
  unfold keys_sorted. induction l as [|[k' v'] r IH]; simpl; intros S.
  - constructor; auto.
  - inversion S as [|? ? Sr Fr]; subst.
    destruct (str_ltb k k') eqn:E1; simpl.
    + constructor; [constructor; auto|]. constructor; [exact E1|].
      eapply Forall_impl; [|apply Fr]. intros a Ha. eapply slt_trans; eauto.
    + destruct (str_eqb k k') eqn:E2; simpl; [constructor; auto|].
      constructor; [apply IH; auto|].
      rewrite Forall_forall in *. intros x Hx. apply map_add_keys in Hx.
      destruct Hx as [->|Hx]; auto. apply slt_total; auto.
Qed.

Lemma map_get_below key l k : Forall (slt k) (map fst l) -> (key = k \/ slt key k) -> map_get key l = None.
Proof.
  intros F Hk. apply map_get_none_notin. intros Hin. rewrite Forall_forall in F. specialize (F _ Hin).
  destruct Hk as [->|Hk]; [eapply slt_irrefl; eauto|]. eapply slt_irrefl. eapply slt_trans; eauto.
Qed.

(** std::map::insert( {k, v}): a new key is added, an existing key keeps its value *)
Lemma map_get_add k v l key :
  keys_sorted l ->
  map_get key (map_add k v l) =
  if str_eqb k key then (match map_get k l with Some v' => Some v' | None => Some v end) else map_get key l.
Proof.
  unfold keys_sorted. induction l as [|[k' v'] r IH]; simpl; intros S.
  - unfold map_get. simpl. destruct (str_eqb k key); reflexivity.
  - inversion S as [|? ? Sr Fr]; subst.
    destruct (str_ltb k k') eqn:E1.
    + (* k in front of everything *)
      assert (Hn : map_get k ((k', v') :: r) = None).
      { apply map_get_none_notin. simpl. intros [H|H].
        - subst. eapply slt_irrefl; eauto.
        - rewrite Forall_forall in Fr. specialize (Fr _ H). eapply slt_irrefl. eapply slt_trans; eauto. }
      rewrite Hn. unfold map_get at 1. simpl. destruct (str_eqb k key); reflexivity.
    + destruct (str_eqb k k') eqn:E2.
      * apply str_eqb_eq in E2. subst k'. unfold map_get. simpl.
        destruct (str_eqb k key) eqn:E3; [|reflexivity].
        rewrite (proj2 (str_eqb_eq k k) eq_refl). reflexivity.
      * assert (Hk : slt k' k) by (apply slt_total; auto).
        unfold map_get at 1. simpl. fold (map_get key (map_add k v r)).
        destruct (str_eqb k' key) eqn:E3.
        -- apply str_eqb_eq in E3. subst key.
           assert (str_eqb k k' = false) by exact E2. rewrite H.
           unfold map_get. simpl. rewrite (proj2 (str_eqb_eq k' k') eq_refl). reflexivity.
        -- etransitivity; [exact (IH Sr)|].
           assert (Hg : forall q, str_eqb k' q = false -> map_get q ((k', v') :: r) = map_get q r).
           { intros q Hq. unfold map_get. simpl. rewrite Hq. reflexivity. }
           rewrite (Hg key E3).
           assert (E2' : str_eqb k' k = false).
           { apply str_eqb_neq. apply str_eqb_neq in E2. congruence. }
           rewrite (Hg k E2'). reflexivity.
Qed.

(** the key and the value text of one list element "key,value" *)
Definition tok_key (t : str) : str := fst (split2 COMMA t).
Definition tok_val (t : str) : str := snd (split2 COMMA t).
Definition first_tok (key : str) (ts : list str) : option str :=
  find (fun t => str_eqb (tok_key t) key) ts.

Lemma find_app {A} (f : A -> bool) l1 l2 :
  find f (l1 ++ l2) = match find f l1 with Some x => Some x | None => find f l2 end.
Proof. induction l1 as [|x r IH]; simpl; auto. destruct (f x); auto. Qed.

(** one element on any of the four key-value destinations ([add] = addValue of the adapter) *)
Lemma step_kv_spec add o t l c' :
  step_kv add o t l = Ok c' ->
  run_checks (o_checks o) t = Ok tt /\ tok_key t <> [] /\ tok_val t <> [] /\
  ((o_uniq o = true /\ map_has (tok_key t) l = true /\ o_dup_err o = false /\ c' = CMap l) \/
   ((o_uniq o = false \/ map_has (tok_key t) l = false) /\
    exists z, lex_int (tok_val t) = Ok z /\ c' = CMap (add (tok_key t) z l))).
Proof.
  unfold step_kv, tok_key, tok_val. intros H. inv_bind H. destruct a.
  destruct (split2 COMMA t) as [k v]. simpl.
  destruct (is_nil k || is_nil v) eqn:En; [discriminate H|].
  apply orb_false_iff in En. destruct En as [Ek Ev].
  split; auto. split; [destruct k; [discriminate Ek|discriminate]|].
  split; [destruct v; [discriminate Ev|discriminate]|].
  destruct (o_uniq o) eqn:Eu; simpl in H.
  - destruct (map_has k l) eqn:Eh.
    + destruct (o_dup_err o); [discriminate H|]. inversion H; subst. left. auto.
    + inv_bind H. inversion H; subst. right. split; eauto.
  - inv_bind H. inversion H; subst. right. split; eauto.
Qed.

Lemma step_map_spec o t l c' :
  step_map o t l = Ok c' ->
  run_checks (o_checks o) t = Ok tt /\ tok_key t <> [] /\ tok_val t <> [] /\
  ((o_uniq o = true /\ map_has (tok_key t) l = true /\ o_dup_err o = false /\ c' = CMap l) \/
   ((o_uniq o = false \/ map_has (tok_key t) l = false) /\
    exists z, lex_int (tok_val t) = Ok z /\ c' = CMap (map_add (tok_key t) z l))).
Proof. exact (step_kv_spec map_add o t l c'). Qed.

(** std::map and std::unordered_map: insert() ignores a key that is stored *)
Definition map_kind (k : kind) : Prop := k = KMap \/ k = KUMap.

Lemma step_map_kind p k o t l : map_kind k -> step_gen p k o t (CMap l) = step_map o t l.
Proof. intros [->| ->]; reflexivity. Qed.

Lemma step_kv_kind p k o t l : kv_kind k = true -> step_gen p k o t (CMap l) = step_kv (kv_add k) o t l.
Proof. destruct k; try discriminate; reflexivity. Qed.

Definition start_map (st : cst) (l0 : list (str * Z)) : list (str * Z) := if c_clearp st then [] else l0.

Lemma start_cont_map st l0 :
  c_val st = CMap l0 ->
  pre_use (if c_clearp st then clear_cont (c_val st) else c_val st) = CMap (start_map st l0).
Proof. intros ->. unfold start_map. destruct (c_clearp st); reflexivity. Qed.

Lemma norm_map o l : norm o (CMap l) = CMap l.
Proof. unfold norm. destruct (o_sort o); reflexivity. Qed.

(** what the map holds for a key after the uses, given what it held before and
    the elements in order: an earlier entry keeps its value; otherwise the
    first element with that key decides (its value converts); otherwise the
    key is absent *)
Definition map_entry_spec (start : list (str * Z)) (ts : list str) (key : str) (got : option Z) : Prop :=
  match map_get key start, first_tok key ts with
  | Some v, _ => got = Some v
  | None, Some t0 => exists z, lex_int (tok_val t0) = Ok z /\ got = Some z
  | None, None => got = None
  end.

Theorem cont_map_content p k o st u rest st' l0 :
  map_kind k ->
  c_val st = CMap l0 -> keys_sorted (start_map st l0) ->
  run_uses_gen (step_gen p k o) o st (u :: rest) = Ok st' ->
  exists l, c_val st' = CMap l /\ keys_sorted l /\
    forall key, map_entry_spec (start_map st l0) (all_tokens o (u :: rest)) key (map_get key l).
Proof.
  intros Hmk Hv Hs H.
  set (s0 := start_map st l0) in *.
  apply (run_uses_hist (step_gen p k o) o
          (fun ts c => exists l, c = CMap l /\ keys_sorted l /\
             forall key, map_entry_spec s0 ts key (map_get key l))) in H; auto.
  - intros ts t c c' [l [-> [Hk Hi]]] Hst. rewrite (step_map_kind p k) in Hst by auto. apply step_map_spec in Hst.
    destruct Hst as [_ [_ [_ [[_ [Hh [_ ->]]]|[_ [z [Hz ->]]]]]]].
    + (* key present, element dropped *)
      exists l. split; [auto|split; [auto|]]. intros key. specialize (Hi key).
      unfold map_entry_spec, first_tok in *. rewrite find_app.
      destruct (map_get key s0); auto.
      destruct (find (fun t0 => str_eqb (tok_key t0) key) ts); auto. simpl.
      destruct (str_eqb (tok_key t) key) eqn:Ek; auto.
      apply str_eqb_eq in Ek. subst key. apply map_has_get in Hh. contradiction.
    + exists (map_add (tok_key t) z l). split; [auto|split; [apply map_add_sorted; auto|]].
      intros key. specialize (Hi key). rewrite map_get_add; auto.
      unfold map_entry_spec, first_tok in *. rewrite find_app.
      destruct (str_eqb (tok_key t) key) eqn:Ek.
      * apply str_eqb_eq in Ek. subst key.
        destruct (map_get (tok_key t) s0).
        -- rewrite Hi. reflexivity.
        -- destruct (find (fun t0 => str_eqb (tok_key t0) (tok_key t)) ts).
           ++ destruct Hi as [z0 [Hz0 ->]]. eauto.
           ++ rewrite Hi. simpl. rewrite (proj2 (str_eqb_eq (tok_key t) (tok_key t)) eq_refl). eauto.
      * destruct (map_get key s0); auto.
        destruct (find (fun t0 => str_eqb (tok_key t0) key) ts); auto. simpl. rewrite Ek. auto.
  - intros ts c [l [-> Hr]]. rewrite norm_map. eauto.
  - intros ts c [l [-> Hr]]. simpl. eauto.
  - rewrite (start_cont_map st l0 Hv). exists s0. split; [auto|split; [auto|]].
    intros key. unfold map_entry_spec. simpl. destruct (map_get key s0); auto.
Qed.

(** unique data, duplicate keys refused: accepted only if the keys of all
    elements are new and pairwise different *)
Theorem cont_map_unique_refuse p k o st u rest st' l0 :
  map_kind k ->
  o_uniq o = true -> o_dup_err o = true ->
  c_val st = CMap l0 -> keys_sorted (start_map st l0) ->
  run_uses_gen (step_gen p k o) o st (u :: rest) = Ok st' ->
  NoDup (map fst (start_map st l0) ++ map tok_key (all_tokens o (u :: rest))).
Proof.
  intros Hmk Hu Hd Hv Hs H.
  set (s0 := start_map st l0) in *.
  apply (run_uses_hist (step_gen p k o) o
          (fun ts c => exists l, c = CMap l /\ keys_sorted l /\
             NoDup (map fst s0 ++ map tok_key ts) /\
             forall key, In key (map fst s0 ++ map tok_key ts) -> map_get key l <> None)) in H; auto.
  - destruct H as [l [_ [_ [Hn _]]]]. exact Hn.
  - intros ts t c c' [l [-> [Hk [Hn Hi]]]] Hst. rewrite (step_map_kind p k) in Hst by auto. apply step_map_spec in Hst.
    destruct Hst as [_ [_ [_ [[_ [_ [Hd' _]]]|[Hor [z [Hz ->]]]]]]]; [congruence|].
    assert (Hh : map_has (tok_key t) l = false) by (destruct Hor; [congruence|auto]).
    exists (map_add (tok_key t) z l). split; [auto|split; [apply map_add_sorted; auto|]]. split.
    + rewrite map_app, app_assoc. simpl.
      eapply Permutation_NoDup; [apply Permutation_cons_append|]. constructor; auto.
      intros Hin. apply Hi in Hin. apply map_has_get in Hin. congruence.
    + intros key Hin. rewrite map_get_add; auto.
      destruct (str_eqb (tok_key t) key) eqn:Ek.
      * destruct (map_get (tok_key t) l); discriminate.
      * apply Hi. rewrite map_app, app_assoc in Hin. apply in_app_iff in Hin.
        destruct Hin as [Hin|[Hin|[]]]; auto. apply str_eqb_neq in Ek. contradiction.
  - intros ts c [l [-> Hr]]. rewrite norm_map. eauto.
  - intros ts c [l [-> Hr]]. simpl. eauto.
  - rewrite (start_cont_map st l0 Hv). exists s0. split; [auto|split; [auto|]]. simpl. rewrite app_nil_r. split.
    + clear - Hs. unfold keys_sorted in Hs. induction Hs; constructor; auto.
      intros Hin. rewrite Forall_forall in H. apply H in Hin. eapply slt_irrefl; eauto.
    + intros key Hin. intros Hn. apply map_get_none_notin in Hn. contradiction.
Qed.

(** every accepted element has the form key,value with both parts non-empty
    (and passed the checks as a whole) *)
Theorem cont_map_pair_format p k o st uses st' l0 :
  kv_kind k = true ->
  c_val st = CMap l0 ->
  run_uses_gen (step_gen p k o) o st uses = Ok st' ->
  Forall (fun t => tok_key t <> [] /\ tok_val t <> []) (all_tokens o uses).
Proof.
  intros Hkv Hv H.
  apply (run_uses_inv (step_gen p k o) o (fun c => exists l, c = CMap l)
           (fun t => tok_key t <> [] /\ tok_val t <> [])) in H; [tauto| | | | |rewrite Hv; eauto].
  - intros t c c' [l ->] Hs. rewrite (step_kv_kind p k) in Hs by auto. pose proof Hs as Hs2. apply step_kv_spec in Hs.
    destruct Hs as [_ [H1 [H2 [[_ [_ [_ ->]]]|[_ [z [_ ->]]]]]]]; split; eauto.
  - intros c [l ->]. simpl. eauto.
  - intros c [l ->]. simpl. eauto.
  - intros c [l ->]. simpl. eauto.
Qed.

(* ------------------------------------------------------------------ *)
(** * The accept / refuse table of the definition-time setters *)

Theorem setup_ok_table k o :
  setup_ok k o = true <->
  (o_sort o = true -> sortable k = true) /\
  (o_uniq o = true -> has_iter k = true) /\
  (o_clear o = true -> clearable k = true) /\
  ftab_ok k (o_ftab o) = true /\
  (kv_kind k = true -> o_sep o <> COMMA).
Proof.
  unfold setup_ok. rewrite !andb_true_iff. split.
  - intros [[[[H1 H2] H3] H4] H5]. repeat split; auto.
    + intros E. rewrite E in H1. destruct (sortable k); auto.
    + intros E. rewrite E in H2. destruct (has_iter k); auto.
    + intros E. rewrite E in H3. destruct (clearable k); auto.
    + intros Ek E. rewrite Ek, E in H5. discriminate H5.
  - intros [H1 [H2 [H3 [H4 H5]]]]. repeat split; auto.
    + destruct (o_sort o); simpl; auto.
    + destruct (o_uniq o); simpl; auto.
    + destruct (o_clear o); simpl; auto.
    + destruct (kv_kind k) eqn:Ek; simpl; auto. unfold ceq. destruct (N.eqb_spec (o_sep o) COMMA); simpl; auto.
      exfalso. apply H5; auto.
Qed.

(** the format table: general formats only where addFormat() is accepted,
    position formats only where addFormatPos() is accepted for that position *)
Theorem ftab_ok_table k tab :
  ftab_ok k tab = true <->
  (nth 0 tab [] <> [] -> k <> KTuple) /\
  (forall i, nth (S i) tab [] <> [] -> pos_fmt_allowed k i = true).
Proof.
  unfold ftab_ok. rewrite andb_true_iff, forallb_forall. split.
  - intros [H1 H2]. split.
    + intros Hn ->. destruct (nth 0 tab []); [congruence|discriminate H1].
    + intros i Hn. destruct (Nat.lt_ge_cases (S i) (length tab)) as [Hl|Hl].
      * specialize (H2 i). rewrite in_seq in H2. assert (Hi : 0 <= i < 0 + (length tab - 1)) by lia.
        specialize (H2 Hi). destruct (nth (S i) tab []); [congruence|exact H2].
      * rewrite nth_overflow in Hn by lia. congruence.
  - intros [H1 H2]. split.
    + destruct (nth 0 tab []) eqn:E; auto. simpl. destruct k; auto. exfalso. apply H1; [discriminate|reflexivity].
    + intros i _. destruct (nth (S i) tab []) eqn:E; auto. simpl. apply H2. rewrite E. discriminate.
Qed.

Lemma nth_set {A} (d x : A) i : forall l j, i < length l ->
  nth j (firstn i l ++ x :: skipn (S i) l) d = if Nat.eqb j i then x else nth j l d.
Proof.
  induction i as [|i IH]; intros l j Hl; destruct l as [|y r]; simpl in Hl; try lia.
  - destruct j; reflexivity.
  - destruct j; [reflexivity|]. simpl firstn. simpl skipn. simpl app. simpl nth at 1.
    change (S j =? S i) with (j =? i). rewrite IH by lia. reflexivity.
Qed.

Lemma nth_pad {A} (l : list (list A)) m j : nth j (l ++ repeat [] m) [] = nth j l [].
Proof.
  destruct (Nat.lt_ge_cases j (length l)) as [H|H].
  - apply app_nth1; auto.
  - rewrite app_nth2 by auto. rewrite (nth_overflow l) by auto.
    destruct (Nat.lt_ge_cases (j - length l) m) as [H2|H2].
    + apply nth_repeat.
    + apply nth_overflow. rewrite repeat_length. auto.
Qed.

(** internAddFormat: the slot gets the format appended, all others are unchanged *)
Lemma intern_add_nth tab i f j :
  nth j (intern_add_format tab i f) [] = if Nat.eqb j i then nth i tab [] ++ [f] else nth j tab [].
Proof.
  unfold intern_add_format.
  destruct (Nat.leb_spec (length tab) i) as [H|H].
  - rewrite nth_set by (rewrite app_length, repeat_length; lia). rewrite !nth_pad. reflexivity.
  - rewrite nth_set by auto. reflexivity.
Qed.

(** what a setter accepted stays a table the kind can have *)
Lemma intern_add_ftab_ok k tab i f :
  ftab_ok k tab = true ->
  match i with 0 => gen_fmt_allowed k | S j => pos_fmt_allowed k j end = true ->
  ftab_ok k (intern_add_format tab i f) = true.
Proof.
  intros Ht Ha. apply ftab_ok_table in Ht. destruct Ht as [H1 H2]. apply ftab_ok_table. split.
  - rewrite intern_add_nth. destruct i; simpl.
    + intros _ ->. discriminate Ha.
    + exact H1.
  - intros j. rewrite intern_add_nth. destruct (Nat.eqb_spec (S j) i) as [<-|Hn]; auto.
Qed.

Theorem add_format_pos_ok k tab idx f tab' :
  ftab_ok k tab = true -> add_format_pos k tab idx f = Ok tab' -> ftab_ok k tab' = true.
Proof.
  intros Ht H. unfold add_format_pos in H.
  destruct (Z.ltb_spec idx (-1)); [discriminate H|].
  assert (Hcase : Z.to_nat (idx + 1) = 0 /\ idx = (-1)%Z \/ exists j, Z.to_nat (idx + 1) = S j /\ idx = Z.of_nat j).
  { destruct (Z.eq_dec idx (-1)); [left; subst; auto|right]. exists (Z.to_nat idx). split; lia. }
  destruct k; try discriminate H;
    repeat match type of H with (if ?b then _ else _) = _ => destruct b eqn:?; try discriminate H end;
    inversion H; subst; clear H; apply intern_add_ftab_ok; auto;
    destruct Hcase as [[-> ->]|[j [-> ->]]]; simpl; auto;
    try (apply Nat.ltb_lt; apply Z.leb_gt in Heqb; lia);
    try (apply Z.eqb_neq in Heqb; lia);
    try (apply Nat.ltb_lt; apply Z.leb_gt in Heqb0; lia).
Qed.

Theorem add_format_ok k tab f tab' :
  ftab_ok k tab = true -> add_format k tab f = Ok tab' -> ftab_ok k tab' = true.
Proof.
  intros Ht H. unfold add_format in H. destruct (gen_fmt_allowed k) eqn:E; [|discriminate H].
  inversion H; subst. apply intern_add_ftab_ok; auto.
Qed.

(** who accepts addFormatPos( idx, f), idx >= -1 *)
Theorem add_format_pos_table k tab idx f :
  (-1 <= idx)%Z ->
  (is_ok (add_format_pos k tab idx f) = true <->
   match k with
   | KVec | KVecStr => True
   | KArr n | KStdArr n => (idx < Z.of_nat n)%Z
   | KTuple => (0 <= idx < 3)%Z
   | _ => False
   end).
Proof.
  intros Hi. unfold add_format_pos. destruct (Z.ltb_spec idx (-1)); [lia|].
  destruct k; simpl; try tauto; try (split; [discriminate|contradiction]).
  - destruct (Z.leb_spec (Z.of_nat n) idx); simpl; split; auto; try lia; discriminate.
  - destruct (Z.leb_spec (Z.of_nat n) idx); simpl; split; auto; try lia; discriminate.
  - destruct (Z.eqb_spec idx (-1)); simpl; [split; [discriminate|lia]|].
    destruct (Z.leb_spec 3 idx); simpl; split; auto; try lia; discriminate.
Qed.

Theorem sortable_table k :
  sortable k = true <->
  In k [KVec; KDeque; KList; KFwd; KVecStr] \/ exists n, k = KArr n \/ k = KStdArr n.
Proof.
  split.
  - destruct k; simpl; intros H; try discriminate H; eauto 10.
  - intros [H|[n [->| ->]]]; auto. simpl in H. intuition (subst; auto).
Qed.

Theorem has_iter_table k :
  has_iter k = true <->
  In k [KVec; KDeque; KList; KFwd; KSet; KMSet; KUSet; KUMSet; KVecStr; KMap; KMMap; KUMap; KUMMap] \/
  exists n, k = KArr n \/ k = KStdArr n.
Proof.
  split.
  - destruct k; simpl; intros H; try discriminate H; eauto 20.
  - intros [H|[n [->| ->]]]; auto. simpl in H. intuition (subst; auto).
Qed.

Theorem clearable_table k :
  clearable k = false <-> k = KTuple \/ exists n, k = KArr n \/ k = KStdArr n.
Proof.
  split.
  - destruct k; simpl; intros H; try discriminate H; eauto.
  - intros [->|[n [->| ->]]]; auto.
Qed.
