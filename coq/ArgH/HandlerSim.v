(** C01, extended grammar: the single handler as an instance of the generic
    simulation (GenSim.v), which adds free values (further values of a
    multi-value argument, positional argument) and the "--" word to the
    spellings of Spell.v. *)
From Coq Require Import List NArith ZArith Bool Arith Lia.
Import ListNotations.
Require Import Celma.Common.Res Celma.Common.ListX Celma.Common.Tactics
               Celma.ArgH.Key Celma.ArgH.Table Celma.ArgH.TableProofs Celma.ArgH.Lex Celma.ArgH.Handler
               Celma.ArgH.Spell Celma.ArgH.SpellProofs Celma.ArgH.GenSim.

(** what a free value does: it goes to the argument identified last when that
    one accepts multiple values, else to the positional argument, else the
    command line is refused *)
Definition positional_step (c : cfg) (s : hstate) (ic : bool) (v : str) : res hstate :=
  do r <- lookup c POSKEY;
  match r with
  | Some j => handle_identified c s j POSKEY ic v
  | None => Err EInvalidArgument
  end.

Definition free_step (c : cfg) (s : hstate) (ic : bool) (v : str) : res hstate :=
  match last s with
  | Some i => if a_multi (argdef_of c i) then assign_value c s i ic v else positional_step c s ic v
  | None => positional_step c s ic v
  end.

Definition xuse_step (c : cfg) (ic : bool) (s : hstate) (u : guse nat) : res hstate :=
  match u with
  | GFlag i => use_step c s ic (UFlag i)
  | GVal i v => use_step c s ic (UVal i v)
  | GFree v => free_step c s ic v
  end.

(** the spelling-free semantics of an abstract line with free values *)
Definition xfold (c : cfg) (s : hstate) (ic : bool) (us : list (guse nat)) : res hstate :=
  gfold nat hstate (xuse_step c ic) s us.

(** the legal spellings: those of Spell.v plus a free value as a word of its
    own and, at the end of the line, "--" followed by values *)
Definition xspell (c : cfg) : list (guse nat) -> list str -> Prop :=
  gspell nat (long_name c) (short_name c) (takes_none c) (takes_required c) (takes_optional c).

Definition embed (u : use) : guse nat :=
  match u with UFlag i => GFlag i | UVal i v => GVal i v end.

Lemma iterate_giter c ic fuel : forall s cur,
  iterate fuel c s ic cur = giter hstate (fun s e cur => eval_single c s ic e cur) EInvalidArgument fuel s cur.
Proof.
  induction fuel as [|f IH]; intros s [[e i0]|]; cbn [iterate giter]; try reflexivity.
  destruct (eval_single c s ic e i0) as [[[a s1] i1]|?|?]; cbn [bind]; auto.
  destruct a; auto. destruct (next false i1); cbn [bind]; auto.
Qed.

Lemma free_step_single c s ic v cur :
  (do r <- eval_single c s ic (EVal v) cur;
   let '(a, s1, i1) := r in
   match a with AUnknown => Err EInvalidArgument | AConsumed => Ok (s1, i1) end)
  = do s1 <- free_step c s ic v; Ok (s1, cur).
Proof.
  unfold eval_single, free_step, positional_step, argdef_of.
  assert (Hp : (do r <- (do r <- lookup c POSKEY;
                         match r with
                         | Some j => do s2 <- handle_identified c s j POSKEY ic v; Ok (AConsumed, s2, cur)
                         | None => Ok (AUnknown, s, cur) end);
                let '(a, s1, i1) := r in
                match a with AUnknown => Err EInvalidArgument | AConsumed => Ok (s1, i1) end)
               = do s1 <- (do r <- lookup c POSKEY;
                           match r with
                           | Some j => handle_identified c s j POSKEY ic v
                           | None => Err EInvalidArgument end); Ok (s1, cur)).
  { destruct (lookup c POSKEY) as [[j|]|?|?]; cbn [bind]; auto.
    destruct (handle_identified c s j POSKEY ic v); reflexivity. }
  destruct (last s) as [i|]; [|exact Hp].
  destruct (a_multi (nth i (args c) dummy_def)); [|exact Hp].
  destruct (assign_value c s i ic v); reflexivity.
Qed.

Section One.
Variable c : cfg.
Hypothesis Hfix : fixed_notify c = true.

(** an argument with an optional value: no value follows / a value follows *)
Lemma opt_none_step s ic k i cur :
  lookup c k = Ok (Some i) -> takes_optional c i -> no_value_ahead cur ->
  process_arg c s ic k cur = do s1 <- use_step c s ic (UFlag i); Ok (AConsumed, s1, cur).
Proof.
  intros Hl Ho Hn. unfold process_arg. rewrite Hl. cbn [bind].
  unfold takes_optional, argdef_of in Ho. rewrite Ho. unfold no_value_ahead in Hn.
  unfold use_step, with_last, argdef_of.
  rewrite (handle_identified_key c _ i k (a_key (nth i (args c) dummy_def)) ic [] Hfix).
  destruct (next false cur) as [[[e it']|]|?|?]; try contradiction; cbn [bind]; [|reflexivity].
  destruct e; try contradiction; reflexivity.
Qed.

Lemma opt_val_step s ic k i cur v it2 :
  lookup c k = Ok (Some i) -> takes_optional c i -> next false cur = Ok (Some (EVal v, it2)) ->
  process_arg c s ic k cur = do s1 <- use_step c s ic (UVal i v); Ok (AConsumed, s1, it2).
Proof.
  intros Hl Ho Hn. unfold process_arg. rewrite Hl. cbn [bind].
  unfold takes_optional, argdef_of in Ho. rewrite Ho, Hn. cbn [bind].
  unfold use_step, with_last, argdef_of.
  rewrite (handle_identified_key c _ i k (a_key (nth i (args c) dummy_def)) ic v Hfix). reflexivity.
Qed.

(** evaluation of the words of any legal spelling (extended grammar) = the
    spelling-free semantics *)
Theorem xeval_words_spelled ic us ws s :
  xspell c us ws -> eval_words c s ic ws = xfold c s ic us.
Proof.
  intros Hsp. unfold eval_words, xfold.
  rewrite <- (gspell_eval nat hstate (fun _ => True) (fun s e cur => eval_single c s ic e cur) EInvalidArgument
                (xuse_step c ic) (long_name c) (short_name c) (takes_none c) (takes_required c) (takes_optional c))
    with (ws := ws); auto.
  - destruct (first ws); cbn [bind]; auto. apply iterate_giter.
  - intros i w (Hw & He & _). auto.
  - intros i ch (Hc & _). exact Hc.
  - intros s0 i w cur _ Hl Hn. cbn [xuse_step]. apply lookup_long_step; assumption.
  - intros s0 i ch cur _ Hs Hn. cbn [xuse_step]. apply lookup_short_step; assumption.
  - intros s0 i w cur v it2 _ (Hw & He & k & Hk & Hl) Hr Hnx. cbn [xuse_step].
    unfold eval_single. rewrite Hk. cbn [bind]. apply value_step; auto.
  - intros s0 i ch cur v it2 _ Hs Hr Hnx. cbn [xuse_step].
    unfold eval_single. apply value_step; auto. apply Hs.
  - intros s0 i w cur _ (Hw & He & k & Hk & Hl) Ho Hn. cbn [xuse_step].
    unfold eval_single. rewrite Hk. cbn [bind]. apply opt_none_step; auto.
  - intros s0 i ch cur _ (Hc & Hl) Ho Hn. cbn [xuse_step]. unfold eval_single. apply opt_none_step; auto.
  - intros s0 i w cur v it2 _ (Hw & He & k & Hk & Hl) Ho Hn. cbn [xuse_step].
    unfold eval_single. rewrite Hk. cbn [bind]. apply opt_val_step; auto.
  - intros s0 i ch cur v it2 _ (Hc & Hl) Ho Hn. cbn [xuse_step]. unfold eval_single. apply opt_val_step; auto.
  - intros s0 v cur _. cbn [xuse_step]. apply free_step_single.
Qed.

(** the extension is conservative *)
Lemma spell_xspell us ws : spell c us ws -> xspell c (map embed us) ws.
Proof.
  assert (Hm : forall fs : list (nat * N),
             map embed (map (fun p => UFlag (fst p)) fs) = map (fun p => GFlag (fst p)) fs).
  { intros fs. rewrite map_map. reflexivity. }
  unfold xspell. induction 1; cbn [map embed]; rewrite ?map_app, ?Hm; cbn [map embed].
  - constructor.
  - apply gsp_long_flag; auto.
  - apply gsp_long_eq; auto.
  - apply gsp_long_sep; auto.
  - apply gsp_flags; auto.
  - apply gsp_glued; auto.
  - apply gsp_short_sep; auto.
Qed.

Lemma xfold_embed ic : forall us s, xfold c s ic (map embed us) = fold_uses c s ic us.
Proof.
  unfold xfold. induction us as [|u r IH]; intros s; [reflexivity|].
  cbn [map gfold fold_uses]. destruct u; cbn [embed xuse_step];
    (destruct (use_step c s ic _); cbn [bind]; auto).
Qed.

(** a use leaves "the argument identified last" at the argument used *)
Lemma handle_identified_last s i k ic v s' :
  handle_identified c s i k ic v = Ok s' -> last s' = last s.
Proof.
  unfold handle_identified, assign_value. intros H.
  destruct (pend_identified _ _); cbn [bind] in H; try discriminate.
  destruct (gcs_exec _ _ _); cbn [bind] in H; try discriminate.
  cbn [arts pend gsts last inv] in H.
  destruct (a_depr _); try discriminate.
  destruct (if ic then _ else _); cbn [bind] in H; try discriminate.
  destruct (inv s); try discriminate.
  destruct (assign _ _ _); cbn [bind] in H; try discriminate.
  inversion H; subst. reflexivity.
Qed.

Lemma use_step_last s ic u s' :
  use_step c s ic u = Ok s' -> last s' = Some (match u with UFlag i => i | UVal i _ => i end).
Proof. destruct u; cbn [use_step]; intros H; apply handle_identified_last in H; exact H. Qed.

(** a flag ends the list of values of a multi-value argument: the free value
    behind it is the positional argument's or the line is refused *)
Theorem free_value_after_flag s ic i s1 v :
  a_multi (argdef_of c i) = false ->
  use_step c s ic (UFlag i) = Ok s1 ->
  free_step c s1 ic v = positional_step c s1 ic v.
Proof.
  intros Hm Hu. unfold free_step. rewrite (use_step_last _ _ _ _ Hu), Hm. reflexivity.
Qed.

(** a free value behind a multi-value argument is one more value of it *)
Theorem free_value_after_multi s ic i v0 s1 v :
  a_multi (argdef_of c i) = true ->
  use_step c s ic (UVal i v0) = Ok s1 ->
  free_step c s1 ic v = assign_value c s1 i ic v.
Proof.
  intros Hm Hu. unfold free_step. rewrite (use_step_last _ _ _ _ Hu), Hm. reflexivity.
Qed.

End One.

(** all legal spellings (extended grammar) of an abstract line are evaluated
    alike: same outcome, same destination values, same error *)
Theorem xspelling_independent c inits us ws1 ws2 :
  fixed_notify c = true -> xspell c us ws1 -> xspell c us ws2 ->
  eval_arguments c inits [] None ws1 = eval_arguments c inits [] None ws2.
Proof.
  intros Hf H1 H2. unfold eval_arguments. cbn [eval_lines bind].
  rewrite (xeval_words_spelled c Hf false us ws1 _ H1), (xeval_words_spelled c Hf false us ws2 _ H2). reflexivity.
Qed.
