(** C04 for the argument that names an argument file: evaluation of ANY words
    with ANY set of named files - files that name themselves or each other
    included - never reads outside a word, never runs out of loop fuel and never
    nests without end: a normal return or an exception. *)
From Coq Require Import List NArith ZArith Bool Arith Lia.
Import ListNotations.
Require Import Celma.Common.Res Celma.Common.ListX Celma.Common.Tactics
               Celma.ArgH.Key Celma.ArgH.Table Celma.ArgH.Lex Celma.ArgH.Handler Celma.ArgH.Spell
               Celma.ArgH.Split Celma.ArgH.Sources Celma.ArgH.SafeProofs Celma.ArgH.ArgFile.

Section Safe.
Variable c : cfg.
Variable af : afile.
Variable sub : hstate -> str -> res hstate.
Hypothesis sub_nofault : forall s name, nofault (sub s name).

Lemma af_before_nofault s i ic : nofault (af_before c s i ic).
Proof.
  unfold af_before.
  apply bind_nofault; [apply pend_identified_nofault|intros p1 _].
  apply bind_nofault; [apply gcs_exec_nofault|intros g1 _].
  destruct (a_depr _); cbn [nofault]; auto.
  apply bind_nofault; [destruct ic; [cbn; auto|apply card_got_nofault]|intros n1 _].
  destruct (inv s); cbn; auto.
Qed.

Lemma af_use_nofault s ic name : nofault (af_use c af sub s ic name).
Proof.
  unfold af_use. apply bind_nofault; [apply af_before_nofault|intros s2 _].
  apply bind_nofault; [apply sub_nofault|intros; cbn; auto].
Qed.

Lemma step_key_ok s ic k e cur :
  it_ok cur -> single_ok cur (eval_single c s ic e cur) -> single_ok cur (step_key c af sub s ic k e cur).
Proof.
  intros Hok He. unfold step_key.
  pose proof (lookup_nofault c k) as Hl. destruct (lookup c k) as [r|?|?]; cbn [bind single_ok] in *; auto.
  destruct (is_af af r); [|exact He].
  pose proof (next_ok true cur Hok) as Hn.
  destruct (next true cur) as [[[e2 i2]|]|?|?]; cbn [bind step_ok single_ok] in *; auto.
  destruct e2; cbn [single_ok]; auto.
  pose proof (af_use_nofault s ic v) as Hu.
  destruct (af_use c af sub s ic v); cbn [bind single_ok nofault] in *; auto.
  destruct Hn. split; auto. lia.
Qed.

Lemma step_af_ok s ic e cur : it_ok cur -> single_ok cur (step_af c af sub s ic e cur).
Proof.
  intros Hok. pose proof (eval_single_ok c s ic e cur Hok) as He.
  destruct e as [ch|w|v|ch]; cbn [step_af]; auto.
  - apply step_key_ok; assumption.
  - pose proof (parse_key_nofault w) as Hp. destruct (parse_key w) as [k|?|?] eqn:Ek; cbn [bind single_ok] in *; auto.
    apply step_key_ok; assumption.
Qed.

Lemma loop_af_nofault ic : forall fuel s e i0,
  it_ok i0 -> msize i0 < fuel -> nofault (loop_af c af sub fuel s ic (Some (e, i0))).
Proof.
  induction fuel as [|f IH]; intros s e i0 Hok Hm; [lia|].
  cbn [loop_af]. pose proof (step_af_ok s ic e i0 Hok) as Hs.
  destruct (step_af c af sub s ic e i0) as [[[a s1] i1]|?|?]; cbn [bind single_ok nofault] in *; auto.
  destruct Hs as [Hok1 Hm1]. destruct a; cbn [nofault]; auto.
  pose proof (next_ok false i1 Hok1) as Hn.
  destruct (next false i1) as [[[e2 i2]|]|?|?]; cbn [bind step_ok nofault] in *; auto.
  - destruct Hn. apply IH; auto. lia.
  - destruct f; cbn; auto.
Qed.

Lemma words_af_nofault s ic ws : nofault (words_af c af sub s ic ws).
Proof.
  unfold words_af. pose proof (first_ok ws) as Hf.
  destruct (first ws) as [[[e i0]|]|?|?]; cbn [bind step_ok nofault] in *; auto.
  destruct Hf. apply loop_af_nofault; auto.
Qed.

Lemma lines_af_nofault : forall lines s, nofault (lines_af c af sub s lines).
Proof.
  induction lines as [|l r IH]; intros s; cbn; auto.
  apply bind_nofault; [apply words_af_nofault|intros; apply IH].
Qed.

End Safe.

(** whatever the files contain - at every depth *)
Lemma read_file_nofault c af : forall depth s name, nofault (read_file c af depth s name).
Proof.
  induction depth as [|d IH]; intros s name; cbn [read_file]; [exact I|].
  destruct (af_content (af_files af) name); [|exact I].
  apply lines_af_nofault. exact IH.
Qed.

Theorem eval_arguments_af_nofault c af inits fl env argv : nofault (eval_arguments_af c af inits fl env argv).
Proof.
  unfold eval_arguments_af.
  apply bind_nofault; [apply lines_af_nofault; apply read_file_nofault|intros s1 _].
  apply bind_nofault; [destruct env; [apply words_af_nofault; apply read_file_nofault|cbn; auto]|intros s2 _].
  apply bind_nofault; [apply words_af_nofault; apply read_file_nofault|intros s3 _].
  apply bind_nofault; [apply final_checks_nofault|intros; cbn; auto].
Qed.

Theorem eval_sources_af_nofault c af inits file env argv : nofault (eval_sources_af c af inits file env argv).
Proof. unfold eval_sources_af. apply eval_arguments_af_nofault. Qed.

(** a file that names itself is refused with an exception *)
Definition self_cfg : cfg :=
  {| args := [{| a_key := {| kc := 0%N; kw := [97; 114; 103; 45; 102; 105; 108; 101]%N |}; a_kind := DStr;
                 a_vmode := VMRequired; a_mand := false; a_multi := false; a_sep := 44%N; a_clear := false;
                 a_sort := false; a_uniq := false; a_uniq_err := false; a_checks := []; a_fmts := [];
                 a_card := CardMax 1; a_excl := []; a_req := []; a_depr := false; a_mix := false |}];
     gcons := []; abbr := true; fixed_notify := true |}.
Definition self_af : afile :=
  {| af_idx := 0;
     af_files := [([102]%N, [45; 45; 97; 114; 103; 45; 102; 105; 108; 101; 32; 102; 10]%N)] |}.   (* f: "--arg-file f" *)

Lemma self_including_file_refused :
  eval_sources_af self_cfg self_af [VStr []] None None [[45; 45; 97; 114; 103; 45; 102; 105; 108; 101]; [102]]%N
  = Err ERuntime.
Proof. vm_compute. reflexivity. Qed.
