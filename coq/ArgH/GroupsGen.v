(** Groups::evalArguments once more, generic in what a member is: the member
    handlers of a group may own sub-group arguments (ArgH/SubGroup.v), and the
    loop of Groups::evalArguments does not care - it calls
    Handler::evalSingleArgument, resets mpLastArg of the other members and runs
    the end-of-line checks of every member.  [geval] instantiated with plain
    handlers is [eval_group false false] of ArgH/Groups.v
    (GroupsGenProofs.geval_plain); instantiated with [step_sg] it is the group
    whose members own sub-group arguments.  No proofs here. *)
From Coq Require Import List NArith ZArith Bool Arith.
Import ListNotations.
Require Import Celma.Common.Res Celma.ArgH.Key Celma.ArgH.Table Celma.ArgH.Lex Celma.ArgH.Handler
               Celma.ArgH.Groups Celma.ArgH.SubGroup.

Section GenGroup.
Context {C St : Type}.
Variable step : C -> St -> elem -> it -> res (ares * St * it).    (* Handler::evalSingleArgument of a member *)
Variable forget : St -> St.                                         (* mpLastArg = nullptr *)
Variable haslast : St -> bool.
Variable final : C -> St -> res unit.                              (* the member's end-of-line checks *)

Fixpoint goffer_sel (sel : St -> bool) (cs : list C) (ss : list St) (e : elem) (cur : it)
  : res (ares * list St * it) :=
  match cs, ss with
  | c :: cr, s :: sr =>
      if sel s then
        do r <- step c s e cur;
        let '(a, s1, i1) := r in
        match a with
        | AConsumed => Ok (AConsumed, s1 :: (if is_value e then sr else map forget sr), i1)
        | AUnknown =>
            do r2 <- goffer_sel sel cr sr e cur;
            let '(a2, sr', i2) := r2 in
            Ok (a2, (match a2 with
                     | AConsumed => if is_value e then s1 else forget s1
                     | AUnknown => s1 end) :: sr', i2)
        end
      else
        do r2 <- goffer_sel sel cr sr e cur;
        let '(a2, sr', i2) := r2 in
        Ok (a2, (match a2 with
                 | AConsumed => if is_value e then s else forget s
                 | AUnknown => s end) :: sr', i2)
  | _, _ => Ok (AUnknown, ss, cur)
  end.

Definition goffer (cs : list C) (ss : list St) (e : elem) (cur : it) : res (ares * list St * it) :=
  if is_value e then
    do r <- goffer_sel haslast cs ss e cur;
    let '(a, ss1, i1) := r in
    match a with
    | AConsumed => Ok (a, ss1, i1)
    | AUnknown => goffer_sel (fun s => negb (haslast s)) cs ss1 e cur
    end
  else goffer_sel (fun _ => true) cs ss e cur.

Fixpoint giterate (fuel : nat) (cs : list C) (ss : list St) (cur : option (elem * it)) : res (list St) :=
  match cur with
  | None => Ok ss
  | Some (e, i0) =>
      match fuel with
      | O => Fault Fuel
      | S f =>
          do r <- goffer cs ss e i0;
          let '(a, ss1, i1) := r in
          match a with
          | AUnknown => Err ERuntime
          | AConsumed => do nx <- next false i1; giterate f cs ss1 nx
          end
      end
  end.

Fixpoint gfinal (cs : list C) (ss : list St) : res unit :=
  match cs, ss with
  | c :: cr, s :: sr => do _ <- final c s; gfinal cr sr
  | _, _ => Ok tt
  end.

Definition geval (cs : list C) (ss : list St) (argv : list str) : res (list St) :=
  match cs with
  | [] => Err ERuntime
  | _ =>
      do f <- first argv;
      do ss1 <- giterate (S (words_size argv)) cs ss f;
      do _ <- gfinal cs ss1;
      Ok ss1
  end.

End GenGroup.

(** a group whose members own sub-group arguments *)
Definition forget_sg (st : sgstate) : sgstate :=
  {| sm := forget_last (sm st); ss := ss st; scnt := scnt st; scal := scal st |}.

Definition eval_group_sg (cs : list sgcfg) (inits : list (list value * list (list value))) (argv : list str)
  : res (list sgstate) :=
  geval (fun c st => step_sg false c st false) forget_sg (fun st => has_last (sm st)) final_checks_sg
        cs (map (fun p => init_sg (fst p) (fst (snd p)) (snd (snd p))) (combine cs inits)) argv.

(** Handler::crossCheckArguments after the repairs: over the whole group a key - of a plain argument or of a
    sub-group argument of a member - is taken once.  (The arguments inside a sub-group handler are not part of the
    group.) *)
Definition grp_keys_ok (cs : list sgcfg) : bool :=
  keys_distinct (flat_map (fun c => map a_key (args (sg_main c)) ++ map fst (sg_subs c)) cs).
