(** The argument handler: mirror of celma::prog_args::Handler
    (src/library/prog_args/handler.cpp: evalArguments, iterateArguments,
    evalSingleArgument, processArg, handleIdentifiedArg, the final checks),
    TypedArgBase::assignValue, the assign() of the destination kinds below,
    checks, formats, cardinalities, the requires/excludes container and the
    all-of / any-of / one-of handler constraints.  No proofs here.

    Modelled destination kinds: bool flag, int, std::string, std::optional<int>,
    std::vector<int>, std::vector<std::string>.  Not modelled (outside the
    theorems, covered by the harness only): sub-groups, command mode, bracket
    handlers, inversion-allowing arguments, value constraints differ/disjoint,
    the other container kinds (see ArgH/Cont.v for C06). *)
From Coq Require Import List NArith ZArith Bool Arith.
Import ListNotations.
Require Import Celma.Common.Res Celma.ArgH.Key Celma.ArgH.Table Celma.ArgH.Lex.

Inductive vmode := VMNone | VMOptional | VMRequired.
Inductive dkind := DBool | DInt | DStr | DOptInt | DVecInt | DVecStr | DLevel.

Inductive check :=
| CLower (z : Z) | CUpper (z : Z) | CRange (lo hi : Z)
| CValues (l : list str) | CMinLen (n : nat) | CMaxLen (n : nat)
| CIValues (l : list str).      (* values( list, ignore case) *)
Inductive fmt := FUpper | FLower.
Inductive card := CardNone | CardMax (n : Z) | CardExact (n : Z) | CardRange (lo hi : Z).

Record argdef := {
  a_key : key; a_kind : dkind; a_vmode : vmode; a_mand : bool; a_multi : bool;
  a_sep : N; a_clear : bool; a_sort : bool; a_uniq : bool; a_uniq_err : bool;
  a_checks : list check; a_fmts : list fmt; a_card : card;
  a_excl : list key; a_req : list key; a_depr : bool;
  a_mix : bool       (* LevelCounter: setAllowMixIncSet *)
}.

Inductive gcon :=
| GCAll (ks : list key) | GCAny (ks : list key) | GCOne (ks : list key)
| GCDiffer (ixs : list nat)        (* value constraint differ: indices of the listed arguments *)
| GCDisjoint (i j : nat).         (* value constraint disjoint *)

(** [fixed_notify = true] : handleIdentifiedArg notifies the constraint
    container with the argument's own key (after "fix: ..."); [false] : with the
    key as spelled on the command line (pinned tree) *)
Record cfg := { args : list argdef; gcons : list gcon; abbr : bool; fixed_notify : bool }.

Inductive value :=
| VBool (b : bool) | VInt (z : Z) | VStr (s : str) | VOpt (o : option Z)
| VInts (l : list Z) | VStrs (l : list str)
| VLevel (z : Z) (set : bool).     (* LevelCounter value and mHasValueSet *)

(** run-time part of one argument *)
Record art := { hasval : bool; cnt : Z; clearp : bool; val : value; v2set : bool }.

Inductive ckind := KRequired | KExcluded.
Inductive gst := GSAll (remaining : list key) | GSUsed (used : bool).

Record hstate := {
  arts : list art;
  pend : list (ckind * key);     (* ConstraintContainer::mConstraints *)
  gsts : list gst;               (* run-time part of the handler constraints *)
  last : option nat;             (* mpLastArg *)
  inv : bool                     (* mInverted *)
}.

(* ------------------------------------------------------------------ *)
(** * Conversions, checks, formats *)

Definition is_digit (c : N) : bool := N.leb 48 c && N.leb c 57.

Fixpoint digits_val (acc : Z) (s : str) : option Z :=
  match s with
  | [] => Some acc
  | c :: r => if is_digit c then digits_val (acc * 10 + Z.of_N (c - 48)) r else None
  end.

Definition INT_MIN : Z := (-2147483648)%Z.
Definition INT_MAX : Z := 2147483647%Z.

(** boost::lexical_cast<int>( std::string): optional sign, at least one digit,
    nothing else, value inside the range of int *)
Definition parse_int (s : str) : option Z :=
  let body (neg : bool) (r : str) : option Z :=
    match r with
    | [] => None
    | _ => match digits_val 0 r with
           | Some v => let z := if neg then Z.opp v else v in
                       if Z.leb INT_MIN z && Z.leb z INT_MAX then Some z else None
           | None => None
           end
    end in
  match s with
  | [] => None
  | c :: r => if ceq c 45 then body true r else if ceq c 43 then body false r else body false s
  end.

Definition lex_int (s : str) : res Z :=
  match parse_int s with Some z => Ok z | None => Err EBadCast end.

Definition to_upper (c : N) : N := if N.leb 97 c && N.leb c 122 then (c - 32)%N else c.
Definition to_lower (c : N) : N := if N.leb 65 c && N.leb c 90 then (c + 32)%N else c.

Definition apply_fmt (f : fmt) (s : str) : str :=
  match f with FUpper => map to_upper s | FLower => map to_lower s end.

Definition apply_fmts (fs : list fmt) (s : str) : str := fold_left (fun acc f => apply_fmt f acc) fs s.

Fixpoint str_in (s : str) (l : list str) : bool :=
  match l with [] => false | x :: r => str_eqb x s || str_in s r end.

Definition run_check (c : check) (s : str) : res unit :=
  match c with
  | CLower z => do v <- lex_int s; if Z.ltb v z then Err EUnderflow else Ok tt
  | CUpper z => do v <- lex_int s; if Z.leb z v then Err EOverflow else Ok tt
  | CRange lo hi => do v <- lex_int s;
                    if Z.ltb v lo then Err EOutOfRange else if Z.leb hi v then Err EOutOfRange else Ok tt
  | CValues l => if str_in s l then Ok tt else Err EOutOfRange
  | CMinLen n => if Nat.ltb (length s) n then Err EUnderflow else Ok tt
  | CMaxLen n => if Nat.ltb n (length s) then Err EOverflow else Ok tt
  | CIValues l => if str_in (map to_lower s) (map (map to_lower) l) then Ok tt else Err EOutOfRange
  end.

(** the checks applied to std::to_string( n) (LevelCounter increment): for the
    numeric checks this is the comparison itself; text checks on a level
    counter are outside the model (the driver refuses them) *)
Definition run_check_num (c : check) (v : Z) : res unit :=
  match c with
  | CLower z => if Z.ltb v z then Err EUnderflow else Ok tt
  | CUpper z => if Z.leb z v then Err EOverflow else Ok tt
  | CRange lo hi => if Z.ltb v lo then Err EOutOfRange else if Z.leb hi v then Err EOutOfRange else Ok tt
  | _ => Ok tt
  end.

Fixpoint run_checks_num (cs : list check) (v : Z) : res unit :=
  match cs with [] => Ok tt | c :: r => do _ <- run_check_num c v; run_checks_num r v end.

Fixpoint run_checks (cs : list check) (s : str) : res unit :=
  match cs with [] => Ok tt | c :: r => do _ <- run_check c s; run_checks r s end.

(** ICardinality::gotValue *)
Definition card_got (c : card) (n : Z) : res Z :=
  match c with
  | CardNone => Ok n
  | CardMax m => if Z.eqb m (-1) then Ok n else if Z.ltb m (n + 1) then Err ERuntime else Ok (n + 1)%Z
  | CardExact m => if Z.ltb m (n + 1) then Err ERuntime else Ok (n + 1)%Z
  (* after "fix: CardinalityRange counts the values also when the maximum is unlimited": the pinned code did not
     count for hi = -1, so the minimum was never enforced *)
  | CardRange _ hi => if Z.eqb hi (-1) then Ok (n + 1)%Z else if Z.ltb hi (n + 1) then Err ERuntime else Ok (n + 1)%Z
  end.

(** CardinalityRange::gotValue of the pinned tree: with the maximum -1 ("unlimited") the values were not counted *)
Definition card_got_pinned (c : card) (n : Z) : res Z :=
  match c with
  | CardRange _ hi => if Z.eqb hi (-1) then Ok n else if Z.ltb hi (n + 1) then Err ERuntime else Ok (n + 1)%Z
  | _ => card_got c n
  end.

(** ICardinality::check (end of the command line) *)
Definition card_end (c : card) (n : Z) : res unit :=
  match c with
  | CardNone | CardMax _ => Ok tt
  | CardExact m => if Z.ltb 0 n && negb (Z.eqb n m) then Err ERuntime else Ok tt
  | CardRange lo _ => if negb (Z.eqb n 0) && Z.ltb n lo then Err ERuntime else Ok tt
  end.

(* ------------------------------------------------------------------ *)
(** * Tokenizer (boost::char_separator, empty tokens dropped) *)

Fixpoint split_sep (sep : N) (s : str) (cur : str) : list str :=
  match s with
  | [] => match cur with [] => [] | _ => [rev cur] end
  | c :: r => if ceq c sep
              then match cur with [] => split_sep sep r [] | _ => rev cur :: split_sep sep r [] end
              else split_sep sep r (c :: cur)
  end.

Definition tokens (sep : N) (s : str) : list str := split_sep sep s [].

(* ------------------------------------------------------------------ *)
(** * assign() of the destination kinds *)

Fixpoint str_ltb (a b : str) : bool :=
  match a, b with
  | _, [] => false
  | [], _ :: _ => true
  | x :: a', y :: b' => N.ltb x y || (ceq x y && str_ltb a' b')
  end.

Fixpoint insert_sorted {A} (lt : A -> A -> bool) (x : A) (l : list A) : list A :=
  match l with
  | [] => [x]
  | y :: r => if lt x y then x :: y :: r else y :: insert_sorted lt x r
  end.

(** std::sort on the whole container, observed result = sorted permutation *)
Definition sort_by {A} (lt : A -> A -> bool) (l : list A) : list A :=
  fold_left (fun acc x => insert_sorted lt x acc) l [].

Definition z_in (z : Z) (l : list Z) : bool := existsb (Z.eqb z) l.

Definition upd {A} (l : list A) (i : nat) (x : A) : list A :=
  if i <? length l then firstn i l ++ x :: skipn (S i) l else l.

(** the loop of TypedArg< ContainerAdapter<T>>::assign over the tokens;
    [first] = this is the first token of the value (no cardinality step) *)
Fixpoint assign_tokens_int (d : argdef) (toks : list str) (first : bool) (cnt0 : Z) (acc : list Z)
  : res (Z * list Z) :=
  match toks with
  | [] => Ok (cnt0, acc)
  | t :: r =>
      do c1 <- (if first then Ok cnt0 else card_got (a_card d) cnt0);
      do _ <- run_checks (a_checks d) t;
      do v <- lex_int (apply_fmts (a_fmts d) t);
      if a_uniq d && z_in v acc then
        if a_uniq_err d then Err ERuntime else assign_tokens_int d r false c1 acc
      else assign_tokens_int d r false c1 (acc ++ [v])
  end.

Fixpoint assign_tokens_str (d : argdef) (toks : list str) (first : bool) (cnt0 : Z) (acc : list str)
  : res (Z * list str) :=
  match toks with
  | [] => Ok (cnt0, acc)
  | t :: r =>
      do c1 <- (if first then Ok cnt0 else card_got (a_card d) cnt0);
      do _ <- run_checks (a_checks d) t;
      let v := apply_fmts (a_fmts d) t in
      if a_uniq d && str_in v acc then
        if a_uniq_err d then Err ERuntime else assign_tokens_str d r false c1 acc
      else assign_tokens_str d r false c1 (acc ++ [v])
  end.

(** assign( value, inverted) *)
Definition assign (d : argdef) (a : art) (value : str) : res art :=
  match a_kind d with
  | DBool => Ok {| hasval := true; cnt := cnt a; clearp := clearp a; val := VBool (v2set a); v2set := v2set a |}
  | DInt =>
      do _ <- run_checks (a_checks d) value;
      do v <- lex_int (apply_fmts (a_fmts d) value);
      Ok {| hasval := true; cnt := cnt a; clearp := clearp a; val := VInt v; v2set := v2set a |}
  | DStr =>
      do _ <- run_checks (a_checks d) value;
      Ok {| hasval := true; cnt := cnt a; clearp := clearp a; val := VStr (apply_fmts (a_fmts d) value);
            v2set := v2set a |}
  | DOptInt =>
      do _ <- run_checks (a_checks d) value;
      do v <- lex_int (apply_fmts (a_fmts d) value);
      Ok {| hasval := true; cnt := cnt a; clearp := clearp a; val := VOpt (Some v); v2set := v2set a |}
  | DVecInt =>
      let cur := match val a with VInts l => if clearp a then [] else l | _ => [] end in
      do r <- assign_tokens_int d (tokens (a_sep d) value) true (cnt a) cur;
      let '(c1, l) := r in
      let l' := if a_sort d then sort_by Z.ltb l else l in
      Ok {| hasval := negb (match l' with [] => true | _ => false end); cnt := c1; clearp := false;
            val := VInts l'; v2set := v2set a |}
  | DLevel =>
      let '(z, set) := match val a with VLevel z b => (z, b) | _ => (0%Z, false) end in
      match value with
      | [] =>
          if set && negb (a_mix d) then Err ERuntime
          else
            do _ <- run_checks_num (a_checks d) (z + 1);
            Ok {| hasval := true; cnt := cnt a; clearp := clearp a; val := VLevel (z + 1) set; v2set := v2set a |}
      | _ =>
          if negb (a_mix d) && hasval a then Err ERuntime
          else
            do _ <- run_checks (a_checks d) value;
            do v <- lex_int (apply_fmts (a_fmts d) value);
            Ok {| hasval := true; cnt := cnt a; clearp := clearp a; val := VLevel v true; v2set := v2set a |}
      end
  | DVecStr =>
      let cur := match val a with VStrs l => if clearp a then [] else l | _ => [] end in
      do r <- assign_tokens_str d (tokens (a_sep d) value) true (cnt a) cur;
      let '(c1, l) := r in
      let l' := if a_sort d then sort_by str_ltb l else l in
      Ok {| hasval := negb (match l' with [] => true | _ => false end); cnt := c1; clearp := false;
            val := VStrs l'; v2set := v2set a |}
  end.

(* ------------------------------------------------------------------ *)
(** * Constraint container (requires / excludes) *)

Definition ckind_eqb (a b : ckind) : bool :=
  match a, b with KRequired, KRequired | KExcluded, KExcluded => true | _, _ => false end.

(** ConstraintContainer::addConstraint for one token *)
Definition pend_add (p : list (ckind * key)) (k : ckind) (search : key) : list (ckind * key) :=
  match find (fun e => key_eq (snd e) search) p with
  | Some (k0, _) => if ckind_eqb k0 k then p else p ++ [(k, search)]
  | None => p ++ [(k, search)]
  end.

(** ConstraintContainer::argumentIdentified *)
Fixpoint pend_identified (p : list (ckind * key)) (k : key) : res (list (ckind * key)) :=
  match p with
  | [] => Ok []
  | (ck, ek) :: r =>
      if key_eq ek k then
        match ck with
        | KRequired => pend_identified r k
        | KExcluded => Err ERuntime
        end
      else do r' <- pend_identified r k; Ok ((ck, ek) :: r')
  end.

(** ConstraintContainer::checkRequired *)
Definition pend_check_required (p : list (ckind * key)) : res unit :=
  if existsb (fun e => ckind_eqb (fst e) KRequired) p then Err ERuntime else Ok tt.

(** TypedArgBase::activateConstraints *)
Definition activate (d : argdef) (p : list (ckind * key)) : list (ckind * key) :=
  let p1 := fold_left (fun acc k => pend_add acc KExcluded k) (a_excl d) p in
  fold_left (fun acc k => pend_add acc KRequired k) (a_req d) p1.

(* ------------------------------------------------------------------ *)
(** * Handler constraints (all_of / any_of / one_of) *)

Definition in_keys (ks : list key) (k : key) : bool := existsb (fun x => key_eq x k) ks.

Fixpoint remove_first_key (ks : list key) (k : key) : list key :=
  match ks with
  | [] => []
  | x :: r => if key_eq x k then r else x :: remove_first_key r k
  end.

Definition gc_init (g : gcon) : gst :=
  match g with GCAll ks => GSAll ks | _ => GSUsed false end.

(** IHandlerConstraint::executeConstraint( key of the identified argument) *)
Definition gc_exec (g : gcon) (s : gst) (k : key) : res gst :=
  match g, s with
  | GCAll ks, GSAll rem => if in_keys ks k then Ok (GSAll (remove_first_key rem k)) else Ok s
  | GCAny ks, GSUsed u | GCOne ks, GSUsed u =>
      if in_keys ks k then (if u then Err ERuntime else Ok (GSUsed true)) else Ok s
  | _, _ => Ok s
  end.

Fixpoint gcs_exec (gs : list gcon) (ss : list gst) (k : key) : res (list gst) :=
  match gs, ss with
  | g :: gr, s :: sr => do s' <- gc_exec g s k; do r <- gcs_exec gr sr k; Ok (s' :: r)
  | _, _ => Ok []
  end.

(** TypedArg<T>::compareValue(...) == 0 resp. ContainerAdapter::hasIntersection *)
Definition val_eqb (a b : value) : bool :=
  match a, b with
  | VInt x, VInt y => Z.eqb x y
  | VStr x, VStr y => str_eqb x y
  | _, _ => false
  end.

Definition val_intersect (a b : value) : bool :=
  match a, b with
  | VInts l1, VInts l2 => existsb (fun x => z_in x l2) l1
  | VStrs l1, VStrs l2 => existsb (fun x => str_in x l2) l1
  | _, _ => false
  end.

(** ValueConstraintDiffer::checkEndCondition: two different listed arguments
    that both hold a value may not hold the same value *)
Definition differ_clash (as_ : list art) (ixs : list nat) : bool :=
  existsb (fun i =>
    let a1 := nth i as_ {| hasval := false; cnt := 0; clearp := false; val := VBool false; v2set := false |} in
    hasval a1 &&
    existsb (fun j =>
      let a2 := nth j as_ {| hasval := false; cnt := 0; clearp := false; val := VBool false; v2set := false |} in
      negb (Nat.eqb i j) && hasval a2 && val_eqb (val a1) (val a2)) ixs) ixs.

(** checkEndCondition *)
Definition gc_end (as_ : list art) (g : gcon) (s : gst) : res unit :=
  match g, s with
  | GCAll _, GSAll rem => match rem with [] => Ok tt | _ => Err ERuntime end
  | GCOne _, GSUsed u => if u then Ok tt else Err ERuntime
  | GCDiffer ixs, _ => if differ_clash as_ ixs then Err ERuntime else Ok tt
  | GCDisjoint i j, _ =>
      let d := {| hasval := false; cnt := 0; clearp := false; val := VBool false; v2set := false |} in
      let a1 := nth i as_ d in let a2 := nth j as_ d in
      if hasval a1 && hasval a2 && val_intersect (val a1) (val a2) then Err ERuntime else Ok tt
  | _, _ => Ok tt
  end.

Fixpoint gcs_end (as_ : list art) (gs : list gcon) (ss : list gst) : res unit :=
  match gs, ss with
  | g :: gr, s :: sr => do _ <- gc_end as_ g s; gcs_end as_ gr sr
  | _, _ => Ok tt
  end.

(* ------------------------------------------------------------------ *)
(** * The handler *)

Definition POSKEY : key := {| kc := 0%N; kw := [] |}.

Fixpoint index_table (ds : list argdef) (i : nat) : @table nat :=
  match ds with [] => [] | d :: r => (a_key d, i) :: index_table r (S i) end.

(** ArgumentContainer::findArg on mArguments *)
Definition lookup (c : cfg) (k : key) : res (option nat) := find_arg (abbr c) (index_table (args c) 0) k.

Definition dummy_def : argdef :=
  {| a_key := POSKEY; a_kind := DBool; a_vmode := VMNone; a_mand := false; a_multi := false; a_sep := 44%N;
     a_clear := false; a_sort := false; a_uniq := false; a_uniq_err := false; a_checks := []; a_fmts := [];
     a_card := CardNone; a_excl := []; a_req := []; a_depr := false; a_mix := false |}.
Definition dummy_art : art := {| hasval := false; cnt := 0; clearp := false; val := VBool false; v2set := false |}.

(** TypedArgBase::assignValue (without the constraint activation, which needs
    the container) *)
Definition assign_value (c : cfg) (s : hstate) (i : nat) (ignore_card : bool) (value : str) : res hstate :=
  let d := nth i (args c) dummy_def in
  let a := nth i (arts s) dummy_art in
  if a_depr d then Err ERuntime else
  do n1 <- (if ignore_card then Ok (cnt a) else card_got (a_card d) (cnt a));
  if inv s then Err ERuntime else
  do a' <- assign d {| hasval := hasval a; cnt := n1; clearp := clearp a; val := val a; v2set := v2set a |} value;
  Ok {| arts := upd (arts s) i a'; pend := activate d (pend s); gsts := gsts s; last := last s; inv := inv s |}.

(** Handler::handleIdentifiedArg( hdl, key, value); [ckey] = the key as
    spelled on the command line *)
Definition handle_identified (c : cfg) (s : hstate) (i : nat) (ckey : key) (ignore_card : bool) (value : str)
  : res hstate :=
  let d := nth i (args c) dummy_def in
  do p1 <- pend_identified (pend s) (if fixed_notify c then a_key d else ckey);
  do g1 <- gcs_exec (gcons c) (gsts s) (a_key d);
  do s2 <- assign_value c {| arts := arts s; pend := p1; gsts := g1; last := last s; inv := inv s |}
                        i ignore_card value;
  Ok {| arts := arts s2; pend := pend s2; gsts := gsts s2; last := last s2; inv := false |}.

Inductive ares := AConsumed | AUnknown.

(** Handler::processArg (no sub-groups, no command mode); returns the
    iterator to continue from (the element just handled is the current one) *)
Definition process_arg (c : cfg) (s : hstate) (ignore_card : bool) (k : key) (cur : it)
  : res (ares * hstate * it) :=
  do r <- lookup c k;
  let s1 := {| arts := arts s; pend := pend s; gsts := gsts s; last := r; inv := inv s |} in
  match r with
  | None => Ok (AUnknown, s1, cur)
  | Some i =>
      let d := nth i (args c) dummy_def in
      match a_vmode d with
      | VMNone => do s2 <- handle_identified c s1 i k ignore_card []; Ok (AConsumed, s2, cur)
      | vm =>
          do nx <- next (match vm with VMRequired => true | _ => false end) cur;
          match nx with
          | Some (EVal v, it2) =>
              do s2 <- handle_identified c s1 i k ignore_card v; Ok (AConsumed, s2, it2)
          | _ =>
              match vm with
              | VMOptional => do s2 <- handle_identified c s1 i k ignore_card []; Ok (AConsumed, s2, cur)
              | _ => Err EArgument
              end
          end
      end
  end.

(** Handler::evalSingleArgument *)
Definition eval_single (c : cfg) (s : hstate) (ignore_card : bool) (e : elem) (cur : it)
  : res (ares * hstate * it) :=
  match e with
  | EVal v =>
      match last s with
      | Some i =>
          if a_multi (nth i (args c) dummy_def) then
            do s2 <- assign_value c s i ignore_card v; Ok (AConsumed, s2, cur)
          else
            do r <- lookup c POSKEY;
            match r with
            | Some j => do s2 <- handle_identified c s j POSKEY ignore_card v; Ok (AConsumed, s2, cur)
            | None => Ok (AUnknown, s, cur)
            end
      | None =>
          do r <- lookup c POSKEY;
          match r with
          | Some j => do s2 <- handle_identified c s j POSKEY ignore_card v; Ok (AConsumed, s2, cur)
          | None => Ok (AUnknown, s, cur)
          end
      end
  | EChar ch => process_arg c s ignore_card (key_of_char ch) cur
  | EStr w => do k <- parse_key w; process_arg c s ignore_card k cur
  | ECtl ch =>
      if ceq ch BANG
      then Ok (AConsumed, {| arts := arts s; pend := pend s; gsts := gsts s; last := last s; inv := true |}, cur)
      else Ok (AUnknown, s, cur)
  end.

(** Handler::iterateArguments: [fuel] bounds the number of elements *)
Fixpoint iterate (fuel : nat) (c : cfg) (s : hstate) (ignore_card : bool) (cur : option (elem * it))
  : res hstate :=
  match cur with
  | None => Ok s
  | Some (e, i0) =>
      match fuel with
      | O => Fault Fuel
      | S f =>
          do r <- eval_single c s ignore_card e i0;
          let '(a, s1, i1) := r in
          match a with
          | AUnknown => Err EInvalidArgument
          | AConsumed => do nx <- next false i1; iterate f c s1 ignore_card nx
          end
      end
  end.

Definition words_size (ws : list str) : nat := fold_right (fun w n => S (length w) + n) 0 ws.

Definition eval_words (c : cfg) (s : hstate) (ignore_card : bool) (words : list str) : res hstate :=
  do f <- first words; iterate (S (words_size words)) c s ignore_card f.

(** the checks at the end of evalArguments *)
Fixpoint check_mandatory_card (ds : list argdef) (as_ : list art) : res unit :=
  match ds, as_ with
  | d :: dr, a :: ar =>
      if a_mand d && negb (hasval a) then Err ERuntime
      else do _ <- card_end (a_card d) (cnt a); check_mandatory_card dr ar
  | _, _ => Ok tt
  end.

Definition final_checks (c : cfg) (s : hstate) : res unit :=
  do _ <- check_mandatory_card (args c) (arts s);
  do _ <- pend_check_required (pend s);
  gcs_end (arts s) (gcons c) (gsts s).

Definition init_art (d : argdef) (v0 : value) : art :=
  {| hasval := match v0 with VInts (_ :: _) | VStrs (_ :: _) | VOpt (Some _) => true | _ => false end;
     cnt := 0; clearp := a_clear d; val := v0;
     v2set := match v0 with VBool b => negb b | _ => false end |}.

Definition init_state (c : cfg) (inits : list value) : hstate :=
  {| arts := map (fun p => init_art (fst p) (snd p)) (combine (args c) inits);
     pend := []; gsts := map gc_init (gcons c); last := None; inv := false |}.

(** Handler::evalArguments: argument file lines (already split into words),
    environment variable words, then the command line.  mpLastArg is reset
    only at the very end, so it survives from one source to the next. *)
Fixpoint eval_lines (c : cfg) (s : hstate) (lines : list (list str)) : res hstate :=
  match lines with
  | [] => Ok s
  | l :: r => do s1 <- eval_words c s true l; eval_lines c s1 r
  end.

Definition eval_arguments (c : cfg) (inits : list value) (file_lines : list (list str))
    (env_words : option (list str)) (argv : list str) : res hstate :=
  let s0 := init_state c inits in
  do s1 <- eval_lines c s0 file_lines;
  do s2 <- (match env_words with Some ws => eval_words c s1 true ws | None => Ok s1 end);
  do s3 <- eval_words c s2 false argv;
  do _ <- final_checks c s3;
  Ok s3.
