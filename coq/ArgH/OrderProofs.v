(** C01: distinct arguments may be given in any order - the destinations end
    with the same values.  (Acceptance in the other order is a matter of the
    rules, C03; here both orders are assumed to be accepted.) *)
From Coq Require Import List NArith ZArith Bool Arith Lia Permutation.
Import ListNotations.
Require Import Celma.Common.Res Celma.Common.ListX Celma.Common.Tactics
               Celma.ArgH.Key Celma.ArgH.Table Celma.ArgH.Lex Celma.ArgH.Handler Celma.ArgH.Spell
               Celma.ArgH.SpellProofs Celma.ArgH.UseProofs.

(** what a use does to the run-time part of its own argument: a function of
    that part alone *)
Definition art_step (c : cfg) (i : nat) (ic : bool) (v : str) (a : art) : res art :=
  let d := argdef_of c i in
  if a_depr d then Err ERuntime else
  do n1 <- (if ic then Ok (cnt a) else card_got (a_card d) (cnt a));
  assign d {| hasval := hasval a; cnt := n1; clearp := clearp a; val := val a; v2set := v2set a |} v.

Lemma handle_identified_art c s i k ic v s' :
  handle_identified c s i k ic v = Ok s' ->
  exists a', art_step c i ic v (nth i (arts s) dummy_art) = Ok a' /\ arts s' = upd (arts s) i a'.
Proof.
  unfold handle_identified, assign_value, art_step, argdef_of. intros H.
  destruct (pend_identified _ _); cbn [bind] in H; try discriminate.
  destruct (gcs_exec _ _ _); cbn [bind] in H; try discriminate.
  cbn [arts pend gsts last inv] in H.
  destruct (a_depr _); try discriminate.
  destruct (if ic then _ else _) as [n1|?|?]; cbn [bind] in H |- *; try discriminate.
  destruct (inv s); try discriminate.
  destruct (assign _ _ _) as [a'|?|?]; cbn [bind] in H; try discriminate.
  inversion H; subst. cbn [arts]. eauto.
Qed.

Definition use_value (u : use) : str := match u with UFlag _ => [] | UVal _ v => v end.

Lemma use_step_art c s ic u s' :
  use_step c s ic u = Ok s' ->
  exists a', art_step c (use_index u) ic (use_value u) (nth (use_index u) (arts s) dummy_art) = Ok a' /\
             arts s' = upd (arts s) (use_index u) a'.
Proof.
  destruct u as [i|i v]; cbn [use_step use_index use_value]; intros H;
    apply handle_identified_art in H; exact H.
Qed.

Lemma fold_uses_length c ic us : forall s s', fold_uses c s ic us = Ok s' -> length (arts s') = length (arts s).
Proof.
  induction us as [|u r IH]; intros s s' H; cbn [fold_uses] in H.
  - inversion H; reflexivity.
  - destruct (use_step c s ic u) as [s1|?|?] eqn:E; cbn [bind] in H; try discriminate.
    rewrite (IH _ _ H). apply (use_step_length _ _ _ _ _ E).
Qed.

(** the art of argument [i] after a line in which [i] is used exactly once:
    [art_step] applied to the art before the line *)
Lemma fold_uses_single c ic : forall us s s' u,
  fold_uses c s ic us = Ok s' -> In u us -> NoDup (map use_index us) ->
  use_index u < length (arts s) ->
  art_step c (use_index u) ic (use_value u) (nth (use_index u) (arts s) dummy_art)
  = Ok (nth (use_index u) (arts s') dummy_art).
Proof.
  induction us as [|u0 r IH]; intros s s' u H Hin Hnd Hlt; [destruct Hin|].
  cbn [fold_uses] in H. destruct (use_step c s ic u0) as [s1|?|?] eqn:E; cbn [bind] in H; try discriminate.
  cbn [map] in Hnd. inversion Hnd as [|? ? Hnot Hnd']; subst.
  destruct Hin as [Heq|Hin].
  - subst u0. destruct (use_step_art _ _ _ _ _ E) as (a' & Ha & Hs1).
    rewrite Ha. f_equal.
    rewrite (fold_uses_frame c ic r s1 s' (use_index u) H Hnot).
    rewrite Hs1. symmetry. apply upd_nth_same. exact Hlt.
  - assert (Hne : use_index u0 <> use_index u).
    { intros Heq. apply Hnot. rewrite Heq. apply in_map. exact Hin. }
    rewrite <- (use_step_frame c s ic u0 s1 (use_index u) E).
    + apply (IH s1 s' u H Hin Hnd'). rewrite (use_step_length _ _ _ _ _ E). exact Hlt.
    + destruct u0; exact Hne.
Qed.

(** Distinct arguments in any order: when both orders are accepted, every
    destination (and every other run-time attribute of every argument) ends
    the same. *)
Theorem order_independent c ic us1 us2 s s1 s2 :
  Permutation us1 us2 -> NoDup (map use_index us1) ->
  (forall u, In u us1 -> use_index u < length (arts s)) ->
  fold_uses c s ic us1 = Ok s1 -> fold_uses c s ic us2 = Ok s2 ->
  arts s1 = arts s2.
Proof.
  intros Hp Hnd Hr H1 H2.
  assert (Hnd2 : NoDup (map use_index us2)).
  { eapply Permutation_NoDup; [apply Permutation_map; exact Hp|exact Hnd]. }
  apply (nth_ext _ _ dummy_art dummy_art).
  - rewrite (fold_uses_length _ _ _ _ _ H1), (fold_uses_length _ _ _ _ _ H2). reflexivity.
  - intros j _.
    destruct (in_dec Nat.eq_dec j (map use_index us1)) as [Hin|Hnot].
    + apply in_map_iff in Hin. destruct Hin as (u & Hu & Hin). subst j.
      pose proof (fold_uses_single c ic us1 s s1 u H1 Hin Hnd (Hr u Hin)) as E1.
      pose proof (fold_uses_single c ic us2 s s2 u H2 (Permutation_in _ Hp Hin) Hnd2 (Hr u Hin)) as E2.
      rewrite E1 in E2. inversion E2. reflexivity.
    + rewrite (fold_uses_frame c ic us1 s s1 j H1 Hnot).
      rewrite (fold_uses_frame c ic us2 s s2 j H2); [reflexivity|].
      intros Hin. apply Hnot. eapply Permutation_in; [apply Permutation_sym, Permutation_map; exact Hp|exact Hin].
Qed.

(** the same for whole command lines: any spelling of any order *)
Theorem order_independent_lines c inits us1 us2 ws1 ws2 s1 s2 :
  fixed_notify c = true ->
  Permutation us1 us2 -> NoDup (map use_index us1) ->
  (forall u, In u us1 -> use_index u < length (args c)) -> length inits = length (args c) ->
  spell c us1 ws1 -> spell c us2 ws2 ->
  eval_arguments c inits [] None ws1 = Ok s1 -> eval_arguments c inits [] None ws2 = Ok s2 ->
  map val (arts s1) = map val (arts s2).
Proof.
  intros Hf Hp Hnd Hr Hl Hs1 Hs2 H1 H2. unfold eval_arguments in H1, H2. cbn [eval_lines bind] in H1, H2.
  rewrite (eval_words_spelled c Hf false us1 ws1 _ Hs1) in H1.
  rewrite (eval_words_spelled c Hf false us2 ws2 _ Hs2) in H2.
  destruct (fold_uses c _ false us1) as [t1|?|?] eqn:E1; cbn [bind] in H1; try discriminate.
  destruct (fold_uses c _ false us2) as [t2|?|?] eqn:E2; cbn [bind] in H2; try discriminate.
  destruct (final_checks c t1); cbn [bind] in H1; try discriminate.
  destruct (final_checks c t2); cbn [bind] in H2; try discriminate.
  inversion H1; inversion H2; subst. f_equal.
  apply (order_independent c false us1 us2 (init_state c inits) _ _ Hp Hnd); auto.
  intros u Hu. unfold init_state. cbn [arts]. rewrite map_length, combine_length, Hl, Nat.min_id. apply Hr. exact Hu.
Qed.
