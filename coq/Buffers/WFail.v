(** A sink that fails: WriteBuffer::writeData() may throw.  The first
    writeData call of an operation is made before the operation has changed
    anything (flush(): write, then reset the position; append() that does not
    fit: flush first; an oversized append() with an empty buffer: write the
    block), so an operation whose first write fails leaves the buffer as it was
    and can be repeated.  [ok = false]: the sink throws on the first write of
    this operation.  No proofs here. *)
From Coq Require Import List Arith NArith Bool.
Import ListNotations.
Require Import Celma.Common.Res Celma.Buffers.RWModel.

(** does the operation call writeData at all? *)
Definition calls_write (b : wb) (o : wop) : bool :=
  match o with
  | WFlush => 0 <? w_pos b
  | WAppendNull _ => false
  | WAppend blk =>
      let len := length blk in
      if len =? 0 then false
      else if w_cap b <=? len then true
      else (w_cap b - w_pos b) <? len
  end.

Definition wb_step_f (b : wb) (sk : sink) (o : wop) (ok : bool) : res (wb * sink) :=
  if negb ok && calls_write b o then Err ERuntime else wb_step b sk o.

(** the run: outputs per operation, final buffer and sink, and the operations
    that took effect (all but those the failing sink refused) *)
Fixpoint wb_run_f (b : wb) (sk : sink) (ops : list (wop * bool)) : list wb_out * wb * sink * list wop :=
  match ops with
  | [] => ([], b, sk, [])
  | (o, ok) :: ops' =>
      match wb_step_f b sk o ok with
      | Ok (b', sk') =>
          let '(outs, bf, sf, eff) := wb_run_f b' sk' ops' in (WOk (w_pos b') :: outs, bf, sf, o :: eff)
      | Err e =>
          let '(outs, bf, sf, eff) := wb_run_f b sk ops' in
          (WErr e :: outs, bf, sf, if negb ok && calls_write b o then eff else o :: eff)
      | Fault f => ([WFault f], b, sk, [])
      end
  end.
