(** Proofs about the ReadBuffer / WriteBuffer model (RWModel.v). *)
From Coq Require Import List Arith NArith Bool Lia.
Import ListNotations.
Require Import Celma.Common.Res Celma.Common.ListX Celma.Common.Tactics Celma.Buffers.RWModel.

(* ------------------------------------------------------------------ *)
(** * Checked primitives *)

Lemma sub_chk_ok a b : b <= a -> sub_chk a b = Ok (a - b).
Proof. intros H. unfold sub_chk. destruct (Nat.leb_spec b a); [reflexivity|lia]. Qed.

Lemma blit_ok buf off src :
  off + length src <= length buf ->
  blit buf off src = Ok (firstn off buf ++ src ++ skipn (off + length src) buf).
Proof. intros H. unfold blit. destruct (Nat.leb_spec (off + length src) (length buf)); [reflexivity|lia]. Qed.

Lemma blit_length (buf : list byte) off (src : list byte) :
  off + length src <= length buf ->
  length (firstn off buf ++ src ++ skipn (off + length src) buf) = length buf.
Proof. intros H. rewrite !app_length, firstn_length, skipn_length. lia. Qed.

Lemma slice_ok buf off n :
  off + n <= length buf -> slice buf off n = Ok (firstn n (skipn off buf)).
Proof. intros H. unfold slice. destruct (Nat.leb_spec (off + n) (length buf)); [reflexivity|lia]. Qed.

(** the bytes between two indices of the buffer *)
Definition win (data : list byte) (s e : nat) : list byte := firstn (e - s) (skipn s data).

Lemma win_length data s e : s <= e -> e <= length data -> length (win data s e) = e - s.
Proof. intros. unfold win. rewrite firstn_length, skipn_length. lia. Qed.

Lemma win_empty data s : win data s s = [].
Proof. unfold win. rewrite Nat.sub_diag. reflexivity. Qed.

Lemma win_blit data s e blk :
  s <= e -> e + length blk <= length data ->
  win (firstn e data ++ blk ++ skipn (e + length blk) data) s (e + length blk)
  = win data s e ++ blk.
Proof.
  intros Hse Hlen. unfold win.
  assert (Hf : length (firstn e data) = e) by (rewrite firstn_length; lia).
  rewrite skipn_app, Hf.
  replace (s - e) with 0 by lia. cbn [skipn].
  rewrite firstn_app, skipn_length, Hf.
  rewrite (firstn_all2 (n := e + length blk - s)) by (rewrite skipn_length; lia).
  replace (e + length blk - s - (e - s)) with (length blk) by lia.
  rewrite firstn_app, Nat.sub_diag. cbn [firstn]. rewrite firstn_all, app_nil_r.
  f_equal. rewrite firstn_skipn_comm. replace (s + (e - s)) with e by lia. reflexivity.
Qed.

Lemma win_blit' data s e blk k :
  length blk = k -> s <= e -> e + k <= length data ->
  win (firstn e data ++ blk ++ skipn (e + k) data) s (e + k) = win data s e ++ blk.
Proof. intros <-. apply win_blit. Qed.

Lemma blit_length' (buf : list byte) off (src : list byte) k :
  length src = k -> off + k <= length buf ->
  length (firstn off buf ++ src ++ skipn (off + k) buf) = length buf.
Proof. intros <-. apply blit_length. Qed.

Lemma win_split data s m e : s <= m -> m <= e -> win data s e = win data s m ++ win data m e.
Proof.
  intros H1 H2. unfold win.
  replace (e - s) with ((m - s) + (e - m)) by lia.
  rewrite <- (firstn_skipn (m - s) (firstn (m - s + (e - m)) (skipn s data))).
  rewrite firstn_firstn. replace (Nat.min (m - s) (m - s + (e - m))) with (m - s) by lia.
  f_equal. rewrite skipn_firstn_comm, skipn_skipn'.
  replace (m - s + (e - m) - (m - s)) with (e - m) by lia.
  replace (m - s + s) with m by lia. reflexivity.
Qed.

Lemma win_compact data s e :
  s <= e -> e <= length data ->
  win (firstn 0 data ++ win data s e ++ skipn (0 + length (win data s e)) data) 0 (e - s)
  = win data s e.
Proof.
  intros H1 H2. cbn [firstn app plus]. unfold win at 1.
  rewrite Nat.sub_0_r. cbn [skipn]. rewrite firstn_app.
  rewrite win_length by lia. rewrite Nat.sub_diag. cbn [firstn].
  rewrite app_nil_r. apply firstn_all2. rewrite win_length; lia.
Qed.

(* ------------------------------------------------------------------ *)
(** * ReadBuffer *)

Definition RInv (b : rb) : Prop :=
  length (r_data b) = r_cap b /\ r_start b <= r_end b /\ r_end b <= r_cap b.

Definition rwindow (b : rb) : list byte := win (r_data b) (r_start b) (r_end b).

Definition rq_ok (cap : nat) (rq : reqs) : Prop :=
  Forall (fun p => 1 <= snd p /\ fst p + snd p = cap) rq.

(** The refill loop.  Whatever the chunking, it either starves or ends with at
    least [min_len] bytes in the window, and the window followed by the rest of
    the source is what it was before. *)
Lemma fill_loop_spec cap min_len chunks :
  forall data dstart dend rest rq,
    length data = cap -> dstart <= dend -> dend < cap ->
    dstart + min_len <= cap -> dend - dstart < min_len ->
    rq_ok cap rq ->
    fill_loop cap data dstart dend min_len rest chunks rq = Fault Starved \/
    exists data' dend' src' rq',
      fill_loop cap data dstart dend min_len rest chunks rq = Ok (data', dend', src', rq') /\
      length data' = cap /\ dstart <= dend' /\ dend' <= cap /\ min_len <= dend' - dstart /\
      win data' dstart dend' ++ s_rest src' = win data dstart dend ++ rest /\
      rq_ok cap rq'.
Proof.
  induction chunks as [|c cs IH]; intros data dstart dend rest rq Hlen Hse Hec Hfit Hneed Hrq.
  - left. reflexivity.
  - cbn [fill_loop].
    rewrite sub_chk_ok by lia. cbn [bind].
    set (k := Nat.min (cap - dend) (Nat.min c (length rest))).
    assert (Hk : length (firstn k rest) = k) by (rewrite firstn_length; lia).
    assert (Hk2 : k <= cap - dend) by lia.
    rewrite blit_ok by (rewrite Hk; lia). cbn [bind].
    rewrite sub_chk_ok by lia. cbn [bind].
    rewrite Hk.
    set (data' := firstn dend data ++ firstn k rest ++ skipn (dend + k) data).
    assert (Hlen' : length data' = cap).
    { unfold data'. rewrite (blit_length' _ _ _ k); lia. }
    assert (Hwin : win data' dstart (dend + k) = win data dstart dend ++ firstn k rest).
    { unfold data'. apply win_blit'; lia. }
    assert (Hrq' : rq_ok cap (rq ++ [(dend, cap - dend)])).
    { apply Forall_app. split; [exact Hrq|]. constructor; [|constructor]. cbn. lia. }
    destruct (Nat.ltb_spec (dend + k - dstart) min_len) as [Hlt|Hge].
    + specialize (IH data' dstart (dend + k) (skipn k rest) (rq ++ [(dend, cap - dend)])).
      destruct IH as [IH|IH]; try lia; try assumption.
      * left. exact IH.
      * right. destruct IH as (d2 & e2 & s2 & r2 & Heq & H1 & H2 & H3 & H4 & H5 & H6).
        exists d2, e2, s2, r2. repeat split; try assumption.
        rewrite H5, Hwin, <- app_assoc, firstn_skipn. reflexivity.
    + right. eexists _, _, _, _. split; [reflexivity|].
      repeat split; try assumption; try lia.
      cbn [s_rest]. rewrite Hwin, <- app_assoc, firstn_skipn. reflexivity.
Qed.

Lemma fill_buffer_spec b min_len src :
  RInv b -> 0 < min_len -> min_len <= r_cap b -> r_end b - r_start b < min_len ->
  fill_buffer b min_len src = Fault Starved \/
  exists b' src' rq,
    fill_buffer b min_len src = Ok (b', src', rq) /\
    RInv b' /\ r_cap b' = r_cap b /\ min_len <= r_end b' - r_start b' /\
    rwindow b' ++ s_rest src' = rwindow b ++ s_rest src /\
    rq_ok (r_cap b) rq.
Proof.
  intros (Hlen & Hse & Hec) Hpos Hcap Hneed. unfold fill_buffer.
  destruct (Nat.eqb_spec (r_start b) (r_end b)) as [Heq|Hne].
  - cbn [bind].
    destruct (fill_loop_spec (r_cap b) min_len (s_chunks src) (r_data b) 0 0 (s_rest src) []
                Hlen ltac:(lia) ltac:(lia) ltac:(lia) ltac:(lia) ltac:(constructor))
      as [Hs|(d & e & s & r & Hfl & H1 & H2 & H3 & H4 & H5 & H6)].
    + left. rewrite Hs. reflexivity.
    + right. rewrite Hfl. cbn [bind]. eexists _, _, _. split; [reflexivity|].
      unfold RInv, rwindow. cbn [r_data r_cap r_start r_end].
      repeat split; try assumption; try lia.
      rewrite H5, Heq, !win_empty. reflexivity.
  - rewrite sub_chk_ok by lia. cbn [bind].
    destruct (Nat.ltb_spec (r_cap b - r_start b) min_len) as [Hcomp|Hnocomp].
    + rewrite sub_chk_ok by lia. cbn [bind].
      rewrite slice_ok by lia. cbn [bind].
      fold (win (r_data b) (r_start b) (r_end b)).
      assert (Hwl : length (win (r_data b) (r_start b) (r_end b)) = r_end b - r_start b)
        by (apply win_length; lia).
      rewrite blit_ok by lia. cbn [bind].
      set (d0 := firstn 0 (r_data b) ++ _ ++ _).
      assert (Hd0 : length d0 = r_cap b).
      { unfold d0. rewrite blit_length; lia. }
      destruct (fill_loop_spec (r_cap b) min_len (s_chunks src) d0 0 (r_end b - r_start b) (s_rest src) []
                  Hd0 ltac:(lia) ltac:(lia) ltac:(lia) ltac:(lia) ltac:(constructor))
        as [Hs|(d & e & s & r & Hfl & H1 & H2 & H3 & H4 & H5 & H6)].
      * left. rewrite Hs. reflexivity.
      * right. rewrite Hfl. cbn [bind]. eexists _, _, _. split; [reflexivity|].
        unfold RInv, rwindow. cbn [r_data r_cap r_start r_end].
        repeat split; try assumption; try lia.
        rewrite H5. unfold d0. rewrite win_compact by lia. reflexivity.
    + cbn [bind].
      destruct (fill_loop_spec (r_cap b) min_len (s_chunks src) (r_data b) (r_start b) (r_end b) (s_rest src) []
                  Hlen ltac:(lia) ltac:(lia) ltac:(lia) ltac:(lia) ltac:(constructor))
        as [Hs|(d & e & s & r & Hfl & H1 & H2 & H3 & H4 & H5 & H6)].
      * left. rewrite Hs. reflexivity.
      * right. rewrite Hfl. cbn [bind]. eexists _, _, _. split; [reflexivity|].
        unfold RInv, rwindow. cbn [r_data r_cap r_start r_end].
        repeat split; try assumption; try lia.
Qed.

(** One call of get: never a memory fault, refusals leave the object alone,
    and the bytes handed out are the head of (window ++ rest of the source). *)
Lemma rb_get_spec b nn len src :
  RInv b ->
  (len = 0 /\ rb_get b nn len src = Ok (b, src, [], [])) \/
  (0 < len /\ (nn = false \/ r_cap b < len) /\ rb_get b nn len src = Err ERuntime) \/
  (0 < len /\ nn = true /\ len <= r_cap b /\
   (rb_get b nn len src = Fault Starved \/
    exists b' src' out rq,
      rb_get b nn len src = Ok (b', src', out, rq) /\
      RInv b' /\ r_cap b' = r_cap b /\ length out = len /\
      out ++ rwindow b' ++ s_rest src' = rwindow b ++ s_rest src /\
      rq_ok (r_cap b) rq)).
Proof.
  intros Hinv. pose proof Hinv as (Hlen & Hse & Hec). unfold rb_get.
  destruct (Nat.eqb_spec len 0) as [H0|H0]; [left; auto|].
  right. destruct nn; cbn [negb].
  2:{ left. repeat split; auto; lia. }
  destruct (Nat.ltb_spec (r_cap b) len) as [Hbig|Hfit].
  { left. repeat split; auto; lia. }
  right. repeat split; try lia.
  rewrite sub_chk_ok by lia. cbn [bind].
  destruct (Nat.leb_spec len (r_end b - r_start b)) as [Hfast|Hslow].
  - right. rewrite slice_ok by lia. cbn [bind].
    eexists _, _, _, _. split; [reflexivity|].
    unfold RInv, rwindow. cbn [r_data r_cap r_start r_end].
    repeat split; try lia.
    + rewrite firstn_length, skipn_length. lia.
    + rewrite app_assoc. f_equal.
      rewrite (win_split (r_data b) (r_start b) (r_start b + len) (r_end b)) by lia.
      f_equal. unfold win. f_equal. lia.
    + constructor.
  - destruct (fill_buffer_spec b len src Hinv ltac:(lia) ltac:(lia) ltac:(lia))
      as [Hs|(b' & src' & rq & Hfb & Hinv' & Hcap' & Hav & Hstream & Hrq)].
    + left. rewrite Hs. reflexivity.
    + right. rewrite Hfb. cbn [bind].
      destruct Hinv' as (Hlen' & Hse' & Hec').
      rewrite slice_ok by lia. cbn [bind].
      eexists _, _, _, _. split; [reflexivity|].
      unfold RInv, rwindow. cbn [r_data r_cap r_start r_end].
      repeat split; try lia.
      * rewrite firstn_length, skipn_length. lia.
      * unfold rwindow in Hstream. rewrite <- Hstream. rewrite app_assoc. f_equal.
        rewrite (win_split (r_data b') (r_start b') (r_start b' + len) (r_end b')) by lia.
        f_equal. unfold win. f_equal. lia.
      * assumption.
Qed.

Lemma rb_init_inv cap : RInv (rb_init cap).
Proof. unfold RInv, rb_init. cbn. rewrite repeat_length. lia. Qed.

Lemma rb_init_window cap : rwindow (rb_init cap) = [].
Proof. unfold rwindow, rb_init. cbn [r_data r_start r_end]. apply win_empty. Qed.

Fixpoint gots (outs : list rb_out) : list byte :=
  match outs with
  | [] => []
  | RGot bs _ :: r => bs ++ gots r
  | _ :: r => gots r
  end.

Definition out_ok (cap : nat) (op : bool * nat) (o : rb_out) : Prop :=
  match o with
  | RGot bs rq => length bs = snd op /\ (snd op = 0 \/ (fst op = true /\ snd op <= cap)) /\ rq_ok cap rq
  | RErr e => e = ERuntime /\ 0 < snd op /\ (fst op = false \/ cap < snd op)
  | RFault f => f = Starved
  end.

(** All histories of get calls, all chunkings. *)
Theorem rb_run_spec ops : forall b src outs b' src',
  RInv b -> rb_run b src ops = (outs, b', src') ->
  RInv b' /\ r_cap b' = r_cap b /\
  gots outs ++ rwindow b' ++ s_rest src' = rwindow b ++ s_rest src /\
  (forall f, In (RFault f) outs -> f = Starved) /\
  (length outs <= length ops) /\
  Forall2 (out_ok (r_cap b)) (firstn (length outs) ops) outs.
Proof.
  induction ops as [|[nn len] ops IH]; intros b src outs b' src' Hinv Hrun.
  - cbn in Hrun. inversion Hrun; subst. cbn. splits; auto; try (intros f []); constructor.
  - cbn [rb_run] in Hrun.
    destruct (rb_get_spec b nn len src Hinv) as
      [(H0 & Hg)|[(Hpos & Hbad & Hg)|(Hpos & Hnn & Hfit & [Hg|(b1 & s1 & out & rq & Hg & Hinv1 & Hcap1 & Hol & Hstr & Hrq)])]];
      rewrite Hg in Hrun.
    + destruct (rb_run b src ops) as [[outs1 bf] sf] eqn:Hr.
      inversion Hrun; subst. destruct (IH _ _ _ _ _ Hinv Hr) as (A & B & C & D & E & F).
      cbn [gots app length firstn]. splits; auto.
      * intros f [Hf|Hf]; [discriminate|auto].
      * lia.
      * constructor; [|exact F]. cbn. splits; auto. constructor.
    + destruct (rb_run b src ops) as [[outs1 bf] sf] eqn:Hr.
      inversion Hrun; subst. destruct (IH _ _ _ _ _ Hinv Hr) as (A & B & C & D & E & F).
      cbn [gots length firstn]. splits; auto.
      * intros f [Hf|Hf]; [discriminate|auto].
      * lia.
      * constructor; [|exact F]. cbn. splits; auto.
    + inversion Hrun; subst. cbn [gots app length firstn]. splits; auto.
      * intros f [Hf|[]]. inversion Hf; reflexivity.
      * lia.
      * constructor; [|constructor]. cbn. reflexivity.
    + destruct (rb_run b1 s1 ops) as [[outs1 bf] sf] eqn:Hr.
      inversion Hrun; subst. destruct (IH _ _ _ _ _ Hinv1 Hr) as (A & B & C & D & E & F).
      cbn [gots length firstn]. splits; auto.
      * lia.
      * rewrite <- app_assoc, C. exact Hstr.
      * intros f [Hf|Hf]; [discriminate|auto].
      * lia.
      * constructor; [|rewrite <- Hcap1; exact F]. cbn. splits; auto.
Qed.

(** Corollary in the words of the property: reading through a fresh buffer
    returns exactly a prefix of the source's bytes, in order; nothing is lost
    or duplicated: what was handed out, what is still buffered and what the
    source still holds are, concatenated, the original stream. *)
Corollary rb_stream_exact cap stream chunks ops outs b' src' :
  rb_run (rb_init cap) {| s_rest := stream; s_chunks := chunks |} ops = (outs, b', src') ->
  gots outs ++ rwindow b' ++ s_rest src' = stream /\
  (forall f, In (RFault f) outs -> f = Starved).
Proof.
  intros Hrun. destruct (rb_run_spec ops _ _ _ _ _ (rb_init_inv cap) Hrun) as (A & B & C & D & E & F).
  rewrite rb_init_window in C. cbn in C. split; assumption.
Qed.

(** Progress: with positive chunks the source is asked at most once per byte
    delivered, so a chunk list at least as long as the stream cannot starve a
    request for bytes that exist.  Stated for one refill. *)
Lemma fill_loop_progress cap min_len chunks :
  forall data dstart dend rest rq,
    length data = cap -> dstart <= dend -> dend < cap ->
    dstart + min_len <= cap -> dend - dstart < min_len ->
    Forall (fun c => 1 <= c) chunks ->
    min_len - (dend - dstart) <= length rest ->
    min_len - (dend - dstart) <= length chunks ->
    fill_loop cap data dstart dend min_len rest chunks rq <> Fault Starved.
Proof.
  induction chunks as [|c cs IH]; intros data dstart dend rest rq Hlen Hse Hec Hfit Hneed Hpos Hrest Hfuel.
  - cbn in Hfuel. lia.
  - cbn [fill_loop]. rewrite sub_chk_ok by lia. cbn [bind].
    inversion Hpos as [|c' cs' Hc Hcs]; subst c' cs'.
    set (k := Nat.min (cap - dend) (Nat.min c (length rest))).
    assert (Hk : length (firstn k rest) = k) by (rewrite firstn_length; lia).
    assert (Hk1 : 1 <= k) by lia.
    rewrite blit_ok by (rewrite Hk; lia). cbn [bind].
    rewrite sub_chk_ok by lia. cbn [bind]. rewrite Hk.
    destruct (Nat.ltb_spec (dend + k - dstart) min_len) as [Hlt|Hge]; [|discriminate].
    apply IH; try assumption; try lia.
    + rewrite (blit_length' _ _ _ k); lia.
    + rewrite skipn_length. lia.
    + cbn [length] in Hfuel. lia.
Qed.

(* ------------------------------------------------------------------ *)
(** * WriteBuffer *)

Definition WInv (b : wb) : Prop := length (w_data b) = w_cap b /\ w_pos b <= w_cap b.

Definition buffered (b : wb) : list byte := firstn (w_pos b) (w_data b).

Lemma wb_flush_spec b sk :
  WInv b ->
  exists b', wb_flush b sk = Ok (b', if 0 <? w_pos b then sk ++ [buffered b] else sk) /\
             WInv b' /\ w_cap b' = w_cap b /\ w_pos b' = 0 /\ w_data b' = w_data b.
Proof.
  intros (Hlen & Hpos). unfold wb_flush.
  destruct (Nat.ltb_spec 0 (w_pos b)) as [H|H].
  - rewrite slice_ok by lia. cbn [bind skipn]. eexists. split; [reflexivity|].
    unfold WInv. cbn. repeat split; lia.
  - eexists. split; [reflexivity|]. unfold WInv. repeat split; lia.
Qed.

Lemma concat_snoc {A} (l : list (list A)) x : concat (l ++ [x]) = concat l ++ x.
Proof. rewrite concat_app. cbn. rewrite app_nil_r. reflexivity. Qed.

Lemma flush_concat b sk :
  concat (if 0 <? w_pos b then sk ++ [buffered b] else sk) = concat sk ++ buffered b.
Proof.
  destruct (Nat.ltb_spec 0 (w_pos b)) as [H|H].
  - apply concat_snoc.
  - unfold buffered. replace (w_pos b) with 0 by lia. cbn. rewrite app_nil_r. reflexivity.
Qed.

(** One operation: never a fault; everything appended so far is, in order,
    what reached the sink followed by what is buffered. *)
Lemma wb_step_spec b sk o :
  WInv b -> 0 < w_cap b ->
  (exists b' sk', wb_step b sk o = Ok (b', sk') /\ WInv b' /\ w_cap b' = w_cap b /\
     concat sk' ++ buffered b' = concat sk ++ buffered b ++ appended [o] /\
     (o = WFlush -> w_pos b' = 0))
  \/ (exists len, o = WAppendNull len /\ 0 < len /\ wb_step b sk o = Err ERuntime).
Proof.
  intros Hinv Hcap. pose proof Hinv as (Hlen & Hpos).
  destruct o as [blk|len|]; cbn [wb_step appended].
  - left. unfold wb_append.
    destruct (Nat.eqb_spec (length blk) 0) as [H0|H0].
    { exists b, sk. splits; auto; try discriminate.
      destruct blk; [|discriminate]. rewrite !app_nil_r. reflexivity. }
    destruct (Nat.leb_spec (w_cap b) (length blk)) as [Hbig|Hsmall].
    + destruct (wb_flush_spec b sk Hinv) as (b1 & Hf & Hinv1 & Hc1 & Hp1 & Hd1).
      rewrite Hf. cbn [bind]. eexists _, _. split; [reflexivity|].
      splits; auto; try discriminate.
      rewrite concat_snoc, flush_concat. unfold buffered at 2. rewrite Hp1. cbn [firstn].
      rewrite !app_nil_r, <- app_assoc. reflexivity.
    + rewrite sub_chk_ok by lia. cbn [bind].
      destruct (Nat.ltb_spec (w_cap b - w_pos b) (length blk)) as [Hfull|Hroom].
      * destruct (wb_flush_spec b sk Hinv) as (b1 & Hf & (Hl1 & Hq1) & Hc1 & Hp1 & Hd1).
        rewrite Hf. cbn [bind].
        rewrite blit_ok by lia. cbn [bind].
        eexists _, _. split; [reflexivity|].
        unfold WInv, buffered. cbn [w_data w_cap w_pos firstn app plus].
        splits; try lia; try discriminate.
        -- rewrite app_length, skipn_length. lia.
        -- rewrite flush_concat. rewrite firstn_app_exact.
           rewrite app_nil_r, <- app_assoc. reflexivity.
      * rewrite blit_ok by lia. cbn [bind].
        eexists _, _. split; [reflexivity|].
        unfold WInv, buffered. cbn [w_data w_cap w_pos].
        splits; try lia; try discriminate.
        -- rewrite blit_length; lia.
        -- rewrite app_nil_r. f_equal.
           rewrite firstn_app, firstn_length.
           replace (Nat.min (w_pos b) (length (w_data b))) with (w_pos b) by lia.
           rewrite firstn_firstn. replace (Nat.min (w_pos b + length blk) (w_pos b)) with (w_pos b) by lia.
           f_equal. replace (w_pos b + length blk - w_pos b) with (length blk) by lia.
           apply firstn_app_exact.
  - destruct (Nat.eqb_spec len 0) as [H0|H0].
    + left. exists b, sk. splits; auto; try discriminate. rewrite !app_nil_r. reflexivity.
    + right. exists len. splits; auto. lia.
  - left. destruct (wb_flush_spec b sk Hinv) as (b1 & Hf & Hinv1 & Hc1 & Hp1 & Hd1).
    rewrite Hf. eexists _, _. split; [reflexivity|].
    splits; auto; try discriminate.
    rewrite flush_concat. unfold buffered at 2. rewrite Hp1. cbn [firstn]. rewrite !app_nil_r. reflexivity.
Qed.

(** Oversized writes are passed through after flushing what was buffered: the
    block reaches the sink as one call, directly after the former buffer content. *)
Lemma wb_passthrough b sk blk :
  WInv b -> w_cap b <= length blk -> 0 < length blk ->
  exists b' pre, wb_append b (Some blk) sk = Ok (b', pre ++ [blk]) /\
                 concat pre = concat sk ++ buffered b /\ w_pos b' = 0 /\ WInv b'.
Proof.
  intros Hinv Hbig Hpos. unfold wb_append.
  destruct (Nat.eqb_spec (length blk) 0) as [H0|H0]; [lia|].
  destruct (Nat.leb_spec (w_cap b) (length blk)) as [_|Hsmall]; [|lia].
  destruct (wb_flush_spec b sk Hinv) as (b1 & Hf & Hinv1 & Hc1 & Hp1 & Hd1).
  rewrite Hf. cbn [bind]. eexists _, _. split; [reflexivity|].
  splits; auto. apply flush_concat.
Qed.

Lemma wb_init_inv cap : WInv (wb_init cap).
Proof. unfold WInv, wb_init. cbn. rewrite repeat_length. lia. Qed.

Lemma appended_cons o ops : appended (o :: ops) = appended [o] ++ appended ops.
Proof. destruct o; cbn; rewrite ?app_nil_r; reflexivity. Qed.

(** All histories of append / flush. *)
Theorem wb_run_spec ops : forall b sk outs b' sk',
  WInv b -> 0 < w_cap b -> wb_run b sk ops = (outs, b', sk') ->
  WInv b' /\ length outs = length ops /\
  (forall f, ~ In (WFault f) outs) /\
  concat sk' ++ buffered b' = concat sk ++ buffered b ++ appended ops.
Proof.
  induction ops as [|o ops IH]; intros b sk outs b' sk' Hinv Hcap Hrun.
  - cbn in Hrun. inversion Hrun; subst. cbn. rewrite app_nil_r. splits; auto.
  - cbn [wb_run] in Hrun.
    destruct (wb_step_spec b sk o Hinv Hcap) as
      [(b1 & sk1 & Hs & Hinv1 & Hcap1 & Hcat & _)|(len & Ho & Hlen & Hs)]; rewrite Hs in Hrun.
    + destruct (wb_run b1 sk1 ops) as [[outs1 bf] sf] eqn:Hr. inversion Hrun; subst.
      destruct (IH _ _ _ _ _ Hinv1 ltac:(lia) Hr) as (A & B & C & D).
      splits; auto.
      * cbn. lia.
      * intros f [Hf|Hf]; [discriminate|exact (C f Hf)].
      * rewrite D, app_assoc, Hcat, (appended_cons o ops), <- !app_assoc. reflexivity.
    + destruct (wb_run b sk ops) as [[outs1 bf] sf] eqn:Hr. inversion Hrun; subst.
      destruct (IH _ _ _ _ _ Hinv Hcap Hr) as (A & B & C & D).
      splits; auto.
      * cbn. lia.
      * intros f [Hf|Hf]; [discriminate|exact (C f Hf)].
Qed.

(** "no later than the next flush": a history that ends with a flush leaves
    nothing buffered. *)
Lemma wb_run_flush_last ops : forall b sk outs b' sk',
  WInv b -> 0 < w_cap b -> wb_run b sk ops = (outs, b', sk') ->
  ops <> [] -> last ops WFlush = WFlush -> w_pos b' = 0.
Proof.
  induction ops as [|o ops IH]; intros b sk outs b' sk' Hinv Hcap Hrun Hne Hlast; [congruence|].
  cbn [wb_run] in Hrun.
  destruct (wb_step_spec b sk o Hinv Hcap) as
    [(b1 & sk1 & Hs & Hinv1 & Hcap1 & Hcat & Hfl)|(len & Ho & Hlen & Hs)]; rewrite Hs in Hrun.
  - destruct (wb_run b1 sk1 ops) as [[outs1 bf] sf] eqn:Hr. inversion Hrun; subst.
    destruct ops as [|o2 ops2].
    + cbn in Hr. inversion Hr; subst. apply Hfl. exact Hlast.
    + eapply IH; try exact Hr; auto; try lia; try discriminate.
  - destruct (wb_run b sk ops) as [[outs1 bf] sf] eqn:Hr. inversion Hrun; subst.
    destruct ops as [|o2 ops2].
    + cbn in Hlast. discriminate.
    + eapply IH; try exact Hr; auto; try discriminate.
Qed.

(** In the words of the property: after any history that ends with a flush,
    the sink holds exactly the appended bytes, each once, in order. *)
Corollary wb_exact_after_flush cap ops outs b' sk' :
  0 < cap -> wb_run (wb_init cap) [] ops = (outs, b', sk') ->
  (forall f, ~ In (WFault f) outs) /\
  concat sk' ++ buffered b' = appended ops /\
  (ops <> [] -> last ops WFlush = WFlush -> concat sk' = appended ops).
Proof.
  intros Hcap Hrun.
  destruct (wb_run_spec ops _ _ _ _ _ (wb_init_inv cap) Hcap Hrun) as (A & B & C & D).
  cbn in D. splits; auto.
  intros Hne Hl.
  pose proof (wb_run_flush_last ops _ _ _ _ _ (wb_init_inv cap) Hcap Hrun Hne Hl) as Hz.
  unfold buffered in D. rewrite Hz in D. cbn in D. rewrite app_nil_r in D. exact D.
Qed.
