(** Executable model of celma::common::ReadBuffer<N,P> and WriteBuffer<N,P>
    (src/celma/common/read_buffer.hpp, write_buffer.hpp), mirrored statement by
    statement.  No proofs in this file.

    - the internal buffer is a [list byte] of length [cap] (= template parameter N)
    - every memcpy/memmove/readData window goes through the checked primitives
      [blit]/[slice]: touching an index outside the buffer is [Fault]
    - every unsigned subtraction of the source goes through [sub_chk]: a
      subtraction that would wrap in size_t is [Fault Wrap]
    - the source delivers, per call of readData(p, n), min n (min chunk_i remaining)
      bytes; the list of chunk sizes is the fuel of the do..while loop of
      fillBuffer: when it is used up the model answers [Fault Starved]. *)
From Coq Require Import List Arith NArith Bool.
Import ListNotations.
Require Import Celma.Common.Res.

Definition byte := N.

Definition sub_chk (a b : nat) : res nat :=
  if b <=? a then Ok (a - b) else Fault Wrap.

(** write [src] into [buf] at [off] (memcpy / memmove destination window) *)
Definition blit (buf : list byte) (off : nat) (src : list byte) : res (list byte) :=
  if off + length src <=? length buf
  then Ok (firstn off buf ++ src ++ skipn (off + length src) buf)
  else Fault OOBWrite.

(** read [n] bytes at [off] (memcpy / memmove source window) *)
Definition slice (buf : list byte) (off n : nat) : res (list byte) :=
  if off + n <=? length buf then Ok (firstn n (skipn off buf)) else Fault OOBRead.

(* ------------------------------------------------------------------ *)
(** * ReadBuffer *)

Record rb := { r_cap : nat; r_data : list byte; r_start : nat; r_end : nat }.

Record source := { s_rest : list byte; s_chunks : list nat }.

(** one (offset into the internal buffer, length requested) per readData call *)
Definition reqs := list (nat * nat).

(** the do { readData(&buf[end], N-end); end += n; } while (end-start < min_len) loop *)
Fixpoint fill_loop (cap : nat) (data : list byte) (dstart dend min_len : nat)
    (rest : list byte) (chunks : list nat) (rq : reqs)
  : res (list byte * nat * source * reqs) :=
  match chunks with
  | [] => Fault Starved
  | c :: cs =>
      do room <- sub_chk cap dend;
      let k := Nat.min room (Nat.min c (length rest)) in
      do data' <- blit data dend (firstn k rest);
      let dend' := dend + k in
      let rq' := rq ++ [(dend, room)] in
      do avail <- sub_chk dend' dstart;
      if avail <? min_len
      then fill_loop cap data' dstart dend' min_len (skipn k rest) cs rq'
      else Ok (data', dend', {| s_rest := skipn k rest; s_chunks := cs |}, rq')
  end.

(** fillBuffer(min_length) *)
Definition fill_buffer (b : rb) (min_len : nat) (src : source)
  : res (rb * source * reqs) :=
  let cap := r_cap b in
  do st <-
    (if r_start b =? r_end b then Ok (r_data b, 0, 0)
     else
       do tail <- sub_chk cap (r_start b);
       if tail <? min_len then
         do n <- sub_chk (r_end b) (r_start b);
         do blk <- slice (r_data b) (r_start b) n;
         do d <- blit (r_data b) 0 blk;
         Ok (d, 0, n)
       else Ok (r_data b, r_start b, r_end b));
  let '(d, ds, de) := st in
  do r <- fill_loop cap d ds de min_len (s_rest src) (s_chunks src) [];
  let '(d', de', src', rq) := r in
  Ok ({| r_cap := cap; r_data := d'; r_start := ds; r_end := de' |}, src', rq).

(** get(data, len): [nonnull] tells whether the destination pointer is non-null *)
Definition rb_get (b : rb) (nonnull : bool) (len : nat) (src : source)
  : res (rb * source * list byte * reqs) :=
  if len =? 0 then Ok (b, src, [], [])
  else if negb nonnull then Err ERuntime
  else if r_cap b <? len then Err ERuntime
  else
    do avail <- sub_chk (r_end b) (r_start b);
    if len <=? avail then
      do out <- slice (r_data b) (r_start b) len;
      Ok ({| r_cap := r_cap b; r_data := r_data b;
             r_start := r_start b + len; r_end := r_end b |}, src, out, [])
    else
      do r <- fill_buffer b len src;
      let '(b', src', rq) := r in
      do out <- slice (r_data b') (r_start b') len;
      Ok ({| r_cap := r_cap b'; r_data := r_data b';
             r_start := r_start b' + len; r_end := r_end b' |}, src', out, rq).

Definition rb_init (cap : nat) : rb :=
  {| r_cap := cap; r_data := repeat 0%N cap; r_start := 0; r_end := 0 |}.

Inductive rb_out :=
| RGot (bytes : list byte) (rq : reqs)
| RErr (e : err)
| RFault (f : fault).

(** a history of get calls; an exception leaves the object as it was (the
    source throws before it modifies anything), a fault ends the history *)
Fixpoint rb_run (b : rb) (src : source) (ops : list (bool * nat)) : list rb_out * rb * source :=
  match ops with
  | [] => ([], b, src)
  | (nn, len) :: ops' =>
      match rb_get b nn len src with
      | Ok (b', src', out, rq) =>
          let '(outs, bf, sf) := rb_run b' src' ops' in (RGot out rq :: outs, bf, sf)
      | Err e =>
          let '(outs, bf, sf) := rb_run b src ops' in (RErr e :: outs, bf, sf)
      | Fault f => ([RFault f], b, src)
      end
  end.

(* ------------------------------------------------------------------ *)
(** * WriteBuffer *)

Record wb := { w_cap : nat; w_data : list byte; w_pos : nat }.

(** the sink records every writeData call as one block *)
Definition sink := list (list byte).

Definition wb_flush (b : wb) (sk : sink) : res (wb * sink) :=
  if 0 <? w_pos b then
    do blk <- slice (w_data b) 0 (w_pos b);
    Ok ({| w_cap := w_cap b; w_data := w_data b; w_pos := 0 |}, sk ++ [blk])
  else Ok (b, sk).

(** append(data, len): [data = None] is the null pointer; the caller's block
    has exactly [len] readable bytes *)
Definition wb_append (b : wb) (data : option (list byte)) (sk : sink) : res (wb * sink) :=
  match data with
  | None => Ok (b, sk)                      (* len == 0 is tested first, see wb_append_raw *)
  | Some blk =>
      let len := length blk in
      if len =? 0 then Ok (b, sk)
      else if w_cap b <=? len then
        do r <- wb_flush b sk;
        let '(b', sk') := r in
        Ok (b', sk' ++ [blk])
      else
        do room <- sub_chk (w_cap b) (w_pos b);
        if room <? len then
          do r <- wb_flush b sk;
          let '(b', sk') := r in
          do d <- blit (w_data b') 0 blk;
          Ok ({| w_cap := w_cap b'; w_data := d; w_pos := len |}, sk')
        else
          do d <- blit (w_data b) (w_pos b) blk;
          Ok ({| w_cap := w_cap b; w_data := d; w_pos := w_pos b + len |}, sk)
  end.

Inductive wop :=
| WAppend (blk : list byte)       (* non-null pointer, length = length blk *)
| WAppendNull (len : nat)         (* null pointer with the given length *)
| WFlush.

Definition wb_step (b : wb) (sk : sink) (o : wop) : res (wb * sink) :=
  match o with
  | WAppend blk => wb_append b (Some blk) sk
  | WAppendNull len => if len =? 0 then Ok (b, sk) else Err ERuntime
  | WFlush => wb_flush b sk
  end.

Definition wb_init (cap : nat) : wb :=
  {| w_cap := cap; w_data := repeat 0%N cap; w_pos := 0 |}.

Inductive wb_out := WOk (buffered : nat) | WErr (e : err) | WFault (f : fault).

Fixpoint wb_run (b : wb) (sk : sink) (ops : list wop) : list wb_out * wb * sink :=
  match ops with
  | [] => ([], b, sk)
  | o :: ops' =>
      match wb_step b sk o with
      | Ok (b', sk') =>
          let '(outs, bf, sf) := wb_run b' sk' ops' in (WOk (w_pos b') :: outs, bf, sf)
      | Err e =>
          let '(outs, bf, sf) := wb_run b sk ops' in (WErr e :: outs, bf, sf)
      | Fault f => ([WFault f], b, sk)
      end
  end.

(** what the property calls "everything appended" *)
Fixpoint appended (ops : list wop) : list byte :=
  match ops with
  | [] => []
  | WAppend blk :: r => blk ++ appended r
  | _ :: r => appended r
  end.
