(** With a failing sink the write buffer behaves as if the refused operations
    had not been made: the buffer, the sink and the results of all other
    operations are those of the run without them.  So every theorem about
    [wb_run] ("everything appended reaches the sink exactly once, in order")
    holds for the operations that took effect, and an operation that failed
    may simply be repeated - nothing is lost, nothing is written twice. *)
From Coq Require Import List Arith NArith Bool Lia.
Import ListNotations.
Require Import Celma.Common.Res Celma.Buffers.RWModel Celma.Buffers.WFail.

Lemma wb_step_f_ok b sk o : wb_step_f b sk o true = wb_step b sk o.
Proof. reflexivity. Qed.

(** the final buffer and sink are those of the run of the operations that took effect *)
Theorem wb_run_f_effective : forall ops b sk outs bf sf eff,
  wb_run_f b sk ops = (outs, bf, sf, eff) ->
  (forall o, In o outs -> match o with WFault _ => False | _ => True end) ->
  exists outs', wb_run b sk eff = (outs', bf, sf).
Proof.
  induction ops as [|[o ok] ops IH]; intros b sk outs bf sf eff H Hnf; cbn [wb_run_f] in H.
  - inversion H; subst. cbn. eauto.
  - unfold wb_step_f in H. destruct (negb ok && calls_write b o) eqn:Ef.
    + (* refused by the sink: state unchanged, the operation is not among the effective ones *)
      destruct (wb_run_f b sk ops) as [[[outs1 bf1] sf1] eff1] eqn:Hr. inversion H; subst.
      apply (IH b sk outs1 bf sf eff Hr). intros x Hx. apply Hnf. right. exact Hx.
    + destruct (wb_step b sk o) as [[b' sk']|e|f] eqn:Es.
      * destruct (wb_run_f b' sk' ops) as [[[outs1 bf1] sf1] eff1] eqn:Hr. inversion H; subst.
        destruct (IH b' sk' outs1 bf sf eff1 Hr ltac:(intros x Hx; apply Hnf; right; exact Hx)) as (outs' & Ho).
        cbn [wb_run]. rewrite Es, Ho. eauto.
      * destruct (wb_run_f b sk ops) as [[[outs1 bf1] sf1] eff1] eqn:Hr. inversion H; subst.
        destruct (IH b sk outs1 bf sf eff1 Hr ltac:(intros x Hx; apply Hnf; right; exact Hx)) as (outs' & Ho).
        cbn [wb_run]. rewrite Es, Ho. eauto.
      * inversion H; subst. exfalso. apply (Hnf (WFault f)). left. reflexivity.
Qed.

(** a refused operation changes nothing: repeating it is the same as having made it once *)
Theorem failed_operation_can_be_repeated b sk o :
  calls_write b o = true ->
  let '(outs2, bf2, sf2, _) := wb_run_f b sk [(o, false); (o, true)] in
  let '(outs, bf, sf) := wb_run b sk [o] in
  outs2 = WErr ERuntime :: outs /\ bf2 = bf /\ sf2 = sf.
Proof.
  intros Hc. cbn [wb_run_f wb_run]. unfold wb_step_f. rewrite Hc. cbn [negb andb].
  destruct (wb_step b sk o) as [[b' sk']|e|f]; auto.
Qed.

Example failing_flush_example :
  (* capacity 4: append "ab", a flush that the sink refuses, the same flush again, append "c", flush *)
  let ops := [(WAppend [97; 98]%N, true); (WFlush, false); (WFlush, true); (WAppend [99]%N, true); (WFlush, true)] in
  let '(outs, _, sf, eff) := wb_run_f (wb_init 4) [] ops in
  sf = [[97; 98]; [99]]%N /\ eff = [WAppend [97; 98]%N; WFlush; WAppend [99]%N; WFlush] /\
  outs = [WOk 2; WErr ERuntime; WOk 0; WOk 1; WOk 0].
Proof. vm_compute. repeat split. Qed.
