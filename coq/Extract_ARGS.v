(** Extraction of the runnable argument-handler model, shared by C01-C04 and
    C06-C08 (ExtrOcamlBasic only). *)
From Coq Require Import Extraction ExtrOcamlBasic.
Require Import Celma.Common.Res Celma.ArgH.Key Celma.ArgH.Table Celma.ArgH.Lex Celma.ArgH.Handler
               Celma.ArgH.Split Celma.ArgH.Sources Celma.ArgH.Groups Celma.ArgH.ArgFile Celma.ArgH.SubGroup Celma.ArgH.GroupsGen.
Extraction Language OCaml.
Extraction "../ocaml/gen/args_model.ml" parse_key add_argument eval_sources eval_string split
           file_arg_lines_pinned tokens first next eval_group eval_sources_af eval_sg sg_keys_ok eval_group_sg grp_keys_ok.
