(** Extraction of the runnable C17 model (ExtrOcamlBasic only). *)
From Coq Require Import Extraction ExtrOcamlBasic.
Require Import Celma.Text.TextBlockModel.
Extraction Language OCaml.
Extraction "../ocaml/gen/c17_model.ml" format format_lines.
