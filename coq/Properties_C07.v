(** C07  Arguments from a string, a file or the environment equal the same words on argv.
    Only statements. *)
From Coq Require Import List NArith ZArith Bool.
Import ListNotations.
Require Import Celma.Common.Res Celma.ArgH.Key Celma.ArgH.Lex Celma.ArgH.Handler Celma.ArgH.Split
               Celma.ArgH.SplitProofs Celma.ArgH.Sources Celma.ArgH.Spell Celma.ArgH.SpellProofs.

(** Splitting inverts quoting: for every list of non-empty words (any
    characters, any lengths) escaping each word, joining with a blank and
    splitting yields the same words. *)
Theorem C07_split_join_escape :
  forall ws, Forall (fun w => w <> []) ws -> split (join (map escape ws)) = ws.
Proof. exact split_join_escape. Qed.
Print Assumptions C07_split_join_escape.

(** ... and every other way of quoting: plain characters, backslash + any
    character, segments in single or double quotes (inside which a backslash
    still escapes and everything but the closing quote stands for itself),
    freely mixed within one word. *)
Theorem C07_split_quoted :
  forall ws ss, Forall2 quoted ws ss -> Forall (fun w => w <> []) ws -> split (join ss) = ws.
Proof. exact split_quoted. Qed.
Print Assumptions C07_split_quoted.

(** The three sources are evaluated as one sequence of uses in the order
    file, environment, command line, by the same rules (the same [use_step]);
    only cardinality counting is off for file and environment, so that a later
    value on the command line can override.  For every configuration, every
    lines / environment words / argv that are legal spellings. *)
Theorem C07_sources_one_sequence :
  forall c, fixed_notify c = true ->
  forall inits uss lines envu envw argu argw,
    spell_lines c uss lines -> spell c envu envw -> spell c argu argw ->
    eval_arguments c inits lines (Some envw) argw =
    do s1 <- fold_uses c (init_state c inits) true (concat uss ++ envu);
    do s2 <- fold_uses c s1 false argu;
    do _ <- final_checks c s2; Ok s2.
Proof. exact eval_arguments_sources. Qed.
Print Assumptions C07_sources_one_sequence.

(** the pinned read loop dropped a last line without newline *)
Theorem C07_pinned_last_line_refuted :
  let content := [45; 105; 32; 53]%N in           (* "-i 5" without newline *)
  file_arg_lines_pinned content = [] /\ file_arg_lines content = [[[45; 105]; [53]]]%N.
Proof. split; vm_compute; reflexivity. Qed.
Print Assumptions C07_pinned_last_line_refuted.

(** The file NAMED on the command line (Handler::addArgumentFile, "--arg-file
    <name>"; ArgH/ArgFile.v, ArgFileProofs.v).  [af_use] is the use of that
    argument: first half of its own handling (notifications, cardinality),
    then the file, then the second half (constraints activated).  For every
    file whose argument lines are legal spellings (extended grammar) the file
    is evaluated IN PLACE: its uses are performed one after the other by the
    same step function in read mode "file" (cardinality counting off, values
    may be overridden later), at every nesting depth; the enclosing source
    continues in its own mode.  A missing file is refused.  Without such an
    argument the evaluation is the one of Handler.v. *)
Require Import Celma.ArgH.GenSim Celma.ArgH.HandlerSim Celma.ArgH.ArgFile Celma.ArgH.ArgFileProofs.

Theorem C07_named_file_in_place :
  forall c af d ic s name t uss,
    fixed_notify c = true -> takes_required c (af_idx af) ->
    af_content (af_files af) name = Some t ->
    xspell_lines c uss (file_arg_lines t) ->
    af_use c af (read_file c af (S d)) s ic name =
    do s2 <- af_before c s (af_idx af) ic;
    do s3 <- fold_lines c af (read_file c af d) s2 uss;
    Ok (af_after c s3 (af_idx af)).
Proof. exact arg_file_in_place. Qed.
Print Assumptions C07_named_file_in_place.

(** the words of any source that holds such an argument: the fold over the
    uses, for every legal spelling *)
Theorem C07_named_file_words :
  forall c af sub, fixed_notify c = true -> takes_required c (af_idx af) ->
  forall ic us ws s, xspell c us ws ->
    words_af c af sub s ic ws = gfold nat hstate (af_ustep c af sub ic) s us.
Proof. exact words_af_spelled. Qed.
Print Assumptions C07_named_file_words.

Theorem C07_named_file_missing :
  forall c af d ic s name s2,
    af_content (af_files af) name = None -> af_before c s (af_idx af) ic = Ok s2 ->
    af_use c af (read_file c af (S d)) s ic name = Err ERuntime.
Proof. exact arg_file_missing. Qed.
Print Assumptions C07_named_file_missing.

Theorem C07_named_file_conservative :
  forall c af inits fl env argv,
    (forall k r, lookup c k = Ok r -> is_af af r = false) ->
    eval_arguments_af c af inits fl env argv = eval_arguments c inits fl env argv.
Proof. exact eval_arguments_af_conservative. Qed.
Print Assumptions C07_named_file_conservative.

(** Non-vacuity: -i <int> and --arg-file; environment "--arg-file f1.pa -i 7"
    with f1.pa = "-i 5", then "-i 8" on the command line: accepted, i = 8
    (the value from the environment stays overridable behind the file). *)
Definition nf_cfg : cfg :=
  {| args := [{| a_key := key_of_char 105%N; a_kind := DInt; a_vmode := VMRequired; a_mand := false; a_multi := false;
                 a_sep := 44%N; a_clear := false; a_sort := false; a_uniq := false; a_uniq_err := false; a_checks := [];
                 a_fmts := []; a_card := CardMax 1; a_excl := []; a_req := []; a_depr := false; a_mix := false |};
              {| a_key := {| kc := 0%N; kw := [97; 114; 103; 45; 102; 105; 108; 101]%N |}; a_kind := DStr;
                 a_vmode := VMRequired; a_mand := false; a_multi := false;
                 a_sep := 44%N; a_clear := false; a_sort := false; a_uniq := false; a_uniq_err := false; a_checks := [];
                 a_fmts := []; a_card := CardMax 1; a_excl := []; a_req := []; a_depr := false; a_mix := false |}];
     gcons := []; abbr := true; fixed_notify := true |}.
Definition nf_af : afile :=
  {| af_idx := 1; af_files := [([102; 49; 46; 112; 97]%N, [45; 105; 32; 53; 10]%N)] |}.
Example C07_nonvacuous_named_file :
  exists s, eval_sources_af nf_cfg nf_af [VInt 0; VStr []] None
              (Some [45; 45; 97; 114; 103; 45; 102; 105; 108; 101; 32; 102; 49; 46; 112; 97; 32; 45; 105; 32; 55]%N)
              [[45; 105]; [56]]%N = Ok s /\
            val (nth 0 (arts s) dummy_art) = VInt 8.
Proof. eexists. split; vm_compute; reflexivity. Qed.

Example C07_nonvacuous :
  let ws := [[97; 32; 98]; [39; 34]; [92]]%N in    (* the words: a-blank-b, quote-doublequote, backslash *)
  Forall (fun w => w <> []) ws /\ split (join (map escape ws)) = ws.
Proof. split; [repeat constructor; discriminate|vm_compute; reflexivity]. Qed.

Example C07_nonvacuous_quoted :
  (* the word  a b'c  written as  "a b"\'c  *)
  quoted [97; 32; 98; 39; 99]%N [34; 97; 32; 98; 34; 92; 39; 99]%N.
Proof.
  apply q_open; [right; reflexivity|].
  apply iq_char; [discriminate|discriminate|]. apply iq_char; [discriminate|discriminate|].
  apply iq_char; [discriminate|discriminate|]. apply iq_close; [right; reflexivity|].
  apply q_esc. apply q_plain; [reflexivity|]. apply q_nil.
Qed.
