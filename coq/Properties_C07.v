(** C07  Arguments from a string, a file or the environment equal the same words on argv.
    Only statements. *)
From Coq Require Import List NArith ZArith Bool.
Import ListNotations.
Require Import Celma.Common.Res Celma.ArgH.Key Celma.ArgH.Lex Celma.ArgH.Handler Celma.ArgH.Split
               Celma.ArgH.SplitProofs Celma.ArgH.Sources Celma.ArgH.Spell Celma.ArgH.SpellProofs.

(** Splitting inverts quoting: for every list of non-empty words (any
    characters, any lengths) escaping each word, joining with a blank and
    splitting yields the same words. *)
Theorem C07_split_join_escape :
  forall ws, Forall (fun w => w <> []) ws -> split (join (map escape ws)) = ws.
Proof. exact split_join_escape. Qed.
Print Assumptions C07_split_join_escape.

(** ... and every other way of quoting: plain characters, backslash + any
    character, segments in single or double quotes (inside which a backslash
    still escapes and everything but the closing quote stands for itself),
    freely mixed within one word. *)
Theorem C07_split_quoted :
  forall ws ss, Forall2 quoted ws ss -> Forall (fun w => w <> []) ws -> split (join ss) = ws.
Proof. exact split_quoted. Qed.
Print Assumptions C07_split_quoted.

(** The three sources are evaluated as one sequence of uses in the order
    file, environment, command line, by the same rules (the same [use_step]);
    only cardinality counting is off for file and environment, so that a later
    value on the command line can override.  For every configuration, every
    lines / environment words / argv that are legal spellings. *)
Theorem C07_sources_one_sequence :
  forall c, fixed_notify c = true ->
  forall inits uss lines envu envw argu argw,
    spell_lines c uss lines -> spell c envu envw -> spell c argu argw ->
    eval_arguments c inits lines (Some envw) argw =
    do s1 <- fold_uses c (init_state c inits) true (concat uss ++ envu);
    do s2 <- fold_uses c s1 false argu;
    do _ <- final_checks c s2; Ok s2.
Proof. exact eval_arguments_sources. Qed.
Print Assumptions C07_sources_one_sequence.

(** the pinned read loop dropped a last line without newline *)
Theorem C07_pinned_last_line_refuted :
  let content := [45; 105; 32; 53]%N in           (* "-i 5" without newline *)
  file_arg_lines_pinned content = [] /\ file_arg_lines content = [[[45; 105]; [53]]]%N.
Proof. split; vm_compute; reflexivity. Qed.
Print Assumptions C07_pinned_last_line_refuted.

Example C07_nonvacuous :
  let ws := [[97; 32; 98]; [39; 34]; [92]]%N in    (* the words: a-blank-b, quote-doublequote, backslash *)
  Forall (fun w => w <> []) ws /\ split (join (map escape ws)) = ws.
Proof. split; [repeat constructor; discriminate|vm_compute; reflexivity]. Qed.

Example C07_nonvacuous_quoted :
  (* the word  a b'c  written as  "a b"\'c  *)
  quoted [97; 32; 98; 39; 99]%N [34; 97; 32; 98; 34; 92; 39; 99]%N.
Proof.
  apply q_open; [right; reflexivity|].
  apply iq_char; [discriminate|discriminate|]. apply iq_char; [discriminate|discriminate|].
  apply iq_char; [discriminate|discriminate|]. apply iq_close; [right; reflexivity|].
  apply q_esc. apply q_plain; [reflexivity|]. apply q_nil.
Qed.
