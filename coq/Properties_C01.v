(** C01  Command-line values reach their typed destinations, whatever the spelling.
    Only statements; proofs are [exact]/[apply] of lemmas in ArgH/SpellProofs.v
    and ArgH/UseProofs.v.

    Shape: (A) every legal spelling of an abstract line - short or long key,
    value behind "=", glued to the short key or as the next word, flags grouped
    behind one dash (optionally ending in a value-taking key), any abbreviation
    that the table resolves - is evaluated to the spelling-free semantics
    [fold_uses]; (B) [fold_uses] stores, for each use, the value converted to the
    destination type and leaves the other destinations alone; (C) the words that
    designate an argument are its exact keys and its unambiguous abbreviations
    (link to C05).  Order of distinct arguments: the statement holds for every
    list of uses, i.e. for every order. *)
From Coq Require Import List NArith ZArith Bool.
Import ListNotations.
Require Import Celma.Common.Res Celma.ArgH.Key Celma.ArgH.Table Celma.ArgH.TableProofs Celma.ArgH.Lex
               Celma.ArgH.Handler Celma.ArgH.Spell Celma.ArgH.SpellProofs Celma.ArgH.UseProofs.

(** (A) for every configuration, state, list of uses and every legal spelling
    of it (no bound on lengths): evaluating the words = folding the uses. *)
Theorem C01_spelling_independent :
  forall c, fixed_notify c = true ->
  forall ic us ws s, spell c us ws -> eval_words c s ic ws = fold_uses c s ic us.
Proof. exact eval_words_spelled. Qed.
Print Assumptions C01_spelling_independent.

(** two spellings of the same line give the same outcome and the same destinations *)
Theorem C01_two_spellings_agree :
  forall c, fixed_notify c = true ->
  forall inits us ws1 ws2, spell c us ws1 -> spell c us ws2 ->
    eval_arguments c inits [] None ws1 = eval_arguments c inits [] None ws2.
Proof.
  intros c Hf inits us ws1 ws2 H1 H2. unfold eval_arguments. cbn [eval_lines bind].
  rewrite (eval_words_spelled c Hf false us ws1 _ H1), (eval_words_spelled c Hf false us ws2 _ H2). reflexivity.
Qed.
Print Assumptions C01_two_spellings_agree.

(** (B) what a use stores: the text converted to the destination's type, after
    the checks and formats *)
Theorem C01_value_converted :
  forall c s ic i v s',
    use_step c s ic (UVal i v) = Ok s' -> i < length (arts s) ->
    let d := argdef_of c i in
    match a_kind d with
    | DInt => exists z, run_checks (a_checks d) v = Ok tt /\ lex_int (apply_fmts (a_fmts d) v) = Ok z /\
                        val (nth i (arts s') dummy_art) = VInt z
    | DOptInt => exists z, run_checks (a_checks d) v = Ok tt /\ lex_int (apply_fmts (a_fmts d) v) = Ok z /\
                           val (nth i (arts s') dummy_art) = VOpt (Some z)
    | DStr => run_checks (a_checks d) v = Ok tt /\ val (nth i (arts s') dummy_art) = VStr (apply_fmts (a_fmts d) v)
    | _ => True
    end.
Proof. exact use_step_stores_scalar. Qed.
Print Assumptions C01_value_converted.

Theorem C01_flag_set :
  forall c s ic i s',
    use_step c s ic (UFlag i) = Ok s' -> i < length (arts s) -> a_kind (argdef_of c i) = DBool ->
    val (nth i (arts s') dummy_art) = VBool (v2set (nth i (arts s) dummy_art)).
Proof. exact use_step_stores_flag. Qed.
Print Assumptions C01_flag_set.

(** destinations of arguments that were not used keep their previous value *)
Theorem C01_unused_untouched :
  forall c ic us s s' j,
    fold_uses c s ic us = Ok s' -> ~ In j (map use_index us) ->
    nth j (arts s') dummy_art = nth j (arts s) dummy_art.
Proof. exact fold_uses_frame. Qed.
Print Assumptions C01_unused_untouched.

(** (C) names: the exact long key, the short key and every unambiguous
    abbreviation designate the argument - in every definition order (C05). *)
Theorem C01_long_key_designates :
  forall c i w,
    cfg_ok c -> i < length (args c) -> kw (a_key (argdef_of c i)) = w ->
    plain_long w -> index_of EQSIGN w = None -> long_name c i w.
Proof. exact long_name_exact. Qed.
Print Assumptions C01_long_key_designates.

Theorem C01_short_key_designates :
  forall c i ch,
    cfg_ok c -> i < length (args c) -> kc (a_key (argdef_of c i)) = ch ->
    ch <> 0%N -> ch <> DASH -> short_name c i ch.
Proof. exact short_name_exact. Qed.
Print Assumptions C01_short_key_designates.

Theorem C01_abbreviation_designates :
  forall c i p,
    plain_long p -> index_of EQSIGN p = None ->
    Forall (fun e : key * nat => key_eq (fst e) {| kc := 0%N; kw := p |} = false) (index_table (args c) 0) ->
    map snd (filter (fun e : key * nat => abbr c && key_starts_with (fst e) {| kc := 0%N; kw := p |})
                    (index_table (args c) 0)) = [i] ->
    long_name c i p.
Proof. exact long_name_abbrev. Qed.
Print Assumptions C01_abbreviation_designates.

(** Non-vacuity: a configuration with a flag v, an int -n/--number and a
    string --name; the line  -v --num=5 --name x  and the line  -vn5 --name=x
    are spellings of the same uses and store the same values. *)
Definition ex_flag (k : key) : argdef :=
  {| a_key := k; a_kind := DBool; a_vmode := VMNone; a_mand := false; a_multi := false; a_sep := 44%N;
     a_clear := false; a_sort := false; a_uniq := false; a_uniq_err := false; a_checks := []; a_fmts := [];
     a_card := CardMax 1; a_excl := []; a_req := []; a_depr := false; a_mix := false |}.
Definition ex_val (k : key) (kd : dkind) : argdef :=
  {| a_key := k; a_kind := kd; a_vmode := VMRequired; a_mand := false; a_multi := false; a_sep := 44%N;
     a_clear := false; a_sort := false; a_uniq := false; a_uniq_err := false; a_checks := []; a_fmts := [];
     a_card := CardMax 1; a_excl := []; a_req := []; a_depr := false; a_mix := false |}.
Definition w_number : str := [110; 117; 109; 98; 101; 114]%N.
Definition w_name : str := [110; 97; 109; 101]%N.
Definition ex_cfg : cfg :=
  {| args := [ex_flag (key_of_char 118%N); ex_val {| kc := 110%N; kw := w_number |} DInt;
              ex_val {| kc := 0%N; kw := w_name |} DStr];
     gcons := []; abbr := true; fixed_notify := true |}.
Definition ex_inits := [VBool false; VInt 0; VStr []].
Definition ex_argv1 : list str := [[45; 118]; [45; 45; 110; 117; 109; 61; 53]; [45; 45] ++ w_name; [120]]%N.
Definition ex_argv2 : list str := [[45; 118; 110; 53]; [45; 45] ++ w_name ++ [61; 120]]%N.

Example C01_nonvacuous :
  exists s, eval_arguments ex_cfg ex_inits [] None ex_argv1 = Ok s /\
            eval_arguments ex_cfg ex_inits [] None ex_argv2 = Ok s /\
            map val (arts s) = [VBool true; VInt 5; VStr [120%N]].
Proof. eexists. split; [vm_compute; reflexivity|]. split; vm_compute; reflexivity. Qed.

(* ------------------------------------------------------------------ *)
(** * Extended grammar: free values and "--" (ArgH/GenSim.v, HandlerSim.v)

    An abstract line may also hold free values ([GFree v]: a word that is a
    value on its own).  What a free value does is [free_step]: one more value
    of the argument identified last when that one accepts multiple values, else
    the positional argument's value, else the line is refused.  The legal
    spellings [xspell] are those above plus: a free value as a word of its own,
    and at the end of the line "--" followed by values (which may then start
    with a dash). *)
Require Import Celma.ArgH.GenSim Celma.ArgH.HandlerSim.

Theorem C01_spelling_independent_with_free_values :
  forall c inits us ws1 ws2,
    fixed_notify c = true -> xspell c us ws1 -> xspell c us ws2 ->
    eval_arguments c inits [] None ws1 = eval_arguments c inits [] None ws2.
Proof. exact xspelling_independent. Qed.
Print Assumptions C01_spelling_independent_with_free_values.

Theorem C01_words_are_the_fold_of_their_uses :
  forall c, fixed_notify c = true -> forall ic us ws s,
    xspell c us ws -> eval_words c s ic ws = xfold c s ic us.
Proof. exact xeval_words_spelled. Qed.
Print Assumptions C01_words_are_the_fold_of_their_uses.

(** the extension is conservative: the spellings and the semantics of Spell.v
    are the free-value-less part *)
Theorem C01_extension_conservative :
  forall c us ws, spell c us ws -> xspell c (map embed us) ws /\
  forall ic s, xfold c s ic (map embed us) = fold_uses c s ic us.
Proof. intros c us ws H. split; [apply spell_xspell; exact H|intros; apply xfold_embed]. Qed.
Print Assumptions C01_extension_conservative.

(** where a free value goes *)
Theorem C01_free_value_after_multi_value_argument :
  forall c s ic i v0 s1 v,
    a_multi (argdef_of c i) = true -> use_step c s ic (UVal i v0) = Ok s1 ->
    free_step c s1 ic v = assign_value c s1 i ic v.
Proof. exact free_value_after_multi. Qed.
Print Assumptions C01_free_value_after_multi_value_argument.

Theorem C01_flag_ends_the_value_list :
  forall c s ic i s1 v,
    a_multi (argdef_of c i) = false -> use_step c s ic (UFlag i) = Ok s1 ->
    free_step c s1 ic v = positional_step c s1 ic v.
Proof. exact free_value_after_flag. Qed.
Print Assumptions C01_flag_ends_the_value_list.

(** Non-vacuity: flag -v and multi-value vector -l/--list; the abstract line
    [v; list=1; free 2; free -3] is spelled  -v -l 1 2 -- -3  and
    -vl1 2 -- -3 ; both store [1; 2; -3]. *)
Definition xv_cfg : cfg :=
  {| args := [ex_flag (key_of_char 118%N);
              {| a_key := {| kc := 108%N; kw := [108; 105; 115; 116]%N |}; a_kind := DVecInt; a_vmode := VMRequired;
                 a_mand := false; a_multi := true; a_sep := 44%N; a_clear := false; a_sort := false; a_uniq := false;
                 a_uniq_err := false; a_checks := []; a_fmts := []; a_card := CardNone; a_excl := []; a_req := [];
                 a_depr := false; a_mix := false |}];
     gcons := []; abbr := true; fixed_notify := true |}.
Definition xv_line : list (guse nat) := [GFlag 0; GVal 1 [49%N]; GFree [50%N]; GFree [45; 51]%N].
Definition xv_argv1 : list str := [[45; 118]; [45; 108]; [49]; [50]; [45; 45]; [45; 51]]%N.
Definition xv_argv2 : list str := [[45; 118; 108; 49]; [50]; [45; 45]; [45; 51]]%N.

Example C01_nonvacuous_free_values :
  xspell xv_cfg xv_line xv_argv1 /\ xspell xv_cfg xv_line xv_argv2 /\
  exists s, eval_arguments xv_cfg [VBool false; VInts []] [] None xv_argv1 = Ok s /\
            map val (arts s) = [VBool true; VInts [1; 2; -3]%Z].
Proof.
  assert (Hv : short_name xv_cfg 0 118%N /\ takes_none xv_cfg 0) by (repeat split; try discriminate; vm_compute; auto).
  assert (Hl : short_name xv_cfg 1 108%N) by (split; [discriminate|vm_compute; auto]).
  assert (Hr : takes_required xv_cfg 1) by reflexivity.
  assert (Htail : xspell xv_cfg [GFree [50%N]; GFree [45; 51]%N] [[50]; [45; 45]; [45; 51]]%N).
  { apply gsp_free; [cbn; split; [discriminate|intros [_ H]; discriminate]|].
    apply (gsp_ddash nat _ _ _ _ _ [[45; 51]%N]). repeat constructor. }
  split; [|split].
  - apply (gsp_flags nat _ _ _ _ _ [(0, 118%N)] _ _); [discriminate|repeat constructor; apply Hv|].
    apply (gsp_short_sep nat _ _ _ _ _ [] 1 108%N [49%N]); auto; [constructor|].
    cbn; split; [discriminate|intros [_ H]; discriminate].
  - apply (gsp_glued nat _ _ _ _ _ [(0, 118%N)] 1 108%N [49%N]); auto; [repeat constructor; apply Hv|discriminate].
  - eexists. split; vm_compute; reflexivity.
Qed.

(* ------------------------------------------------------------------ *)
(** * Distinct arguments in any order (ArgH/OrderProofs.v) *)
Require Import Celma.ArgH.OrderProofs.
From Coq Require Import Permutation.

(** every argument used once, the uses in any two orders, both accepted: all
    destinations (and all other run-time attributes of the arguments) end the
    same *)
Theorem C01_order_independent :
  forall c ic us1 us2 s s1 s2,
    Permutation us1 us2 -> NoDup (map use_index us1) ->
    (forall u, In u us1 -> use_index u < length (arts s)) ->
    fold_uses c s ic us1 = Ok s1 -> fold_uses c s ic us2 = Ok s2 ->
    arts s1 = arts s2.
Proof. exact order_independent. Qed.
Print Assumptions C01_order_independent.

(** ... for whole command lines, each order in any of its legal spellings *)
Theorem C01_order_independent_lines :
  forall c inits us1 us2 ws1 ws2 s1 s2,
    fixed_notify c = true ->
    Permutation us1 us2 -> NoDup (map use_index us1) ->
    (forall u, In u us1 -> use_index u < length (args c)) -> length inits = length (args c) ->
    spell c us1 ws1 -> spell c us2 ws2 ->
    eval_arguments c inits [] None ws1 = Ok s1 -> eval_arguments c inits [] None ws2 = Ok s2 ->
    map val (arts s1) = map val (arts s2).
Proof. exact order_independent_lines. Qed.
Print Assumptions C01_order_independent_lines.

(** Non-vacuity: the example line in the order  --name=x -n5 -v  *)
Definition ex_argv3 : list str := [[45; 45] ++ w_name ++ [61; 120]; [45; 110; 53]; [45; 118]]%N.
Example C01_nonvacuous_order :
  exists s1 s3, eval_arguments ex_cfg ex_inits [] None ex_argv1 = Ok s1 /\
                eval_arguments ex_cfg ex_inits [] None ex_argv3 = Ok s3 /\
                map val (arts s1) = map val (arts s3) /\
                Permutation [UFlag 0; UVal 1 [53%N]; UVal 2 [120%N]] [UVal 2 [120%N]; UVal 1 [53%N]; UFlag 0].
Proof.
  eexists. eexists. split; [vm_compute; reflexivity|]. split; [vm_compute; reflexivity|]. split; [reflexivity|].
  apply Permutation_rev.
Qed.

(* ------------------------------------------------------------------ *)
(** * Arguments with an optional value (level counters) in the extended grammar

    [xspell] also holds: the key alone when no value follows (end of the line or
    a key word), the same key several times behind one dash (-vvv), the key
    with its value (--verbose=3, --verbose 3, -v 3).  The theorems
    C01_spelling_independent_with_free_values and
    C01_words_are_the_fold_of_their_uses above quantify over these spellings
    too.  Non-vacuity: a level counter -v/--verbose and a flag -x; the line
    [v; v; v; x] spelled  -vvv -x  and  -v --verbose -v -x ; the line
    [v=3; x] spelled  -v 3 -x  and  --verbose=3 -x . *)
Definition lc_cfg : cfg :=
  {| args := [{| a_key := {| kc := 118%N; kw := [118; 101; 114; 98; 111; 115; 101]%N |}; a_kind := DLevel;
                 a_vmode := VMOptional; a_mand := false; a_multi := false; a_sep := 44%N; a_clear := false;
                 a_sort := false; a_uniq := false; a_uniq_err := false; a_checks := []; a_fmts := [];
                 a_card := CardNone; a_excl := []; a_req := []; a_depr := false; a_mix := false |};
              ex_flag (key_of_char 120%N)];
     gcons := []; abbr := true; fixed_notify := true |}.
Definition w_verbose : str := [118; 101; 114; 98; 111; 115; 101]%N.

Example C01_nonvacuous_optional_value :
  xspell lc_cfg [GFlag 0; GFlag 0; GFlag 0; GFlag 1] [[45; 118; 118; 118]; [45; 120]]%N /\
  xspell lc_cfg [GFlag 0; GFlag 0; GFlag 0; GFlag 1] [[45; 118]; [45; 45] ++ w_verbose; [45; 118]; [45; 120]]%N /\
  xspell lc_cfg [GVal 0 [51%N]; GFlag 1] [[45; 118]; [51]; [45; 120]]%N /\
  xspell lc_cfg [GVal 0 [51%N]; GFlag 1] [[45; 45] ++ w_verbose ++ [61; 51]; [45; 120]]%N /\
  (exists s, eval_arguments lc_cfg [VLevel 0 false; VBool false] [] None [[45; 118; 118; 118]; [45; 120]]%N = Ok s /\
             map val (arts s) = [VLevel 3 false; VBool true]) /\
  (exists s, eval_arguments lc_cfg [VLevel 0 false; VBool false] [] None [[45; 118]; [51]; [45; 120]]%N = Ok s /\
             map val (arts s) = [VLevel 3 true; VBool true]).
Proof.
  assert (Hv : short_name lc_cfg 0 118%N) by (split; [discriminate|vm_compute; auto]).
  assert (Hl : long_name lc_cfg 0 w_verbose).
  { split; [discriminate|]. split; [reflexivity|]. eexists. split; vm_compute; reflexivity. }
  assert (Ho : takes_optional lc_cfg 0) by reflexivity.
  assert (Hx : xspell lc_cfg [GFlag 1] [[45; 120]%N]).
  { apply (gsp_flags nat _ _ _ _ _ [(1, 120%N)] [] []); [discriminate| |constructor].
    repeat constructor; cbn; try discriminate; vm_compute; auto. }
  assert (Hkw : nva [[45; 120]%N]) by (exists 120%N, []; split; [reflexivity|left; discriminate]).
  split; [|split; [|split; [|split; [|split]]]].
  - apply (gsp_short_opt_rep nat _ _ _ _ _ 0 118%N 2 [GFlag 1] [[45; 120]%N]); auto.
  - apply (gsp_short_opt_rep nat _ _ _ _ _ 0 118%N 0); auto.
    + exists DASH, w_verbose. split; [reflexivity|right; discriminate].
    + apply gsp_long_opt_none; auto.
      * exists 118%N, []. split; [reflexivity|left; discriminate].
      * apply (gsp_short_opt_rep nat _ _ _ _ _ 0 118%N 0 [GFlag 1] [[45; 120]%N]); auto.
  - apply gsp_short_opt_sep; auto. cbn. split; [discriminate|intros [_ H]; discriminate].
  - apply gsp_long_opt_eq; auto.
  - eexists. split; vm_compute; reflexivity.
  - eexists. split; vm_compute; reflexivity.
Qed.
