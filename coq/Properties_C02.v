(** C02  No command line that breaks a declared rule is silently accepted.
    Only statements; proofs are [exact <lemma of ArgH/HandlerProofs.v>].

    Rule form: whenever the model of Handler::evalArguments returns normally,
    the rules have been checked.  The end-of-line rules are stated on the final
    state; the per-element rules on the single evaluation step, which the
    iteration applies to every element of the command line (an error of a step
    ends the evaluation: [iterate] is a fold of [bind]). *)
From Coq Require Import List NArith ZArith Bool.
Import ListNotations.
Require Import Celma.Common.Res Celma.ArgH.Key Celma.ArgH.Table Celma.ArgH.Lex Celma.ArgH.Handler
               Celma.ArgH.HandlerProofs Celma.ArgH.Spell Celma.ArgH.RulesProofs.

(** Normal return of evalArguments (any sources, any configuration, any words)
    implies: every mandatory argument holds a value, no cardinality is short
    of its minimum / exact count, no "requires" is pending, every all-of list
    is used up, every one-of list was used. *)
Theorem C02_accepted_passed_final_rules :
  forall c inits fl env argv s,
    eval_arguments c inits fl env argv = Ok s ->
    Forall2 (fun d a => (a_mand d = true -> hasval a = true) /\ card_end (a_card d) (cnt a) = Ok tt)
            (firstn (length (arts s)) (args c)) (firstn (length (args c)) (arts s)) /\
    Forall (fun e => fst e <> KRequired) (pend s) /\
    Forall2 (gc_satisfied (arts s)) (firstn (length (gsts s)) (gcons c)) (firstn (length (gcons c)) (gsts s)).
Proof. intros c inits fl env argv s H. apply final_checks_ok. eapply eval_arguments_final. exact H. Qed.
Print Assumptions C02_accepted_passed_final_rules.

(** A key that designates no argument is not consumed (the iteration then
    throws invalid_argument). *)
Theorem C02_unknown_key :
  forall c s ic k cur, lookup c k = Ok None -> exists s', process_arg c s ic k cur = Ok (AUnknown, s', cur).
Proof. exact process_unknown. Qed.
Print Assumptions C02_unknown_key.

(** An argument that requires a value and is not followed by one never succeeds. *)
Theorem C02_missing_value :
  forall c s ic k cur i,
    lookup c k = Ok (Some i) ->
    a_vmode (nth i (args c) dummy_def) = VMRequired ->
    (forall v it2, next true cur <> Ok (Some (EVal v, it2))) ->
    (exists e, process_arg c s ic k cur = Err e) \/ (exists f, process_arg c s ic k cur = Fault f).
Proof. exact missing_value_rejected. Qed.
Print Assumptions C02_missing_value.

(** A value is stored only after it passed every attached check and converted
    to the destination type. *)
Theorem C02_value_checked_and_converted :
  forall d a v a',
    assign d a v = Ok a' ->
    match a_kind d with
    | DInt | DOptInt => run_checks (a_checks d) v = Ok tt /\ exists z, lex_int (apply_fmts (a_fmts d) v) = Ok z /\
                        (val a' = VInt z \/ val a' = VOpt (Some z))
    | DStr => run_checks (a_checks d) v = Ok tt /\ val a' = VStr (apply_fmts (a_fmts d) v)
    | _ => True
    end.
Proof. exact assign_scalar_checked. Qed.
Print Assumptions C02_value_checked_and_converted.

Theorem C02_check_lower_inclusive :
  forall z s v, lex_int s = Ok v -> (run_check (CLower z) s = Ok tt <-> (z <= v)%Z).
Proof. exact check_lower_inclusive. Qed.
Print Assumptions C02_check_lower_inclusive.

Theorem C02_check_upper_exclusive :
  forall z s v, lex_int s = Ok v -> (run_check (CUpper z) s = Ok tt <-> (v < z)%Z).
Proof. exact check_upper_exclusive. Qed.
Print Assumptions C02_check_upper_exclusive.

Theorem C02_check_range_half_open :
  forall lo hi s v, lex_int s = Ok v -> (run_check (CRange lo hi) s = Ok tt <-> (lo <= v < hi)%Z).
Proof. exact check_range_half_open. Qed.
Print Assumptions C02_check_range_half_open.

(** No argument is counted beyond its cardinality. *)
Theorem C02_cardinality_bound :
  forall c n n',
    card_got c n = Ok n' ->
    match c with
    | CardNone => n' = n
    | CardMax m => m = (-1)%Z /\ n' = n \/ (n' = n + 1 /\ n' <= m)%Z
    | CardExact m => (n' = n + 1 /\ n' <= m)%Z
    | CardRange _ hi => (n' = n + 1 /\ (hi = -1 \/ n' <= hi))%Z
    end.
Proof. exact card_got_bound. Qed.
Print Assumptions C02_cardinality_bound.

(** The pinned tree did not count the values of a cardinality range with an
    unlimited maximum, so its minimum was never enforced (found on the
    unchanged tree, repaired). *)
Theorem C02_pinned_range_minimum_refuted :
  (do n1 <- card_got_pinned (CardRange 2 (-1)) 0; card_end (CardRange 2 (-1)) n1) = Ok tt /\
  (do n1 <- card_got (CardRange 2 (-1)) 0; card_end (CardRange 2 (-1)) n1) = Err ERuntime /\
  (do n1 <- card_got (CardRange 2 (-1)) 0; do n2 <- card_got (CardRange 2 (-1)) n1; card_end (CardRange 2 (-1)) n2) = Ok tt.
Proof. exact pinned_range_minimum_refuted. Qed.
Print Assumptions C02_pinned_range_minimum_refuted.

(** An argument excluded by an argument used earlier is refused in every
    spelling (repaired notification: the argument's own key is compared). *)
Theorem C02_excluded_rejected :
  forall c s i ckey ic v ek,
    fixed_notify c = true ->
    In (KExcluded, ek) (pend s) -> key_eq ek (a_key (nth i (args c) dummy_def)) = true ->
    handle_identified c s i ckey ic v = Err ERuntime.
Proof. exact excluded_rejected. Qed.
Print Assumptions C02_excluded_rejected.

(** The notification of the pinned tree (key as spelled) violates the
    property: '-l --right' is accepted although 'l,left' excludes 'r'. *)
Theorem C02_pinned_notify_refuted :
  is_ok (eval_arguments (cfg_lr false) [VBool false; VBool false] [] None argv_l_right) = true /\
  eval_arguments (cfg_lr true) [VBool false; VBool false] [] None argv_l_right = Err ERuntime.
Proof. exact pinned_notify_accepts_excluded. Qed.
Print Assumptions C02_pinned_notify_refuted.

(** Grammar form (closes the loop with C01): for every configuration whose
    requires/excludes specifications name each argument in one way, every list
    of uses and EVERY legal spelling of it - if evaluation returns normally,
    the abstract line obeys all declared rules ([rules], ArgH/RulesProofs.v):
    every key designates a defined argument; every mandatory argument is used
    (or its destination already held a value); every value passes its checks
    and converts; no argument is used more often than its cardinality allows;
    no argument is used after one that excludes it; every argument required by
    a used argument is used after it; every all_of / any_of / one_of constraint
    is met; differ / disjoint hold on the final values. *)
Theorem C02_accepted_obeys_rules :
  forall c inits us ws s',
    fixed_notify c = true -> RulesProofs.specs_canonical c -> length inits = length (args c) ->
    Spell.spell c us ws -> eval_arguments c inits [] None ws = Ok s' ->
    RulesProofs.rules c inits us s'.
Proof. exact RulesProofs.accepted_obeys_rules. Qed.
Print Assumptions C02_accepted_obeys_rules.

(** Non-vacuity: the hypotheses are met by the configuration of
    C02_pinned_notify_refuted (l excludes r) with the accepted line "-r". *)
Example C02_nonvacuous :
  fixed_notify (cfg_lr true) = true /\ RulesProofs.specs_canonical (cfg_lr true) /\
  is_ok (eval_arguments (cfg_lr true) [VBool false; VBool false] [] None [[45; 114]]%N) = true.
Proof.
  split; [reflexivity|]. split; [|vm_compute; reflexivity].
  intros k1 k2 H1 H2 _. cbn in H1, H2. destruct H1 as [<-|[]]. destruct H2 as [<-|[]]. reflexivity.
Qed.

(* ------------------------------------------------------------------ *)
(** * Sub-group arguments (ArgH/SubGroup.v, SubGroupProofs.v)

    A sub-group argument hands the following elements to its own handler as
    long as that handler consumes them.  What it does not know is not lost: the
    iterator handed back to the main handler delivers exactly that element
    next (or the end), so an unknown argument or a stray value behind a
    sub-group key is refused like anywhere else.  The pinned code skipped it
    (found by the tie on sub-group cases, repaired: "fix: the argument behind a
    sub-group argument is no longer skipped ..."). *)
Require Import Celma.ArgH.SubGroup Celma.ArgH.SubGroupProofs.

Theorem C02_subgroup_leaves_the_unknown_element :
  forall cs fuel s ai s' ai',
    sub_take fuel cs s ai = Ok (s', ai') ->
    next false ai' = Ok None \/
    exists e it_e s0 i1, next false ai' = Ok (Some (e, it_e)) /\
                         eval_single cs s0 false e it_e = Ok (AUnknown, s', i1).
Proof. exact sub_take_stops. Qed.
Print Assumptions C02_subgroup_leaves_the_unknown_element.

Theorem C02_subgroup_nothing_consumed :
  forall cs f s cur e it_e s1 i1,
    next false cur = Ok (Some (e, it_e)) -> eval_single cs s false e it_e = Ok (AUnknown, s1, i1) ->
    sub_take (S f) cs s cur = Ok (s1, cur).
Proof. exact sub_take_nothing. Qed.
Print Assumptions C02_subgroup_nothing_consumed.

(** the pinned behaviour: "-o -x" (unknown -x behind the sub-group key -o) was
    accepted and "-o -x -v" set -v; both are refused now *)
Theorem C02_pinned_subgroup_refuted :
  is_ok (eval_sg true sgx_cfg [VBool false] [[VBool false]] argv_o_x) = true /\
  eval_sg false sgx_cfg [VBool false] [[VBool false]] argv_o_x = Err EInvalidArgument /\
  (exists st, eval_sg true sgx_cfg [VBool false] [[VBool false]] argv_o_x_v = Ok st /\
              map val (arts (sm st)) = [VBool true]) /\
  eval_sg false sgx_cfg [VBool false] [[VBool false]] argv_o_x_v = Err EInvalidArgument.
Proof. exact pinned_subgroup_refuted. Qed.
Print Assumptions C02_pinned_subgroup_refuted.

(** without sub-group arguments the extended loop is the loop of Handler.v *)
Theorem C02_subgroup_conservative :
  forall c, sg_subs c = [] -> forall pinned ic fuel st cur,
    loop_sg pinned c fuel st ic cur =
    do m <- iterate fuel (sg_main c) (sm st) ic cur; Ok {| sm := m; ss := ss st; scnt := scnt st; scal := scal st |}.
Proof. exact loop_sg_conservative. Qed.
Print Assumptions C02_subgroup_conservative.

(** The rules set on a sub-group argument itself (setIsMandatory, setCardinality):
    a normal return implies that every mandatory sub-group argument was used and
    that the number of uses of each satisfies its cardinality. *)
Theorem C02_subgroup_argument_rules :
  forall pinned c inits sub_inits argv st,
    eval_sg pinned c inits sub_inits argv = Ok st ->
    forall j m cd, nth_error (sg_rules c) j = Some (m, cd) -> j < length (scnt st) -> j < length (scal st) ->
      (m = true -> nth j (scal st) false = true) /\ card_end cd (nth j (scnt st) 0%Z) = Ok tt.
Proof. exact eval_sg_obeys_sub_rules. Qed.
Print Assumptions C02_subgroup_argument_rules.
