(** C13 - executable model of the hand-written parts of the integer-to-string
    code: the wrappers around intN_str_length() / convert() (whose tables are
    regenerated into Int2StrGen.v), the inline sign dispatch of the detail
    headers, the tag dispatch of int2string.hpp / grouped_int2string.hpp and
    stringTo<T>() of string_to.hpp.  Mirrors the code statement by statement;
    no proofs here.

    Integers travel as bit patterns [pat < 2^bits] plus a signedness flag, the
    way the harness and the driver exchange them; [to_Z] gives the value. *)
From Coq Require Import List NArith ZArith Bool.
Import ListNotations.
Require Import Celma.Common.Res Celma.Int2Str.Int2StrIR Celma.Int2Str.Int2StrGen.

Local Open Scope Z_scope.

(** value of a bit pattern of an integer type *)
Definition to_Z (bits : N) (sg : bool) (pat : N) : Z :=
  if sg && (2 ^ (bits - 1) <=? pat)%N then Z.of_N pat - 2 ^ Z.of_N bits else Z.of_N pat.

(** conversion of an integer to an unsigned type of [bits] bits *)
Definition to_uint (bits : N) (z : Z) : N := Z.to_N (z mod 2 ^ Z.of_N bits).

(** intN_str_length( value): static_cast, decision tree, uint8_t result *)
Definition str_length (c : conv) (v : N) : N :=
  to_char (eval_tree (cv_tree c) (v mod 2 ^ cv_tbits c)%N).

(** grouped_result_len = result_len + (result_len - 1) / 3  (int arithmetic,
    stored in a uint8_t) *)
Definition grouped_len (len : N) : N :=
  Z.to_N ((Z.of_N len + Z.quot (Z.of_N len - 1) 3) mod 256).

(** *** string variants *)

(** std::string uintNtoString( uintN_t value) *)
Definition u_to_string (c : conv) (v : N) : res (list N) :=
  let len := str_length c v in
  let result := repeat 48%N (N.to_nat len) in
  run_convert (cv_plain c) 0 result (Z.of_N len - 1) v len.

(** std::string intNnegToString( intN_t value) *)
Definition neg_to_string (c : conv) (z : Z) : res (list N) :=
  let abs_value := to_uint (cv_bits c) (- z) in
  let len := str_length c abs_value in
  let result := repeat 45%N (N.to_nat len + 1) in
  run_convert (cv_plain c) 0 result (Z.of_N len) abs_value len.

(** inline std::string intNtoString( intN_t value) *)
Definition s_to_string (c : conv) (z : Z) : res (list N) :=
  if z <? 0 then neg_to_string c z
  else if z =? 0 then Ok [48%N]
  else u_to_string c (to_uint (cv_bits c) z).

Definition gu_to_string (c : conv) (v : N) (sep : N) : res (list N) :=
  let len := str_length c v in
  let glen := grouped_len len in
  let result := repeat 48%N (N.to_nat glen) in
  run_convert (cv_grouped c) sep result (Z.of_N glen - 1) v len.

Definition gneg_to_string (c : conv) (z : Z) (sep : N) : res (list N) :=
  let abs_value := to_uint (cv_bits c) (- z) in
  let len := str_length c abs_value in
  let glen := grouped_len len in
  let result := repeat 45%N (N.to_nat glen + 1) in
  run_convert (cv_grouped c) sep result (Z.of_N glen) abs_value len.

Definition gs_to_string (c : conv) (z : Z) (sep : N) : res (list N) :=
  if z <? 0 then gneg_to_string c z sep
  else if z =? 0 then Ok [48%N]
  else gu_to_string c (to_uint (cv_bits c) z) sep.

(** *** buffer variants: the caller's buffer is a byte list of its real size;
    every store is checked against it; result = (return value, buffer) *)

(** int uintNtoString( char* buffer, uintN_t value) *)
Definition u_to_buffer (c : conv) (buf : list N) (v : N) : res (Z * list N) :=
  let len := str_length c v in
  do b1 <- wr buf (Z.of_N len) 0;
  do b2 <- run_convert (cv_plain c) 0 b1 (Z.of_N len - 1) v len;
  Ok (Z.of_N len, b2).

(** int intNnegToString( char* buffer, intN_t value) *)
Definition neg_to_buffer (c : conv) (buf : list N) (z : Z) : res (Z * list N) :=
  let abs_value := to_uint (cv_bits c) (- z) in
  let len := str_length c abs_value in
  do b1 <- wr buf (Z.of_N len + 1) 0;
  do b2 <- run_convert (cv_plain c) 0 b1 (Z.of_N len) abs_value len;
  do b3 <- wr b2 0 45;
  Ok (Z.of_N len + 1, b3).

(** ::strcpy( buffer, "0"); return 1; *)
Definition zero_to_buffer (buf : list N) : res (Z * list N) :=
  do b1 <- wr buf 0 48;
  do b2 <- wr b1 1 0;
  Ok (1, b2).

Definition s_to_buffer (c : conv) (buf : list N) (z : Z) : res (Z * list N) :=
  if z <? 0 then neg_to_buffer c buf z
  else if z =? 0 then zero_to_buffer buf
  else u_to_buffer c buf (to_uint (cv_bits c) z).

Definition gu_to_buffer (c : conv) (buf : list N) (v : N) (sep : N) : res (Z * list N) :=
  let len := str_length c v in
  let glen := grouped_len len in
  do b1 <- wr buf (Z.of_N glen) 0;
  do b2 <- run_convert (cv_grouped c) sep b1 (Z.of_N glen - 1) v len;
  Ok (Z.of_N glen, b2).

Definition gneg_to_buffer (c : conv) (buf : list N) (z : Z) (sep : N) : res (Z * list N) :=
  let abs_value := to_uint (cv_bits c) (- z) in
  let len := str_length c abs_value in
  let glen := grouped_len len in
  do b1 <- wr buf (Z.of_N glen + 1) 0;
  do b2 <- run_convert (cv_grouped c) sep b1 (Z.of_N glen) abs_value len;
  do b3 <- wr b2 0 45;
  Ok (Z.of_N glen + 1, b3).

Definition gs_to_buffer (c : conv) (buf : list N) (z : Z) (sep : N) : res (Z * list N) :=
  if z <? 0 then gneg_to_buffer c buf z sep
  else if z =? 0 then zero_to_buffer buf
  else gu_to_buffer c buf (to_uint (cv_bits c) z) sep.

(** *** public API: tag dispatch on sizeof(T) and signedness *)
Definition conv_of (bits : N) : conv :=
  if (bits =? 8)%N then conv_8 else if (bits =? 16)%N then conv_16
  else if (bits =? 32)%N then conv_32 else conv_64.

Definition int2string (bits : N) (sg : bool) (pat : N) : res (list N) :=
  if sg then s_to_string (conv_of bits) (to_Z bits true pat)
  else u_to_string (conv_of bits) pat.

Definition int2string_buf (bits : N) (sg : bool) (buf : list N) (pat : N) : res (Z * list N) :=
  if sg then s_to_buffer (conv_of bits) buf (to_Z bits true pat)
  else u_to_buffer (conv_of bits) buf pat.

Definition grouped_int2string (bits : N) (sg : bool) (pat : N) (sep : N) : res (list N) :=
  if sg then gs_to_string (conv_of bits) (to_Z bits true pat) sep
  else gu_to_string (conv_of bits) pat sep.

Definition grouped_int2string_buf (bits : N) (sg : bool) (buf : list N) (pat : N) (sep : N)
  : res (Z * list N) :=
  if sg then gs_to_buffer (conv_of bits) buf (to_Z bits true pat) sep
  else gu_to_buffer (conv_of bits) buf pat sep.

(** *** stringTo<T>( str): std::stoi / stol / stoul and the conversion of their
    result to T.  strtol-style scan: white space, optional sign, decimal
    digits (base 10 is passed explicitly by the std:: functions), stop at the
    first other character. *)
Definition is_space (b : N) : bool := ((b =? 32) || ((9 <=? b) && (b <=? 13)))%N.
Definition is_digit (b : N) : bool := ((48 <=? b) && (b <=? 57))%N.

Fixpoint skip_space (s : list N) : list N :=
  match s with
  | b :: r => if is_space b then skip_space r else s
  | [] => []
  end.

(** accumulated magnitude and whether a digit was seen *)
Fixpoint scan_digits (s : list N) (acc : N) (any : bool) : N * bool :=
  match s with
  | b :: r => if is_digit b then scan_digits r (acc * 10 + (b - 48))%N true else (acc, any)
  | [] => (acc, any)
  end.

(** (negative?, magnitude) or invalid_argument when there is no digit *)
Definition scan_int (s : list N) : res (bool * N) :=
  let s1 := skip_space s in
  let '(neg, s2) := match s1 with
                    | b :: r => if (b =? 45)%N then (true, r)
                                else if (b =? 43)%N then (false, r) else (false, s1)
                    | [] => (false, s1)
                    end in
  let '(m, any) := scan_digits s2 0%N false in
  if any then Ok (neg, m) else Err EInvalidArgument.

(** strtol: ERANGE outside long *)
Definition c_strtol (s : list N) : res Z :=
  do (neg, m) <- scan_int s;
  let z := if neg then - Z.of_N m else Z.of_N m in
  if (z <? - 2 ^ 63) || (2 ^ 63 - 1 <? z) then Err EOutOfRange else Ok z.

(** strtoul: ERANGE when the magnitude exceeds unsigned long; a minus sign
    negates in unsigned long *)
Definition c_strtoul (s : list N) : res Z :=
  do (neg, m) <- scan_int s;
  if (2 ^ 64 - 1 <? Z.of_N m) then Err EOutOfRange
  else Ok (if neg then (- Z.of_N m) mod 2 ^ 64 else Z.of_N m).

(** std::stoi additionally refuses what does not fit int *)
Definition std_stoi (s : list N) : res Z :=
  do z <- c_strtol s;
  if (z <? - 2 ^ 31) || (2 ^ 31 - 1 <? z) then Err EOutOfRange else Ok z.

(** result of stringTo<T> as the bit pattern of T
    (S2 table: 8/16 bit and int32_t: stoi, uint32_t/uint64_t: stoul, int64_t: stol) *)
Definition string_to (bits : N) (sg : bool) (s : list N) : res N :=
  do z <- (if (bits =? 64)%N then (if sg then c_strtol s else c_strtoul s)
           else if (bits =? 32)%N then (if sg then std_stoi s else c_strtoul s)
           else std_stoi s);
  Ok (to_uint bits z).
