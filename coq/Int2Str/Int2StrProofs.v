(** C13 - proofs: decimal-text lemmas, soundness of the two checkers, the
    wrappers, the round trip. *)
From Coq Require Import List NArith ZArith Bool Arith Lia ZifyNat ZifyN ZifyBool.
Import ListNotations.
Require Import Celma.Common.Res Celma.Common.ListX Celma.Common.Tactics.
Require Import Celma.Int2Str.Int2StrIR Celma.Int2Str.Int2StrSpec Celma.Int2Str.Int2StrModel
               Celma.Int2Str.Int2StrCheck.

Local Open Scope N_scope.

(** * decimal text *)

Lemma pow10_succ (k : nat) : 10 ^ N.of_nat (S k) = 10 * 10 ^ N.of_nat k.
Proof. rewrite Nat2N.inj_succ, N.pow_succ_r'. reflexivity. Qed.

Lemma pow10_pos (k : nat) : 0 < 10 ^ N.of_nat k.
Proof. apply N.neq_0_lt_0. apply N.pow_nonzero. discriminate. Qed.

Lemma digit_succ v e : digit v (S e) = digit (v / 10) e.
Proof.
  unfold digit. rewrite pow10_succ, <- N.div_div; try discriminate.
  - reflexivity.
  - apply N.pow_nonzero. discriminate.
Qed.

Lemma digit_0 v : digit v 0 = 48 + v mod 10.
Proof. unfold digit. change (N.of_nat 0) with 0. rewrite N.pow_0_r, N.div_1_r. reflexivity. Qed.

Lemma rdigits_char : forall f v,
    (1 <= f)%nat -> v < 10 ^ N.of_nat f ->
    exists k, (1 <= k <= f)%nat /\ rdigits f v = map (digit v) (seq 0 k) /\
              v < 10 ^ N.of_nat k /\ (k = 1%nat \/ 10 ^ N.of_nat (k - 1) <= v).
Proof.
  induction f as [|f IH]; intros v Hf Hv; [lia|].
  cbn [rdigits]. destruct (v / 10 =? 0) eqn:E.
  - apply N.eqb_eq in E. exists 1%nat. splits; try lia.
    + cbn [seq map]. rewrite digit_0. reflexivity.
  - apply N.eqb_neq in E.
    assert (H10 : 10 <= v).
    { destruct (N.lt_ge_cases v 10) as [L|L]; [|exact L]. rewrite N.div_small in E by exact L. congruence. }
    rewrite pow10_succ in Hv.
    assert (Hf' : (1 <= f)%nat).
    { destruct f; [|lia]. cbn in Hv. lia. }
    assert (Hq : v / 10 < 10 ^ N.of_nat f).
    { apply N.div_lt_upper_bound; [discriminate|exact Hv]. }
    destruct (IH (v / 10) Hf' Hq) as (k & Hk & Hr & Hub & Hlb).
    exists (S k). splits; try lia.
    + rewrite Hr. cbn [seq map]. f_equal.
      * rewrite digit_0. reflexivity.
      * rewrite <- seq_shift, map_map. apply map_ext. intros e. symmetry. apply digit_succ.
    + rewrite pow10_succ.
      pose proof (N.div_mod v 10 ltac:(discriminate)). pose proof (N.mod_lt v 10 ltac:(discriminate)). lia.
    + right. replace (S k - 1)%nat with k by lia.
      pose proof (N.div_mod v 10 ltac:(discriminate)).
      destruct Hlb as [->|Hlb].
      * change (10 ^ N.of_nat 1) with 10. lia.
      * replace k with (S (k - 1)) by lia. rewrite pow10_succ. lia.
Qed.

Lemma fuel_enough v : v < 10 ^ N.of_nat (S (N.to_nat (N.log2 v))).
Proof.
  rewrite Nat2N.inj_succ, N2Nat.id.
  destruct (N.eq_dec v 0) as [->|Hv]; [reflexivity|].
  destruct (N.log2_spec v) as [_ H]; [lia|].
  eapply N.lt_le_trans; [exact H|]. apply N.pow_le_mono_l. lia.
Qed.

Lemma dec_char v :
  exists k, (1 <= k)%nat /\ rev (dec v) = map (digit v) (seq 0 k) /\ ndigits v = k /\
            v < 10 ^ N.of_nat k /\ (k = 1%nat \/ 10 ^ N.of_nat (k - 1) <= v).
Proof.
  destruct (rdigits_char (S (N.to_nat (N.log2 v))) v ltac:(lia) (fuel_enough v)) as (k & Hk & Hr & Hub & Hlb).
  exists k. unfold ndigits, dec. rewrite rev_involutive, rev_length, Hr, map_length, seq_length.
  splits; auto; lia.
Qed.

Lemma pow10_mono (a b : nat) : (a <= b)%nat -> 10 ^ N.of_nat a <= 10 ^ N.of_nat b.
Proof. intros. apply N.pow_le_mono_r; lia. Qed.

Lemma ndigits_unique v n :
  (1 <= n)%nat -> v < 10 ^ N.of_nat n -> (n = 1%nat \/ 10 ^ N.of_nat (n - 1) <= v) -> ndigits v = n.
Proof.
  intros Hn Hub Hlb. destruct (dec_char v) as (k & Hk & _ & Hnd & Kub & Klb). rewrite Hnd.
  destruct (Nat.lt_trichotomy k n) as [L|[E|L]]; [|exact E|]; exfalso.
  - destruct Hlb as [->|Hlb]; [lia|]. pose proof (pow10_mono k (n - 1) ltac:(lia)). lia.
  - destruct Klb as [->|Klb]; [lia|]. pose proof (pow10_mono n (k - 1) ltac:(lia)). lia.
Qed.

Lemma ndigits_pos v : (1 <= ndigits v)%nat.
Proof. destruct (dec_char v) as (k & Hk & _ & Hnd & _). lia. Qed.

Lemma ndigits_mono a b : a <= b -> (ndigits a <= ndigits b)%nat.
Proof.
  intros H. destruct (dec_char a) as (ka & _ & _ & Ha & _ & La).
  destruct (dec_char b) as (kb & Hkb & _ & Hb & Ub & _). rewrite Ha, Hb.
  destruct (Nat.le_gt_cases ka kb) as [L|L]; [exact L|exfalso].
  destruct La as [->|La]; [lia|]. pose proof (pow10_mono kb (ka - 1) ltac:(lia)). lia.
Qed.

Lemma dec_eq v : dec v = rev (map (digit v) (seq 0 (ndigits v))).
Proof.
  destruct (dec_char v) as (k & _ & Hr & Hnd & _). rewrite Hnd, <- Hr, rev_involutive. reflexivity.
Qed.

(** * the interval checker for the decision trees *)

Lemma tree_ok_sound : forall t lo hi v,
    tree_ok lo hi t = true -> lo <= v -> v < hi ->
    eval_tree t v = N.of_nat (ndigits v) /\ eval_tree t v < 256.
Proof.
  induction t as [n|c a IHa b IHb]; intros lo hi v Hok Hlo Hhi; cbn [tree_ok eval_tree] in *.
  - apply orb_true_iff in Hok. destruct Hok as [H|H]; [apply N.leb_le in H; lia|].
    repeat (apply andb_true_iff in H; destruct H as [H ?]).
    apply N.leb_le in H. apply N.ltb_lt in H2. apply N.leb_le in H0.
    assert (Hn : ndigits v = N.to_nat n).
    { apply ndigits_unique; [lia| rewrite N2Nat.id; lia|].
      apply orb_true_iff in H1. destruct H1 as [H1|H1].
      - apply N.eqb_eq in H1. left. subst n. reflexivity.
      - apply N.leb_le in H1. right. replace (N.of_nat (N.to_nat n - 1)) with (n - 1) by lia. lia. }
    rewrite Hn, N2Nat.id. split; [reflexivity|exact H2].
  - apply andb_true_iff in Hok. destruct Hok as [Ha Hb].
    destruct (c <=? v) eqn:E.
    + apply N.leb_le in E. apply (IHa _ _ _ Ha); lia.
    + apply N.leb_gt in E. apply (IHb _ _ _ Hb); lia.
Qed.

(** * the trace checker for the switches *)

Lemma upd_length : forall i b l, length (upd i b l) = length l.
Proof. induction i; destruct l; cbn; auto. Qed.

Lemma upd_split : forall i b l, (i < length l)%nat -> upd i b l = firstn i l ++ b :: skipn (S i) l.
Proof.
  induction i; destruct l; cbn [length]; intros; try lia.
  - reflexivity.
  - cbn [upd firstn skipn app]. f_equal. apply IHi. lia.
Qed.

Lemma wr_ok buf c b :
  (0 <= c)%Z -> (c < Z.of_nat (length buf))%Z -> wr buf c b = Ok (upd (Z.to_nat c) b buf).
Proof.
  intros. unfold wr.
  replace ((0 <=? c)%Z && (c <? Z.of_nat (length buf))%Z)%bool with true; [reflexivity|].
  symmetry. apply andb_true_iff. split; [apply Z.leb_le|apply Z.ltb_lt]; lia.
Qed.

(** the character an abstract item stands for *)
Definition conc (v sep : N) (it : aitem) : N :=
  match it with
  | AMod e => to_char (48 + (v / 10 ^ N.of_nat e) mod 10)
  | AVal e => to_char (48 + v / 10 ^ N.of_nat e)
  | ASep => sep
  end.

Lemma aexec_closed gl gr : forall ss e nd out, aexec gl gr ss e nd true = Some out -> out = [].
Proof.
  induction ss as [|s r IH]; intros e nd out H; cbn [aexec] in H.
  - congruence.
  - destruct s; try discriminate; try (eapply IH; exact H).
    destruct (to_char (nd + 1) =? gl); [discriminate|eapply IH; exact H].
Qed.

(** shape of the buffer after a store at p followed by stores below p *)
Lemma store_shape (buf : list N) (p n : nat) (x : N) (R : list N) :
  (p < length buf)%nat -> (n <= p)%nat ->
  let buf1 := firstn p buf ++ x :: skipn (S p) buf in
  firstn (p - n) buf1 ++ R ++ skipn p buf1 = firstn (S p - S n) buf ++ (R ++ [x]) ++ skipn (S p) buf.
Proof.
  intros Hp Hn buf1. subst buf1.
  assert (L : length (firstn p buf) = p) by (rewrite firstn_length; lia).
  rewrite firstn_app, L. replace (p - n - p)%nat with 0%nat by lia. cbn [firstn]. rewrite app_nil_r.
  rewrite firstn_firstn. replace (Nat.min (p - n) p) with (p - n)%nat by lia.
  rewrite skipn_app, L, Nat.sub_diag. cbn [skipn].
  rewrite (skipn_all2 (firstn p buf)) by lia. cbn [app].
  replace (S p - S n)%nat with (p - n)%nat by lia. rewrite <- app_assoc. reflexivity.
Qed.

Lemma aexec_sound gl gr v sep : forall ss e nd closed out buf cur,
    aexec gl gr ss e nd closed = Some out ->
    (Z.of_nat (length out) <= cur + 1)%Z -> (cur < Z.of_nat (length buf))%Z ->
    exists st', run_stmts gl gr sep ss
                  {| c_buf := buf; c_cur := cur; c_val := v / 10 ^ N.of_nat e; c_nd := nd |} = Ok st' /\
                c_buf st' = firstn (Z.to_nat (cur + 1) - length out) buf
                            ++ rev (map (conc v sep) out) ++ skipn (Z.to_nat (cur + 1)) buf.
Proof.
  assert (STORE : forall (r : list stmt) it (d : bool) e nd out' buf cur st0 x,
             (forall e nd closed out buf cur,
                 aexec gl gr r e nd closed = Some out ->
                 (Z.of_nat (length out) <= cur + 1)%Z -> (cur < Z.of_nat (length buf))%Z ->
                 exists st', run_stmts gl gr sep r
                               {| c_buf := buf; c_cur := cur; c_val := v / 10 ^ N.of_nat e; c_nd := nd |} = Ok st' /\
                             c_buf st' = firstn (Z.to_nat (cur + 1) - length out) buf
                                         ++ rev (map (conc v sep) out) ++ skipn (Z.to_nat (cur + 1)) buf) ->
             aexec gl gr r e nd (negb d) = Some out' ->
             (Z.of_nat (length (it :: out')) <= cur + 1)%Z -> (cur < Z.of_nat (length buf))%Z ->
             conc v sep it = x ->
             st0 = {| c_buf := upd (Z.to_nat cur) x buf; c_cur := after d cur;
                      c_val := v / 10 ^ N.of_nat e; c_nd := nd |} ->
             exists st', run_stmts gl gr sep r st0 = Ok st' /\
                         c_buf st' = firstn (Z.to_nat (cur + 1) - length (it :: out')) buf
                                     ++ rev (map (conc v sep) (it :: out')) ++ skipn (Z.to_nat (cur + 1)) buf).
  { intros r it d e nd out' buf cur st0 x IH Hex Hroom Hcur Hx ->.
    cbn [length] in Hroom.
    assert (Hp : (Z.to_nat cur < length buf)%nat) by lia.
    assert (Hlen1 : length (upd (Z.to_nat cur) x buf) = length buf) by apply upd_length.
    destruct d; cbn [negb after] in *.
    - destruct (IH e nd false out' (upd (Z.to_nat cur) x buf) (cur - 1)%Z Hex ltac:(lia) ltac:(lia))
        as (st' & Hrun & Hbuf).
      exists st'. split; [exact Hrun|]. rewrite Hbuf.
      rewrite upd_split by exact Hp.
      replace (Z.to_nat (cur - 1 + 1)) with (Z.to_nat cur) by lia.
      replace (Z.to_nat (cur + 1)) with (S (Z.to_nat cur)) by lia.
      cbn [map rev length]. rewrite Hx.
      apply store_shape; lia.
    - pose proof (aexec_closed _ _ _ _ _ _ Hex) as ->.
      destruct (IH e nd true [] (upd (Z.to_nat cur) x buf) cur Hex ltac:(cbn; lia) ltac:(lia))
        as (st' & Hrun & Hbuf).
      exists st'. split; [exact Hrun|]. rewrite Hbuf. cbn [map rev length app].
      rewrite Nat.sub_0_r, firstn_skipn.
      rewrite upd_split by exact Hp. rewrite Hx.
      replace (Z.to_nat (cur + 1)) with (S (Z.to_nat cur)) by lia.
      replace (S (Z.to_nat cur) - 1)%nat with (Z.to_nat cur) by lia. reflexivity. }
  induction ss as [|s r IH]; intros e nd closed out buf cur Hex Hroom Hcur.
  - cbn in Hex. injection Hex as <-. eexists. split; [reflexivity|].
    cbn [c_buf length map rev app]. rewrite Nat.sub_0_r. symmetry. apply firstn_skipn.
  - destruct s; cbn [aexec] in Hex; cbn [run_stmts step].
    + (* SStoreMod *)
      destruct closed; [discriminate|].
      destruct (aexec gl gr r e nd (negb dec)) as [out'|] eqn:Hex'; [|discriminate].
      injection Hex as <-. cbn [length] in Hroom.
      cbn [c_buf c_cur c_val c_nd]. rewrite wr_ok by lia. cbn [bind].
      eapply STORE; eauto. 
    + destruct closed; [discriminate|].
      destruct (aexec gl gr r e nd (negb dec)) as [out'|] eqn:Hex'; [|discriminate].
      injection Hex as <-. cbn [length] in Hroom.
      cbn [c_buf c_cur c_val c_nd]. rewrite wr_ok by lia. cbn [bind].
      eapply STORE; eauto.
    + (* SDiv10 *)
      cbn [bind c_buf c_cur c_val c_nd].
      replace (v / 10 ^ N.of_nat e / 10) with (v / 10 ^ N.of_nat (S e)).
      * eapply IH; eauto.
      * rewrite pow10_succ, N.mul_comm, N.div_div; [reflexivity| |discriminate].
        apply N.pow_nonzero. discriminate.
    + cbn [bind c_buf c_cur c_val c_nd]. eapply IH; eauto.
    + (* SCheckGroup *)
      cbn [c_buf c_cur c_val c_nd].
      destruct (to_char (nd + 1) =? gl).
      * destruct closed; [discriminate|].
        destruct (aexec gl gr r e gr false) as [out'|] eqn:Hex'; [|discriminate].
        injection Hex as <-. cbn [length] in Hroom.
        rewrite wr_ok by lia. cbn [bind].
        eapply (STORE r ASep true); eauto.
      * cbn [bind]. eapply IH; eauto.
Qed.

Lemma to_char_small x : x < 256 -> to_char x = x.
Proof. intros. unfold to_char. apply N.mod_small. assumption. Qed.

Lemma conc_AMod v sep e : conc v sep (AMod e) = digit v e.
Proof.
  unfold conc, digit. apply to_char_small.
  pose proof (N.mod_lt (v / 10 ^ N.of_nat e) 10 ltac:(discriminate)). lia.
Qed.

Lemma conc_norm v sep k it : v < 10 ^ N.of_nat k -> conc v sep (norm k it) = conc v sep it.
Proof.
  intros Hv. destruct it as [e|e|]; cbn [norm]; try reflexivity.
  destruct (Nat.eqb_spec (S e) k) as [<-|]; [|reflexivity].
  cbn [conc]. rewrite pow10_succ, N.mul_comm in Hv.
  assert (v / 10 ^ N.of_nat e < 10).
  { apply N.div_lt_upper_bound; [apply N.pow_nonzero; discriminate|]. lia. }
  rewrite N.mod_small by assumption. reflexivity.
Qed.

Lemma aitem_eqb_eq a b : aitem_eqb a b = true -> a = b.
Proof.
  destruct a, b; cbn; intros H; try discriminate; try reflexivity;
    apply Nat.eqb_eq in H; subst; reflexivity.
Qed.

Lemma alist_eqb_eq : forall a b, alist_eqb a b = true -> a = b.
Proof.
  induction a as [|x r IH]; destruct b as [|y s]; cbn; intros H; try discriminate; [reflexivity|].
  apply andb_true_iff in H. destruct H as [H1 H2]. f_equal; [apply aitem_eqb_eq|apply IH]; assumption.
Qed.

Lemma trace_ok_sound sc k expect v sep buf cur :
  trace_ok sc k expect = true ->
  v < 10 ^ N.of_nat k -> v < 2 ^ sw_vbits sc ->
  (Z.of_nat (length expect) <= cur + 1)%Z -> (cur < Z.of_nat (length buf))%Z ->
  run_convert sc sep buf cur v (N.of_nat k)
  = Ok (firstn (Z.to_nat (cur + 1) - length expect) buf
        ++ rev (map (conc v sep) expect) ++ skipn (Z.to_nat (cur + 1)) buf).
Proof.
  unfold trace_ok, run_convert. intros Hok Hk Hv Hroom Hcur.
  destruct (aexec _ _ _ 0 0 false) as [out|] eqn:Hex; [|discriminate].
  apply alist_eqb_eq in Hok. subst expect. rewrite map_length in *.
  rewrite (N.mod_small v) by exact Hv.
  destruct (aexec_sound _ _ v sep _ _ _ _ _ buf cur Hex Hroom Hcur) as (st' & Hrun & Hbuf).
  change (N.of_nat 0) with 0 in Hrun. rewrite N.pow_0_r, N.div_1_r in Hrun.
  rewrite Hrun. cbn [bind]. rewrite Hbuf, map_map. do 3 f_equal. f_equal.
  apply map_ext. intros it. symmetry. apply conc_norm. exact Hk.
Qed.

Lemma map_ins3 {A B} (f : A -> B) (sep : A) : forall l k, map f (ins3 sep k l) = ins3 (f sep) k (map f l).
Proof.
  induction l as [|d r IH]; intros k; cbn [ins3 map]; [reflexivity|].
  destruct (Nat.eqb k 3); cbn [map]; rewrite IH; reflexivity.
Qed.

Lemma ins3_length_indep {A B} (s : A) (s' : B) : forall (l : list A) (l' : list B) k,
    length l = length l' -> length (ins3 s k l) = length (ins3 s' k l').
Proof.
  induction l as [|d r IH]; destruct l' as [|d' r']; intros k H; cbn in H; try discriminate; [reflexivity|].
  cbn [ins3]. destruct (Nat.eqb k 3); cbn [length]; erewrite IH; eauto.
Qed.

Lemma plain_layout v sep :
  rev (map (conc v sep) (plain_expect (ndigits v))) = dec v.
Proof.
  unfold plain_expect. rewrite map_map, (dec_eq v). f_equal. apply map_ext. intros. apply conc_AMod.
Qed.

Lemma grouped_layout v sep :
  rev (map (conc v sep) (grouped_expect (ndigits v))) = group3 sep (dec v).
Proof.
  unfold grouped_expect, group3. rewrite map_ins3. cbn [conc]. f_equal. f_equal.
  rewrite (dec_eq v), rev_involutive, map_map. apply map_ext. intros. apply conc_AMod.
Qed.

Lemma group3_length_expect v sep :
  length (group3 sep (dec v)) = length (grouped_expect (ndigits v)).
Proof.
  unfold group3, grouped_expect. rewrite rev_length. apply ins3_length_indep.
  rewrite rev_length, map_length, seq_length. reflexivity.
Qed.

(** * one width: everything that follows from [conv_ok c = true] *)
Section Width.
  Variable c : conv.
  Hypothesis Hok : conv_ok c = true.

  Let bits := cv_bits c.
  Let maxd := ndigits (2 ^ bits - 1).

  Lemma ok_parts :
    1 <= bits /\ bits <= cv_tbits c /\ bits <= sw_vbits (cv_plain c) /\ bits <= sw_vbits (cv_grouped c) /\
    tree_ok 0 (2 ^ bits) (cv_tree c) = true /\
    forall k, (1 <= k <= maxd)%nat ->
              trace_ok (cv_plain c) k (plain_expect k) = true /\
              trace_ok (cv_grouped c) k (grouped_expect k) = true /\
              N.of_nat (length (grouped_expect k)) = grouped_len (N.of_nat k).
  Proof.
    pose proof Hok as K. unfold conv_ok in K. fold bits in K. fold maxd in K.
    repeat (apply andb_true_iff in K; destruct K as [K ?]).
    apply N.leb_le in K. apply N.leb_le in H3. apply N.leb_le in H2. apply N.leb_le in H1.
    splits; auto.
    intros k Hk. rewrite forallb_forall in H.
    specialize (H k ltac:(apply in_seq; lia)).
    repeat (apply andb_true_iff in H; destruct H as [H ?]).
    apply N.eqb_eq in H4. auto.
  Qed.

  Lemma pow2_le (a b : N) : a <= b -> 2 ^ a <= 2 ^ b.
  Proof. intros. apply N.pow_le_mono_r; lia. Qed.

  Lemma nd_le_maxd v : v < 2 ^ bits -> (1 <= ndigits v <= maxd)%nat.
  Proof.
    intros Hv. split; [apply ndigits_pos|]. apply ndigits_mono. lia.
  Qed.

  Lemma str_length_correct v : v < 2 ^ bits -> str_length c v = N.of_nat (ndigits v).
  Proof.
    intros Hv. destruct ok_parts as (_ & Ht & _ & _ & Htree & _).
    unfold str_length. rewrite (N.mod_small v) by (pose proof (pow2_le _ _ Ht); lia).
    destruct (tree_ok_sound _ _ _ v Htree ltac:(lia) Hv) as [E L].
    rewrite to_char_small by exact L. exact E.
  Qed.

  Lemma ndigits_bound v : v < 10 ^ N.of_nat (ndigits v).
  Proof. destruct (dec_char v) as (k & _ & _ & -> & H & _). exact H. Qed.

  Lemma plain_convert v sep buf cur :
    v < 2 ^ bits -> (Z.of_nat (ndigits v) <= cur + 1)%Z -> (cur < Z.of_nat (length buf))%Z ->
    run_convert (cv_plain c) sep buf cur v (N.of_nat (ndigits v))
    = Ok (firstn (Z.to_nat (cur + 1) - ndigits v) buf ++ dec v ++ skipn (Z.to_nat (cur + 1)) buf).
  Proof.
    intros Hv Hroom Hcur. destruct ok_parts as (_ & _ & Hp & _ & _ & Htr).
    destruct (Htr _ (nd_le_maxd v Hv)) as (Hpl & _ & _).
    assert (L : length (plain_expect (ndigits v)) = ndigits v)
      by (unfold plain_expect; rewrite map_length, seq_length; reflexivity).
    rewrite (trace_ok_sound _ _ _ v sep buf cur Hpl (ndigits_bound v)); try lia.
    - rewrite plain_layout, L. reflexivity.
    - pose proof (pow2_le _ _ Hp). lia.
  Qed.

  Lemma grouped_len_correct v sep :
    v < 2 ^ bits -> grouped_len (N.of_nat (ndigits v)) = N.of_nat (length (group3 sep (dec v))).
  Proof.
    intros Hv. destruct ok_parts as (_ & _ & _ & _ & _ & Htr).
    destruct (Htr _ (nd_le_maxd v Hv)) as (_ & _ & Hl).
    rewrite group3_length_expect. symmetry. exact Hl.
  Qed.

  Lemma grouped_convert v sep buf cur :
    v < 2 ^ bits ->
    (Z.of_nat (length (group3 sep (dec v))) <= cur + 1)%Z -> (cur < Z.of_nat (length buf))%Z ->
    run_convert (cv_grouped c) sep buf cur v (N.of_nat (ndigits v))
    = Ok (firstn (Z.to_nat (cur + 1) - length (group3 sep (dec v))) buf
          ++ group3 sep (dec v) ++ skipn (Z.to_nat (cur + 1)) buf).
  Proof.
    intros Hv Hroom Hcur. destruct ok_parts as (_ & _ & _ & Hg & _ & Htr).
    destruct (Htr _ (nd_le_maxd v Hv)) as (_ & Hgr & _).
    rewrite (group3_length_expect v sep) in *.
    rewrite (trace_ok_sound _ _ _ v sep buf cur Hgr (ndigits_bound v)); try lia.
    - rewrite grouped_layout. reflexivity.
    - pose proof (pow2_le _ _ Hg). lia.
  Qed.
End Width.

(** * the wrappers *)

Lemma pow2_Z (bits : N) : Z.of_N (2 ^ bits) = (2 ^ Z.of_N bits)%Z.
Proof. rewrite N2Z.inj_pow. reflexivity. Qed.

Lemma half_double (bits : N) : 1 <= bits -> 2 ^ bits = 2 * 2 ^ (bits - 1).
Proof. intros. replace bits with (N.succ (bits - 1)) at 1 by lia. apply N.pow_succ_r'. Qed.

Lemma to_uint_small bits z : (0 <= z < Z.of_N (2 ^ bits))%Z -> to_uint bits z = Z.to_N z.
Proof. intros. unfold to_uint. rewrite <- pow2_Z, Z.mod_small by lia. reflexivity. Qed.

Lemma skipn_upd_same : forall i b (l : list N), (i < length l)%nat -> skipn i (upd i b l) = b :: skipn (S i) l.
Proof.
  intros. rewrite upd_split by assumption.
  rewrite skipn_app, firstn_length, skipn_all2 by (rewrite firstn_length; lia).
  replace (i - Nat.min i (length l))%nat with 0%nat by lia. reflexivity.
Qed.

Lemma firstn_upd_below : forall k i b (l : list N), (k <= i)%nat -> firstn k (upd i b l) = firstn k l.
Proof.
  induction k; intros i b l H; [reflexivity|].
  destruct l as [|a l]; [destruct i; reflexivity|]. destruct i; [lia|].
  cbn [upd firstn]. f_equal. apply IHk. lia.
Qed.

(** text of length L stored at offset off behind a NUL put at off+L *)
Lemma frame (buf text : list N) (off : nat) :
  (off + length text < length buf)%nat ->
  let b1 := upd (off + length text) 0 buf in
  firstn off b1 ++ text ++ skipn (off + length text) b1
  = firstn off buf ++ text ++ 0 :: skipn (S (off + length text)) buf.
Proof.
  intros H b1. subst b1. rewrite firstn_upd_below by lia. rewrite skipn_upd_same by lia. reflexivity.
Qed.

Lemma repeat_skipn_all {A} (a : A) n : skipn n (repeat a n) = [].
Proof. apply skipn_all2. rewrite repeat_length. lia. Qed.

Section Wrappers.
  Variable c : conv.
  Hypothesis Hok : conv_ok c = true.
  Let bits := cv_bits c.

  Lemma bits_pos : 1 <= bits.
  Proof. exact (proj1 (ok_parts c Hok)). Qed.

  (** range of the signed type, and what negation into the unsigned type gives *)
  Definition in_signed (z : Z) : Prop := (- Z.of_N (2 ^ (bits - 1)) <= z < Z.of_N (2 ^ (bits - 1)))%Z.

  Lemma neg_abs z : in_signed z -> (z < 0)%Z ->
    to_uint bits (- z) = Z.to_N (- z) /\ Z.to_N (- z) < 2 ^ bits.
  Proof.
    unfold in_signed. intros Hr Hz. pose proof (half_double bits bits_pos) as Hd.
    split; [apply to_uint_small|]; lia.
  Qed.

  Lemma pos_abs z : in_signed z -> (0 < z)%Z ->
    to_uint bits z = Z.to_N z /\ Z.to_N z < 2 ^ bits.
  Proof.
    unfold in_signed. intros Hr Hz. pose proof (half_double bits bits_pos) as Hd.
    split; [apply to_uint_small|]; lia.
  Qed.

  (** ** string variants *)
  Lemma u_to_string_exact v : v < 2 ^ bits -> u_to_string c v = Ok (dec v).
  Proof.
    intros Hv. unfold u_to_string. rewrite (str_length_correct c Hok v Hv), Nat2N.id, nat_N_Z.
    rewrite (plain_convert c Hok v 0 _ _ Hv); rewrite ?repeat_length; try lia.
    replace (Z.to_nat (Z.of_nat (ndigits v) - 1 + 1)) with (ndigits v) by lia.
    rewrite Nat.sub_diag, repeat_skipn_all. cbn [firstn app]. rewrite app_nil_r. reflexivity.
  Qed.

  Lemma neg_to_string_exact z : in_signed z -> (z < 0)%Z ->
    neg_to_string c z = Ok (45 :: dec (Z.to_N (- z))).
  Proof.
    intros Hr Hz. destruct (neg_abs z Hr Hz) as [Ha Hv]. unfold neg_to_string. fold bits. rewrite Ha.
    set (v := Z.to_N (- z)) in *.
    rewrite (str_length_correct c Hok v Hv), Nat2N.id, nat_N_Z.
    rewrite (plain_convert c Hok v 0 _ _ Hv); rewrite ?repeat_length; try lia.
    replace (Z.to_nat (Z.of_nat (ndigits v) + 1)) with (ndigits v + 1)%nat by lia.
    rewrite repeat_skipn_all. replace (ndigits v + 1 - ndigits v)%nat with 1%nat by lia.
    replace (ndigits v + 1)%nat with (S (ndigits v)) by lia. cbn [repeat firstn app].
    rewrite app_nil_r. reflexivity.
  Qed.

  Lemma s_to_string_exact z : in_signed z -> s_to_string c z = Ok (sdec z).
  Proof.
    intros Hr. unfold s_to_string, sdec. destruct (z <? 0)%Z eqn:E.
    - apply Z.ltb_lt in E. apply neg_to_string_exact; assumption.
    - apply Z.ltb_ge in E. destruct (z =? 0)%Z eqn:E0.
      + apply Z.eqb_eq in E0. subst z. reflexivity.
      + apply Z.eqb_neq in E0. destruct (pos_abs z Hr ltac:(lia)) as [Ha Hv]. fold bits. rewrite Ha.
        apply u_to_string_exact. exact Hv.
  Qed.

  Lemma gu_to_string_exact v sep : v < 2 ^ bits -> gu_to_string c v sep = Ok (group3 sep (dec v)).
  Proof.
    intros Hv. unfold gu_to_string.
    rewrite (str_length_correct c Hok v Hv), (grouped_len_correct c Hok v sep Hv), Nat2N.id, nat_N_Z.
    set (L := length (group3 sep (dec v))).
    assert (HL : (1 <= L)%nat).
    { subst L. rewrite group3_length_expect. unfold grouped_expect.
      pose proof (ndigits_pos v). destruct (ndigits v); [lia|]. cbn. lia. }
    rewrite (grouped_convert c Hok v sep _ _ Hv); rewrite ?repeat_length; fold L; try lia.
    replace (Z.to_nat (Z.of_nat L - 1 + 1)) with L by lia.
    rewrite Nat.sub_diag, repeat_skipn_all. cbn [firstn app]. rewrite app_nil_r. reflexivity.
  Qed.

  Lemma gneg_to_string_exact z sep : in_signed z -> (z < 0)%Z ->
    gneg_to_string c z sep = Ok (45 :: group3 sep (dec (Z.to_N (- z)))).
  Proof.
    intros Hr Hz. destruct (neg_abs z Hr Hz) as [Ha Hv]. unfold gneg_to_string. fold bits. rewrite Ha.
    set (v := Z.to_N (- z)) in *.
    rewrite (str_length_correct c Hok v Hv), (grouped_len_correct c Hok v sep Hv), Nat2N.id, nat_N_Z.
    set (L := length (group3 sep (dec v))).
    rewrite (grouped_convert c Hok v sep _ _ Hv); rewrite ?repeat_length; fold L; try lia.
    replace (Z.to_nat (Z.of_nat L + 1)) with (L + 1)%nat by lia.
    rewrite repeat_skipn_all. replace (L + 1 - L)%nat with 1%nat by lia.
    replace (L + 1)%nat with (S L) by lia. cbn [repeat firstn app].
    rewrite app_nil_r. reflexivity.
  Qed.

  Lemma gs_to_string_exact z sep : in_signed z -> gs_to_string c z sep = Ok (sgroup sep z).
  Proof.
    intros Hr. unfold gs_to_string, sgroup. destruct (z <? 0)%Z eqn:E.
    - apply Z.ltb_lt in E. apply gneg_to_string_exact; assumption.
    - apply Z.ltb_ge in E. destruct (z =? 0)%Z eqn:E0.
      + apply Z.eqb_eq in E0. subst z. reflexivity.
      + apply Z.eqb_neq in E0. destruct (pos_abs z Hr ltac:(lia)) as [Ha Hv]. fold bits. rewrite Ha.
        apply gu_to_string_exact. exact Hv.
  Qed.
End Wrappers.

(** ** buffer variants: exactly text ++ NUL is written at the start of the
    caller's buffer, everything behind is unchanged, the text length is returned *)
Definition buffer_result (text buf : list N) : res (Z * list N) :=
  Ok (Z.of_nat (length text), text ++ 0 :: skipn (S (length text)) buf).

Section BufferWrappers.
  Variable c : conv.
  Hypothesis Hok : conv_ok c = true.
  Let bits := cv_bits c.

  Lemma zero_to_buffer_exact buf : (1 < length buf)%nat -> zero_to_buffer buf = buffer_result [48] buf.
  Proof.
    intros H. destruct buf as [|a [|b r]]; cbn [length] in H; try lia.
    unfold zero_to_buffer, buffer_result. rewrite wr_ok by (cbn [length]; lia). cbn [bind Z.to_nat upd].
    rewrite wr_ok by (cbn [length]; lia). reflexivity.
  Qed.

  Lemma u_to_buffer_exact v buf : v < 2 ^ bits -> (ndigits v < length buf)%nat ->
    u_to_buffer c buf v = buffer_result (dec v) buf.
  Proof.
    intros Hv Hlen. unfold u_to_buffer, buffer_result. fold (ndigits v).
    rewrite (str_length_correct c Hok v Hv), nat_N_Z.
    rewrite wr_ok by lia. cbn [bind]. rewrite Nat2Z.id.
    rewrite (plain_convert c Hok v 0 _ _ Hv); rewrite ?upd_length; try lia.
    cbn [bind]. pose proof (ndigits_pos v).
    replace (Z.to_nat (Z.of_nat (ndigits v) - 1 + 1)) with (ndigits v) by lia.
    rewrite Nat.sub_diag.
    pose proof (frame buf (dec v) 0) as F. fold (ndigits v) in F. cbn [plus firstn app] in F.
    cbn [firstn app]. rewrite F by lia. reflexivity.
  Qed.

  Lemma neg_to_buffer_exact z buf : in_signed c z -> (z < 0)%Z ->
    (S (ndigits (Z.to_N (- z))) < length buf)%nat ->
    neg_to_buffer c buf z = buffer_result (45 :: dec (Z.to_N (- z))) buf.
  Proof.
    intros Hr Hz Hlen. destruct (neg_abs c Hok z Hr Hz) as [Ha Hv].
    unfold neg_to_buffer, buffer_result. rewrite Ha. set (v := Z.to_N (- z)) in *.
    cbn [length]. fold (ndigits v).
    rewrite (str_length_correct c Hok v Hv), nat_N_Z.
    rewrite wr_ok by lia. cbn [bind].
    rewrite (plain_convert c Hok v 0 _ _ Hv); rewrite ?upd_length; try lia.
    cbn [bind].
    replace (Z.to_nat (Z.of_nat (ndigits v) + 1)) with (1 + ndigits v)%nat by lia.
    replace (1 + ndigits v - ndigits v)%nat with 1%nat by lia.
    pose proof (frame buf (dec v) 1) as F. fold (ndigits v) in F. cbn zeta in F. rewrite F by lia.
    destruct buf as [|a r]; [cbn in Hlen; lia|]. cbn [firstn app].
    rewrite wr_ok by (cbn [length]; lia). cbn [bind Z.to_nat upd].
    do 2 f_equal. lia.
  Qed.

  Lemma s_to_buffer_exact z buf : in_signed c z -> (length (sdec z) < length buf)%nat ->
    s_to_buffer c buf z = buffer_result (sdec z) buf.
  Proof.
    intros Hr. unfold s_to_buffer, sdec. destruct (z <? 0)%Z eqn:E.
    - apply Z.ltb_lt in E. cbn [length]. intros. apply neg_to_buffer_exact; assumption.
    - apply Z.ltb_ge in E. destruct (z =? 0)%Z eqn:E0.
      + apply Z.eqb_eq in E0. subst z. intros H. apply zero_to_buffer_exact. exact H.
      + apply Z.eqb_neq in E0. destruct (pos_abs c Hok z Hr ltac:(lia)) as [Ha Hv]. rewrite Ha.
        intros. apply u_to_buffer_exact; assumption.
  Qed.

  Lemma gu_to_buffer_exact v sep buf : v < 2 ^ bits -> (length (group3 sep (dec v)) < length buf)%nat ->
    gu_to_buffer c buf v sep = buffer_result (group3 sep (dec v)) buf.
  Proof.
    intros Hv Hlen. unfold gu_to_buffer, buffer_result.
    rewrite (str_length_correct c Hok v Hv), (grouped_len_correct c Hok v sep Hv), nat_N_Z.
    set (T := group3 sep (dec v)) in *. set (L := length T) in *.
    assert (HL : (1 <= L)%nat).
    { subst L T. rewrite group3_length_expect. unfold grouped_expect.
      pose proof (ndigits_pos v). destruct (ndigits v); [lia|]. cbn. lia. }
    rewrite wr_ok by lia. cbn [bind]. rewrite Nat2Z.id.
    rewrite (grouped_convert c Hok v sep _ _ Hv); fold T; fold L; rewrite ?upd_length; try lia.
    cbn [bind].
    replace (Z.to_nat (Z.of_nat L - 1 + 1)) with L by lia.
    rewrite Nat.sub_diag.
    pose proof (frame buf T 0) as F. fold L in F. cbn [plus firstn app] in F.
    cbn [firstn app]. rewrite F by lia. reflexivity.
  Qed.

  Lemma gneg_to_buffer_exact z sep buf : in_signed c z -> (z < 0)%Z ->
    (S (length (group3 sep (dec (Z.to_N (- z))))) < length buf)%nat ->
    gneg_to_buffer c buf z sep = buffer_result (45 :: group3 sep (dec (Z.to_N (- z)))) buf.
  Proof.
    intros Hr Hz Hlen. destruct (neg_abs c Hok z Hr Hz) as [Ha Hv].
    unfold gneg_to_buffer, buffer_result. rewrite Ha. set (v := Z.to_N (- z)) in *.
    rewrite (str_length_correct c Hok v Hv), (grouped_len_correct c Hok v sep Hv), nat_N_Z.
    set (T := group3 sep (dec v)) in *. cbn [length]. set (L := length T) in *.
    rewrite wr_ok by lia. cbn [bind].
    rewrite (grouped_convert c Hok v sep _ _ Hv); fold T; fold L; rewrite ?upd_length; try lia.
    cbn [bind].
    replace (Z.to_nat (Z.of_nat L + 1)) with (1 + L)%nat by lia.
    replace (1 + L - L)%nat with 1%nat by lia.
    pose proof (frame buf T 1) as F. fold L in F. cbn zeta in F. rewrite F by lia.
    destruct buf as [|a r]; [cbn in Hlen; lia|]. cbn [firstn app].
    rewrite wr_ok by (cbn [length]; lia). cbn [bind Z.to_nat upd].
    do 2 f_equal. lia.
  Qed.

  Lemma gs_to_buffer_exact z sep buf : in_signed c z -> (length (sgroup sep z) < length buf)%nat ->
    gs_to_buffer c buf z sep = buffer_result (sgroup sep z) buf.
  Proof.
    intros Hr. unfold gs_to_buffer, sgroup. destruct (z <? 0)%Z eqn:E.
    - apply Z.ltb_lt in E. cbn [length]. intros. apply gneg_to_buffer_exact; assumption.
    - apply Z.ltb_ge in E. destruct (z =? 0)%Z eqn:E0.
      + apply Z.eqb_eq in E0. subst z. intros H. apply zero_to_buffer_exact. exact H.
      + apply Z.eqb_neq in E0. destruct (pos_abs c Hok z Hr ltac:(lia)) as [Ha Hv]. rewrite Ha.
        intros. apply gu_to_buffer_exact; assumption.
  Qed.
End BufferWrappers.

(** ** a buffer without room for text + NUL: the model faults (the footprint
    text length + 1 is necessary, not only sufficient) *)
Lemma wr_fault buf c b : (Z.of_nat (length buf) <= c)%Z -> wr buf c b = Fault OOBWrite.
Proof.
  intros. unfold wr. replace (c <? Z.of_nat (length buf))%Z with false by lia.
  rewrite andb_false_r. reflexivity.
Qed.

Section ShortBuffer.
  Variable c : conv.
  Hypothesis Hok : conv_ok c = true.
  Let bits := cv_bits c.

  Lemma zero_to_buffer_short buf : (length buf <= 1)%nat -> zero_to_buffer buf = Fault OOBWrite.
  Proof.
    intros H. unfold zero_to_buffer. destruct buf as [|a r].
    - reflexivity.
    - rewrite wr_ok by (cbn [length]; lia). cbn [bind Z.to_nat upd].
      rewrite wr_fault by (cbn [length] in *; lia). reflexivity.
  Qed.

  Lemma u_to_buffer_short v buf : v < 2 ^ bits -> (length buf <= ndigits v)%nat ->
    u_to_buffer c buf v = Fault OOBWrite.
  Proof.
    intros Hv H. unfold u_to_buffer. rewrite (str_length_correct c Hok v Hv), nat_N_Z.
    rewrite wr_fault by lia. reflexivity.
  Qed.

  Lemma neg_to_buffer_short z buf : in_signed c z -> (z < 0)%Z ->
    (length buf <= S (ndigits (Z.to_N (- z))))%nat -> neg_to_buffer c buf z = Fault OOBWrite.
  Proof.
    intros Hr Hz H. destruct (neg_abs c Hok z Hr Hz) as [Ha Hv]. unfold neg_to_buffer. rewrite Ha.
    rewrite (str_length_correct c Hok _ Hv), nat_N_Z. rewrite wr_fault by lia. reflexivity.
  Qed.

  Lemma s_to_buffer_short z buf : in_signed c z -> (length buf <= length (sdec z))%nat ->
    s_to_buffer c buf z = Fault OOBWrite.
  Proof.
    intros Hr. unfold s_to_buffer, sdec. destruct (z <? 0)%Z eqn:E.
    - apply Z.ltb_lt in E. cbn [length]. intros. apply neg_to_buffer_short; assumption.
    - apply Z.ltb_ge in E. destruct (z =? 0)%Z eqn:E0.
      + apply Z.eqb_eq in E0. subst z. intros H. apply zero_to_buffer_short. exact H.
      + apply Z.eqb_neq in E0. destruct (pos_abs c Hok z Hr ltac:(lia)) as [Ha Hv]. rewrite Ha.
        intros. apply u_to_buffer_short; assumption.
  Qed.

  Lemma gu_to_buffer_short v sep buf : v < 2 ^ bits -> (length buf <= length (group3 sep (dec v)))%nat ->
    gu_to_buffer c buf v sep = Fault OOBWrite.
  Proof.
    intros Hv H. unfold gu_to_buffer.
    rewrite (str_length_correct c Hok v Hv), (grouped_len_correct c Hok v sep Hv), nat_N_Z.
    rewrite wr_fault by lia. reflexivity.
  Qed.

  Lemma gneg_to_buffer_short z sep buf : in_signed c z -> (z < 0)%Z ->
    (length buf <= S (length (group3 sep (dec (Z.to_N (- z))))))%nat ->
    gneg_to_buffer c buf z sep = Fault OOBWrite.
  Proof.
    intros Hr Hz H. destruct (neg_abs c Hok z Hr Hz) as [Ha Hv]. unfold gneg_to_buffer. rewrite Ha.
    rewrite (str_length_correct c Hok _ Hv), (grouped_len_correct c Hok _ sep Hv), nat_N_Z.
    rewrite wr_fault by lia. reflexivity.
  Qed.

  Lemma gs_to_buffer_short z sep buf : in_signed c z -> (length buf <= length (sgroup sep z))%nat ->
    gs_to_buffer c buf z sep = Fault OOBWrite.
  Proof.
    intros Hr. unfold gs_to_buffer, sgroup. destruct (z <? 0)%Z eqn:E.
    - apply Z.ltb_lt in E. cbn [length]. intros. apply gneg_to_buffer_short; assumption.
    - apply Z.ltb_ge in E. destruct (z =? 0)%Z eqn:E0.
      + apply Z.eqb_eq in E0. subst z. intros H. apply zero_to_buffer_short. exact H.
      + apply Z.eqb_neq in E0. destruct (pos_abs c Hok z Hr ltac:(lia)) as [Ha Hv]. rewrite Ha.
        intros. apply gu_to_buffer_short; assumption.
  Qed.
End ShortBuffer.

(** * the decimal text is the intended one: digits only, no leading zero, value v *)

Definition dstep (a d : N) : N := a * 10 + (d - 48).

Lemma dec_value_fold s : dec_value s = fold_left dstep s 0.
Proof. reflexivity. Qed.

Lemma rdigits_value : forall f v, v < 10 ^ N.of_nat f ->
    fold_right (fun d a => dstep a d) 0 (rdigits f v) = v.
Proof.
  induction f as [|f IH]; intros v Hv.
  - cbn in *. lia.
  - rewrite pow10_succ in Hv. cbn [rdigits fold_right]. unfold dstep at 1.
    pose proof (N.div_mod v 10 ltac:(discriminate)). pose proof (N.mod_lt v 10 ltac:(discriminate)).
    destruct (v / 10 =? 0) eqn:E.
    + apply N.eqb_eq in E. cbn [fold_right]. lia.
    + rewrite IH; [lia|]. apply N.div_lt_upper_bound; [discriminate|exact Hv].
Qed.

Lemma dec_value_dec v : dec_value (dec v) = v.
Proof.
  rewrite dec_value_fold. unfold dec.
  rewrite <- (rev_involutive (rdigits _ v)) at 1. rewrite rev_involutive.
  rewrite <- fold_left_rev_right, rev_involutive.
  apply rdigits_value. apply fuel_enough.
Qed.

Lemma digit_range v e : 48 <= digit v e <= 57.
Proof.
  unfold digit. generalize (v / 10 ^ N.of_nat e). intros q.
  pose proof (N.mod_lt q 10 ltac:(discriminate)). lia.
Qed.

Lemma dec_digits v : Forall (fun b => is_dec_digit b = true) (dec v).
Proof.
  rewrite dec_eq. apply Forall_rev. apply Forall_forall. intros b Hb.
  apply in_map_iff in Hb. destruct Hb as (e & <- & _).
  pose proof (digit_range v e). unfold is_dec_digit. lia.
Qed.

Lemma dec_nonempty v : dec v <> [].
Proof. pose proof (ndigits_pos v) as H. unfold ndigits in H. destruct (dec v); [cbn in H; lia|discriminate]. Qed.

Lemma dec_head v : exists d r, dec v = d :: r /\ 48 <= d <= 57 /\ (v <> 0 -> d <> 48).
Proof.
  destruct (dec_char v) as (k & Hk & Hr & _ & Hub & Hlb).
  assert (E : dec v = rev (map (digit v) (seq 0 k))) by (rewrite <- Hr, rev_involutive; reflexivity).
  replace k with (k - 1 + 1)%nat in E by lia. rewrite seq_app, map_app, rev_app_distr in E. cbn [seq map rev app] in E.
  eexists _, _. split; [exact E|]. split; [apply digit_range|].
  intros Hv. unfold digit.
  destruct Hlb as [->|Hlb].
  - change (N.of_nat (0 + (1 - 1))) with 0. rewrite N.pow_0_r, N.div_1_r. change (10 ^ N.of_nat 1) with 10 in Hub. rewrite N.mod_small by exact Hub. lia.
  - assert (Hq : 1 <= v / 10 ^ N.of_nat (k - 1)).
    { apply N.div_le_lower_bound; [apply N.pow_nonzero; discriminate|lia]. }
    assert (Hq' : v / 10 ^ N.of_nat (k - 1) < 10).
    { apply N.div_lt_upper_bound; [apply N.pow_nonzero; discriminate|].
      replace k with (S (k - 1)) in Hub by lia. rewrite pow10_succ in Hub. lia. }
    cbn [plus]. revert Hq Hq'. generalize (v / 10 ^ N.of_nat (k - 1)). intros q Hq Hq'.
    rewrite N.mod_small by exact Hq'. lia.
Qed.

(** * converting the text back *)

Lemma is_digit_dec b : is_digit b = is_dec_digit b.
Proof. reflexivity. Qed.

Lemma scan_digits_all : forall l acc,
    Forall (fun b => is_dec_digit b = true) l -> scan_digits l acc true = (fold_left dstep l acc, true).
Proof.
  induction l as [|b r IH]; intros acc H; [reflexivity|].
  apply Forall_cons_iff in H. destruct H as [Hb Hr].
  cbn [scan_digits fold_left]. rewrite is_digit_dec, Hb. apply IH. assumption.
Qed.

Lemma scan_digits_dec v : scan_digits (dec v) 0 false = (v, true).
Proof.
  pose proof (dec_digits v) as F. pose proof (dec_value_dec v) as V. rewrite dec_value_fold in V.
  destruct (dec v) as [|b r] eqn:E; [exfalso; eapply dec_nonempty; eauto|].
  apply Forall_cons_iff in F. destruct F as [Hb Hr]. cbn [scan_digits]. rewrite is_digit_dec, Hb.
  rewrite scan_digits_all by assumption. cbn [fold_left] in V. unfold dstep at 2 in V. rewrite V. reflexivity.
Qed.

Lemma scan_int_sdec z : scan_int (sdec z) = Ok ((z <? 0)%Z, Z.to_N (Z.abs z)).
Proof.
  unfold scan_int, sdec. destruct (z <? 0)%Z eqn:E.
  - apply Z.ltb_lt in E. cbn [skip_space]. change (is_space 45) with false. cbv iota.
    change (45 =? 45) with true. cbv iota.
    rewrite scan_digits_dec. replace (Z.abs z) with (- z)%Z by lia. reflexivity.
  - apply Z.ltb_ge in E. replace (Z.abs z) with z by lia.
    destruct (dec_head (Z.to_N z)) as (d & r & Hd & Hr & _).
    pose proof (scan_digits_dec (Z.to_N z)) as S. rewrite Hd in *.
    cbn [skip_space].
    replace (is_space d) with false by (unfold is_space; lia).
    replace (d =? 45) with false by lia. replace (d =? 43) with false by lia.
    rewrite S. reflexivity.
Qed.

Lemma c_strtol_sdec z : (- 2 ^ 63 <= z <= 2 ^ 63 - 1)%Z -> c_strtol (sdec z) = Ok z.
Proof.
  intros H. unfold c_strtol. rewrite scan_int_sdec. cbn [bind].
  replace (if (z <? 0)%Z then (- Z.of_N (Z.to_N (Z.abs z)))%Z else Z.of_N (Z.to_N (Z.abs z))) with z
    by (destruct (z <? 0)%Z eqn:E; lia).
  replace ((z <? - 2 ^ 63)%Z || (2 ^ 63 - 1 <? z)%Z) with false by lia. reflexivity.
Qed.

Lemma c_strtoul_sdec z : (0 <= z <= 2 ^ 64 - 1)%Z -> c_strtoul (sdec z) = Ok z.
Proof.
  intros H. unfold c_strtoul. rewrite scan_int_sdec. cbn [bind].
  replace (2 ^ 64 - 1 <? Z.of_N (Z.to_N (Z.abs z)))%Z with false by lia.
  replace (z <? 0)%Z with false by lia. f_equal. lia.
Qed.

Lemma std_stoi_sdec z : (- 2 ^ 31 <= z <= 2 ^ 31 - 1)%Z -> std_stoi (sdec z) = Ok z.
Proof.
  intros H. unfold std_stoi. rewrite c_strtol_sdec by lia. cbn [bind].
  replace ((z <? - 2 ^ 31)%Z || (2 ^ 31 - 1 <? z)%Z) with false by lia. reflexivity.
Qed.

(** * bit patterns *)

Lemma to_Z_unsigned bits pat : to_Z bits false pat = Z.of_N pat.
Proof. reflexivity. Qed.

Lemma to_Z_signed_range bits pat : 1 <= bits -> pat < 2 ^ bits ->
  (- Z.of_N (2 ^ (bits - 1)) <= to_Z bits true pat < Z.of_N (2 ^ (bits - 1)))%Z.
Proof.
  intros Hb Hp. unfold to_Z. rewrite <- pow2_Z. pose proof (half_double bits Hb).
  cbn [andb]. destruct (2 ^ (bits - 1) <=? pat) eqn:E; lia.
Qed.

Lemma to_uint_to_Z bits sg pat : 1 <= bits -> pat < 2 ^ bits -> to_uint bits (to_Z bits sg pat) = pat.
Proof.
  intros Hb Hp. unfold to_uint, to_Z. rewrite <- pow2_Z.
  destruct (sg && (2 ^ (bits - 1) <=? pat))%bool.
  - replace (Z.of_N pat - Z.of_N (2 ^ bits))%Z with (Z.of_N pat + (-1) * Z.of_N (2 ^ bits))%Z by lia.
    rewrite Z.mod_add by lia. rewrite Z.mod_small by lia. lia.
  - rewrite Z.mod_small by lia. lia.
Qed.

(** * grouping is positional: counted from the right (position 0 = last
    character), every fourth position holds the separator, the others the
    digits in order *)

Ltac Zify.zify_post_hook ::= Z.div_mod_to_equations.
Local Close Scope N_scope.
Local Open Scope nat_scope.

Lemma ins3_nth {A} (sep x : A) : forall l k j,
    (k <= 3)%nat -> (j < length (ins3 sep k l))%nat ->
    nth j (ins3 sep k l) x
    = if Nat.eqb ((j + k) mod 4) 3 then sep else nth (j - (j + k + 1) / 4) l x.
Proof.
  induction l as [|d r IH]; intros k j Hk Hj; [cbn in Hj; lia|].
  cbn [ins3] in *. destruct (Nat.eqb_spec k 3) as [->|Hk3].
  - destruct j as [|[|j]].
    + reflexivity.
    + reflexivity.
    + cbn [nth length] in *. rewrite IH by lia.
      replace ((S (S j) + 3) mod 4) with ((j + 1) mod 4) by lia.
      destruct (Nat.eqb_spec ((j + 1) mod 4) 3) as [E|E]; [reflexivity|].
      replace (S (S j) - (S (S j) + 3 + 1) / 4)%nat with (S (j - (j + 1 + 1) / 4)) by lia.
      reflexivity.
  - destruct j as [|j].
    + cbn [nth]. replace ((0 + k) mod 4) with k by lia.
      destruct (Nat.eqb_spec k 3); [lia|]. replace (0 - (0 + k + 1) / 4)%nat with 0%nat by lia. reflexivity.
    + cbn [nth length] in *. rewrite IH by lia.
      replace ((S j + k) mod 4) with ((j + S k) mod 4) by (f_equal; lia).
      destruct (Nat.eqb_spec ((j + S k) mod 4) 3) as [E|E]; [reflexivity|].
      replace (S j - (S j + k + 1) / 4)%nat with (S (j - (j + S k + 1) / 4)) by lia.
      reflexivity.
Qed.

Lemma ins3_length {A} (sep : A) : forall l k, (k <= 3)%nat ->
    length (ins3 sep k l) = (length l + (length l + k - 1) / 3)%nat.
Proof.
  induction l as [|d r IH]; intros k Hk; cbn [ins3 length].
  - replace ((0 + k - 1) / 3)%nat with 0%nat by lia. reflexivity.
  - destruct (Nat.eqb_spec k 3) as [->|Hk3]; cbn [length]; rewrite IH by lia; lia.
Qed.

Lemma group3_length sep ds : length (group3 sep ds) = (length ds + (length ds - 1) / 3)%nat.
Proof.
  unfold group3. rewrite rev_length, ins3_length, rev_length by lia. f_equal. f_equal. lia.
Qed.

Lemma group3_nth sep ds x j : (j < length (group3 sep ds))%nat ->
  nth j (rev (group3 sep ds)) x = if Nat.eqb (j mod 4) 3 then sep else nth (j - j / 4) (rev ds) x.
Proof.
  unfold group3. rewrite rev_length, rev_involutive. intros H.
  rewrite ins3_nth by lia. rewrite Nat.add_0_r.
  destruct (Nat.eqb_spec (j mod 4) 3) as [E|E]; [reflexivity|].
  f_equal. lia.
Qed.

(** the first character of a grouped text is the first digit (so a separator
    never follows the sign), the last one is the last digit *)
Lemma group3_head sep d ds : exists r, group3 sep (d :: ds) = d :: r.
Proof.
  pose proof (group3_length sep (d :: ds)) as L. cbn [length] in L.
  set (n := length ds) in *. set (g := group3 sep (d :: ds)) in *.
  assert (Hn : (0 < length g)%nat) by lia.
  assert (Hlt : length g - 1 < length g) by lia.
  pose proof (group3_nth sep (d :: ds) d (length g - 1) Hlt) as H. fold g in H.
  assert (Hm : ((length g - 1) mod 4 <> 3)%nat) by lia.
  destruct (Nat.eqb_spec ((length g - 1) mod 4) 3); [contradiction|].
  rewrite rev_nth in H by lia. replace (length g - S (length g - 1))%nat with 0%nat in H by lia.
  rewrite rev_nth in H by (cbn [length]; fold n; lia).
  cbn [length] in H. fold n in H.
  replace (S n - S (length g - 1 - (length g - 1) / 4))%nat with 0%nat in H by lia.
  cbn [nth] in H. destruct g as [|a r]; [cbn in Hn; lia|]. cbn [nth] in H. subst a. eauto.
Qed.
