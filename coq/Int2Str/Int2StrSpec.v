(** C13 - specification side: what "the decimal representation", "grouped by
    three from the right" and "converting the text back" mean.  Independent of
    the code; Int2StrProofs.v shows the definitions are the intended ones
    ([dec_value_dec], [dec_digits], [dec_no_leading_zero], [group3_nth]). *)
From Coq Require Import List NArith ZArith Bool.
Import ListNotations.

(** ASCII code of the decimal digit of weight 10^e of v *)
Definition digit (v : N) (e : nat) : N := (48 + (v / 10 ^ N.of_nat e) mod 10)%N.

(** digits, least significant first; [fuel] bounds the number of digits *)
Fixpoint rdigits (fuel : nat) (v : N) : list N :=
  match fuel with
  | O => []
  | S f => (48 + v mod 10)%N :: (if (v / 10 =? 0)%N then [] else rdigits f (v / 10)%N)
  end.

(** canonical decimal text of a natural number (log2 v + 1 >= number of digits) *)
Definition dec (v : N) : list N := rev (rdigits (S (N.to_nat (N.log2 v))) v).

Definition ndigits (v : N) : nat := length (dec v).

(** decimal text of an integer: '-' in front of the text of the magnitude *)
Definition sdec (z : Z) : list N :=
  if (z <? 0)%Z then 45%N :: dec (Z.to_N (- z)) else dec (Z.to_N z).

(** [ins3 sep k l]: l lists characters from the right; k of them already stand
    in the current group; a separator goes between every three *)
Fixpoint ins3 {A} (sep : A) (k : nat) (l : list A) : list A :=
  match l with
  | [] => []
  | d :: r => if Nat.eqb k 3 then sep :: d :: ins3 sep 1 r else d :: ins3 sep (S k) r
  end.

Definition group3 (sep : N) (ds : list N) : list N := rev (ins3 sep 0 (rev ds)).

Definition sgroup (sep : N) (z : Z) : list N :=
  if (z <? 0)%Z then 45%N :: group3 sep (dec (Z.to_N (- z))) else group3 sep (dec (Z.to_N z)).

(** value of a digit string, most significant first *)
Definition dec_value (s : list N) : N := fold_left (fun a d => (a * 10 + (d - 48))%N) s 0%N.

Definition is_dec_digit (b : N) : bool := ((48 <=? b) && (b <=? 57))%N.
