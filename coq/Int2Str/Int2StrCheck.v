(** C13 - the two verified checkers run (by vm_compute) on the regenerated
    tables of Int2StrGen.v.  Definitions only; soundness is proved once and for
    all in Int2StrProofs.v.
    - [tree_ok lo hi t] : interval checker - every v in [lo,hi) reaches a leaf
      [Ret n] with 10^(n-1) <= v < 10^n (n = 1 also takes 0).  Any equivalent
      re-ordering of the comparisons passes.
    - [trace_ok sc k expect] : symbolic execution of the statements the switch
      executes for label k; the characters stored, from right to left, must be
      the expected layout (digit of weight 10^0, 10^1, ... / separators). *)
From Coq Require Import List NArith ZArith Bool Arith.
Import ListNotations.
Require Import Celma.Int2Str.Int2StrIR Celma.Int2Str.Int2StrSpec Celma.Int2Str.Int2StrModel.

Fixpoint tree_ok (lo hi : N) (t : dtree) : bool :=
  match t with
  | Ret n => (hi <=? lo)%N
             || ((1 <=? n)%N && (n <? 256)%N && ((n =? 1)%N || (10 ^ (n - 1) <=? lo)%N) && (hi <=? 10 ^ n)%N)
  | IfGe c a b => tree_ok (N.max lo c) hi a && tree_ok lo (N.min hi c) b
  end.

(** what one store writes, symbolically in the converted value v *)
Inductive aitem :=
| AMod (e : nat)      (* '0' + (v / 10^e) % 10 *)
| AVal (e : nat)      (* '0' + v / 10^e        *)
| ASep.               (* the group character   *)

(** e = divisions by ten so far, nd = num_digits, closed = the cursor still
    stands on a character already stored (store without decrement) *)
Fixpoint aexec (gl gr : N) (ss : list stmt) (e : nat) (nd : N) (closed : bool) : option (list aitem) :=
  match ss with
  | [] => Some []
  | SStoreMod d :: r =>
      if closed then None else option_map (cons (AMod e)) (aexec gl gr r e nd (negb d))
  | SStoreVal d :: r =>
      if closed then None else option_map (cons (AVal e)) (aexec gl gr r e nd (negb d))
  | SDiv10 :: r => aexec gl gr r (S e) nd closed
  | SIncDigits :: r => aexec gl gr r e (to_char (nd + 1)) closed
  | SCheckGroup :: r =>
      let nd' := to_char (nd + 1) in
      if (nd' =? gl)%N then
        if closed then None else option_map (cons ASep) (aexec gl gr r e gr false)
      else aexec gl gr r e nd' closed
  end.

(** for a value of k digits '0' + v / 10^(k-1) is the leading digit *)
Definition norm (k : nat) (it : aitem) : aitem :=
  match it with
  | AVal e => if Nat.eqb (S e) k then AMod e else it
  | _ => it
  end.

Definition aitem_eqb (a b : aitem) : bool :=
  match a, b with
  | AMod x, AMod y => Nat.eqb x y
  | AVal x, AVal y => Nat.eqb x y
  | ASep, ASep => true
  | _, _ => false
  end.

Fixpoint alist_eqb (a b : list aitem) : bool :=
  match a, b with
  | [], [] => true
  | x :: r, y :: s => aitem_eqb x y && alist_eqb r s
  | _, _ => false
  end.

Definition plain_expect (k : nat) : list aitem := map AMod (seq 0 k).
Definition grouped_expect (k : nat) : list aitem := ins3 ASep 0 (map AMod (seq 0 k)).

Definition trace_ok (sc : swconf) (k : nat) (expect : list aitem) : bool :=
  match aexec (sw_glimit sc) (sw_greset sc) (stmts_for (sw_cases sc) (N.of_nat k)) 0 0 false with
  | Some out => alist_eqb (map (norm k) out) expect
  | None => false
  end.

(** everything the theorems need from the regenerated tables of one width *)
Definition conv_ok (c : conv) : bool :=
  let maxd := ndigits (2 ^ cv_bits c - 1) in
  (1 <=? cv_bits c)%N && (cv_bits c <=? cv_tbits c)%N
  && (cv_bits c <=? sw_vbits (cv_plain c))%N && (cv_bits c <=? sw_vbits (cv_grouped c))%N
  && tree_ok 0 (2 ^ cv_bits c) (cv_tree c)
  && forallb (fun k => trace_ok (cv_plain c) k (plain_expect k)
                       && trace_ok (cv_grouped c) k (grouped_expect k)
                       && (N.of_nat (length (grouped_expect k)) =? grouped_len (N.of_nat k))%N) (seq 1 maxd).
