(** C13 - the tiny IR the translator (translate/tr_int2str.py) emits for the
    table-like parts of the integer-to-string code, and its semantics.

    - [dtree]  : the digit-count decision trees of intN_str_length()
    - [switch] : the fall-through switch of convert(): labels in source order,
                 each with its statements; execution starts at the matching
                 label (the [default] label when none matches) and falls
                 through to the end of the switch.
    Statements execute on a bounds-checked byte buffer with a cursor (the
    [char* buffer] parameter, as an offset into the caller's buffer - it may
    run one below the start without being dereferenced).  No proofs here. *)
From Coq Require Import List NArith ZArith Bool.
Import ListNotations.
Require Import Celma.Common.Res.

Inductive dtree :=
| Ret (n : N)                       (* return n;                      *)
| IfGe (c : N) (t e : dtree).       (* value >= c ? t : e             *)

Fixpoint eval_tree (t : dtree) (v : N) : N :=
  match t with
  | Ret n => n
  | IfGe c a b => if (c <=? v)%N then eval_tree a v else eval_tree b v
  end.

Inductive stmt :=
| SStoreMod (dec : bool)   (* *buffer[--] = '0' + (value % 10);               *)
| SStoreVal (dec : bool)   (* *buffer[--] = '0' + value;                      *)
| SDiv10                   (* value /= 10;                                    *)
| SIncDigits               (* ++num_digits;                                   *)
| SCheckGroup.             (* checkAddGroupChar( buffer, num_digits, group_char); *)

Definition switch := list (option N * list stmt).

(** one convert() function: type of [value], the switch, the two constants of
    checkAddGroupChar ([if (++num_digits == glimit) { *buffer-- = group_char;
    num_digits = greset; }]) *)
Record swconf := { sw_vbits : N; sw_cases : switch; sw_glimit : N; sw_greset : N }.

(** everything the translator reads for one width *)
Record conv := {
  cv_bits : N;             (* width of the integer type served                *)
  cv_tbits : N;            (* static_cast< uintK_t> in intN_str_length        *)
  cv_tree : dtree;
  cv_plain : swconf;       (* convert() of intN_to_string.cpp                 *)
  cv_grouped : swconf      (* convert() of grouped_intN_to_string.cpp         *)
}.

(** ** machine state of convert() *)
Record cstate := { c_buf : list N; c_cur : Z; c_val : N; c_nd : N }.

Fixpoint upd (i : nat) (b : N) (l : list N) : list N :=
  match l, i with
  | [], _ => []
  | _ :: r, O => b :: r
  | a :: r, S j => a :: upd j b r
  end.

(** checked store of one char through the cursor *)
Definition wr (buf : list N) (c : Z) (b : N) : res (list N) :=
  if ((0 <=? c)%Z && (c <? Z.of_nat (length buf))%Z)%bool
  then Ok (upd (Z.to_nat c) b buf) else Fault OOBWrite.

Definition after (dec : bool) (c : Z) : Z := if dec then (c - 1)%Z else c.

(** conversion of an int expression to char keeps the low 8 bits; num_digits
    is a uint8_t *)
Definition to_char (x : N) : N := (x mod 256)%N.

Definition step (gl gr sep : N) (s : stmt) (st : cstate) : res cstate :=
  match s with
  | SStoreMod d =>
      do b <- wr (c_buf st) (c_cur st) (to_char (48 + c_val st mod 10));
      Ok {| c_buf := b; c_cur := after d (c_cur st); c_val := c_val st; c_nd := c_nd st |}
  | SStoreVal d =>
      do b <- wr (c_buf st) (c_cur st) (to_char (48 + c_val st));
      Ok {| c_buf := b; c_cur := after d (c_cur st); c_val := c_val st; c_nd := c_nd st |}
  | SDiv10 =>
      Ok {| c_buf := c_buf st; c_cur := c_cur st; c_val := (c_val st / 10)%N; c_nd := c_nd st |}
  | SIncDigits =>
      Ok {| c_buf := c_buf st; c_cur := c_cur st; c_val := c_val st; c_nd := to_char (c_nd st + 1) |}
  | SCheckGroup =>
      let nd' := to_char (c_nd st + 1) in
      if (nd' =? gl)%N then
        do b <- wr (c_buf st) (c_cur st) sep;
        Ok {| c_buf := b; c_cur := (c_cur st - 1)%Z; c_val := c_val st; c_nd := gr |}
      else Ok {| c_buf := c_buf st; c_cur := c_cur st; c_val := c_val st; c_nd := nd' |}
  end.

Fixpoint run_stmts (gl gr sep : N) (ss : list stmt) (st : cstate) : res cstate :=
  match ss with
  | [] => Ok st
  | s :: r => do st' <- step gl gr sep s st; run_stmts gl gr sep r st'
  end.

(** statements executed for the label [k]: from the matching label to the end
    of the switch *)
Fixpoint from_label (k : option N) (sw : switch) : option (list stmt) :=
  match sw with
  | [] => None
  | (l, ss) :: r =>
      let same := match k, l with
                  | Some a, Some b => (a =? b)%N
                  | None, None => true
                  | _, _ => false
                  end in
      if same then Some (ss ++ concat (map snd r)) else from_label k r
  end.

Definition stmts_for (sw : switch) (len : N) : list stmt :=
  match from_label (Some len) sw with
  | Some ss => ss
  | None => match from_label None sw with Some ss => ss | None => [] end
  end.

(** convert( buffer + cur, value, result_len [, group_char]) *)
Definition run_convert (sc : swconf) (sep : N) (buf : list N) (cur : Z) (value len : N) : res (list N) :=
  do st <- run_stmts (sw_glimit sc) (sw_greset sc) sep (stmts_for (sw_cases sc) len)
                     {| c_buf := buf; c_cur := cur; c_val := (value mod 2 ^ sw_vbits sc)%N; c_nd := 0 |};
  Ok (c_buf st).
