(** C13 - the four widths: the checkers accept the regenerated tables
    (vm_compute), hence the theorems of Int2StrProofs.v hold for the public
    functions int2string / grouped_int2string / stringTo of every width. *)
From Coq Require Import List NArith ZArith Bool Arith Lia ZifyNat ZifyN ZifyBool.
Import ListNotations.
Require Import Celma.Common.Res Celma.Common.Tactics.
Require Import Celma.Int2Str.Int2StrIR Celma.Int2Str.Int2StrGen Celma.Int2Str.Int2StrSpec
               Celma.Int2Str.Int2StrModel Celma.Int2Str.Int2StrCheck Celma.Int2Str.Int2StrProofs.

Local Open Scope N_scope.

Lemma conv_ok_8 : conv_ok conv_8 = true.   Proof. vm_compute. reflexivity. Qed.
Lemma conv_ok_16 : conv_ok conv_16 = true. Proof. vm_compute. reflexivity. Qed.
Lemma conv_ok_32 : conv_ok conv_32 = true. Proof. vm_compute. reflexivity. Qed.
Lemma conv_ok_64 : conv_ok conv_64 = true. Proof. vm_compute. reflexivity. Qed.

Definition is_width (bits : N) : Prop := In bits [8; 16; 32; 64].

Lemma width_ok bits : is_width bits -> conv_ok (conv_of bits) = true /\ cv_bits (conv_of bits) = bits.
Proof.
  unfold is_width. cbn [In]. intros [<-|[<-|[<-|[<-|[]]]]]; (split; [|reflexivity]).
  - exact conv_ok_8.
  - exact conv_ok_16.
  - exact conv_ok_32.
  - exact conv_ok_64.
Qed.

Ltac width bits Hw :=
  let Hok := fresh "Hok" in let Hb := fresh "Hb" in
  destruct (width_ok bits Hw) as [Hok Hb].

Lemma width_pos bits : is_width bits -> 1 <= bits.
Proof. unfold is_width. cbn [In]. intros [<-|[<-|[<-|[<-|[]]]]]; lia. Qed.

Theorem strlen_tree_correct bits v :
  is_width bits -> v < 2 ^ bits -> str_length (conv_of bits) v = N.of_nat (ndigits v).
Proof.
  intros Hw Hv. width bits Hw. apply str_length_correct; [exact Hok|rewrite Hb; exact Hv].
Qed.

Theorem convert_correct bits v buf cur :
  is_width bits -> v < 2 ^ bits ->
  (Z.of_nat (ndigits v) <= cur + 1)%Z -> (cur < Z.of_nat (length buf))%Z ->
  run_convert (cv_plain (conv_of bits)) 0 buf cur v (N.of_nat (ndigits v))
  = Ok (firstn (Z.to_nat (cur + 1) - ndigits v) buf ++ dec v ++ skipn (Z.to_nat (cur + 1)) buf).
Proof.
  intros Hw Hv. width bits Hw. apply plain_convert; [exact Hok|rewrite Hb; exact Hv].
Qed.

Theorem grouped_convert_correct bits v sep buf cur :
  is_width bits -> v < 2 ^ bits ->
  (Z.of_nat (length (group3 sep (dec v))) <= cur + 1)%Z -> (cur < Z.of_nat (length buf))%Z ->
  run_convert (cv_grouped (conv_of bits)) sep buf cur v (N.of_nat (ndigits v))
  = Ok (firstn (Z.to_nat (cur + 1) - length (group3 sep (dec v))) buf
        ++ group3 sep (dec v) ++ skipn (Z.to_nat (cur + 1)) buf).
Proof.
  intros Hw Hv. width bits Hw. apply grouped_convert; [exact Hok|rewrite Hb; exact Hv].
Qed.

Lemma sdec_unsigned pat : sdec (Z.of_N pat) = dec pat.
Proof. unfold sdec. replace (Z.of_N pat <? 0)%Z with false by lia. rewrite N2Z.id. reflexivity. Qed.

Lemma sgroup_unsigned sep pat : sgroup sep (Z.of_N pat) = group3 sep (dec pat).
Proof. unfold sgroup. replace (Z.of_N pat <? 0)%Z with false by lia. rewrite N2Z.id. reflexivity. Qed.

Lemma signed_in_range bits pat : is_width bits -> pat < 2 ^ bits ->
  in_signed (conv_of bits) (to_Z bits true pat).
Proof.
  intros Hw Hp. width bits Hw. unfold in_signed. rewrite Hb.
  apply to_Z_signed_range; [apply width_pos; exact Hw|exact Hp].
Qed.

Theorem int2string_exact bits sg pat :
  is_width bits -> pat < 2 ^ bits -> int2string bits sg pat = Ok (sdec (to_Z bits sg pat)).
Proof.
  intros Hw Hp. width bits Hw. unfold int2string. destruct sg.
  - apply s_to_string_exact; [exact Hok|apply signed_in_range; assumption].
  - rewrite to_Z_unsigned, sdec_unsigned. apply u_to_string_exact; [exact Hok|rewrite Hb; exact Hp].
Qed.

Theorem grouped_int2string_exact bits sg pat sep :
  is_width bits -> pat < 2 ^ bits ->
  grouped_int2string bits sg pat sep = Ok (sgroup sep (to_Z bits sg pat)).
Proof.
  intros Hw Hp. width bits Hw. unfold grouped_int2string. destruct sg.
  - apply gs_to_string_exact; [exact Hok|apply signed_in_range; assumption].
  - rewrite to_Z_unsigned, sgroup_unsigned. apply gu_to_string_exact; [exact Hok|rewrite Hb; exact Hp].
Qed.

Theorem int2string_buf_exact bits sg pat buf :
  is_width bits -> pat < 2 ^ bits ->
  let text := sdec (to_Z bits sg pat) in
  (length text < length buf)%nat ->
  int2string_buf bits sg buf pat
  = Ok (Z.of_nat (length text), text ++ 0 :: skipn (S (length text)) buf).
Proof.
  intros Hw Hp text Hlen. subst text. width bits Hw. unfold int2string_buf. destruct sg.
  - apply s_to_buffer_exact; [exact Hok|apply signed_in_range; assumption|exact Hlen].
  - rewrite to_Z_unsigned, sdec_unsigned in *.
    apply (u_to_buffer_exact _ Hok); [rewrite Hb; exact Hp|exact Hlen].
Qed.

Theorem grouped_int2string_buf_exact bits sg pat sep buf :
  is_width bits -> pat < 2 ^ bits ->
  let text := sgroup sep (to_Z bits sg pat) in
  (length text < length buf)%nat ->
  grouped_int2string_buf bits sg buf pat sep
  = Ok (Z.of_nat (length text), text ++ 0 :: skipn (S (length text)) buf).
Proof.
  intros Hw Hp text Hlen. subst text. width bits Hw. unfold grouped_int2string_buf. destruct sg.
  - apply gs_to_buffer_exact; [exact Hok|apply signed_in_range; assumption|exact Hlen].
  - rewrite to_Z_unsigned, sgroup_unsigned in *.
    apply (gu_to_buffer_exact _ Hok); [rewrite Hb; exact Hp|exact Hlen].
Qed.

Theorem buffer_needs_room bits sg pat sep buf :
  is_width bits -> pat < 2 ^ bits ->
  ((length buf <= length (sdec (to_Z bits sg pat)))%nat ->
   int2string_buf bits sg buf pat = Fault OOBWrite) /\
  ((length buf <= length (sgroup sep (to_Z bits sg pat)))%nat ->
   grouped_int2string_buf bits sg buf pat sep = Fault OOBWrite).
Proof.
  intros Hw Hp. width bits Hw. unfold int2string_buf, grouped_int2string_buf. destruct sg.
  - split; intros Hlen.
    + apply s_to_buffer_short; [exact Hok|apply signed_in_range; assumption|exact Hlen].
    + apply gs_to_buffer_short; [exact Hok|apply signed_in_range; assumption|exact Hlen].
  - rewrite to_Z_unsigned, sdec_unsigned, sgroup_unsigned. split; intros Hlen.
    + apply (u_to_buffer_short _ Hok); [rewrite Hb; exact Hp|exact Hlen].
    + apply (gu_to_buffer_short _ Hok); [rewrite Hb; exact Hp|exact Hlen].
Qed.

(** round trip *)
Theorem string_to_roundtrip bits sg pat :
  is_width bits -> pat < 2 ^ bits -> string_to bits sg (sdec (to_Z bits sg pat)) = Ok pat.
Proof.
  intros Hw Hp.
  assert (Hu : to_uint bits (to_Z bits sg pat) = pat)
    by (apply to_uint_to_Z; [apply width_pos; exact Hw|exact Hp]).
  assert (Hr : if sg then (- Z.of_N (2 ^ (bits - 1)) <= to_Z bits sg pat < Z.of_N (2 ^ (bits - 1)))%Z
               else (0 <= to_Z bits sg pat < Z.of_N (2 ^ bits))%Z).
  { destruct sg; [apply to_Z_signed_range; [apply width_pos; exact Hw|exact Hp]|].
    rewrite to_Z_unsigned. lia. }
  revert Hu Hr. generalize (to_Z bits sg pat). intros z Hu Hr.
  unfold is_width in Hw. cbn [In] in Hw.
  destruct Hw as [<-|[<-|[<-|[<-|[]]]]]; destruct sg; unfold string_to; cbn [N.eqb Pos.eqb];
    repeat match type of Hr with
           | context [Z.of_N (2 ^ ?a)] =>
               let x := eval vm_compute in (Z.of_N (2 ^ a)) in change (Z.of_N (2 ^ a)) with x in Hr
           end;
    rewrite ?std_stoi_sdec, ?c_strtol_sdec, ?c_strtoul_sdec by lia; cbn [bind]; rewrite Hu; reflexivity.
Qed.

Corollary roundtrip bits sg pat s :
  is_width bits -> pat < 2 ^ bits -> int2string bits sg pat = Ok s -> string_to bits sg s = Ok pat.
Proof.
  intros Hw Hp H. rewrite int2string_exact in H by assumption. injection H as <-.
  apply string_to_roundtrip; assumption.
Qed.

(** the separator is never adjacent to the sign: a negative grouped text is
    '-', then the leading digit of the magnitude; every grouped text starts and
    (trivially, positions are counted from the right) ends with a digit *)
Theorem sep_not_adjacent_to_sign sep z :
  (z < 0)%Z ->
  exists d r, sgroup sep z = 45 :: d :: r /\ is_dec_digit d = true /\
              exists r', dec (Z.to_N (- z)) = d :: r'.
Proof.
  intros Hz. unfold sgroup. replace (z <? 0)%Z with true by lia.
  destruct (dec_head (Z.to_N (- z))) as (d & r' & Hd & Hr & _). rewrite Hd.
  destruct (group3_head sep d r') as (r & ->).
  exists d, r. split; [reflexivity|]. split; [unfold is_dec_digit; lia|eauto].
Qed.

Theorem dec_canonical v :
  dec_value (dec v) = v /\ Forall (fun b => is_dec_digit b = true) (dec v) /\
  dec v <> [] /\ (v <> 0 -> hd 0 (dec v) <> 48) /\ dec 0 = [48].
Proof.
  splits.
  - apply dec_value_dec.
  - apply dec_digits.
  - apply dec_nonempty.
  - intros Hv. destruct (dec_head v) as (d & r & -> & _ & H). cbn [hd]. auto.
  - reflexivity.
Qed.
