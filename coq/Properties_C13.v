(** C13 placeholder while the correspondence is being set up *)
From Coq Require Import List NArith ZArith.
Import ListNotations.
Require Import Celma.Common.Res Celma.Int2Str.Int2StrIR Celma.Int2Str.Int2StrGen Celma.Int2Str.Int2StrModel.

Example C13_nonvacuous_run :
  grouped_int2string 32 true (2^32 - 1234567)%N 39%N = Ok [45; 49; 39; 50; 51; 52; 39; 53; 54; 55]%N.
Proof. vm_compute. reflexivity. Qed.
