(** C13  Integer-to-string conversions are exact for every integer.
    Only statements; every proof is [exact <lemma of Int2Str/Int2StrWidths.v>].

    Integers are bit patterns [pat < 2^bits] of a type of [bits] in {8,16,32,64}
    bits, signed or not ([to_Z bits sg pat] is the value) - so every theorem
    speaks about every value of all eight integer types.  The decision trees and
    switch tables the functions run on are those of Int2StrGen.v, regenerated
    from the C++ source by translate/tr_int2str.py on every check; they enter
    the proofs only through [conv_ok conv_N = true], computed by vm_compute. *)
From Coq Require Import List NArith ZArith.
Import ListNotations.
Require Import Celma.Common.Res Celma.Int2Str.Int2StrIR Celma.Int2Str.Int2StrGen Celma.Int2Str.Int2StrSpec
               Celma.Int2Str.Int2StrModel Celma.Int2Str.Int2StrWidths.
Local Open Scope N_scope.

(** The specification functions are the intended ones: [dec v] consists of
    decimal digits only, is not empty, has no leading zero (except "0" itself)
    and its value is v - which determines it uniquely. *)
Theorem C13_dec_canonical :
  forall v, dec_value (dec v) = v /\ Forall (fun b => is_dec_digit b = true) (dec v) /\
            dec v <> [] /\ (v <> 0 -> hd 0 (dec v) <> 48) /\ dec 0 = [48].
Proof. exact dec_canonical. Qed.
Print Assumptions C13_dec_canonical.

(** [group3]: counted from the right (position 0 = last character) every fourth
    position holds the separator, the other positions hold the digits in order;
    the length is n + (n-1)/3. *)
Theorem C13_group3_positional :
  forall sep ds x j,
    (j < length (group3 sep ds))%nat ->
    nth j (rev (group3 sep ds)) x
    = if Nat.eqb (j mod 4) 3 then sep else nth (j - j / 4) (rev ds) x.
Proof. exact Int2StrProofs.group3_nth. Qed.
Print Assumptions C13_group3_positional.

Theorem C13_group3_length :
  forall sep ds, length (group3 sep ds) = (length ds + (length ds - 1) / 3)%nat.
Proof. exact Int2StrProofs.group3_length. Qed.
Print Assumptions C13_group3_length.

(** Digit-count decision trees: correct for every value of the type. *)
Theorem C13_strlen_tree_correct :
  forall bits v, is_width bits -> v < 2 ^ bits ->
                 str_length (conv_of bits) v = N.of_nat (ndigits v).
Proof. exact strlen_tree_correct. Qed.
Print Assumptions C13_strlen_tree_correct.

(** convert(): entered with the digit count of v and a cursor with at least
    that many characters in front of it (inclusive), it stores exactly the
    decimal digits of v ending at the cursor and touches nothing else; no store
    leaves the buffer. *)
Theorem C13_convert_correct :
  forall bits v buf cur,
    is_width bits -> v < 2 ^ bits ->
    (Z.of_nat (ndigits v) <= cur + 1)%Z -> (cur < Z.of_nat (length buf))%Z ->
    run_convert (cv_plain (conv_of bits)) 0 buf cur v (N.of_nat (ndigits v))
    = Ok (firstn (Z.to_nat (cur + 1) - ndigits v) buf ++ dec v ++ skipn (Z.to_nat (cur + 1)) buf).
Proof. exact convert_correct. Qed.
Print Assumptions C13_convert_correct.

Theorem C13_grouped_convert_correct :
  forall bits v sep buf cur,
    is_width bits -> v < 2 ^ bits ->
    (Z.of_nat (length (group3 sep (dec v))) <= cur + 1)%Z -> (cur < Z.of_nat (length buf))%Z ->
    run_convert (cv_grouped (conv_of bits)) sep buf cur v (N.of_nat (ndigits v))
    = Ok (firstn (Z.to_nat (cur + 1) - length (group3 sep (dec v))) buf
          ++ group3 sep (dec v) ++ skipn (Z.to_nat (cur + 1)) buf).
Proof. exact grouped_convert_correct. Qed.
Print Assumptions C13_grouped_convert_correct.

(** int2string( value): exactly the decimal representation, for every value of
    every type - including 0 and the minimum of the signed types. *)
Theorem C13_int2string_exact :
  forall bits sg pat, is_width bits -> pat < 2 ^ bits ->
                      int2string bits sg pat = Ok (sdec (to_Z bits sg pat)).
Proof. exact int2string_exact. Qed.
Print Assumptions C13_int2string_exact.

(** grouped_int2string( value, sep): the same text with the group character
    between every three digits counted from the right, for every group
    character. *)
Theorem C13_grouped_exact :
  forall bits sg pat sep, is_width bits -> pat < 2 ^ bits ->
                          grouped_int2string bits sg pat sep = Ok (sgroup sep (to_Z bits sg pat)).
Proof. exact grouped_int2string_exact. Qed.
Print Assumptions C13_grouped_exact.

(** ... and never adjacent to the sign: behind '-' stands the leading digit. *)
Theorem C13_sep_not_adjacent_to_sign :
  forall sep z, (z < 0)%Z ->
    exists d r, sgroup sep z = 45 :: d :: r /\ is_dec_digit d = true /\
                exists r', dec (Z.to_N (- z)) = d :: r'.
Proof. exact sep_not_adjacent_to_sign. Qed.
Print Assumptions C13_sep_not_adjacent_to_sign.

(** Buffer variants, for an arbitrary caller buffer with room for text + NUL:
    the text and the terminating NUL are written at the start, every other byte
    of the buffer is unchanged, the text length is returned, no store leaves
    the buffer. *)
Theorem C13_buffer_exact :
  forall bits sg pat buf,
    is_width bits -> pat < 2 ^ bits ->
    let text := sdec (to_Z bits sg pat) in
    (length text < length buf)%nat ->
    int2string_buf bits sg buf pat
    = Ok (Z.of_nat (length text), text ++ 0 :: skipn (S (length text)) buf).
Proof. exact int2string_buf_exact. Qed.
Print Assumptions C13_buffer_exact.

Theorem C13_grouped_buffer_exact :
  forall bits sg pat sep buf,
    is_width bits -> pat < 2 ^ bits ->
    let text := sgroup sep (to_Z bits sg pat) in
    (length text < length buf)%nat ->
    grouped_int2string_buf bits sg buf pat sep
    = Ok (Z.of_nat (length text), text ++ 0 :: skipn (S (length text)) buf).
Proof. exact grouped_int2string_buf_exact. Qed.
Print Assumptions C13_grouped_buffer_exact.

(** The footprint text + NUL is also necessary: with a shorter buffer the
    model reports the out-of-bounds store (so the two theorems above are not
    satisfied by a model that ignores stores it cannot place). *)
Theorem C13_buffer_needs_room :
  forall bits sg pat sep buf,
    is_width bits -> pat < 2 ^ bits ->
    ((length buf <= length (sdec (to_Z bits sg pat)))%nat ->
     int2string_buf bits sg buf pat = Fault OOBWrite) /\
    ((length buf <= length (sgroup sep (to_Z bits sg pat)))%nat ->
     grouped_int2string_buf bits sg buf pat sep = Fault OOBWrite).
Proof. exact buffer_needs_room. Qed.
Print Assumptions C13_buffer_needs_room.

(** Converting the text back (stringTo<T>: std::stoi / stol / stoul and the
    conversion to T) yields the original value. *)
Theorem C13_roundtrip :
  forall bits sg pat s, is_width bits -> pat < 2 ^ bits ->
                        int2string bits sg pat = Ok s -> string_to bits sg s = Ok pat.
Proof. exact roundtrip. Qed.
Print Assumptions C13_roundtrip.

(** Non-vacuity: values that meet the hypotheses and exercise the sign, the
    minimum, the widest tree and the grouping. *)
Example C13_nonvacuous_min64 :
  is_width 64 /\ 2 ^ 63 < 2 ^ 64 /\
  int2string 64 true (2 ^ 63) = Ok [45; 57; 50; 50; 51; 51; 55; 50; 48; 51; 54; 56; 53; 52; 55; 55; 53; 56; 48; 56] /\
  to_Z 64 true (2 ^ 63) = (- 9223372036854775808)%Z.
Proof. vm_compute. repeat split; auto. Qed.

Example C13_nonvacuous_grouped :
  grouped_int2string 32 true (2 ^ 32 - 1234567) 39 = Ok [45; 49; 39; 50; 51; 52; 39; 53; 54; 55] /\
  grouped_int2string_buf 16 false [170; 170; 170; 170; 170; 170; 170; 170; 170] 65535 44
  = Ok (6%Z, [54; 53; 44; 53; 51; 53; 0; 170; 170]) /\
  string_to 8 true [45; 49; 50; 56] = Ok 128.
Proof. vm_compute. repeat split; reflexivity. Qed.
