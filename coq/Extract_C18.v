(** Extraction of the runnable C18 model (ExtrOcamlBasic only). *)
From Coq Require Import Extraction ExtrOcamlBasic.
Require Import Celma.Text.TextBlockModel Celma.Text.Usage.
Extraction Language OCaml.
Extraction "../ocaml/gen/c18_model.ml" eval_case eval_case_txt check_texts user_arg digest unlines.
