(** Extraction of the runnable C18 model (ExtrOcamlBasic only). *)
From Coq Require Import Extraction ExtrOcamlBasic.
Require Import Celma.Text.TextBlockModel Celma.Text.Usage Celma.Text.UsageAgain Celma.Text.UsagePath.
Require Celma.ArgH.Key.
Extraction Language OCaml.
Extraction "../ocaml/gen/c18_model.ml" eval_case eval_case_txt eval_case_sg check_texts Key.parse_key user_arg digest unlines eval_case_again eval_case_path.
