(** C18: the usage of a sub-group (one level) is printed under the display
    settings in force at that moment. *)
From Coq Require Import List Arith NArith Bool Lia.
Import ListNotations.
Require Import Celma.Common.Res Celma.Text.TextBlockModel Celma.Text.TextBlockProofs.
Require Import Celma.Text.Usage Celma.Text.UsageProofs Celma.Text.UsageDigest.
Require Celma.ArgH.Key.

(** requesting the usage of the i-th sub-group appends the usage of exactly
    that handler's arguments, printed with the current (shared) settings; the
    settings, the error stream and the main handler's "usage printed" mark are
    unchanged *)
Theorem sub_help_spec t1 t2 sgs f w margs s i s' :
  eval_cmd_sg t1 t2 sgs f w margs s (CmdSubHelp i) = Ok s' ->
  exists g, nth_error sgs i = Some g /\
    hout s' = hout s ++ usage_lines (hp s) w (sub_args g) /\
    herr s' = herr s /\ hp s' = hp s /\ hprinted s' = hprinted s /\
    print_fails (hp s) (sub_args g) = false.
Proof.
  unfold eval_cmd_sg. destruct (nth_error sgs i) as [g|]; [|discriminate].
  destruct (negb (N.eqb (N.land (sg_flags g) 3) 0) && has f hfUsageCont); [|discriminate].
  destruct (print_fails (hp s) (sub_args g)) eqn:E; [discriminate|].
  intros H. inversion H. exists g. cbn. repeat split; try reflexivity. exact E.
Qed.

Definition is_setting (c : cmd) : bool :=
  match c with
  | CmdPrintHidden | CmdPrintDeprecated | CmdHelpShort | CmdHelpLong => true
  | _ => false
  end.

(** the display options on the main command line act on the one settings
    object: exactly as in a handler without sub-groups *)
Theorem setting_delegates t1 t2 sgs f w margs s c :
  is_setting c = true ->
  eval_cmd_sg t1 t2 sgs f w margs s c = eval_cmd f w (margs ++ map sub_arg sgs) s c.
Proof. destruct c; try discriminate; reflexivity. Qed.

(** the main handler's own usage lists the sub-group arguments like any other
    argument of its description list *)
Theorem main_help_delegates t1 t2 sgs f w margs s :
  eval_cmd_sg t1 t2 sgs f w margs s CmdHelp = eval_cmd_txt t1 t2 f w (margs ++ map sub_arg sgs) s CmdHelp.
Proof. reflexivity. Qed.

(** a display requested on the main command line is in force when the usage
    of a sub-group is printed afterwards *)
Theorem sub_help_after_setting t1 t2 sgs f w margs s c s1 i s2 :
  is_setting c = true ->
  eval_cmd_sg t1 t2 sgs f w margs s c = Ok s1 ->
  eval_cmd_sg t1 t2 sgs f w margs s1 (CmdSubHelp i) = Ok s2 ->
  exists g, nth_error sgs i = Some g /\
    hout s2 = hout s1 ++ usage_lines (hp s1) w (sub_args g) /\
    (c = CmdPrintHidden -> print_hidden (hp s1) = true) /\
    (c = CmdPrintDeprecated -> print_deprecated (hp s1) = true) /\
    (c = CmdHelpShort -> cont (hp s1) = CShort) /\
    (c = CmdHelpLong -> cont (hp s1) = CLong).
Proof.
  intros Hc H1 H2. rewrite setting_delegates in H1 by assumption.
  destruct (sub_help_spec _ _ _ _ _ _ _ _ _ H2) as (g & Hg & Ho & _).
  exists g. split; [exact Hg|]. split; [exact Ho|].
  destruct (eval_request f w (margs ++ map sub_arg sgs) s s1) as (R1 & R2 & R3 & R4).
  repeat split; intros ->; [apply R1|apply R2|apply R3|apply R4]; assumption.
Qed.
