(** Executable model of celma::format::TextBlock (src/library/format/text_block.cpp),
    mirrored branch by branch.  No proofs in this file.

    - characters are their codes ([N]), a string is a [list chr]
    - [tokens sep s] is what iterating a common::Tokenizer( s, sep) delivers:
      boost::char_separator<char>( sep) with the default drop_empty_tokens, i.e.
      the non-empty pieces between separators (library behaviour - the modelled
      part, checked by the correspondence run)
    - the output stream is a non-empty list of lines: [os << std::endl] starts a
      new line, [os << s] appends to the last one (no text written by the class
      contains a newline: every word is a piece of a piece between newlines)
    - [mLength] / [currLength] are size_t; with the constructor's [int]
      parameters non-negative no sum below can wrap, so they are [nat] here.
      Negative constructor arguments (length_error from the std::string
      constructor / a huge width) are outside the modelled domain. *)
From Coq Require Import List Arith NArith Bool.
Import ListNotations.

Notation chr := N (only parsing).
Notation str := (list N) (only parsing).

Definition SP : chr := 32%N.
Definition NL : chr := 10%N.
Definition DASH : chr := 45%N.
Definition NN : str := [110%N; 110%N].

Fixpoint str_eqb (a b : str) : bool :=
  match a, b with
  | [], [] => true
  | x :: a', y :: b' => N.eqb x y && str_eqb a' b'
  | _, _ => false
  end.

Definition is_nil (s : str) : bool := match s with [] => true | _ => false end.

(** pieces between separators, empty ones included (never the empty list) *)
Fixpoint split (sep : chr) (s : str) : list str :=
  match s with
  | [] => [[]]
  | c :: r =>
      if N.eqb c sep then [] :: split sep r
      else match split sep r with
           | h :: t => (c :: h) :: t
           | [] => [[c]]
           end
  end.

(** boost::char_separator with drop_empty_tokens *)
Definition tokens (sep : chr) (s : str) : list str :=
  filter (fun t => negb (is_nil t)) (split sep s).

Definition spaces (n : nat) : str := repeat SP n.

(** state of the loop of formatLine: currLength, lineStartsWithDash and the
    lines written so far for this input line ([done] complete, [cur] open) *)
Record st := mkst { curr_len : nat; dash : bool; done : list str; cur : str }.

(** os << s *)
Definition put (s : st) (t : str) : st :=
  mkst (curr_len s) (dash s) (done s) (cur s ++ t).
(** os << std::endl << mIndentSpaces *)
Definition endl_indent (ind : nat) (s : st) : st :=
  mkst (curr_len s) (dash s) (done s ++ [cur s]) (spaces ind).
Definition set_len (s : st) (n : nat) : st := mkst n (dash s) (done s) (cur s).
Definition set_dash (s : st) : st := mkst (curr_len s) true (done s) (cur s).

Definition starts_with_dash (w : str) : bool :=
  match w with c :: _ => N.eqb c DASH | [] => false end.

(** one iteration of the loop over the words *)
Definition step (ind width : nat) (s : st) (w : str) : st :=
  if str_eqb w NN then
    let s1 := set_len (endl_indent ind s) ind in
    if dash s then set_len (put s1 [SP]) (ind + 1) else s1
  else if width <? curr_len s + length w + 1 then
    let s1 := endl_indent ind s in
    let s2 := if dash s then put s1 [SP; SP] else s1 in
    let s3 := put s2 w in
    let s4 := set_len s3 (ind + length w) in
    if dash s then set_len s4 (curr_len s4 + 2) else s4
  else
    let s1 := if negb (curr_len s =? ind) then set_len (put s [SP]) (curr_len s + 1)
              else if starts_with_dash w then set_dash s
              else s in
    set_len (put s1 w) (curr_len s1 + length w).

(** formatLine( os, line): [start] is what format() wrote on the current output
    line before the call (the indentation, or nothing) *)
Definition format_line (ind width : nat) (start : str) (line : str) : list str :=
  let s := fold_left (step ind width) (tokens SP line) (mkst ind false [] start) in
  done s ++ [cur s].

(** the loop of format(): [first] is the FirstPass flag *)
Fixpoint format_blocks (ind width : nat) (indent_first first : bool) (ls : list str)
  : list (list str) :=
  match ls with
  | [] => []
  | l :: r =>
      let start := if first then (if indent_first then spaces ind else []) else spaces ind in
      format_line ind width start l :: format_blocks ind width indent_first false r
  end.

(** the lines written by format( os, txt) *)
Definition format_lines (ind width : nat) (indent_first : bool) (txt : str) : list str :=
  concat (format_blocks ind width indent_first true (tokens NL txt)).

Fixpoint join (sep : chr) (ls : list str) : str :=
  match ls with
  | [] => []
  | [l] => l
  | l :: r => l ++ sep :: join sep r
  end.

(** the characters written by format( os, txt) *)
Definition format (ind width : nat) (indent_first : bool) (txt : str) : str :=
  join NL (format_lines ind width indent_first txt).
