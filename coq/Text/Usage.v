(** Executable model of the usage printer of the argument handler (C18):
      celma::prog_args::detail::ArgumentDesc      (library/prog_args/detail/argument_desc.cpp)
      celma::prog_args::detail::UsageParams       (library/prog_args/detail/usage_params.cpp)
      Handler::handleStartFlags / usage / helpArgument   (library/prog_args/handler.cpp)
    mirrored function by function.  No proofs in this file.

    - a string is a [list N] of character codes (as in Text/TextBlockModel.v);
      descriptions are rendered through the C17 model [format_lines]
    - the output stream is modelled as the list of the lines written, every
      line terminated by [std::endl] ([unlines] gives the characters)
    - keys are [Key.key] of ArgH/Key.v (C05), the argument table look-up is
      [Table.find_arg] of ArgH/Table.v (the repaired findArg of the tree)
    - an argument descriptor carries the texts that the argument object would
      deliver: [default_text] is what TypedArgBase::defaultValue() appends
      ([None]: the class does not override it - the base class throws
      std::runtime_error), [checks] / [constraints] the toString() texts of the
      check / constraint objects in the order they were added *)
From Coq Require Import List Arith NArith Bool.
Import ListNotations.
Require Import Celma.Common.Res Celma.Text.TextBlockModel.
Require Celma.ArgH.Key Celma.ArgH.Table.

(* ------------------------------------------------------------------ *)
(** * literals *)

Definition S_USAGE : str := [85;115;97;103;101;58]%N.   (* Usage: *)
Definition CAP_MAND : str := [77;97;110;100;97;116;111;114;121;32;97;114;103;117;109;101;110;116;115;58]%N.   (* Mandatory arguments: *)
Definition CAP_OPT : str := [79;112;116;105;111;110;97;108;32;97;114;103;117;109;101;110;116;115;58]%N.   (* Optional arguments: *)
Definition S_DEFAULT : str := [68;101;102;97;117;108;116;32;118;97;108;117;101;58;32]%N.   (* Default value:  *)
Definition S_CHECK : str := [67;104;101;99;107;58;32]%N.   (* Check:  *)
Definition S_CONSTRAINT : str := [67;111;110;115;116;114;97;105;110;116;58;32]%N.   (* Constraint:  *)
Definition S_REPLACED : str := [91;114;101;112;108;97;99;101;100;32;98;121;32;39]%N.   (* [replaced by ' *)
Definition S_REPLACED_END : str := [39;93]%N.   (* '] *)
Definition S_DEPRECATED : str := [91;100;101;112;114;101;99;97;116;101;100;93]%N.   (* [deprecated] *)
Definition S_HIDDEN : str := [91;104;105;100;100;101;110;93]%N.   (* [hidden] *)
Definition S_UNIT_OPEN : str := [32;91]%N.   (*  [ *)
Definition S_UNIT_CLOSE : str := [93]%N.   (* ] *)
Definition S_COMMA_SP : str := [44;32]%N.   (* ,  *)
Definition S_ARGUMENT : str := [65;114;103;117;109;101;110;116;32;39]%N.   (* Argument ' *)
Definition S_ARG_USAGE : str := [39;44;32;117;115;97;103;101;58]%N.   (* ', usage: *)
Definition S_ERR_ARG : str := [42;42;42;32;69;82;82;79;82;58;32;65;114;103;117;109;101;110;116;32;39]%N.   (* *** ERROR: Argument ' *)
Definition S_ERR_UNKNOWN : str := [39;32;105;115;32;117;110;107;110;111;119;110;33]%N.   (* ' is unknown! *)
Definition K_HELP_L : str := [104;101;108;112]%N.   (* help *)
Definition K_HELP_ARG : str := [104;101;108;112;45;97;114;103]%N.   (* help-arg *)
Definition K_HELP_ARG_FULL : str := [104;101;108;112;45;97;114;103;45;102;117;108;108]%N.   (* help-arg-full *)
Definition K_PRINT_DEPR : str := [112;114;105;110;116;45;100;101;112;114;101;99;97;116;101;100]%N.   (* print-deprecated *)
Definition K_HELP_SHORT : str := [104;101;108;112;45;115;104;111;114;116]%N.   (* help-short *)
Definition K_HELP_LONG : str := [104;101;108;112;45;108;111;110;103]%N.   (* help-long *)
Definition K_LIST_ARG_VARS : str := [108;105;115;116;45;97;114;103;45;118;97;114;115]%N.   (* list-arg-vars *)
Definition K_ENDVALUES : str := [101;110;100;118;97;108;117;101;115]%N.   (* endvalues *)
Definition K_PRINT_HIDDEN : str := [112;114;105;110;116;45;104;105;100;100;101;110]%N.   (* print-hidden *)
Definition D_HELP : str := [80;114;105;110;116;115;32;116;104;101;32;112;114;111;103;114;97;109;32;117;115;97;103;101;46]%N.   (* Prints the program usage. *)
Definition D_HELP_ARG : str := [80;114;105;110;116;115;32;116;104;101;32;117;115;97;103;101;32;102;111;114;32;116;104;101;32;103;105;118;101;110;32;97;114;103;117;109;101;110;116;46]%N.   (* Prints the usage for the given argument. *)
Definition D_PRINT_DEPR : str := [65;108;115;111;32;112;114;105;110;116;32;100;101;112;114;101;99;97;116;101;100;32;97;110;100;32;114;101;112;108;97;99;101;100;32;97;114;103;117;109;101;110;116;115;32;105;110;32;116;104;101;32;117;115;97;103;101;46]%N.   (* Also print deprecated and replaced arguments in the usage. *)
Definition D_HELP_SHORT : str := [79;110;108;121;32;112;114;105;110;116;32;97;114;103;117;109;101;110;116;115;32;119;105;116;104;32;116;104;101;105;114;32;115;104;111;114;116;32;107;101;121;32;105;110;32;116;104;101;32;117;115;97;103;101;46]%N.   (* Only print arguments with their short key in the usage. *)
Definition D_HELP_LONG : str := [79;110;108;121;32;112;114;105;110;116;32;97;114;103;117;109;101;110;116;115;32;119;105;116;104;32;116;104;101;105;114;32;108;111;110;103;32;107;101;121;32;105;110;32;116;104;101;32;117;115;97;103;101;46]%N.   (* Only print arguments with their long key in the usage. *)
Definition D_LIST_ARG_VARS : str := [80;114;105;110;116;115;32;116;104;101;32;108;105;115;116;32;111;102;32;97;114;103;117;109;101;110;116;115;32;97;110;100;32;116;104;101;105;114;32;100;101;115;116;105;110;97;116;105;111;110;32;118;97;114;105;97;98;108;101;115;46]%N.   (* Prints the list of arguments and their destination variables. *)
Definition D_ENDVALUES : str := [77;97;114;107;115;32;116;104;101;32;101;110;100;32;111;102;32;97;32;109;117;108;116;105;112;108;101;44;32;115;101;112;97;114;97;116;101;32;118;97;108;117;101;32;108;105;115;116;46]%N.   (* Marks the end of a multiple, separate value list. *)
Definition D_PRINT_HIDDEN : str := [65;108;115;111;32;112;114;105;110;116;32;104;105;100;100;101;110;32;97;114;103;117;109;101;110;116;115;32;105;110;32;116;104;101;32;117;115;97;103;101;46]%N.   (* Also print hidden arguments in the usage. *)
Definition QUOTE : chr := 34%N.
Definition SLASH : chr := 47%N.
Definition CH_h : chr := 104%N.

(* ------------------------------------------------------------------ *)
(** * usage parameters and argument descriptors *)

(** UsageParams::Contents *)
Inductive contents := CAll | CShort | CLong.

(** UsageParams: mPrintHidden, mPrintDeprecated, mContents *)
Record params := mkparams { print_hidden : bool; print_deprecated : bool; cont : contents }.

(** one entry of ArgumentDesc::mArguments: the description plus what the
    argument object (TypedArgBase) answers *)
Record arg := mkarg {
  akey : Key.key;                (* key() *)
  mandatory : bool;              (* isMandatory() *)
  hidden : bool;                 (* isHidden() *)
  deprecated : bool;             (* isDeprecated() *)
  replaced_by : str;             (* replacedBy(); isReplaced() = deprecated && not empty *)
  print_default : bool;          (* printDefault() *)
  default_text : option str;     (* defaultValue( dest) appends this; None: throws *)
  unit_text : str;               (* valueUnit() *)
  checks : list str;             (* toString() of the checks, in order *)
  constraints : list str;        (* toString() of the constraints, in order *)
  desc : str                     (* ArgDesc::mDescription *)
}.

Definition MaxNameLength : nat := 40.
Definition IndentLength : nat := 3.

(** ArgumentDesc::ArgDesc::doPrint *)
Definition do_print (p : params) (print_is_mandatory : bool) (a : arg) : bool :=
  Bool.eqb print_is_mandatory (mandatory a)
  && (print_hidden p || negb (hidden a))
  && (print_deprecated p || negb (deprecated a))
  && match cont p with
     | CAll => true
     | CShort => Key.has_c (akey a)
     | CLong => Key.has_w (akey a)
     end.

(** operator <<( ostream, ArgumentKey) *)
Definition key_text_all (k : Key.key) : str :=
  if Key.has_c k then
    [DASH; Key.kc k] ++ (if Key.has_w k then [44%N; DASH; DASH] ++ Key.kw k else [])
  else [DASH; DASH] ++ Key.kw k.

(** ArgumentDesc::ArgDesc::key *)
Definition key_text (c : contents) (a : arg) : str :=
  match c with
  | CAll => key_text_all (akey a)
  | CShort => [DASH; Key.kc (akey a)]
  | CLong => [DASH; DASH] ++ Key.kw (akey a)
  end.

(** format::toString( begin, end) *)
Fixpoint join_comma (l : list str) : str :=
  match l with
  | [] => []
  | [x] => x
  | x :: r => x ++ S_COMMA_SP ++ join_comma r
  end.

Definition is_nil_l {A} (l : list A) : bool := match l with [] => true | _ => false end.

Definition default_or_nil (a : arg) : str :=
  match default_text a with Some t => t | None => [] end.

(** the part of printArguments() that builds [descCopy]; the five optional
    pieces one by one *)
Definition extra_default (a : arg) : str :=
  if negb (mandatory a) && print_default a then
    NL :: S_DEFAULT ++ default_or_nil a
       ++ (if is_nil_l (unit_text a) then [] else S_UNIT_OPEN ++ unit_text a ++ S_UNIT_CLOSE)
  else [].
Definition extra_check (a : arg) : str :=
  if is_nil_l (checks a) then [] else NL :: S_CHECK ++ join_comma (checks a).
Definition extra_constraint (a : arg) : str :=
  if is_nil_l (constraints a) then [] else NL :: S_CONSTRAINT ++ join_comma (constraints a).
Definition extra_deprecated (a : arg) : str :=
  if deprecated a then
    if negb (is_nil_l (replaced_by a)) then NL :: S_REPLACED ++ replaced_by a ++ S_REPLACED_END
    else NL :: S_DEPRECATED
  else [].
Definition extra_hidden (a : arg) : str :=
  if hidden a then NL :: S_HIDDEN else [].

Definition desc_copy (a : arg) : str :=
  desc a ++ extra_default a ++ extra_check a ++ extra_constraint a
         ++ extra_deprecated a ++ extra_hidden a.

(** building descCopy throws (TypedArgBase::defaultValue of the base class) *)
Definition desc_fails (a : arg) : bool :=
  negb (mandatory a) && print_default a
  && match default_text a with None => true | Some _ => false end.

(** what is on the stream after [os << start; tb.format( os, txt); os << endl]
    when [start] was written on the open line before *)
Definition attach (start : str) (fl : list str) : list str :=
  match fl with
  | [] => [start]
  | l :: r => (start ++ l) :: r
  end.

(** the lines of one entry (body of the loop of printArguments) *)
Definition entry_lines (p : params) (width : nat) (same_line : bool) (max_length : nat) (a : arg)
  : list str :=
  let k := key_text (cont p) a in
  if same_line then
    (* os << mIndention << setw( max_length) << left << key << mIndention *)
    attach (spaces IndentLength ++ k ++ spaces (max_length - length k) ++ spaces IndentLength)
           (format_lines (2 * IndentLength + max_length) width false (desc_copy a))
  else
    (* os << mIndention << key << endl *)
    (spaces IndentLength ++ k)
      :: attach [] (format_lines (2 * IndentLength) width true (desc_copy a)).

(** ArgumentDesc::printArguments: [printed_mand] is printed[ true], [printed]
    is printed[ printIsMandatory] (both start at 0); returns the lines and the
    final counter *)
Fixpoint print_arguments (p : params) (width : nat) (same_line : bool) (max_length : nat)
    (print_is_mandatory : bool) (printed_mand : nat) (args : list arg) (printed : nat)
  : list str * nat :=
  match args with
  | [] => ([], printed)
  | a :: r =>
      if negb (do_print p print_is_mandatory a) then
        print_arguments p width same_line max_length print_is_mandatory printed_mand r printed
      else
        let cap :=
          if printed =? 0 then
            if print_is_mandatory then [CAP_MAND]
            else (if 0 <? printed_mand then [[]] else []) ++ [CAP_OPT]
          else [] in
        let '(rest, n) :=
          print_arguments p width same_line max_length print_is_mandatory printed_mand r (S printed) in
        (cap ++ entry_lines p width same_line max_length a ++ rest, n)
  end.

(** the first loop of ArgumentDesc::print *)
Definition max_key_length (p : params) (args : list arg) : nat :=
  fold_left (fun m a =>
               if negb (do_print p true a) && negb (do_print p false a) then m
               else Nat.max m (length (key_text (cont p) a)))
            args 0.

(** ArgumentDesc::print: the two passes *)
Definition print (p : params) (width : nat) (args : list arg) : list str :=
  let m := max_key_length p args in
  let same := m <? MaxNameLength in
  let '(l1, n1) := print_arguments p width same m true 0 args 0 in
  let '(l2, _) := print_arguments p width same m false n1 args 0 in
  l1 ++ l2.

(** printing throws when an entry that is printed cannot deliver its default *)
Definition print_fails (p : params) (args : list arg) : bool :=
  existsb (fun a => (do_print p true a || do_print p false a) && desc_fails a) args.

(** Handler::usage without usage texts:  "Usage:" endl  mDescription  endl *)
Definition usage_lines (p : params) (width : nat) (args : list arg) : list str :=
  S_USAGE :: print p width args ++ [[]].

(** every line was ended by std::endl *)
Definition unlines (ls : list str) : str := flat_map (fun l => l ++ [NL]) ls.

(** usage texts (IUsageText): Handler::UsagePos and the text print() writes *)
Inductive upos := UUnused | UBefore | UAfter.
Definition utext := option (upos * str).

Definition upos_eqb (a b : upos) : bool :=
  match a, b with
  | UUnused, UUnused | UBefore, UBefore | UAfter, UAfter => true
  | _, _ => false
  end.

(** the checks of handleStartFlags on the two usage text arguments *)
Definition check_texts (t1 t2 : utext) : res unit :=
  match t1, t2 with
  | None, Some _ => Err EInvalidArgument
  | Some (p1, _), Some (p2, _) =>
      if upos_eqb p1 p2 then Err EInvalidArgument
      else if upos_eqb p1 UAfter && upos_eqb p2 UBefore then Err EInvalidArgument
      else Ok tt
  | _, _ => Ok tt
  end.

(** os << txt << endl << endl *)
Definition text_lines (s : str) : list str := split NL s ++ [[]].

Definition text_before (t1 : utext) : list str :=
  match t1 with Some (UBefore, s) => text_lines s | _ => [] end.

Definition text_after (t1 t2 : utext) : list str :=
  match t1 with
  | Some (UAfter, s) => text_lines s
  | _ => match t2 with Some (UAfter, s) => text_lines s | _ => [] end
  end.

(** Handler::usage with usage texts *)
Definition usage_lines_txt (t1 t2 : utext) (p : params) (width : nat) (args : list arg) : list str :=
  text_before t1 ++ S_USAGE :: print p width args ++ [] :: text_after t1 t2.

(* ------------------------------------------------------------------ *)
(** * help for one argument *)

Definition arg_table (args : list arg) : Table.table (A := arg) :=
  map (fun a => (akey a, a)) args.

(** ArgumentDesc::getArgDesc *)
Definition get_arg_desc (args : list arg) (k : Key.key) : str :=
  match find (fun a => Key.key_eq (akey a) k) args with
  | Some a => desc a
  | None => []
  end.

Inductive help_result :=
| HelpOut (lines : list str)     (* written to the output stream *)
| HelpUnknown (lines : list str). (* written to the error stream *)

(** Handler::helpArgument( key, false) without sub-groups, after the repair
    (fix: look the description up by the key of the argument that was found):
    [ks] is the text given on the command line *)
Definition help_argument (abbr : bool) (args : list arg) (ks : str) : res help_result :=
  if Key.mem SLASH ks then Err EOther   (* sub-group path: not modelled *)
  else
    do k <- Key.parse_key ks;
    do f <- Table.find_arg abbr (arg_table args) k;
    match f with
    | Some a =>
        Ok (HelpOut ((S_ARGUMENT ++ key_text_all k ++ S_ARG_USAGE)
                     :: attach [] (format_lines 3 80 true (get_arg_desc args (akey a)))))
    | None => Ok (HelpUnknown [S_ERR_ARG ++ ks ++ S_ERR_UNKNOWN])
    end.

(** the pinned code: getArgDesc( key) with the key as typed - an abbreviated
    long key finds the argument but no description *)
Definition help_argument_pinned (abbr : bool) (args : list arg) (ks : str) : res help_result :=
  if Key.mem SLASH ks then Err EOther
  else
    do k <- Key.parse_key ks;
    do f <- Table.find_arg abbr (arg_table args) k;
    match f with
    | Some a =>
        Ok (HelpOut ((S_ARGUMENT ++ key_text_all k ++ S_ARG_USAGE)
                     :: attach [] (format_lines 3 80 true (get_arg_desc args k))))
    | None => Ok (HelpUnknown [S_ERR_ARG ++ ks ++ S_ERR_UNKNOWN])
    end.

(* ------------------------------------------------------------------ *)
(** * the handler: standard arguments, evaluation of the help arguments *)

(** Handler::HandleFlags, bit numbers *)
Definition hfHelpShort : N := 0.        Definition hfHelpLong : N := 1.
Definition hfHelpArg : N := 2.          Definition hfHelpArgFull : N := 3.
Definition hfNoAbbr : N := 7.           Definition hfUsageHidden : N := 8.
Definition hfArgHidden : N := 9.        Definition hfUsageDeprecated : N := 10.
Definition hfArgDeprecated : N := 11.   Definition hfUsageShort : N := 12.
Definition hfUsageLong : N := 13.       Definition hfListArgVar : N := 14.
Definition hfUsageCont : N := 15.       Definition hfEndValues : N := 16.
Definition hfListArgGroups : N := 17.   Definition hfInGroup : N := 18.
Definition has (flags bit : N) : bool := N.testbit flags bit.

(** a standard argument: TypedArgCallable / TypedArgCallableValue /
    TypedArg< bool> / TypedArgValue with setPrintDefault( false): optional,
    visible, no default, no checks *)
Definition std_arg (c : N) (w : str) (d : str) : arg :=
  mkarg {| Key.kc := c; Key.kw := w |} false false false [] false None [] [] [] d.

(** the arguments added by the constructor: handleStartFlags, then
    "print-hidden" *)
Definition start_args (f : N) : list arg :=
  (if has f hfHelpShort && has f hfHelpLong then [std_arg CH_h K_HELP_L D_HELP]
   else if has f hfHelpShort then [std_arg CH_h [] D_HELP]
   else if has f hfHelpLong then [std_arg 0%N K_HELP_L D_HELP]
   else [])
  ++ (if has f hfHelpArg then [std_arg 0%N K_HELP_ARG D_HELP_ARG] else [])
  ++ (if has f hfHelpArgFull then [std_arg 0%N K_HELP_ARG_FULL D_HELP_ARG] else [])
  ++ (if has f hfArgDeprecated then [std_arg 0%N K_PRINT_DEPR D_PRINT_DEPR] else [])
  ++ (if has f hfUsageShort then [std_arg 0%N K_HELP_SHORT D_HELP_SHORT] else [])
  ++ (if has f hfUsageLong then [std_arg 0%N K_HELP_LONG D_HELP_LONG] else [])
  ++ (if has f hfListArgVar then [std_arg 0%N K_LIST_ARG_VARS D_LIST_ARG_VARS] else [])
  ++ (if has f hfEndValues then [std_arg 0%N K_ENDVALUES D_ENDVALUES] else [])
  ++ (if has f hfArgHidden then [std_arg 0%N K_PRINT_HIDDEN D_PRINT_HIDDEN] else []).

Definition start_params (f : N) : params :=
  mkparams (has f hfUsageHidden) (has f hfUsageDeprecated) CAll.

(** destination kinds used by the correspondence cases: the constructor's
    printDef argument and the defaultValue() override of each TypedArg
    specialisation; [iv] is the text of the variable's value *)
Inductive kind := KInt | KStr | KBool | KLevel | KOptInt | KVec.

Definition kind_print_default (k : kind) : bool :=
  match k with KInt | KStr | KLevel => true | _ => false end.

(** after the repair (fix: TypedArg< LevelCounter> provides defaultValue) *)
Definition kind_default_text (k : kind) (iv : str) : option str :=
  match k with
  | KInt => Some iv
  | KStr => Some (QUOTE :: iv ++ [QUOTE])
  | KLevel => Some iv
  | KBool | KOptInt | KVec => None
  end.

(** the pinned code: a LevelCounter argument has "print default" set by its
    constructor but inherits the throwing defaultValue() of the base class *)
Definition kind_default_text_pinned (k : kind) (iv : str) : option str :=
  match k with
  | KLevel => None
  | _ => kind_default_text k iv
  end.

(** addArgument( keyspec, destination( var), desc) followed by the setters *)
Definition user_arg (keyspec : str) (k : kind) (iv : str) (man hid dep : bool) (repl : str)
    (pd : option bool) (unit : str) (chk con : list str) (d : str) : res arg :=
  do key <- Key.parse_key keyspec;
  Ok (mkarg key man hid (dep || negb (is_nil_l repl)) repl
            (match pd with Some b => b | None => kind_print_default k end)
            (kind_default_text k iv) unit chk con d).

Definition user_arg_pinned (keyspec : str) (k : kind) (iv : str) (man hid dep : bool) (repl : str)
    (pd : option bool) (unit : str) (chk con : list str) (d : str) : res arg :=
  do key <- Key.parse_key keyspec;
  Ok (mkarg key man hid (dep || negb (is_nil_l repl)) repl
            (match pd with Some b => b | None => kind_print_default k end)
            (kind_default_text_pinned k iv) unit chk con d).

(** what is evaluated from the command line *)
Inductive cmd :=
| CmdPrintHidden | CmdPrintDeprecated | CmdHelpShort | CmdHelpLong
| CmdHelp | CmdHelpArg (k : str)
| CmdSubHelp (i : nat).   (* the key of the i-th sub-group, then that handler's -h / --help *)

Record hstate := mkh { hp : params; hout : list str; herr : list str; hprinted : bool }.

(** one argument from the command line; an argument that the flags did not
    create, or a usage that ends the process, is outside the model: EOther.
    [vh] / [vd]: the value the boolean flag arguments "print-hidden" /
    "print-deprecated" assign (TypedArg< bool>: the negation of the variable at
    the time the argument was created).  "help-short" / "help-long" are
    TypedArgValue objects that check the original value: the second of them
    throws std::runtime_error. *)
Definition eval_cmd_gen (t1 t2 : utext) (vh vd : bool) (f : N) (width : nat) (args : list arg) (s : hstate) (c : cmd)
  : res hstate :=
  let p := hp s in
  match c with
  | CmdPrintHidden =>
      if has f hfArgHidden
      then Ok (mkh (mkparams vh (print_deprecated p) (cont p)) (hout s) (herr s) (hprinted s))
      else Err EOther
  | CmdPrintDeprecated =>
      if has f hfArgDeprecated
      then Ok (mkh (mkparams (print_hidden p) vd (cont p)) (hout s) (herr s) (hprinted s))
      else Err EOther
  | CmdHelpShort =>
      if has f hfUsageShort then
        match cont p with
        | CAll => Ok (mkh (mkparams (print_hidden p) (print_deprecated p) CShort) (hout s) (herr s) (hprinted s))
        | _ => Err ERuntime
        end
      else Err EOther
  | CmdHelpLong =>
      if has f hfUsageLong then
        match cont p with
        | CAll => Ok (mkh (mkparams (print_hidden p) (print_deprecated p) CLong) (hout s) (herr s) (hprinted s))
        | _ => Err ERuntime
        end
      else Err EOther
  | CmdHelp =>
      if (has f hfHelpShort || has f hfHelpLong) && has f hfUsageCont then
        if print_fails p args then Err ERuntime
        else Ok (mkh p (hout s ++ usage_lines_txt t1 t2 p width args) (herr s) true)
      else Err EOther
  | CmdHelpArg k =>
      if has f hfHelpArg && has f hfUsageCont then
        do r <- help_argument (negb (has f hfNoAbbr)) args k;
        match r with
        | HelpOut ls => Ok (mkh p (hout s ++ ls) (herr s) true)
        | HelpUnknown ls => Ok (mkh p (hout s) (herr s ++ ls) true)
        end
      else Err EOther
  | CmdSubHelp _ => Err EOther   (* a handler without sub-groups: see eval_cmd_sg *)
  end.

(** after the repair (fix: create the flag arguments before the constructor
    flags switch the display on): the arguments always switch the display on *)
Definition eval_cmd := eval_cmd_gen None None true true.

(** the same with usage texts given to the constructor *)
Definition eval_cmd_txt (t1 t2 : utext) := eval_cmd_gen t1 t2 true true.

(** the pinned code: hfUsageHidden (hfUsageDeprecated) sets the variable
    before "print-hidden" ("print-deprecated") is created, the argument then
    switches the display off again *)
Definition eval_cmd_pinned (f : N) :=
  eval_cmd_gen None None (negb (has f hfUsageHidden)) (negb (has f hfUsageDeprecated)) f.

Section Eval.
Variable step : N -> nat -> list arg -> hstate -> cmd -> res hstate.

Fixpoint eval_cmds_with (f : N) (width : nat) (args : list arg) (s : hstate) (cs : list cmd) : res hstate :=
  match cs with
  | [] => Ok s
  | c :: r => do s' <- step f width args s c; eval_cmds_with f width args s' r
  end.

(** Handler( flags); addArgument...; evalArguments: when the usage was printed
    the final checks are skipped, otherwise a mandatory argument (none of them
    is ever given in these runs) is reported missing *)
Definition eval_case_with (f : N) (width : nat) (user : list arg) (cs : list cmd) : res hstate :=
  let args := start_args f ++ user in
  do s <- eval_cmds_with f width args (mkh (start_params f) [] [] false) cs;
  if hprinted s then Ok s
  else if existsb mandatory args then Err ERuntime
  else Ok s.
End Eval.

Definition eval_cmds := eval_cmds_with eval_cmd.
Definition eval_case := eval_case_with eval_cmd.
Definition eval_case_pinned := eval_case_with eval_cmd_pinned.

(** Handler( os, err, flags, txt1, txt2): the constructor refuses some
    combinations of usage texts *)
Definition eval_case_txt (t1 t2 : utext) (f : N) (width : nat) (user : list arg) (cs : list cmd)
  : res hstate :=
  do _ <- check_texts t1 t2;
  eval_case_with (eval_cmd_txt t1 t2) f width user cs.

(* ------------------------------------------------------------------ *)
(** * one level of sub-groups, as far as the usage is concerned

    The main handler owns sub-group arguments
    (addArgument( spec, Handler& subGroup, desc)); each sub-group handler was
    created with Handler( main_ah, flags): it writes to the streams of the main
    handler and SHARES its usage parameters object (mpUsageParams), so display
    settings changed on the main command line are in force when the usage of a
    sub-group is printed.  On the command line the key of the sub-group is
    followed by arguments for the sub-group handler (Handler::processArg feeds
    them to evalSingleArgument of that handler as long as it consumes them):
    "-ih" / "-i -h" / "--input --help" prints the usage of the sub-group.  That
    sets mUsagePrinted of the sub-group handler only: the final checks of the
    main handler still run. *)
Record sub_group := mksg {
  sg_key : Key.key;      (* key of the sub-group argument in the main handler *)
  sg_desc : str;         (* its description in the usage of the main handler *)
  sg_flags : N;          (* flags of the sub-group handler: only the help bits are modelled *)
  sg_user : list arg     (* the arguments added to the sub-group handler *)
}.

(** the entry of a sub-group in the main handler's usage: TypedArgSubGroup is
    optional, visible, prints no default value *)
Definition sub_arg (g : sub_group) : arg :=
  mkarg (sg_key g) false false false [] false None [] [] [] (sg_desc g).

(** the arguments of the sub-group handler: its constructor only calls
    handleStartFlags (no "print-hidden") *)
Definition sub_args (g : sub_group) : list arg :=
  start_args (N.land (sg_flags g) 3%N) ++ sg_user g.

(** Handler::helpArgument with sub-groups: mArguments first, then
    mSubGroupArgs; the description comes from the one description list *)
Definition help_argument_sg (abbr : bool) (margs : list arg) (sgs : list sub_group) (ks : str)
  : res help_result :=
  if Key.mem SLASH ks then Err EOther
  else
    do k <- Key.parse_key ks;
    do f <- Table.find_arg abbr (arg_table margs) k;
    do f2 <- match f with
             | Some a => Ok (Some a)
             | None => Table.find_arg abbr (arg_table (map sub_arg sgs)) k
             end;
    match f2 with
    | Some a =>
        Ok (HelpOut ((S_ARGUMENT ++ key_text_all k ++ S_ARG_USAGE)
                     :: attach [] (format_lines 3 80 true
                                     (get_arg_desc (margs ++ map sub_arg sgs) (akey a)))))
    | None => Ok (HelpUnknown [S_ERR_ARG ++ ks ++ S_ERR_UNKNOWN])
    end.

(** one argument from the command line of a main handler with sub-groups;
    [margs]: the arguments in the main handler's own container *)
Definition eval_cmd_sg (t1 t2 : utext) (sgs : list sub_group) (f : N) (width : nat) (margs : list arg)
    (s : hstate) (c : cmd) : res hstate :=
  let p := hp s in
  match c with
  | CmdSubHelp i =>
      match nth_error sgs i with
      | None => Err EOther
      | Some g =>
          if negb (N.eqb (N.land (sg_flags g) 3%N) 0%N) && has f hfUsageCont then
            if print_fails p (sub_args g) then Err ERuntime
            else Ok (mkh p (hout s ++ usage_lines p width (sub_args g)) (herr s) (hprinted s))
          else Err EOther
      end
  | CmdHelpArg k =>
      if has f hfHelpArg && has f hfUsageCont then
        do r <- help_argument_sg (negb (has f hfNoAbbr)) margs sgs k;
        match r with
        | HelpOut ls => Ok (mkh p (hout s ++ ls) (herr s) true)
        | HelpUnknown ls => Ok (mkh p (hout s) (herr s ++ ls) true)
        end
      else Err EOther
  | _ => eval_cmd_gen t1 t2 true true f width (margs ++ map sub_arg sgs) s c
  end.

Definition eval_case_sg (t1 t2 : utext) (sgs : list sub_group) (f : N) (width : nat) (user : list arg)
    (cs : list cmd) : res hstate :=
  do _ <- check_texts t1 t2;
  let margs := start_args f ++ user in
  do s <- eval_cmds_with (eval_cmd_sg t1 t2 sgs) f width margs (mkh (start_params f) [] [] false) cs;
  if hprinted s then Ok s
  else if existsb mandatory margs then Err ERuntime
  else Ok s.

(** the pinned-style variant for the seeded defect "the sub-group takes a
    private copy of the usage parameters": the sub-group usage is printed with
    the parameters as they were when the handlers were constructed *)
Definition sub_usage_copied (f : N) (width : nat) (g : sub_group) : list str :=
  usage_lines (start_params f) width (sub_args g).

(* ------------------------------------------------------------------ *)
(** * the layout-insensitive reading of a usage text (the property observable)

    A line without a word is skipped; a line that starts in column 0 is a
    caption; a line indented by exactly [IndentLength] blanks starts an entry,
    its first word is the key text; every deeper indented line continues the
    entry.  The result does not depend on column widths or on where the
    description was wrapped. *)
Inductive ditem :=
| DCap (line : str)
| DEnt (key : str) (ws : list str).

Fixpoint leading (l : str) : nat :=
  match l with
  | c :: r => if N.eqb c SP then S (leading r) else 0
  | [] => 0
  end.

(** [acc] is in reverse order *)
Definition add_line (acc : list ditem) (l : str) : list ditem :=
  match tokens SP l with
  | [] => acc
  | t :: ts =>
      if leading l =? 0 then DCap l :: acc
      else if leading l =? IndentLength then DEnt t ts :: acc
      else match acc with
           | DEnt k ws :: r => DEnt k (ws ++ t :: ts) :: r
           | _ => DEnt [] (t :: ts) :: acc
           end
  end.

Definition digest_lines (ls : list str) : list ditem := rev (fold_left add_line ls []).

Definition digest (text : str) : list ditem := digest_lines (split NL text).
