(** Handler::helpArgument with a path "group/.../argument" through sub-groups
    of any depth (--help-arg=<path>).  The handlers are given flat, as the case
    lines give them: the main handler and a list of sub-group handlers, each
    attached to the main handler or to an earlier sub-group handler.  A
    sub-group handler is created with Handler( parent, flags): it writes to the
    streams of the main handler and inherits "usage continues"; abbreviations
    are its own setting.  No proofs here.

    The text before the FIRST slash is looked up among the sub-group arguments
    of the current handler; found, the rest of the path goes to that sub-group
    handler (which alone notes that a usage was printed); not found, the
    current handler reports the path as it received it.  A text without a slash
    is Handler::helpArgument of Text/Usage.v. *)
From Coq Require Import List NArith Bool Arith.
Import ListNotations.
Require Import Celma.Common.Res Celma.Text.TextBlockModel Celma.Text.Usage.
Require Celma.ArgH.Key Celma.ArgH.Table.

Definition S_ERR_SUB : str :=
  [42;42;42;32;69;82;82;79;82;58;32;83;117;98;45;103;114;111;117;112;32;97;114;103;117;109;101;110;116;32;39]%N.
  (* *** ERROR: Sub-group argument ' *)

Record pgroup := mkpg {
  pg_key : Key.key;          (* key of the sub-group argument in its parent *)
  pg_desc : str;
  pg_flags : N;              (* flags given to the constructor of the sub-group handler *)
  pg_user : list arg;
  pg_parent : option nat     (* None: attached to the main handler; Some i: to sub-group i *)
}.

Definition opt_nat_eqb (a b : option nat) : bool :=
  match a, b with
  | None, None => true
  | Some x, Some y => Nat.eqb x y
  | _, _ => false
  end.

(** the sub-group arguments of a handler, in definition order, with their index *)
Fixpoint children_from (i : nat) (gs : list pgroup) (node : option nat) : list (nat * pgroup) :=
  match gs with
  | [] => []
  | g :: r => (if opt_nat_eqb (pg_parent g) node then [(i, g)] else []) ++ children_from (S i) r node
  end.
Definition children (gs : list pgroup) (node : option nat) : list (nat * pgroup) := children_from 0 gs node.

Definition pg_arg (g : pgroup) : arg :=
  mkarg (pg_key g) false false false [] false None [] [] [] (pg_desc g).

(** the arguments in the handler's own container *)
Definition node_args (f : N) (user : list arg) (gs : list pgroup) (node : option nat) : list arg :=
  match node with
  | None => start_args f ++ user
  | Some i => match nth_error gs i with
              | Some g => start_args (N.land (pg_flags g) 3%N) ++ pg_user g
              | None => []
              end
  end.

Definition node_abbr (f : N) (gs : list pgroup) (node : option nat) : bool :=
  match node with
  | None => negb (has f hfNoAbbr)
  | Some i => match nth_error gs i with
              | Some g => negb (has (pg_flags g) hfNoAbbr)
              | None => true
              end
  end.

(** the text before the first slash and the text behind it *)
Fixpoint split_slash (s : str) : option (str * str) :=
  match s with
  | [] => None
  | c :: r =>
      if N.eqb c SLASH then Some ([], r)
      else match split_slash r with
           | Some (h, t) => Some (c :: h, t)
           | None => None
           end
  end.

(** helpArgument for a text without a slash: mArguments first, then mSubGroupArgs *)
Definition help_leaf (abbr : bool) (margs subargs : list arg) (ks : str) : res help_result :=
  do k <- Key.parse_key ks;
  do f <- Table.find_arg abbr (arg_table margs) k;
  do f2 <- match f with
           | Some a => Ok (Some a)
           | None => Table.find_arg abbr (arg_table subargs) k
           end;
  match f2 with
  | Some a =>
      Ok (HelpOut ((S_ARGUMENT ++ key_text_all k ++ S_ARG_USAGE)
                   :: attach [] (format_lines 3 80 true (get_arg_desc (margs ++ subargs) (akey a)))))
  | None => Ok (HelpUnknown [S_ERR_ARG ++ ks ++ S_ERR_UNKNOWN])
  end.

Section Path.
Variable f : N.                  (* flags of the main handler *)
Variable user : list arg.        (* its arguments *)
Variable gs : list pgroup.

(** result: what is written, and whether the handler the request was GIVEN to
    notes "usage printed" (only when it answers itself) *)
Fixpoint help_path (fuel : nat) (node : option nat) (ks : str) : res (help_result * bool) :=
  match fuel with
  | O => Fault Fuel
  | S fuel' =>
      let subs := children gs node in
      let abbr := node_abbr f gs node in
      match split_slash ks with
      | Some (hd, rest) =>
          do k <- Key.parse_key hd;
          do r <- Table.find_arg abbr (map (fun p => (pg_key (snd p), fst p)) subs) k;
          match r with
          | Some i => do x <- help_path fuel' (Some i) rest; Ok (fst x, false)
          | None => Ok (HelpUnknown [S_ERR_SUB ++ ks ++ S_ERR_UNKNOWN], true)
          end
      | None =>
          do r <- help_leaf abbr (node_args f user gs node) (map (fun p => pg_arg (snd p)) subs) ks;
          Ok (r, true)
      end
  end.

End Path.

(** Handler( flags, txt1, txt2); sub-groups; evalArguments( "--help-arg", path): the final checks of the main
    handler are skipped only when the main handler itself answered *)
Definition eval_case_path (t1 t2 : utext) (gs : list pgroup) (f : N) (user : list arg) (path : str) : res hstate :=
  do _ <- check_texts t1 t2;
  if has f hfHelpArg && has f hfUsageCont then
    do x <- help_path f user gs (S (length path)) None path;
    let '(r, top) := x in
    let s := match r with
             | HelpOut ls => mkh (start_params f) ls [] top
             | HelpUnknown ls => mkh (start_params f) [] ls top
             end in
    if top then Ok s
    else if existsb mandatory (start_args f ++ user) then Err ERuntime
    else Ok s
  else Err EOther.
