(** Proofs about the TextBlock model (C17). *)
From Coq Require Import List Arith NArith Bool Lia.
Import ListNotations.
Require Import Celma.Text.TextBlockModel.

(* ------------------------------------------------------------------ *)
(** * split / tokens / join *)

Lemma split_not_nil sep s : split sep s <> [].
Proof.
  destruct s as [|c r]; cbn; [discriminate|].
  destruct (N.eqb c sep); [discriminate|]. destruct (split sep r); discriminate.
Qed.

Lemma split_cons_nosep sep c r :
  N.eqb c sep = false ->
  exists h t, split sep r = h :: t /\ split sep (c :: r) = (c :: h) :: t.
Proof.
  intros E. cbn. rewrite E. destruct (split sep r) as [|h t] eqn:S.
  - exfalso. eapply split_not_nil; eauto.
  - eauto.
Qed.

Lemma split_app_sep sep a b :
  split sep (a ++ sep :: b) = split sep a ++ split sep b.
Proof.
  induction a as [|c a IH].
  - cbn. rewrite N.eqb_refl. reflexivity.
  - cbn [app]. destruct (N.eqb c sep) eqn:E.
    + cbn. rewrite E. rewrite IH. reflexivity.
    + destruct (split_cons_nosep sep c a E) as (h & t & S1 & S2).
      rewrite S2. change (split sep (c :: a ++ sep :: b)) with
        (if N.eqb c sep then [] :: split sep (a ++ sep :: b)
         else match split sep (a ++ sep :: b) with h :: t => (c :: h) :: t | [] => [[c]] end).
      rewrite E, IH, S1. reflexivity.
Qed.

Definition nonempty (t : str) : bool := negb (is_nil t).

Lemma tokens_app_sep sep a b :
  tokens sep (a ++ sep :: b) = tokens sep a ++ tokens sep b.
Proof. unfold tokens. rewrite split_app_sep, filter_app. reflexivity. Qed.

Lemma split_nosep sep a : Forall (fun c => c <> sep) a -> split sep a = [a].
Proof.
  induction 1 as [|c a Hc _ IH]; [reflexivity|].
  cbn. apply N.eqb_neq in Hc. rewrite Hc, IH. reflexivity.
Qed.

Lemma tokens_nosep sep a :
  a <> [] -> Forall (fun c => c <> sep) a -> tokens sep a = [a].
Proof.
  intros Hn H. unfold tokens. rewrite split_nosep by assumption. cbn.
  destruct a; [congruence|reflexivity].
Qed.

Lemma tokens_nil sep : tokens sep [] = [].
Proof. reflexivity. Qed.

Lemma tokens_sep_cons sep s : tokens sep (sep :: s) = tokens sep s.
Proof. unfold tokens. cbn. rewrite N.eqb_refl. reflexivity. Qed.

Lemma tokens_spaces_app k w : tokens SP (spaces k ++ w) = tokens SP w.
Proof.
  induction k as [|k IH]; [reflexivity|].
  cbn [spaces repeat app]. rewrite tokens_sep_cons. exact IH.
Qed.

Lemma tokens_spaces k : tokens SP (spaces k) = [].
Proof. rewrite <- (app_nil_r (spaces k)), tokens_spaces_app. reflexivity. Qed.

Lemma all_sp_spaces s : Forall (eq SP) s -> s = spaces (length s).
Proof. induction 1 as [|c s Hc _ IH]; [reflexivity|]. cbn. subst c. f_equal. exact IH. Qed.

Lemma tokens_blank_app c w : Forall (eq SP) c -> tokens SP (c ++ w) = tokens SP w.
Proof. intros H. rewrite (all_sp_spaces _ H). apply tokens_spaces_app. Qed.

Lemma tokens_blank c : Forall (eq SP) c -> tokens SP c = [].
Proof. intros H. rewrite (all_sp_spaces _ H). apply tokens_spaces. Qed.

Lemma tokens_spaces_sp k : tokens SP (spaces k ++ [SP]) = [].
Proof. rewrite tokens_app_sep, tokens_spaces. reflexivity. Qed.

Lemma tokens_spaces2_app k w : tokens SP ((spaces k ++ [SP; SP]) ++ w) = tokens SP w.
Proof. rewrite <- app_assoc. change ([SP; SP] ++ w) with (spaces 2 ++ w). rewrite !tokens_spaces_app. reflexivity. Qed.

Lemma tokens_snoc_word c w :
  tokens SP (c ++ SP :: w) = tokens SP c ++ tokens SP w.
Proof. apply tokens_app_sep. Qed.

(** pieces inherit any property of the characters; they do not hold the separator *)
Lemma split_Forall (P : chr -> Prop) sep s :
  Forall P s -> Forall (Forall P) (split sep s).
Proof.
  induction 1 as [|c r Hc _ IH]; [repeat constructor|].
  cbn. destruct (N.eqb c sep).
  - constructor; [constructor|exact IH].
  - destruct (split sep r) as [|h t]; [repeat constructor; assumption|].
    inversion IH; subst. constructor; [constructor; assumption|assumption].
Qed.

Lemma split_nosep_pieces sep s : Forall (Forall (fun c => c <> sep)) (split sep s).
Proof.
  induction s as [|c r IH]; [repeat constructor|].
  cbn. destruct (N.eqb c sep) eqn:E.
  - constructor; [constructor|exact IH].
  - apply N.eqb_neq in E. destruct (split sep r) as [|h t]; [repeat constructor; assumption|].
    inversion IH; subst. constructor; [constructor; assumption|assumption].
Qed.

Lemma tokens_Forall (P : chr -> Prop) sep s :
  Forall P s -> Forall (Forall P) (tokens sep s).
Proof.
  intros H. unfold tokens. apply Forall_forall. intros t Ht.
  apply filter_In in Ht. destruct Ht as [Ht _].
  eapply Forall_forall in Ht; [exact Ht|]. apply split_Forall. exact H.
Qed.

Lemma tokens_pieces sep s :
  Forall (fun t => t <> [] /\ Forall (fun c => c <> sep) t) (tokens sep s).
Proof.
  unfold tokens. apply Forall_forall. intros t Ht.
  apply filter_In in Ht. destruct Ht as [Ht Hn]. split.
  - destruct t; [discriminate|discriminate].
  - eapply Forall_forall in Ht; [exact Ht|]. apply split_nosep_pieces.
Qed.

Lemma split_join sep ls :
  ls <> [] -> Forall (Forall (fun c => c <> sep)) ls -> split sep (join sep ls) = ls.
Proof.
  induction ls as [|l r IH]; [congruence|]. intros _ H. inversion H; subst.
  destruct r as [|l2 r'].
  - cbn. apply split_nosep. assumption.
  - change (join sep (l :: l2 :: r')) with (l ++ sep :: join sep (l2 :: r')).
    rewrite split_app_sep, split_nosep by assumption.
    rewrite IH; [reflexivity|discriminate|assumption].
Qed.

(** words of a text: the blank-separated pieces of its lines *)
Definition words (s : str) : list str := flat_map (tokens SP) (tokens NL s).

Lemma flat_map_tokens_filter ls :
  flat_map (tokens SP) (filter (fun t => negb (is_nil t)) ls) = flat_map (tokens SP) ls.
Proof.
  induction ls as [|l r IH]; [reflexivity|]. cbn.
  destruct l; cbn; rewrite IH; reflexivity.
Qed.

Lemma words_join ls :
  Forall (Forall (fun c => c <> NL)) ls ->
  words (join NL ls) = flat_map (tokens SP) ls.
Proof.
  intros H. destruct ls as [|l r]; [reflexivity|].
  unfold words, tokens at 2. rewrite split_join; [|discriminate|assumption].
  apply flat_map_tokens_filter.
Qed.

(* ------------------------------------------------------------------ *)
(** * "first line / other lines" predicates over a growing list of lines *)

Definition firstrest {A} (P0 P : A -> Prop) (ls : list A) : Prop :=
  match ls with [] => True | l :: r => P0 l /\ Forall P r end.
Definition curP {A} (P0 P : A -> Prop) (d : list A) (c : A) : Prop :=
  match d with [] => P0 c | _ => P c end.

Lemma firstrest_snoc {A} (P0 P : A -> Prop) d c :
  firstrest P0 P d -> curP P0 P d c -> firstrest P0 P (d ++ [c]).
Proof.
  destruct d as [|l r]; cbn.
  - intros _ H. split; [exact H|constructor].
  - intros [H0 Hr] Hc. split; [exact H0|]. apply Forall_app. split; [exact Hr|repeat constructor; exact Hc].
Qed.

Lemma curP_snoc {A} (P0 P : A -> Prop) d c c' : P c' -> curP P0 P (d ++ [c]) c'.
Proof. destruct d; cbn; auto. Qed.

Lemma firstrest_all {A} (P : A -> Prop) ls : firstrest P P ls <-> Forall P ls.
Proof.
  destruct ls; cbn; split; auto.
  - intros [H1 H2]. constructor; assumption.
  - intros H. inversion H; auto.
Qed.

Lemma firstrest_app {A} (P0 P : A -> Prop) a b :
  a <> [] -> firstrest P0 P a -> Forall P b -> firstrest P0 P (a ++ b).
Proof.
  destruct a as [|l r]; [congruence|]. cbn. intros _ [H0 Hr] Hb.
  split; [exact H0|]. apply Forall_app; auto.
Qed.

(* ------------------------------------------------------------------ *)
(** * the loop of formatLine *)

Arguments tokens : simpl never.
Arguments spaces : simpl never.

Definition not_nn (w : str) : bool := negb (str_eqb w NN).

Definition pref (p l : str) : Prop := exists r, l = p ++ r.

(** a line is acceptable for the width: with [off] characters already on it,
    it is not longer than the width, or it holds exactly one word, or it holds
    no word at all and the indentation alone already fills the width *)
Definition wok (width ind off : nat) (l : str) : Prop :=
  length l + off <= width \/
  length (tokens SP l) = 1 \/
  (width <= ind /\ tokens SP l = []).

Definition off_of (d : list str) (off : nat) : nat := match d with [] => off | _ => 0 end.

Record Inv (ind width : nat) (start : str) (consumed : list str) (s : st) : Prop := {
  i_words : flat_map (tokens SP) (done s) ++ tokens SP (cur s) = filter not_nn consumed;
  i_ge : ind <= curr_len s;
  i_blank : curr_len s = ind -> Forall (eq SP) (cur s);
  i_len : length (cur s) + off_of (done s) (ind - length start) = curr_len s;
  i_pref_done : firstrest (pref start) (pref (spaces ind)) (done s);
  i_pref_cur : curP (pref start) (pref (spaces ind)) (done s) (cur s);
  i_w_done : firstrest (wok width ind (ind - length start)) (wok width ind 0) (done s);
  i_w_cur : curP (wok width ind (ind - length start)) (wok width ind 0) (done s) (cur s);
}.

Lemma pref_app p l x : pref p l -> pref p (l ++ x).
Proof. intros [r ->]. exists (r ++ x). rewrite app_assoc. reflexivity. Qed.

Lemma pref_self_app p x : pref p (p ++ x).
Proof. exists x. reflexivity. Qed.

Lemma curP_map {A} (P0 P Q0 Q : A -> Prop) d c c' :
  (P0 c -> Q0 c') -> (P c -> Q c') -> curP P0 P d c -> curP Q0 Q d c'.
Proof. destruct d; cbn; auto. Qed.

Lemma off_of_snoc d c off : off_of (d ++ [c]) off = 0.
Proof. destruct d; reflexivity. Qed.

Lemma spaces_length k : length (spaces k) = k.
Proof. apply repeat_length. Qed.

Lemma spaces_all_sp k : Forall (eq SP) (spaces k).
Proof. apply Forall_forall. intros x Hx. apply repeat_spec in Hx. auto. Qed.

Lemma flat_map_snoc {A B} (f : A -> list B) d c : flat_map f (d ++ [c]) = flat_map f d ++ f c.
Proof. rewrite flat_map_app. cbn. rewrite app_nil_r. reflexivity. Qed.

Lemma str_eqb_eq a b : str_eqb a b = true <-> a = b.
Proof.
  revert b. induction a as [|x a IH]; destruct b as [|y b]; cbn; split; try congruence; try discriminate.
  - intros H. apply andb_prop in H. destruct H as [H1 H2]. apply N.eqb_eq in H1. apply IH in H2. congruence.
  - intros H. inversion H; subst. rewrite N.eqb_refl. cbn. apply IH. reflexivity.
Qed.

Lemma filter_snoc {A} (f : A -> bool) l x : filter f (l ++ [x]) = filter f l ++ (if f x then [x] else []).
Proof. rewrite filter_app. reflexivity. Qed.

(** one word: every branch keeps the invariant *)
Lemma step_inv ind width start consumed s w :
  w <> [] -> Forall (fun c => c <> SP) w ->
  Inv ind width start consumed s ->
  Inv ind width start (consumed ++ [w]) (step ind width s w).
Proof.
  intros Hne Hsp I. destruct I as [Iw Ige Ib Il Ipd Ipc Iwd Iwc].
  assert (Tw : tokens SP w = [w]) by (apply tokens_nosep; assumption).
  unfold step. destruct (str_eqb w NN) eqn:Enn.
  - (* forced break *)
    assert (Fnn : filter not_nn (consumed ++ [w]) = filter not_nn consumed).
    { rewrite filter_snoc. unfold not_nn at 2. rewrite Enn. apply app_nil_r. }
    destruct (dash s) eqn:Ed.
    + constructor; cbn.
      * rewrite flat_map_snoc, Fnn, <- Iw, tokens_spaces_sp, app_nil_r. reflexivity.
      * lia.
      * lia.
      * rewrite off_of_snoc, app_length, spaces_length. cbn. lia.
      * apply firstrest_snoc; assumption.
      * apply curP_snoc. apply pref_self_app.
      * apply firstrest_snoc; assumption.
      * apply curP_snoc. unfold wok. rewrite tokens_spaces_sp, app_length, spaces_length. cbn.
        destruct (le_lt_dec (ind + 1) width); [left; lia|right; right; split; [lia|reflexivity]].
    + constructor; cbn.
      * rewrite flat_map_snoc, Fnn, <- Iw, tokens_spaces, app_nil_r. reflexivity.
      * lia.
      * intros _. apply spaces_all_sp.
      * rewrite off_of_snoc, spaces_length. lia.
      * apply firstrest_snoc; assumption.
      * apply curP_snoc. exists []. symmetry. apply app_nil_r.
      * apply firstrest_snoc; assumption.
      * apply curP_snoc. unfold wok. rewrite tokens_spaces, spaces_length. cbn.
        destruct (le_lt_dec ind width); [left; lia|right; right; split; [lia|reflexivity]].
  - assert (Fnn : filter not_nn (consumed ++ [w]) = filter not_nn consumed ++ [w]).
    { rewrite filter_snoc. unfold not_nn at 2. rewrite Enn. reflexivity. }
    destruct (width <? curr_len s + length w + 1) eqn:Efit.
    + (* does not fit: new line *)
      assert (Lw : 0 < length w) by (destruct w; [congruence|cbn; lia]).
      destruct (dash s) eqn:Ed.
      * constructor; cbn.
        -- rewrite flat_map_snoc, Fnn, <- Iw, tokens_spaces2_app, Tw. reflexivity.
        -- lia.
        -- lia.
        -- rewrite off_of_snoc, !app_length, spaces_length. cbn. lia.
        -- apply firstrest_snoc; assumption.
        -- apply curP_snoc. rewrite <- app_assoc. apply pref_self_app.
        -- apply firstrest_snoc; assumption.
        -- apply curP_snoc. right. left. rewrite tokens_spaces2_app, Tw. reflexivity.
      * constructor; cbn.
        -- rewrite flat_map_snoc, Fnn, <- Iw, tokens_spaces_app, Tw. reflexivity.
        -- lia.
        -- lia.
        -- rewrite off_of_snoc, !app_length, spaces_length. lia.
        -- apply firstrest_snoc; assumption.
        -- apply curP_snoc. apply pref_self_app.
        -- apply firstrest_snoc; assumption.
        -- apply curP_snoc. right. left. rewrite tokens_spaces_app, Tw. reflexivity.
    + (* fits *)
      apply Nat.ltb_ge in Efit.
      destruct (curr_len s =? ind) eqn:Eind; cbn [negb].
      * (* first word of the line: no blank *)
        apply Nat.eqb_eq in Eind.
        assert (Hc : cur s = spaces (length (cur s))) by (apply all_sp_spaces; auto).
        assert (G : forall s1, done s1 = done s -> cur s1 = cur s -> curr_len s1 = curr_len s ->
                    Inv ind width start (consumed ++ [w]) (set_len (put s1 w) (curr_len s1 + length w))).
        { intros s1 E1 E2 E3. constructor; cbn; rewrite ?E1, ?E2, ?E3.
          - rewrite Fnn, <- Iw, tokens_blank_app, Tw, (tokens_blank (cur s)), app_nil_r by auto. reflexivity.
          - lia.
          - assert (0 < length w) by (destruct w; [congruence|cbn; lia]). lia.
          - rewrite app_length. lia.
          - assumption.
          - eapply curP_map; [| |exact Ipc]; intros; apply pref_app; assumption.
          - assumption.
          - assert (length (cur s ++ w) + off_of (done s) (ind - length start) <= width)
              by (rewrite app_length; lia).
            destruct (done s); cbn in *; left; lia. }
        destruct (starts_with_dash w); apply G; reflexivity.
      * (* blank, then the word *)
        constructor; cbn.
        -- rewrite Fnn, <- Iw, <- !app_assoc. cbn [app].
           rewrite tokens_snoc_word, Tw. reflexivity.
        -- lia.
        -- assert (0 < length w) by (destruct w; [congruence|cbn; lia]).
           apply Nat.eqb_neq in Eind. intros; lia.
        -- rewrite !app_length. cbn. lia.
        -- assumption.
        -- eapply curP_map; [| |exact Ipc]; intros; apply pref_app; apply pref_app; assumption.
        -- assumption.
        -- assert (length ((cur s ++ [SP]) ++ w) + off_of (done s) (ind - length start) <= width)
             by (rewrite !app_length; cbn; lia).
           destruct (done s); cbn in *; left; lia.
Qed.

Lemma fold_inv ind width start ws : forall consumed s,
  Forall (fun w => w <> [] /\ Forall (fun c => c <> SP) w) ws ->
  Inv ind width start consumed s ->
  Inv ind width start (consumed ++ ws) (fold_left (step ind width) ws s).
Proof.
  induction ws as [|w ws IH]; intros consumed s Hws I.
  - rewrite app_nil_r. exact I.
  - inversion Hws as [|? ? [Hn Hs] Hws']; subst. cbn [fold_left].
    replace (consumed ++ w :: ws) with ((consumed ++ [w]) ++ ws) by (rewrite <- app_assoc; reflexivity).
    apply IH; [assumption|]. apply step_inv; assumption.
Qed.

Definition is_start (ind : nat) (start : str) : Prop := start = spaces ind \/ start = [].

Lemma init_inv ind width start :
  is_start ind start -> Inv ind width start [] (mkst ind false [] start).
Proof.
  intros Hs. assert (Hall : Forall (eq SP) start).
  { destruct Hs; subst; [apply spaces_all_sp|constructor]. }
  assert (Hlen : length start + (ind - length start) = ind).
  { destruct Hs; subst; [rewrite spaces_length|cbn]; lia. }
  constructor; cbn.
  - rewrite (all_sp_spaces _ Hall). apply tokens_spaces.
  - lia.
  - intros _. exact Hall.
  - exact Hlen.
  - exact I.
  - exists []. symmetry. apply app_nil_r.
  - exact I.
  - unfold wok. rewrite (tokens_blank _ Hall). cbn.
    destruct (le_lt_dec ind width); [left; lia|right; right; split; [lia|reflexivity]].
Qed.

(** what one call of formatLine writes *)
Lemma format_line_spec ind width start line :
  is_start ind start ->
  let b := format_line ind width start line in
  b <> [] /\
  flat_map (tokens SP) b = filter not_nn (tokens SP line) /\
  firstrest (pref start) (pref (spaces ind)) b /\
  firstrest (wok width ind (ind - length start)) (wok width ind 0) b.
Proof.
  intros Hs. unfold format_line. cbn zeta.
  pose proof (fold_inv ind width start (tokens SP line) [] _ (tokens_pieces SP line) (init_inv ind width start Hs)) as I.
  cbn [app] in I. destruct I as [Iw Ige Ib Il Ipd Ipc Iwd Iwc].
  set (s := fold_left (step ind width) (tokens SP line) (mkst ind false [] start)) in *.
  split; [destruct (done s); discriminate|].
  split; [rewrite flat_map_snoc; exact Iw|].
  split; apply firstrest_snoc; assumption.
Qed.

(** no newline is written inside a line *)
Lemma step_nl_free ind width s w :
  Forall (fun c => c <> NL) w ->
  Forall (Forall (fun c => c <> NL)) (done s) /\ Forall (fun c => c <> NL) (cur s) ->
  let s' := step ind width s w in
  Forall (Forall (fun c => c <> NL)) (done s') /\ Forall (fun c => c <> NL) (cur s').
Proof.
  intros Hw [Hd Hc].
  assert (Hsp : forall k, Forall (fun c => c <> NL) (spaces k)).
  { intros k. apply Forall_forall. intros x Hx. apply repeat_spec in Hx. subst. discriminate. }
  assert (Hd' : Forall (Forall (fun c => c <> NL)) (done s ++ [cur s])).
  { apply Forall_app. split; [assumption|repeat constructor; assumption]. }
  assert (Hb : Forall (fun c => c <> NL) [SP]) by (repeat constructor; discriminate).
  assert (Hbb : Forall (fun c => c <> NL) [SP; SP]) by (repeat constructor; discriminate).
  unfold step. destruct (str_eqb w NN).
  - destruct (dash s); cbn; split; auto. apply Forall_app; auto.
  - destruct (width <? curr_len s + length w + 1).
    + destruct (dash s); cbn; split; auto; repeat (apply Forall_app; split); auto.
    + destruct (negb (curr_len s =? ind)); [|destruct (starts_with_dash w)]; cbn; split; auto;
        repeat (apply Forall_app; split); auto.
Qed.

Lemma format_line_nl_free ind width start line :
  Forall (fun c => c <> NL) start -> Forall (fun c => c <> NL) line ->
  Forall (Forall (fun c => c <> NL)) (format_line ind width start line).
Proof.
  intros Hs Hl. unfold format_line.
  assert (Hws := tokens_Forall _ SP line Hl).
  assert (G : forall ws s, Forall (Forall (fun c => c <> NL)) ws ->
            Forall (Forall (fun c => c <> NL)) (done s) /\ Forall (fun c => c <> NL) (cur s) ->
            let s' := fold_left (step ind width) ws s in
            Forall (Forall (fun c => c <> NL)) (done s') /\ Forall (fun c => c <> NL) (cur s')).
  { induction ws as [|w ws IH]; intros s H I; [exact I|].
    inversion H; subst. cbn [fold_left]. apply IH; [assumption|]. apply step_nl_free; assumption. }
  destruct (G (tokens SP line) (mkst ind false [] start) Hws) as [Hd Hc].
  { cbn. split; [constructor|assumption]. }
  apply Forall_app. split; [exact Hd|repeat constructor; exact Hc].
Qed.

(* ------------------------------------------------------------------ *)
(** * format() *)

Definition start_of (ind : nat) (indent_first first : bool) : str :=
  if first then (if indent_first then spaces ind else []) else spaces ind.

Lemma start_of_is_start ind f first : is_start ind (start_of ind f first).
Proof. unfold start_of, is_start. destruct first, f; auto. Qed.

(** the block structure: every (non-empty) input line is written as its own
    non-empty group of output lines that holds exactly its words *)
Definition block_ok (line : str) (b : list str) : Prop :=
  b <> [] /\ flat_map (tokens SP) b = filter not_nn (tokens SP line).

Lemma format_blocks_ok ind width f ls : forall first,
  Forall2 block_ok ls (format_blocks ind width f first ls).
Proof.
  induction ls as [|l r IH]; intros first; cbn [format_blocks]; constructor.
  - destruct (format_line_spec ind width (start_of ind f first) l (start_of_is_start _ _ _)) as (H1 & H2 & _).
    split; assumption.
  - apply IH.
Qed.

Lemma format_blocks_rest_pref ind width f ls :
  Forall (pref (spaces ind)) (concat (format_blocks ind width f false ls)) /\
  Forall (wok width ind 0) (concat (format_blocks ind width f false ls)).
Proof.
  induction ls as [|l r [IH1 IH2]]; cbn [format_blocks concat]; [split; constructor|].
  destruct (format_line_spec ind width (spaces ind) l (or_introl eq_refl)) as (_ & _ & H3 & H4).
  rewrite spaces_length, Nat.sub_diag in H4.
  apply firstrest_all in H3. apply firstrest_all in H4.
  split; apply Forall_app; split; assumption.
Qed.

Definition first_start (ind : nat) (f : bool) : str := if f then spaces ind else [].

Lemma format_lines_shape ind width f txt :
  firstrest (pref (first_start ind f)) (pref (spaces ind)) (format_lines ind width f txt) /\
  firstrest (wok width ind (ind - length (first_start ind f))) (wok width ind 0) (format_lines ind width f txt).
Proof.
  unfold format_lines. destruct (tokens NL txt) as [|l r]; [split; exact I|].
  cbn [format_blocks concat].
  destruct (format_line_spec ind width (first_start ind f) l) as (H1 & _ & H3 & H4).
  { unfold first_start, is_start. destruct f; auto. }
  destruct (format_blocks_rest_pref ind width f r) as [R1 R2].
  change (if f then spaces ind else []) with (first_start ind f).
  split; apply firstrest_app; assumption.
Qed.

Lemma flat_map_concat {A B} (f : A -> list B) ls : flat_map f (concat ls) = concat (map (flat_map f) ls).
Proof. induction ls as [|l r IH]; [reflexivity|]. cbn. rewrite flat_map_app, IH. reflexivity. Qed.

Lemma blocks_words ls bs :
  Forall2 block_ok ls bs ->
  flat_map (tokens SP) (concat bs) = filter not_nn (flat_map (tokens SP) ls).
Proof.
  induction 1 as [|l b ls bs [_ Hb] _ IH]; [reflexivity|].
  cbn. rewrite flat_map_app, filter_app, Hb, IH. reflexivity.
Qed.

Lemma tokens_NL_free txt : Forall (Forall (fun c => c <> NL)) (tokens NL txt).
Proof.
  eapply Forall_impl; [|apply tokens_pieces]. intros a [_ H]. exact H.
Qed.

Lemma format_lines_nl_free ind width f txt :
  Forall (Forall (fun c => c <> NL)) (format_lines ind width f txt).
Proof.
  unfold format_lines. generalize true. generalize (tokens_NL_free txt).
  induction 1 as [|l r Hl _ IH]; intros first; cbn [format_blocks concat]; [constructor|].
  apply Forall_app. split; [|apply IH].
  apply format_line_nl_free; [|exact Hl].
  destruct first, f; cbn; try constructor; apply Forall_forall; intros x Hx; apply repeat_spec in Hx; subst; discriminate.
Qed.

(** ** the theorems of the property *)

(** the lines of the text written are [format_lines]; nothing is written for a
    text without a non-empty line *)
Theorem tb_output_lines ind width f txt :
  (format_lines ind width f txt <> [] ->
   split NL (format ind width f txt) = format_lines ind width f txt) /\
  (format_lines ind width f txt = [] -> format ind width f txt = [] /\ tokens NL txt = []).
Proof.
  split.
  - intros Hn. apply split_join; [exact Hn|apply format_lines_nl_free].
  - intros He. unfold format. rewrite He. split; [reflexivity|].
    unfold format_lines in He. destruct (tokens NL txt) as [|l r]; [reflexivity|].
    cbn [format_blocks concat] in He. apply app_eq_nil in He. destruct He as [He _].
    unfold format_line in He. apply app_eq_nil in He. destruct He as [_ He]. discriminate.
Qed.

Theorem tb_words_preserved ind width f txt :
  words (format ind width f txt) = filter not_nn (words txt).
Proof.
  unfold format. rewrite words_join by apply format_lines_nl_free.
  unfold format_lines, words. apply blocks_words. apply format_blocks_ok.
Qed.

Theorem tb_newlines ind width f txt :
  exists blocks,
    format_lines ind width f txt = concat blocks /\
    Forall2 block_ok (tokens NL txt) blocks.
Proof. eexists. split; [reflexivity|]. apply format_blocks_ok. Qed.

Theorem tb_indent ind width f txt :
  match format_lines ind width f txt with
  | [] => True
  | l :: r => (f = true -> pref (spaces ind) l) /\ Forall (pref (spaces ind)) r
  end.
Proof.
  destruct (format_lines_shape ind width f txt) as [H _].
  destruct (format_lines ind width f txt) as [|l r]; [exact I|].
  destruct H as [H0 Hr]. split; [|exact Hr]. intros ->. exact H0.
Qed.

Theorem tb_width ind width f txt :
  match format_lines ind width f txt with
  | [] => True
  | l :: r => wok width ind (if f then 0 else ind) l /\ Forall (wok width ind 0) r
  end.
Proof.
  destruct (format_lines_shape ind width f txt) as [_ H].
  destruct (format_lines ind width f txt) as [|l r]; [exact I|].
  destruct H as [H0 Hr]. split; [|exact Hr].
  destruct f; cbn in H0; [rewrite spaces_length, Nat.sub_diag in H0|rewrite Nat.sub_0_r in H0]; exact H0.
Qed.

(** with an indentation smaller than the width, a line longer than the width
    holds exactly one word *)
Theorem tb_width_single_word ind width f txt :
  ind < width ->
  match format_lines ind width f txt with
  | [] => True
  | l :: r =>
      (length l + (if f then 0 else ind) <= width \/ length (tokens SP l) = 1) /\
      Forall (fun l => length l <= width \/ length (tokens SP l) = 1) r
  end.
Proof.
  intros Hlt. pose proof (tb_width ind width f txt) as H.
  destruct (format_lines ind width f txt) as [|l r]; [exact I|].
  destruct H as [H0 Hr]. split.
  - destruct H0 as [H|[H|[H _]]]; [left; exact H|right; exact H|lia].
  - eapply Forall_impl; [|exact Hr]. intros a [H|[H|[H _]]]; [left; lia|right; exact H|lia].
Qed.
