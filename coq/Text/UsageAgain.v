(** The usage printed once more by the same handler object (operator<< on the
    Handler after the evaluation, any number of times): the printed text is a
    function of the display settings, the width and the arguments - the handler
    keeps no memory of earlier printings.  (Added after the seeded change C18-7,
    "captions only in the first usage of an object", was missed: no case of the
    tie printed the usage of one object twice.) *)
From Coq Require Import List NArith Bool Arith.
Import ListNotations.
Require Import Celma.Common.Res Celma.Text.TextBlockModel Celma.Text.Usage.

(** os << "Usage:" << endl << handler << endl;  n times after the evaluation *)
Fixpoint print_again (n : nat) (f : N) (width : nat) (user : list arg) (s : hstate) : res hstate :=
  match n with
  | O => Ok s
  | S n' =>
      let args := start_args f ++ user in
      if print_fails (hp s) args then Err ERuntime
      else print_again n' f width user
             (mkh (hp s) (hout s ++ usage_lines (hp s) width args) (herr s) (hprinted s))
  end.

Definition eval_case_again (t1 t2 : utext) (f : N) (width : nat) (user : list arg) (cs : list cmd) (n : nat)
  : res hstate :=
  do s <- eval_case_txt t1 t2 f width user cs;
  print_again n f width user s.

Fixpoint repeat_lines (n : nat) (l : list str) : list str :=
  match n with O => [] | S n' => l ++ repeat_lines n' l end.

(** every further printing adds exactly the text that a first printing under
    the same settings produces, and changes nothing else *)
Lemma print_again_spec : forall n f width user s s',
  print_again n f width user s = Ok s' ->
  hp s' = hp s /\ herr s' = herr s /\ hprinted s' = hprinted s /\
  hout s' = hout s ++ repeat_lines n (usage_lines (hp s) width (start_args f ++ user)).
Proof.
  induction n as [|n IH]; intros f width user s s' H; cbn [print_again repeat_lines] in *.
  - inversion H; subst. rewrite app_nil_r. auto.
  - destruct (print_fails (hp s) (start_args f ++ user)); [discriminate|].
    apply IH in H. cbn [hp hout herr hprinted] in H. destruct H as (H1 & H2 & H3 & H4).
    rewrite H4, <- app_assoc. auto.
Qed.
