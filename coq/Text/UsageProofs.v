(** Proofs about the usage model (C18). *)
From Coq Require Import List Arith NArith Bool Lia Permutation.
Import ListNotations.
Require Import Celma.Common.Res Celma.Text.TextBlockModel Celma.Text.TextBlockProofs Celma.Text.Usage.
Require Celma.ArgH.Key Celma.ArgH.Table.

(* ------------------------------------------------------------------ *)
(** * the specification vocabulary *)

(** the argument has a key of the kind the usage is restricted to *)
Definition has_key (c : contents) (a : arg) : bool :=
  match c with
  | CAll => true
  | CShort => Key.has_c (akey a)
  | CLong => Key.has_w (akey a)
  end.

(** visible under the current settings, as the property text says: hidden
    (deprecated) arguments only when their display was requested; with
    short-only / long-only display only arguments that have such a key *)
Definition visible (p : params) (a : arg) : bool :=
  (print_hidden p || negb (hidden a))
  && (print_deprecated p || negb (deprecated a))
  && has_key (cont p) a.

(** the arguments listed in one section, in definition order *)
Definition listed (p : params) (mand : bool) (args : list arg) : list arg :=
  filter (fun a => Bool.eqb mand (mandatory a) && visible p a) args.

(** the caption block of a section; the optional section is separated by an
    empty line when a mandatory section precedes it *)
Definition caption (mand mand_printed : bool) : list str :=
  if mand then [CAP_MAND] else (if mand_printed then [[]] else []) ++ [CAP_OPT].

(** a section: nothing when it has no entry, else caption and one block of
    lines per entry *)
Definition section_lines (p : params) (w : nat) (same : bool) (m : nat) (mand mand_printed : bool)
    (vs : list arg) : list str :=
  match vs with
  | [] => []
  | _ => caption mand mand_printed ++ flat_map (entry_lines p w same m) vs
  end.

Lemma do_print_spec p m a : do_print p m a = Bool.eqb m (mandatory a) && visible p a.
Proof. unfold do_print, visible, has_key. rewrite !andb_assoc. reflexivity. Qed.

Lemma filter_do_print p m args : filter (do_print p m) args = listed p m args.
Proof. apply filter_ext. intros a. apply do_print_spec. Qed.

(* ------------------------------------------------------------------ *)
(** * the counting lemma over the two-pass printer *)

Lemma print_arguments_spec p w same m mand pm : forall args n,
  print_arguments p w same m mand pm args n =
  ((if n =? 0 then match filter (do_print p mand) args with
                   | [] => []
                   | _ => caption mand (0 <? pm)
                   end
    else [])
   ++ flat_map (entry_lines p w same m) (filter (do_print p mand) args),
   n + length (filter (do_print p mand) args)).
Proof.
  induction args as [|a r IH]; intros n.
  - cbn. destruct (n =? 0); rewrite Nat.add_0_r; reflexivity.
  - cbn [print_arguments filter]. destruct (do_print p mand a) eqn:E; cbn [negb].
    + rewrite (IH (S n)). cbn [Nat.eqb app flat_map length].
      apply (f_equal2 pair); [|lia].
      apply (f_equal2 (@app str)); [|reflexivity].
      destruct (n =? 0); [|reflexivity].
      unfold caption. destruct mand; reflexivity.
    + apply IH.
Qed.

Lemma is_nil_length {A} (l : list A) : (0 <? 0 + length l) = negb (is_nil_l l).
Proof. destruct l; reflexivity. Qed.

(** the usage is the mandatory section followed by the optional section *)
Theorem print_structure p w args :
  print p w args =
  let m := max_key_length p args in
  let same := m <? MaxNameLength in
  section_lines p w same m true false (listed p true args)
  ++ section_lines p w same m false (negb (is_nil_l (listed p true args))) (listed p false args).
Proof.
  unfold print. cbn zeta.
  rewrite (print_arguments_spec p w _ _ true 0 args 0).
  rewrite (print_arguments_spec p w _ _ false _ args 0).
  rewrite !filter_do_print, is_nil_length. cbn [Nat.eqb].
  unfold section_lines.
  destruct (listed p true args) as [|a1 r1], (listed p false args) as [|a2 r2]; reflexivity.
Qed.

(* ------------------------------------------------------------------ *)
(** * every visible argument once, no other *)

Lemma filter_length_app {A} (q : A -> bool) l1 l2 :
  length (filter q (l1 ++ l2)) = length (filter q l1) + length (filter q l2).
Proof. rewrite filter_app, app_length. reflexivity. Qed.

(** for every way [q] of recognising arguments: the number of listed entries
    that [q] accepts is the number of visible arguments that [q] accepts *)
Theorem listed_count p args (q : arg -> bool) :
  length (filter q (listed p true args ++ listed p false args)) =
  length (filter (fun a => q a && visible p a) args).
Proof.
  rewrite filter_length_app. unfold listed.
  induction args as [|a r IH]; [reflexivity|].
  cbn [filter]. destruct (mandatory a), (visible p a); cbn [Bool.eqb andb filter] in *;
    destruct (q a); cbn [andb length]; lia.
Qed.

Theorem listed_permutation p args :
  Permutation (listed p true args ++ listed p false args) (filter (visible p) args).
Proof.
  unfold listed. induction args as [|a r IH]; [constructor|].
  cbn [filter]. destruct (mandatory a), (visible p a); cbn [Bool.eqb andb app]; try assumption.
  - constructor. assumption.
  - apply Permutation_sym. eapply Permutation_trans; [|apply Permutation_middle].
    constructor. apply Permutation_sym. assumption.
Qed.

Theorem listed_in p args a :
  In a (listed p true args ++ listed p false args) <-> In a args /\ visible p a = true.
Proof.
  unfold listed. rewrite in_app_iff, !filter_In. destruct (mandatory a); cbn [Bool.eqb andb]; intuition congruence.
Qed.

(** short-only (long-only) display: everything listed has a short (long) key
    and is shown by that key alone *)
Theorem short_long_only p args a :
  In a (listed p true args ++ listed p false args) ->
  match cont p with
  | CAll => key_text (cont p) a = key_text_all (akey a)
  | CShort => Key.has_c (akey a) = true /\ key_text (cont p) a = [DASH; Key.kc (akey a)]
  | CLong => Key.has_w (akey a) = true /\ key_text (cont p) a = [DASH; DASH] ++ Key.kw (akey a)
  end.
Proof.
  intros H. apply listed_in in H. destruct H as [_ H]. unfold visible, has_key in H.
  destruct (cont p); cbn [key_text]; [reflexivity| |];
    apply andb_prop in H; destruct H as [_ H]; split; [exact H|reflexivity|exact H|reflexivity].
Qed.

(** definition order inside a section: a section is a sub-sequence of the
    definition list that keeps exactly the visible arguments of its class *)
Theorem listed_order p mand args :
  listed p mand args = filter (visible p) (filter (fun a => Bool.eqb mand (mandatory a)) args).
Proof.
  unfold listed. induction args as [|a r IH]; [reflexivity|].
  cbn [filter]. destruct (Bool.eqb mand (mandatory a)); cbn [andb filter]; rewrite IH; reflexivity.
Qed.

(* ------------------------------------------------------------------ *)
(** * an entry shows its key and every word of the description and the extras *)

Definition key_ok (k : str) : Prop := k <> [] /\ Forall (fun c => c <> SP) k.

Lemma spaces_S n : spaces (S n) = SP :: spaces n.
Proof. reflexivity. Qed.

Lemma spaces_app a b : spaces a ++ spaces b = spaces (a + b).
Proof. unfold spaces. symmetry. apply repeat_app. Qed.

Lemma tokens_key_blanks k n : key_ok k -> tokens SP (k ++ spaces n) = [k].
Proof.
  intros [Hn Hs]. destruct n as [|n].
  - change (spaces 0) with (@nil N). rewrite app_nil_r. apply tokens_nosep; assumption.
  - rewrite spaces_S, tokens_app_sep, tokens_spaces, app_nil_r. apply tokens_nosep; assumption.
Qed.

Lemma format_lines_words ind w f txt :
  flat_map (tokens SP) (format_lines ind w f txt) = filter not_nn (words txt).
Proof.
  rewrite <- tb_words_preserved with (ind := ind) (width := w) (f := f).
  unfold format. rewrite words_join by apply format_lines_nl_free. reflexivity.
Qed.

(** [start] ends with a blank (or is empty): attaching does not glue words *)
Lemma attach_words_blank start fl :
  flat_map (tokens SP) (attach (start ++ [SP]) fl) = tokens SP start ++ flat_map (tokens SP) fl.
Proof.
  destruct fl as [|l r]; cbn [attach flat_map].
  - rewrite tokens_app_sep. cbn. rewrite !app_nil_r. reflexivity.
  - rewrite <- app_assoc. cbn [app]. rewrite tokens_app_sep, app_assoc. reflexivity.
Qed.

Lemma attach_words_nil fl :
  flat_map (tokens SP) (attach [] fl) = flat_map (tokens SP) fl.
Proof. destruct fl; reflexivity. Qed.

Theorem entry_words p w same m a :
  key_ok (key_text (cont p) a) ->
  flat_map (tokens SP) (entry_lines p w same m a) =
  key_text (cont p) a :: filter not_nn (words (desc_copy a)).
Proof.
  intros Hk. unfold entry_lines. set (k := key_text (cont p) a) in *.
  destruct same.
  - unfold IndentLength.
    replace (spaces 3 ++ k ++ spaces (m - length k) ++ spaces 3)
      with ((spaces 3 ++ k ++ spaces (m - length k + 2)) ++ [SP]).
    + rewrite attach_words_blank, format_lines_words, tokens_spaces_app, tokens_key_blanks by assumption.
      reflexivity.
    + rewrite <- !app_assoc. do 2 f_equal.
      rewrite <- spaces_app. rewrite <- app_assoc. reflexivity.
  - cbn [flat_map]. rewrite attach_words_nil, format_lines_words.
    rewrite tokens_spaces_app. destruct Hk as [Hn Hs]. rewrite tokens_nosep by assumption. reflexivity.
Qed.

(** the first line of an entry starts with the indentation and the key text *)
Theorem entry_first_line p w same m a :
  exists rest more,
    entry_lines p w same m a = (spaces IndentLength ++ key_text (cont p) a ++ rest) :: more.
Proof.
  unfold entry_lines. destruct same.
  - destruct (format_lines (2 * IndentLength + m) w false (desc_copy a)) as [|l r]; cbn [attach].
    + exists (spaces (m - length (key_text (cont p) a)) ++ spaces IndentLength), [].
      reflexivity.
    + exists (spaces (m - length (key_text (cont p) a)) ++ spaces IndentLength ++ l), r.
      rewrite <- !app_assoc. reflexivity.
  - exists [], (attach [] (format_lines (2 * IndentLength) w true (desc_copy a))).
    rewrite app_nil_r. reflexivity.
Qed.

(** words of the text handed to the text block: description, then the extras *)
Lemma words_app_nl x y : words (x ++ NL :: y) = words x ++ words y.
Proof. unfold words. rewrite tokens_app_sep, flat_map_app. reflexivity. Qed.

Definition extra_shape (e : str) : Prop := e = [] \/ exists y, e = NL :: y.

Lemma words_app_extra x e : extra_shape e -> words (x ++ e) = words x ++ words e.
Proof.
  intros [->|[y ->]].
  - rewrite !app_nil_r. reflexivity.
  - rewrite words_app_nl. change (NL :: y) with ([] ++ NL :: y). rewrite (words_app_nl [] y). reflexivity.
Qed.

Lemma extra_shape_app e1 e2 : extra_shape e1 -> extra_shape e2 -> extra_shape (e1 ++ e2).
Proof.
  intros [->|[y ->]] H2; [exact H2|]. right. exists (y ++ e2). reflexivity.
Qed.

Lemma extra_default_shape a : extra_shape (extra_default a).
Proof. unfold extra_default. destruct (negb (mandatory a) && print_default a); [right; eauto|left; reflexivity]. Qed.
Lemma extra_check_shape a : extra_shape (extra_check a).
Proof. unfold extra_check. destruct (is_nil_l (checks a)); [left; reflexivity|right; eauto]. Qed.
Lemma extra_constraint_shape a : extra_shape (extra_constraint a).
Proof. unfold extra_constraint. destruct (is_nil_l (constraints a)); [left; reflexivity|right; eauto]. Qed.
Lemma extra_deprecated_shape a : extra_shape (extra_deprecated a).
Proof.
  unfold extra_deprecated. destruct (deprecated a); [|left; reflexivity].
  destruct (negb (is_nil_l (replaced_by a))); right; eauto.
Qed.
Lemma extra_hidden_shape a : extra_shape (extra_hidden a).
Proof. unfold extra_hidden. destruct (hidden a); [right; eauto|left; reflexivity]. Qed.

Theorem desc_copy_words a :
  words (desc_copy a) =
  words (desc a) ++ words (extra_default a) ++ words (extra_check a) ++ words (extra_constraint a)
  ++ words (extra_deprecated a) ++ words (extra_hidden a).
Proof.
  unfold desc_copy.
  pose proof (extra_default_shape a) as H1. pose proof (extra_check_shape a) as H2.
  pose proof (extra_constraint_shape a) as H3. pose proof (extra_deprecated_shape a) as H4.
  pose proof (extra_hidden_shape a) as H5.
  rewrite words_app_extra by (repeat apply extra_shape_app; assumption).
  rewrite words_app_extra by (repeat apply extra_shape_app; assumption).
  rewrite words_app_extra by (repeat apply extra_shape_app; assumption).
  rewrite words_app_extra by (repeat apply extra_shape_app; assumption).
  rewrite words_app_extra by assumption.
  reflexivity.
Qed.

(** what the extras are, where configured *)
Lemma words_nl x : words (NL :: x) = words x.
Proof. change (NL :: x) with ([] ++ NL :: x). rewrite words_app_nl. reflexivity. Qed.

Theorem extras_configured a :
  (mandatory a = false -> print_default a = true ->
   words (extra_default a) =
   words (S_DEFAULT ++ default_or_nil a
          ++ (if is_nil_l (unit_text a) then [] else S_UNIT_OPEN ++ unit_text a ++ S_UNIT_CLOSE))) /\
  (checks a <> [] -> words (extra_check a) = words (S_CHECK ++ join_comma (checks a))) /\
  (constraints a <> [] -> words (extra_constraint a) = words (S_CONSTRAINT ++ join_comma (constraints a))) /\
  (deprecated a = true -> replaced_by a = [] -> words (extra_deprecated a) = [S_DEPRECATED]) /\
  (deprecated a = true -> replaced_by a <> [] ->
   words (extra_deprecated a) = words (S_REPLACED ++ replaced_by a ++ S_REPLACED_END)) /\
  (hidden a = true -> words (extra_hidden a) = [S_HIDDEN]) /\
  (hidden a = false -> extra_hidden a = []) /\
  (deprecated a = false -> extra_deprecated a = []).
Proof.
  repeat split.
  - intros Hm Hp. unfold extra_default. rewrite Hm, Hp. cbn [negb andb]. apply words_nl.
  - intros H. unfold extra_check. destruct (checks a); [congruence|]. cbn [is_nil_l]. apply words_nl.
  - intros H. unfold extra_constraint. destruct (constraints a); [congruence|]. cbn [is_nil_l]. apply words_nl.
  - intros Hd Hr. unfold extra_deprecated. rewrite Hd, Hr. cbn [is_nil_l negb]. rewrite words_nl. reflexivity.
  - intros Hd Hr. unfold extra_deprecated. rewrite Hd. destruct (replaced_by a); [congruence|].
    cbn [is_nil_l negb]. apply words_nl.
  - intros Hh. unfold extra_hidden. rewrite Hh. rewrite words_nl. reflexivity.
  - intros Hh. unfold extra_hidden. rewrite Hh. reflexivity.
  - intros Hd. unfold extra_deprecated. rewrite Hd. reflexivity.
Qed.

(** the key text shows every key that the display mode allows *)
Theorem key_text_complete c a :
  match c with
  | CAll =>
      (Key.has_c (akey a) = true -> exists rest, key_text c a = [DASH; Key.kc (akey a)] ++ rest) /\
      (Key.has_w (akey a) = true -> exists pre, key_text c a = pre ++ [DASH; DASH] ++ Key.kw (akey a))
  | CShort => key_text c a = [DASH; Key.kc (akey a)]
  | CLong => key_text c a = [DASH; DASH] ++ Key.kw (akey a)
  end.
Proof.
  destruct c; cbn [key_text]; try reflexivity.
  unfold key_text_all. split; intros H.
  - rewrite H. eauto.
  - rewrite H. destruct (Key.has_c (akey a)).
    + exists [DASH; Key.kc (akey a); 44%N]. reflexivity.
    + exists []. reflexivity.
Qed.

(* ------------------------------------------------------------------ *)
(** * help for a single argument *)

Lemma find_arg_scan_in {A} abbr (t : Table.table (A := A)) k : forall part amb a,
  Table.find_arg_scan abbr t k part amb = Ok (Some a) ->
  part = Some a \/ exists k', In (k', a) t.
Proof.
  induction t as [|[k' x] r IH]; intros part amb a H; cbn [Table.find_arg_scan] in H.
  - destruct amb; [discriminate|]. inversion H. left. reflexivity.
  - destruct (Key.key_eq k' k).
    + inversion H; subst. right. exists k'. left. reflexivity.
    + destruct (abbr && Key.key_starts_with k' k).
      * destruct part as [y|].
        -- apply IH in H. destruct H as [H|[k2 H]]; [left; exact H|right; exists k2; right; exact H].
        -- apply IH in H. destruct H as [H|[k2 H]].
           ++ inversion H; subst. right. exists k'. left. reflexivity.
           ++ right. exists k2. right. exact H.
      * apply IH in H. destruct H as [H|[k2 H]]; [left; exact H|right; exists k2; right; exact H].
Qed.

Lemma find_arg_in abbr args k a :
  Table.find_arg abbr (arg_table args) k = Ok (Some a) -> In a args.
Proof.
  intros H. apply find_arg_scan_in in H. destruct H as [H|[k' H]]; [discriminate|].
  unfold arg_table in H. apply in_map_iff in H. destruct H as (b & Hb & Hin). inversion Hb; subst. exact Hin.
Qed.

(** no two arguments of the handler have keys that compare equal (what
    Storage::addArgument enforces) *)
Inductive keys_distinct : list arg -> Prop :=
| kd_nil : keys_distinct []
| kd_cons a r : Forall (fun b => Key.key_eq (akey a) (akey b) = false) r -> keys_distinct r ->
                keys_distinct (a :: r).

Lemma key_eq_sym a b : Key.key_eq a b = Key.key_eq b a.
Proof.
  unfold Key.key_eq.
  assert (S : forall x y, Key.str_eqb x y = Key.str_eqb y x).
  { induction x as [|c x IH]; destruct y as [|d y]; cbn; try reflexivity.
    unfold Key.ceq. rewrite N.eqb_sym, IH. reflexivity. }
  rewrite (andb_comm (Key.has_c a)), (andb_comm (Key.has_w a)).
  unfold Key.ceq. rewrite N.eqb_sym, S.
  destruct (Key.has_c b), (Key.has_c a), (Key.has_w b), (Key.has_w a); reflexivity.
Qed.

Lemma key_eq_refl_arg k : Key.has_c k || Key.has_w k = true -> Key.key_eq k k = true.
Proof.
  unfold Key.key_eq. intros H.
  assert (S : forall x, Key.str_eqb x x = true).
  { induction x as [|c x IH]; cbn; [reflexivity|]. unfold Key.ceq. rewrite N.eqb_refl, IH. reflexivity. }
  destruct (Key.has_c k); cbn [andb].
  - unfold Key.ceq. apply N.eqb_refl.
  - destruct (Key.has_w k); cbn [andb]; [apply S|discriminate].
Qed.

Lemma get_arg_desc_distinct args a :
  keys_distinct args -> In a args -> Key.key_eq (akey a) (akey a) = true ->
  get_arg_desc args (akey a) = desc a.
Proof.
  unfold get_arg_desc. induction 1 as [|b r Hb Hr IH]; intros Hin Hrefl; [contradiction|].
  cbn [find]. destruct Hin as [->|Hin].
  - rewrite Hrefl. reflexivity.
  - rewrite Forall_forall in Hb. specialize (Hb a Hin). rewrite Hb. apply IH; assumption.
Qed.

Definition help_caption (k : Key.key) : str := S_ARGUMENT ++ key_text_all k ++ S_ARG_USAGE.

(** the help for one argument: either the key is refused / ambiguous (an
    exception), or the argument is known and its description is printed, or it
    is reported as unknown on the error stream *)
Theorem help_argument_spec abbr args ks r :
  keys_distinct args ->
  Forall (fun a => Key.key_eq (akey a) (akey a) = true) args ->
  help_argument abbr args ks = Ok r ->
  exists k, Key.parse_key ks = Ok k /\
    ((exists a, In a args /\ Table.find_arg abbr (arg_table args) k = Ok (Some a) /\
                r = HelpOut (help_caption k :: attach [] (format_lines 3 80 true (desc a))))
     \/ (Table.find_arg abbr (arg_table args) k = Ok None /\
         r = HelpUnknown [S_ERR_ARG ++ ks ++ S_ERR_UNKNOWN])).
Proof.
  intros Hd Hrefl H. unfold help_argument in H.
  destruct (Key.mem SLASH ks); [discriminate|].
  apply bind_ok in H. destruct H as (k & Hk & H). exists k. split; [exact Hk|].
  apply bind_ok in H. destruct H as (f & Hf & H). destruct f as [a|].
  - left. exists a. pose proof (find_arg_in _ _ _ _ Hf) as Hin. split; [exact Hin|]. split; [exact Hf|].
    inversion H. unfold help_caption. rewrite get_arg_desc_distinct; try assumption.
    + reflexivity.
    + rewrite Forall_forall in Hrefl. apply Hrefl. exact Hin.
  - right. split; [exact Hf|]. inversion H. reflexivity.
Qed.

(** the words printed under the caption are the words of the description *)
Theorem help_words ind w txt :
  flat_map (tokens SP) (attach [] (format_lines ind w true txt)) = filter not_nn (words txt).
Proof. rewrite attach_words_nil. apply format_lines_words. Qed.

(* ------------------------------------------------------------------ *)
(** * the handler: what the help arguments do *)

Theorem eval_help f w args s s' :
  eval_cmd f w args s CmdHelp = Ok s' ->
  hout s' = hout s ++ usage_lines (hp s) w args /\ herr s' = herr s /\ hp s' = hp s /\ hprinted s' = true /\
  print_fails (hp s) args = false.
Proof.
  unfold eval_cmd, eval_cmd_gen. destruct ((has f hfHelpShort || has f hfHelpLong) && has f hfUsageCont); [|discriminate].
  destruct (print_fails (hp s) args) eqn:E; [discriminate|]. intros H. inversion H. cbn. auto.
Qed.

(** a display that was requested on the command line is on afterwards,
    whatever the constructor flags were; the other settings are kept *)
Theorem eval_request f w args s s' :
  (eval_cmd f w args s CmdPrintHidden = Ok s' ->
   print_hidden (hp s') = true /\ print_deprecated (hp s') = print_deprecated (hp s) /\ cont (hp s') = cont (hp s)) /\
  (eval_cmd f w args s CmdPrintDeprecated = Ok s' ->
   print_deprecated (hp s') = true /\ print_hidden (hp s') = print_hidden (hp s) /\ cont (hp s') = cont (hp s)) /\
  (eval_cmd f w args s CmdHelpShort = Ok s' -> cont (hp s') = CShort) /\
  (eval_cmd f w args s CmdHelpLong = Ok s' -> cont (hp s') = CLong).
Proof.
  unfold eval_cmd, eval_cmd_gen. split; [|split; [|split]].
  - destruct (has f hfArgHidden); [|discriminate]. intros H; inversion H; cbn; auto.
  - destruct (has f hfArgDeprecated); [|discriminate]. intros H; inversion H; cbn; auto.
  - destruct (has f hfUsageShort); [|discriminate]. destruct (cont (hp s)); try discriminate.
    intros H; inversion H; reflexivity.
  - destruct (has f hfUsageLong); [|discriminate]. destruct (cont (hp s)); try discriminate.
    intros H; inversion H; reflexivity.
Qed.

(** printing does not throw when every argument that prints its default
    value can deliver it *)
Definition defaults_available (args : list arg) : Prop :=
  Forall (fun a => mandatory a = false -> print_default a = true -> default_text a <> None) args.

Theorem print_never_fails p args : defaults_available args -> print_fails p args = false.
Proof.
  intros H. unfold print_fails. induction H as [|a r Ha _ IH]; [reflexivity|].
  cbn [existsb]. rewrite IH, orb_false_r. unfold desc_fails.
  destruct (mandatory a) eqn:Em; cbn [negb andb]; [apply andb_false_r|].
  destruct (print_default a) eqn:Ep; cbn [andb]; [|apply andb_false_r].
  destruct (default_text a) eqn:Ed; [apply andb_false_r|]. exfalso. apply Ha; reflexivity.
Qed.

(** the destination kinds of the (repaired) library deliver a default value
    whenever their constructor switches printing it on *)
Theorem kind_defaults k iv :
  kind_print_default k = true -> kind_default_text k iv <> None.
Proof. destruct k; cbn; intros H; try discriminate; congruence. Qed.
