(** Help paths through sub-groups: the recursion of [help_path] follows the
    path component by component, whatever the depth; a text without a slash is
    Handler::helpArgument of the handler reached; a component that is not the
    key of a sub-group of the handler reached is reported with the rest of the
    path; the answer is never silent. *)
From Coq Require Import List NArith Bool Arith Lia.
Import ListNotations.
Require Import Celma.Common.Res Celma.Text.TextBlockModel Celma.Text.Usage Celma.Text.UsagePath.
Require Celma.ArgH.Key Celma.ArgH.Table Celma.ArgH.SafeProofs.

(* ------------------------------------------------------------------ *)
(** * splitting at the first slash *)

Lemma split_slash_none s : split_slash s = None <-> Key.mem SLASH s = false.
Proof.
  induction s as [|c r IH]; cbn [split_slash Key.mem]; [tauto|].
  unfold Key.ceq. destruct (N.eqb c SLASH) eqn:E; cbn [orb].
  - split; discriminate.
  - destruct (split_slash r) as [[h t]|]; [|tauto].
    split; [discriminate|]. intros H. apply IH in H. discriminate.
Qed.

Lemma split_slash_join c rest : Key.mem SLASH c = false -> split_slash (c ++ SLASH :: rest) = Some (c, rest).
Proof.
  induction c as [|x c IH]; cbn [app split_slash Key.mem]; intros H.
  - rewrite N.eqb_refl. reflexivity.
  - unfold Key.ceq in H. apply orb_false_iff in H. destruct H as [H1 H2]. rewrite H1, (IH H2). reflexivity.
Qed.

Lemma split_slash_shorter s : forall h t, split_slash s = Some (h, t) -> length t < length s.
Proof.
  induction s as [|c r IH]; cbn [split_slash]; intros h t H; [discriminate|].
  destruct (N.eqb c SLASH).
  - inversion H; subst. cbn. lia.
  - destruct (split_slash r) as [[h' t']|]; [|discriminate]. inversion H; subst.
    specialize (IH h' t eq_refl). cbn. lia.
Qed.

(* ------------------------------------------------------------------ *)
(** * the fuel is only a bound on the length of the path *)

Section Path.
Variable f : N.
Variable user : list arg.
Variable gs : list pgroup.

Lemma help_path_fuel : forall n m node ks,
  length ks < n -> length ks < m -> help_path f user gs n node ks = help_path f user gs m node ks.
Proof.
  induction n as [|n IH]; intros m node ks Hn Hm; [lia|]. destruct m as [|m]; [lia|].
  cbn [help_path]. destruct (split_slash ks) as [[hd rest]|] eqn:Es; [|reflexivity].
  pose proof (split_slash_shorter ks hd rest Es) as Hl.
  destruct (Key.parse_key hd); cbn [bind]; auto.
  destruct (Table.find_arg _ _ _) as [[i|]|?|?]; cbn [bind]; auto.
  rewrite (IH m (Some i) rest) by lia. reflexivity.
Qed.

Lemma help_leaf_nofault abbr margs subargs ks : SafeProofs.nofault (help_leaf abbr margs subargs ks).
Proof.
  unfold help_leaf.
  pose proof (SafeProofs.parse_key_nofault ks) as Hp. destruct (Key.parse_key ks) as [k|?|?]; cbn [bind SafeProofs.nofault] in *; auto.
  pose proof (SafeProofs.find_arg_scan_nofault abbr (arg_table margs) k None false) as H1.
  fold (Table.find_arg abbr (arg_table margs) k) in H1.
  destruct (Table.find_arg abbr (arg_table margs) k) as [[a|]|?|?]; cbn [bind SafeProofs.nofault] in *; auto.
  pose proof (SafeProofs.find_arg_scan_nofault abbr (arg_table subargs) k None false) as H2.
  fold (Table.find_arg abbr (arg_table subargs) k) in H2.
  destruct (Table.find_arg abbr (arg_table subargs) k) as [[a|]|?|?]; cbn [bind SafeProofs.nofault] in *; auto.
Qed.

(** with a fuel above the length of the path the recursion never runs dry *)
Lemma help_path_total : forall n node ks, length ks < n -> SafeProofs.nofault (help_path f user gs n node ks).
Proof.
  induction n as [|n IH]; intros node ks Hn; [lia|]. cbn [help_path].
  destruct (split_slash ks) as [[hd rest]|] eqn:Es.
  - pose proof (split_slash_shorter ks hd rest Es) as Hl.
    pose proof (SafeProofs.parse_key_nofault hd) as Hp.
    destruct (Key.parse_key hd) as [k|?|?]; cbn [bind SafeProofs.nofault] in *; auto.
    match goal with |- context [Table.find_arg ?a ?t k] =>
      pose proof (SafeProofs.find_arg_scan_nofault a t k None false) as H1; fold (Table.find_arg a t k) in H1;
      destruct (Table.find_arg a t k) as [[i|]|?|?] end; cbn [bind SafeProofs.nofault] in *; auto.
    specialize (IH (Some i) rest ltac:(lia)).
    destruct (help_path f user gs n (Some i) rest) as [[r t]|?|?]; cbn [bind SafeProofs.nofault] in *; auto.
  - pose proof (help_leaf_nofault (node_abbr f gs node) (node_args f user gs node)
                  (map (fun p => pg_arg (snd p)) (children gs node)) ks) as Hl.
    destruct (help_leaf _ _ _ ks) as [r|?|?]; cbn [bind SafeProofs.nofault] in *; auto.
Qed.

(* ------------------------------------------------------------------ *)
(** * following a path *)

Definition sub_table (node : option nat) : @Table.table nat :=
  map (fun p => (pg_key (snd p), fst p)) (children gs node).
Definition sub_args_of (node : option nat) : list arg :=
  map (fun p => pg_arg (snd p)) (children gs node).

(** [chain node comps node']: every component is (an exact key or, where the
    handler allows it, a unique abbreviation of) a sub-group argument of the
    handler reached so far *)
Inductive chain : option nat -> list str -> option nat -> Prop :=
| chain_nil node : chain node [] node
| chain_cons node c k i cs node' :
    Key.mem SLASH c = false -> Key.parse_key c = Ok k ->
    Table.find_arg (node_abbr f gs node) (sub_table node) k = Ok (Some i) ->
    chain (Some i) cs node' -> chain node (c :: cs) node'.

Fixpoint join (comps : list str) (last : str) : str :=
  match comps with
  | [] => last
  | c :: cs => c ++ SLASH :: join cs last
  end.

Lemma join_length_tail c cs last : length (join cs last) < length (join (c :: cs) last).
Proof. cbn [join]. rewrite app_length. cbn [length]. lia. Qed.

(** the request reaches the handler at the end of the chain, which answers as
    Handler::helpArgument does for a plain key; only a request without any
    group component is noted by the handler it was given to *)
Theorem help_path_chain : forall comps node node' last fuel,
  chain node comps node' -> Key.mem SLASH last = false -> length (join comps last) < fuel ->
  help_path f user gs fuel node (join comps last)
  = do r <- help_leaf (node_abbr f gs node') (node_args f user gs node') (sub_args_of node') last;
    Ok (r, match comps with [] => true | _ => false end).
Proof.
  induction comps as [|c cs IH]; intros node node' last fuel Hc Hl Hf; inversion Hc; subst.
  - destruct fuel as [|fuel]; [lia|]. cbn [join help_path].
    rewrite (proj2 (split_slash_none last) Hl). reflexivity.
  - destruct fuel as [|fuel]; [lia|].
    match goal with H : chain (Some _) cs node' |- _ => rename H into Hrest end.
    cbn [help_path join]. rewrite split_slash_join by assumption.
    match goal with H : Key.parse_key c = Ok _ |- _ => rewrite H end. cbn [bind].
    match goal with H : Table.find_arg _ (sub_table node) _ = Ok (Some _) |- _ => unfold sub_table in H; rewrite H end.
    cbn [bind]. pose proof (join_length_tail c cs last) as Hj.
    rewrite (IH _ node' last fuel Hrest Hl ltac:(cbn [join] in *; lia)).
    destruct (help_leaf _ _ _ last) as [r|?|?]; cbn [bind fst]; auto.
Qed.

(** a component that names no sub-group of the handler reached: that handler
    reports the rest of the path, nothing is printed to the output stream *)
Theorem help_path_unknown_group : forall comps node node' c k cs last fuel,
  chain node comps node' -> Key.mem SLASH c = false -> Key.parse_key c = Ok k ->
  Table.find_arg (node_abbr f gs node') (sub_table node') k = Ok None ->
  length (join (comps ++ c :: cs) last) < fuel ->
  help_path f user gs fuel node (join (comps ++ c :: cs) last)
  = Ok (HelpUnknown [S_ERR_SUB ++ join (c :: cs) last ++ S_ERR_UNKNOWN],
        match comps with [] => true | _ => false end).
Proof.
  induction comps as [|c0 comps IH]; intros node node' c k cs last fuel Hc Hs Hp Hf Hl; inversion Hc; subst.
  - destruct fuel as [|fuel]; [lia|]. cbn [app help_path join]. rewrite split_slash_join by assumption.
    rewrite Hp. cbn [bind]. unfold sub_table in Hf. rewrite Hf. reflexivity.
  - destruct fuel as [|fuel]; [lia|].
    match goal with H : chain (Some _) comps node' |- _ => rename H into Hrest end.
    cbn [app help_path join]. rewrite split_slash_join by assumption.
    match goal with H : Key.parse_key c0 = Ok _ |- _ => rewrite H end. cbn [bind].
    match goal with H : Table.find_arg _ (sub_table node) _ = Ok (Some _) |- _ => unfold sub_table in H; rewrite H end.
    cbn [bind]. pose proof (join_length_tail c0 (comps ++ c :: cs) last) as Hj.
    rewrite (IH _ node' c k cs last fuel Hrest Hs Hp Hf ltac:(cbn [app join] in *; lia)).
    cbn [bind fst]. destruct comps; reflexivity.
Qed.

End Path.

(* ------------------------------------------------------------------ *)
(** * the answer is never silent *)

Lemma help_leaf_answers abbr margs subargs ks r :
  help_leaf abbr margs subargs ks = Ok r ->
  (exists l ls, r = HelpOut (l :: ls)) \/ (exists l, r = HelpUnknown [l]).
Proof.
  unfold help_leaf. destruct (Key.parse_key ks) as [k|?|?]; cbn [bind]; try discriminate.
  destruct (Table.find_arg abbr (arg_table margs) k) as [[a|]|?|?]; cbn [bind]; try discriminate.
  - intros H; inversion H; subst. left. eauto.
  - destruct (Table.find_arg abbr (arg_table subargs) k) as [[a|]|?|?]; cbn [bind]; try discriminate;
      intros H; inversion H; subst; [left|right]; eauto.
Qed.

Theorem help_path_answers f user gs : forall fuel node ks r top,
  help_path f user gs fuel node ks = Ok (r, top) ->
  (exists l ls, r = HelpOut (l :: ls)) \/ (exists l, r = HelpUnknown [l]).
Proof.
  induction fuel as [|fuel IH]; intros node ks r top H; cbn [help_path] in H; [discriminate|].
  destruct (split_slash ks) as [[hd rest]|].
  - destruct (Key.parse_key hd) as [k|?|?]; cbn [bind] in H; try discriminate.
    destruct (Table.find_arg _ _ k) as [[i|]|?|?]; cbn [bind] in H; try discriminate.
    + destruct (help_path f user gs fuel (Some i) rest) as [[r' t']|?|?] eqn:E; cbn [bind fst] in H; try discriminate.
      inversion H; subst. eapply IH; eauto.
    + inversion H; subst. right. eauto.
  - destruct (help_leaf _ _ _ ks) as [r'|?|?] eqn:E; cbn [bind] in H; try discriminate.
    inversion H; subst. eapply help_leaf_answers; eauto.
Qed.

(** without sub-group components this is Handler::helpArgument of Text/Usage.v *)
Lemma help_leaf_is_help_argument_sg abbr margs sgs ks :
  Key.mem SLASH ks = false ->
  help_leaf abbr margs (map sub_arg sgs) ks = help_argument_sg abbr margs sgs ks.
Proof. intros H. unfold help_leaf, help_argument_sg. rewrite H. reflexivity. Qed.

(** non-vacuity: main handler, sub-group g, inside it sub-group d with the argument x *)
Definition ex_key (c : N) : Key.key := {| Key.kc := c; Key.kw := [] |}.
Definition ex_arg (c : N) (d : str) : arg := mkarg (ex_key c) false false false [] false None [] [] [] d.
Definition ex_groups : list pgroup :=
  [mkpg (ex_key 103%N) [71]%N 0%N [] None;                       (* g, attached to the main handler *)
   mkpg (ex_key 100%N) [68]%N 0%N [ex_arg 120%N [88;88]%N] (Some 0)].   (* d inside g, owns -x "XX" *)
Example help_path_example :
  (* hfHelpArg | hfUsageCont;  --help-arg g/d/x  and  --help-arg g/q/x *)
  (exists s, eval_case_path None None ex_groups 32772%N [] [103;47;100;47;120]%N = Ok s /\
             hout s = [[65;114;103;117;109;101;110;116;32;39;45;120;39;44;32;117;115;97;103;101;58]; [32;32;32;88;88]]%N /\
             herr s = []) /\
  (exists s, eval_case_path None None ex_groups 32772%N [] [103;47;113;47;120]%N = Ok s /\ hout s = [] /\
             herr s = [S_ERR_SUB ++ [113;47;120]%N ++ S_ERR_UNKNOWN]).
Proof. split; eexists; (split; [vm_compute; reflexivity|split; reflexivity]). Qed.
