(** C18: the layout-insensitive digest of the usage text the model writes is the
    digest computed directly from the list of visible arguments. *)
From Coq Require Import List Arith NArith Bool Lia.
Import ListNotations.
Require Import Celma.Common.Res Celma.Text.TextBlockModel Celma.Text.TextBlockProofs.
Require Import Celma.Text.Usage Celma.Text.UsageProofs.
Require Celma.ArgH.Key.

(* ------------------------------------------------------------------ *)
(** * the specification side: the digest from the visible arguments *)

(** one entry: the key text and the words of the description and the extras *)
Definition spec_entry (p : params) (a : arg) : ditem :=
  DEnt (key_text (cont p) a) (filter not_nn (words (desc_copy a))).

(** one section: nothing when no argument of the class is visible, else the
    caption and the entries in definition order *)
Definition spec_section (p : params) (mand : bool) (vs : list arg) : list ditem :=
  match vs with
  | [] => []
  | _ => DCap (if mand then CAP_MAND else CAP_OPT) :: map (spec_entry p) vs
  end.

Definition spec_digest (p : params) (args : list arg) : list ditem :=
  DCap S_USAGE
    :: spec_section p true (listed p true args) ++ spec_section p false (listed p false args).

(** a key text the digest can recognise: not empty, no blank, no newline *)
Definition key_good (k : str) : Prop := key_ok k /\ Forall (fun c => c <> NL) k.

(* ------------------------------------------------------------------ *)
(** * leading blanks, continuation lines *)

Lemma leading_spaces_app n x : leading (spaces n ++ x) = n + leading x.
Proof. induction n as [|n IH]; [reflexivity|]. rewrite spaces_S. cbn [app leading]. rewrite IH. reflexivity. Qed.

Lemma leading_nonblank k rest : key_ok k -> leading (k ++ rest) = 0.
Proof.
  intros [Hn Hs]. destruct k as [|c k]; [congruence|]. inversion Hs as [|? ? Hc _]; subst.
  cbn [app leading]. apply N.eqb_neq in Hc. rewrite Hc. reflexivity.
Qed.

Lemma add_line_blank acc : add_line acc [] = acc.
Proof. reflexivity. Qed.

Lemma add_line_cont n k ws acc x :
  4 <= n -> pref (spaces n) x ->
  add_line (DEnt k ws :: acc) x = DEnt k (ws ++ tokens SP x) :: acc.
Proof.
  intros Hn [r ->]. unfold add_line. destruct (tokens SP (spaces n ++ r)) as [|t ts] eqn:E.
  - rewrite app_nil_r. reflexivity.
  - rewrite leading_spaces_app.
    destruct (n + leading r =? 0) eqn:E0; [apply Nat.eqb_eq in E0; lia|].
    destruct (n + leading r =? IndentLength) eqn:E3; [apply Nat.eqb_eq in E3; unfold IndentLength in E3; lia|].
    reflexivity.
Qed.

Lemma fold_cont n k acc ls : forall ws,
  4 <= n -> Forall (pref (spaces n)) ls ->
  fold_left add_line ls (DEnt k ws :: acc) = DEnt k (ws ++ flat_map (tokens SP) ls) :: acc.
Proof.
  induction ls as [|x r IH]; intros ws Hn H.
  - cbn. rewrite app_nil_r. reflexivity.
  - inversion H; subst. cbn [fold_left flat_map]. rewrite (add_line_cont n) by assumption.
    rewrite IH by assumption. rewrite app_assoc. reflexivity.
Qed.

(** a line that starts an entry: indentation, key, anything that continues
    with a blank (or nothing) *)
Lemma add_line_entry acc k rest ts :
  key_ok k -> tokens SP (k ++ rest) = k :: ts ->
  add_line acc (spaces IndentLength ++ k ++ rest) = DEnt k ts :: acc.
Proof.
  intros Hk Ht. unfold add_line. rewrite tokens_spaces_app, Ht.
  rewrite leading_spaces_app, leading_nonblank by assumption. reflexivity.
Qed.

(* ------------------------------------------------------------------ *)
(** * one entry *)

Lemma entry_digest p w same m a acc :
  key_ok (key_text (cont p) a) ->
  fold_left add_line (entry_lines p w same m a) acc = spec_entry p a :: acc.
Proof.
  intros Hk. unfold entry_lines, spec_entry. set (k := key_text (cont p) a) in *.
  destruct same.
  - pose proof (format_lines_words (2 * IndentLength + m) w false (desc_copy a)) as W.
    pose proof (tb_indent (2 * IndentLength + m) w false (desc_copy a)) as I.
    destruct (format_lines (2 * IndentLength + m) w false (desc_copy a)) as [|l r]; cbn [attach fold_left].
    + rewrite <- W. cbn [flat_map]. apply add_line_entry; [assumption|].
      rewrite spaces_app. apply tokens_key_blanks. assumption.
    + destruct I as [_ I]. rewrite <- !app_assoc.
      rewrite (add_line_entry acc k _ (tokens SP l)); [|assumption|].
      * rewrite (fold_cont (2 * IndentLength + m)); [|unfold IndentLength; lia|assumption].
        rewrite <- W. reflexivity.
      * replace (k ++ spaces (m - length k) ++ spaces IndentLength ++ l)
          with ((k ++ spaces (m - length k + 2)) ++ SP :: l).
        -- rewrite tokens_app_sep, tokens_key_blanks by assumption. reflexivity.
        -- rewrite <- app_assoc. f_equal. rewrite <- spaces_app, <- app_assoc. reflexivity.
  - pose proof (format_lines_words (2 * IndentLength) w true (desc_copy a)) as W.
    pose proof (tb_indent (2 * IndentLength) w true (desc_copy a)) as I.
    cbn [fold_left].
    rewrite <- (app_nil_r k) at 1. rewrite (add_line_entry acc k [] []); [|assumption|].
    + destruct (format_lines (2 * IndentLength) w true (desc_copy a)) as [|l r]; cbn [attach fold_left app].
      * rewrite add_line_blank, <- W. reflexivity.
      * destruct I as [I0 I]. change (fold_left add_line r (add_line (DEnt k [] :: acc) l))
          with (fold_left add_line (l :: r) (DEnt k [] :: acc)).
        rewrite (fold_cont (2 * IndentLength)); [|unfold IndentLength; lia|constructor; auto].
        rewrite <- W. reflexivity.
    + rewrite app_nil_r. destruct Hk. apply tokens_nosep; assumption.
Qed.

Lemma entries_digest p w same m vs : forall acc,
  Forall (fun a => key_ok (key_text (cont p) a)) vs ->
  fold_left add_line (flat_map (entry_lines p w same m) vs) acc = rev (map (spec_entry p) vs) ++ acc.
Proof.
  induction vs as [|a r IH]; intros acc H; [reflexivity|].
  inversion H; subst. cbn [flat_map map rev]. rewrite fold_left_app, entry_digest by assumption.
  rewrite IH by assumption. rewrite <- app_assoc. reflexivity.
Qed.

Lemma section_digest p w same m mand mp vs acc :
  Forall (fun a => key_ok (key_text (cont p) a)) vs ->
  fold_left add_line (section_lines p w same m mand mp vs) acc = rev (spec_section p mand vs) ++ acc.
Proof.
  intros H. unfold section_lines, spec_section. destruct vs as [|a r]; [reflexivity|].
  rewrite fold_left_app, entries_digest by assumption.
  cbn [rev]. rewrite <- app_assoc. f_equal.
  unfold caption. destruct mand; [reflexivity|]. destruct mp; reflexivity.
Qed.

(* ------------------------------------------------------------------ *)
(** * the whole usage, as lines *)

Lemma listed_keys p mand args :
  (forall a, In a args -> visible p a = true -> key_good (key_text (cont p) a)) ->
  Forall (fun a => key_good (key_text (cont p) a)) (listed p mand args).
Proof.
  intros H. apply Forall_forall. intros a Ha. unfold listed in Ha. apply filter_In in Ha.
  destruct Ha as [Hin Hv]. apply andb_prop in Hv. apply H; tauto.
Qed.

Lemma good_ok p vs :
  Forall (fun a => key_good (key_text (cont p) a)) vs -> Forall (fun a => key_ok (key_text (cont p) a)) vs.
Proof. apply Forall_impl. intros a [H _]. exact H. Qed.

(** compositional form: whatever was read before ([acc], in reverse order),
    reading the usage lines adds exactly the spec digest *)
Theorem usage_lines_digest p w args acc :
  (forall a, In a args -> visible p a = true -> key_good (key_text (cont p) a)) ->
  fold_left add_line (usage_lines p w args) acc = rev (spec_digest p args) ++ acc.
Proof.
  intros H. unfold usage_lines, spec_digest.
  change (fold_left add_line (S_USAGE :: print p w args ++ [[]]) acc)
    with (fold_left add_line (print p w args ++ [[]]) (DCap S_USAGE :: acc)).
  rewrite fold_left_app. cbn [fold_left]. rewrite add_line_blank.
  rewrite print_structure. cbn zeta. rewrite fold_left_app.
  rewrite !section_digest by (apply good_ok, listed_keys; assumption).
  cbn [rev]. rewrite rev_app_distr, <- !app_assoc. reflexivity.
Qed.

(* ------------------------------------------------------------------ *)
(** * from the characters to the lines *)

Definition nlfree (s : str) : Prop := Forall (fun c => c <> NL) s.

Lemma split_unlines ls : Forall nlfree ls -> split NL (unlines ls) = ls ++ [[]].
Proof.
  induction 1 as [|l r Hl _ IH]; [reflexivity|].
  unfold unlines in *. cbn [flat_map]. rewrite <- app_assoc. cbn [app].
  rewrite split_app_sep, IH, (split_nosep NL l Hl). reflexivity.
Qed.

Lemma digest_unlines ls : Forall nlfree ls -> digest (unlines ls) = digest_lines ls.
Proof.
  intros H. unfold digest, digest_lines. rewrite split_unlines by assumption.
  rewrite fold_left_app. cbn [fold_left]. rewrite add_line_blank. reflexivity.
Qed.

Lemma nlfree_dec s : forallb (fun c => negb (N.eqb c NL)) s = true -> nlfree s.
Proof.
  intros H. apply Forall_forall. intros c Hc. rewrite forallb_forall in H. specialize (H c Hc).
  apply negb_true_iff, N.eqb_neq in H. exact H.
Qed.

Lemma spaces_nlfree n : nlfree (spaces n).
Proof. apply Forall_forall. intros x Hx. apply repeat_spec in Hx. subst. discriminate. Qed.

Lemma nlfree_app a b : nlfree a -> nlfree b -> nlfree (a ++ b).
Proof. intros. apply Forall_app. split; assumption. Qed.

Lemma attach_nlfree start fl : nlfree start -> Forall nlfree fl -> Forall nlfree (attach start fl).
Proof.
  intros Hs Hf. destruct fl as [|l r]; cbn [attach].
  - repeat constructor. assumption.
  - inversion Hf; subst. constructor; [apply nlfree_app; assumption|assumption].
Qed.

Lemma entry_nlfree p w same m a :
  nlfree (key_text (cont p) a) -> Forall nlfree (entry_lines p w same m a).
Proof.
  intros Hk. unfold entry_lines. destruct same.
  - apply attach_nlfree; [|apply format_lines_nl_free].
    repeat apply nlfree_app; try apply spaces_nlfree; assumption.
  - constructor.
    + apply nlfree_app; [apply spaces_nlfree|assumption].
    + apply attach_nlfree; [constructor|apply format_lines_nl_free].
Qed.

Lemma section_nlfree p w same m mand mp vs :
  Forall (fun a => key_good (key_text (cont p) a)) vs ->
  Forall nlfree (section_lines p w same m mand mp vs).
Proof.
  intros H. unfold section_lines. destruct vs as [|a r]; [constructor|].
  apply Forall_app. split.
  - unfold caption. destruct mand; [|destruct mp]; cbn [app];
      repeat (apply Forall_cons; [apply nlfree_dec; reflexivity|]); apply Forall_nil.
  - apply Forall_forall. intros l Hl. apply in_flat_map in Hl. destruct Hl as (b & Hb & Hl).
    rewrite Forall_forall in H. specialize (H b Hb). destruct H as [_ H].
    pose proof (entry_nlfree p w same m b H) as E. rewrite Forall_forall in E. apply E. exact Hl.
Qed.

Lemma usage_lines_nlfree p w args :
  (forall a, In a args -> visible p a = true -> key_good (key_text (cont p) a)) ->
  Forall nlfree (usage_lines p w args).
Proof.
  intros H. unfold usage_lines. constructor; [apply nlfree_dec; reflexivity|].
  apply Forall_app. split; [|apply Forall_cons; [apply Forall_nil|apply Forall_nil]].
  rewrite print_structure. cbn zeta. apply Forall_app.
  split; apply section_nlfree, listed_keys; assumption.
Qed.

(** the digest of the usage text is the digest of the visible arguments *)
Theorem usage_digest p w args :
  (forall a, In a args -> visible p a = true -> key_good (key_text (cont p) a)) ->
  digest (unlines (usage_lines p w args)) = spec_digest p args.
Proof.
  intros H. rewrite digest_unlines by (apply usage_lines_nlfree; assumption).
  unfold digest_lines. rewrite usage_lines_digest by assumption.
  rewrite app_nil_r. apply rev_involutive.
Qed.

(** text written before and after the usage does not disturb it: what was read
    before stays, the usage adds the spec digest, what follows is read on top *)
Theorem usage_digest_embedded p w args before after :
  (forall a, In a args -> visible p a = true -> key_good (key_text (cont p) a)) ->
  digest_lines (before ++ usage_lines p w args ++ after) =
  rev (fold_left add_line after (rev (spec_digest p args) ++ fold_left add_line before [])).
Proof.
  intros H. unfold digest_lines. rewrite !fold_left_app, usage_lines_digest by assumption. reflexivity.
Qed.

(** the key texts of parsed keys are good whenever their characters are
    neither blank nor newline *)
Definition char_good (c : N) : Prop := c <> SP /\ c <> NL.

Lemma key_text_good c a :
  char_good (Key.kc (akey a)) -> Forall char_good (Key.kw (akey a)) ->
  key_good (key_text c a).
Proof.
  intros Hc Hw.
  assert (D : char_good DASH) by (split; discriminate).
  assert (C : char_good 44%N) by (split; discriminate).
  assert (G : forall k, k <> [] -> Forall char_good k -> key_good k).
  { intros k Hn Hk. split; [split; [exact Hn|]|]; eapply Forall_impl; try exact Hk; intros x [H1 H2]; assumption. }
  destruct c; cbn [key_text]; [unfold key_text_all; destruct (Key.has_c (akey a)); [destruct (Key.has_w (akey a))|]| |];
    apply G; try discriminate; repeat (constructor; try assumption);
    try (apply Forall_app; split; [repeat (constructor; try assumption)|assumption]).
Qed.

(* ------------------------------------------------------------------ *)
(** * usage texts (IUsageText) before / after the argument list *)

Lemma usage_lines_txt_split t1 t2 p w args :
  usage_lines_txt t1 t2 p w args = text_before t1 ++ usage_lines p w args ++ text_after t1 t2.
Proof.
  unfold usage_lines_txt, usage_lines. f_equal. cbn [app]. f_equal. rewrite <- app_assoc. reflexivity.
Qed.

(** a usage text is written verbatim, followed by two line ends *)
Lemma unlines_split s : unlines (split NL s) = s ++ [NL].
Proof.
  induction s as [|c r IH]; [reflexivity|].
  cbn [split]. destruct (N.eqb c NL) eqn:E.
  - apply N.eqb_eq in E. subst c. unfold unlines in *. cbn [flat_map app]. rewrite IH. reflexivity.
  - destruct (split NL r) as [|h t] eqn:S; [exfalso; eapply split_not_nil; eauto|].
    unfold unlines in *. cbn [flat_map app] in *. rewrite IH. reflexivity.
Qed.

Theorem text_lines_verbatim s : unlines (text_lines s) = s ++ [NL; NL].
Proof.
  unfold text_lines, unlines. rewrite flat_map_app. fold (unlines (split NL s)).
  rewrite unlines_split, <- app_assoc. reflexivity.
Qed.

Lemma text_lines_nlfree s : Forall nlfree (text_lines s).
Proof. unfold text_lines. apply Forall_app. split; [apply split_nosep_pieces|repeat constructor]. Qed.

Lemma text_before_nlfree t1 : Forall nlfree (text_before t1).
Proof. destruct t1 as [[[] s]|]; cbn; try constructor. apply text_lines_nlfree. Qed.

Lemma text_after_nlfree t1 t2 : Forall nlfree (text_after t1 t2).
Proof.
  destruct t1 as [[[] s]|]; cbn; try apply text_lines_nlfree;
    destruct t2 as [[[] s2]|]; cbn; try constructor; apply text_lines_nlfree.
Qed.

(** the digest of a usage with usage texts: the text before is read first,
    the usage adds exactly the digest of the visible arguments, the text after
    is read on top of it *)
Theorem usage_txt_digest t1 t2 p w args :
  (forall a, In a args -> visible p a = true -> key_good (key_text (cont p) a)) ->
  digest (unlines (usage_lines_txt t1 t2 p w args)) =
  rev (fold_left add_line (text_after t1 t2)
         (rev (spec_digest p args) ++ fold_left add_line (text_before t1) [])).
Proof.
  intros H. rewrite usage_lines_txt_split. rewrite digest_unlines.
  - apply usage_digest_embedded. assumption.
  - apply Forall_app. split; [apply text_before_nlfree|].
    apply Forall_app. split; [apply usage_lines_nlfree; assumption|apply text_after_nlfree].
Qed.

Theorem eval_help_txt t1 t2 f w args s s' :
  eval_cmd_txt t1 t2 f w args s CmdHelp = Ok s' ->
  hout s' = hout s ++ text_before t1 ++ usage_lines (hp s) w args ++ text_after t1 t2 /\
  herr s' = herr s /\ hp s' = hp s /\ hprinted s' = true.
Proof.
  unfold eval_cmd_txt, eval_cmd_gen.
  destruct ((has f hfHelpShort || has f hfHelpLong) && has f hfUsageCont); [|discriminate].
  destruct (print_fails (hp s) args); [discriminate|]. intros H. inversion H. cbn.
  rewrite usage_lines_txt_split. auto.
Qed.

(** which combinations of usage texts the constructor accepts, and where an
    accepted text is printed *)
Theorem check_texts_spec t1 t2 :
  check_texts t1 t2 = Ok tt <->
  match t1, t2 with
  | None, None => True
  | Some _, None => True
  | None, Some _ => False
  | Some (p1, _), Some (p2, _) => p1 <> p2 /\ ~ (p1 = UAfter /\ p2 = UBefore)
  end.
Proof.
  destruct t1 as [[p1 s1]|], t2 as [[p2 s2]|]; cbn; try tauto.
  - destruct p1, p2; cbn; split; intros H; try discriminate; try reflexivity;
      try (destruct H as [H1 H2]; try congruence; exfalso; apply H2; split; reflexivity);
      (split; [discriminate|intros [? ?]; discriminate]).
  - split; [discriminate|tauto].
Qed.
