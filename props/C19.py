"""C19  Buffered reading and writing preserve the byte stream for every chunking."""
import itertools

ID = 'C19'
HARNESS = {'name': 'c19', 'sources': ['harness/c19_harness.cpp'], 'sanitize': True}
CAPS = [1, 2, 3, 4, 5, 8, 16, 64]

RULE = ('read cases: capacity x stream x chunk list x list of get(len|null) ; write cases: capacity x list of '
        'append(block)|append(null,len)|flush. Small capacities are enumerated exhaustively (all op sequences up to the '
        'bound with lengths 0..N+1, all constant and alternating chunkings), larger ones are drawn from the seeded '
        'PRNG. A case is non-trivial when the model takes a refill (source request) or delivers data to the sink.')
TRUSTED_BASE = [
    'model Buffers/RWModel.v written by hand from read_buffer.hpp / write_buffer.hpp; tied by the correspondence '
    'check (this run) on get()/append()/flush() results, refusals, sink content and the (offset,length) of every '
    'source request',
    'extraction: ExtrOcamlBasic only (Extract Inductive bool/option/unit/list/prod/sumbool/sumor, Extract Inlined '
    'Constant andb/orb); nat and N stay extracted datatypes; ocaml/c19_driver.ml does I/O only',
    'C++ harness harness/c19_harness.cpp (scripted source/sink, g++ 12 -O1, ASan+UBSan)',
]
ASSUMPTIONS = [
    'the source returns min(requested, chunk, remaining) bytes per call; a source that returns 0 forever starves '
    'the loop (model: Fault Starved) and is outside the property',
    'destination / source blocks passed by the caller have at least len bytes',
]


def _stream(n):
    return ''.join('%02x' % (1 + (i % 250)) for i in range(n)) if n else '-'


def _rcase(cap, stream_len, chunks, ops):
    # nn: True / False (uint8_t destination / null pointer) or one of 'p', 'q', 'r' (uint16_t, uint32_t, double)
    return 'R %d %s %s %s' % (cap, _stream(stream_len), ','.join(map(str, chunks)) or '-',
                              ','.join((nn if isinstance(nn, str) else 'n' if nn else 'z') + str(l) for nn, l in ops) or '-')


def _wcase(cap, ops, ctr=[0]):
    out = []
    k = 1
    for o in ops:
        if o[0] in 'abcd':
            out.append(o[0] + (''.join('%02x' % (1 + ((k + i) % 250)) for i in range(o[1])) if o[1] else '-'))
            k += o[1]
        elif o[0] == 'n':
            out.append('n%d' % o[1])
        else:
            out.append('f')
    return 'W %d %s' % (cap, ','.join(out) or '-')


def _wcase_fail(cap, ops, failpos):
    """as _wcase; the operation at index failpos is made once with a sink that refuses the first write and then again"""
    toks = _wcase(cap, ops).split(' ')[2].split(',')
    toks = toks[:failpos] + ['x' + toks[failpos], toks[failpos]] + toks[failpos + 1:]
    return 'W %d %s' % (cap, ','.join(toks))


def gen_cases(tier, rng):
    cases = []
    maxcap = 3 if tier == 'quick' else 4
    maxops = 3 if tier == 'quick' else 4
    for cap in range(1, maxcap + 1):
        lens = list(range(0, cap + 2))
        chunkings = [[c] for c in range(1, cap + 1)] + [[1, cap], [cap, 1]]
        if cap >= 3:
            chunkings.append([2, 1])
        for nops in range(1, maxops + 1):
            for ls in itertools.product(lens, repeat=nops):
                ops = [(True, l) for l in ls]
                total = sum(l for l in ls if l <= cap)
                for ch in chunkings:
                    chunks = (ch * (total + cap + 2))[:total + cap + 2]
                    cases.append(_rcase(cap, total + cap, chunks, ops))
                # short stream: the source dries up
                if total > 0 and nops <= 2:
                    cases.append(_rcase(cap, total - 1, [1] * (total + 2), ops))
            # destinations of wider element types (the length stays a number of bytes): served from the buffer and
            # after a refill
            if nops <= 2:
                for ptr in 'pqr':
                    for ls in itertools.product(lens, repeat=nops):
                        for first_plain in (False, True):
                            ops = [((True if (first_plain and i == 0) else ptr), l) for i, l in enumerate(ls)]
                            total = sum(l for l in ls if l <= cap)
                            for ch in chunkings[:2]:
                                chunks = (ch * (total + cap + 2))[:total + cap + 2]
                                cases.append(_rcase(cap, total + cap, chunks, ops))
            # null pointer variants
            for ls in itertools.product(lens, repeat=min(nops, 2)):
                for nullpos in range(len(ls)):
                    ops = [(i != nullpos, l) for i, l in enumerate(ls)]
                    cases.append(_rcase(cap, sum(ls) + cap, [1] * (sum(ls) + cap + 2), ops))
        wops = [('a', l) for l in range(0, cap + 2)] + [('f',), ('n', 0), ('n', 1)]
        for nops in range(1, maxops + 1):
            for seq in itertools.product(wops, repeat=nops):
                cases.append(_wcase(cap, list(seq) + [('f',)]))
        # a sink that fails: every operation of every short history once with a sink that refuses its first write,
        # then repeated - nothing may be lost, nothing written twice
        fops = [('a', l) for l in range(0, cap + 2)] + [('f',)]
        for nops in range(1, min(maxops, 3) + 1):
            for seq in itertools.product(fops, repeat=nops):
                for fp in range(nops):
                    cases.append(_wcase_fail(cap, list(seq) + [('f',)], fp))
                cases.append(_wcase_fail(cap, list(seq) + [('f',)], nops))
        # the same histories with the data handed over through pointers to wider types (length in bytes)
        for ptr in 'bcd':
            pops = [(ptr, l) for l in range(0, cap + 3)] + [('f',)]
            for nops in range(1, min(maxops, 3) + 1):
                for seq in itertools.product(pops, repeat=nops):
                    cases.append(_wcase(cap, list(seq) + [('f',)]))
    # random longer histories on the larger capacities
    nrand = 400 if tier == 'quick' else 4000
    for _ in range(nrand):
        cap = rng.choice(CAPS)
        nops = rng.range(3, 25)
        ops = []
        total = 0
        for _ in range(nops):
            r = rng.below(20)
            if r == 0:
                l = cap + rng.range(1, 3)
            elif r == 1:
                l = 0
            elif r == 2:
                l = cap
            else:
                l = rng.range(1, cap)
            ops.append((not rng.chance(1, 40), l))
            if l <= cap and ops[-1][0]:
                total += l
        mode = rng.below(4)
        n = total + cap + 2
        if mode == 0:
            chunks = [1] * n
        elif mode == 1:
            chunks = [cap] * n
        elif mode == 2:
            chunks = [rng.range(1, cap) for _ in range(n)]
        else:
            chunks = [rng.range(1, 2 * cap) for _ in range(n)]
        slen = total + rng.below(cap + 1) if not rng.chance(1, 15) else max(0, total - rng.range(1, 3))
        cases.append(_rcase(cap, slen, chunks, ops))
        wops = []
        for _ in range(nops):
            r = rng.below(12)
            if r == 0:
                wops.append(('f',))
            elif r == 1:
                wops.append(('a', cap + rng.below(3)))
            elif r == 2:
                wops.append(('n', rng.below(2)))
            elif r == 3:
                wops.append(('a', cap - 1 if cap > 1 else 1))
            else:
                wops.append(('a', rng.range(0, cap)))
        cases.append(_wcase(cap, wops + [('f',)]))
    return {'cases': cases, 'exhaustive': True,
            'scopes': ['exhaustive: capacities 1..%d, histories of 1..%d operations, get lengths 0..N+1 (one null '
                       'pointer position each), chunkings constant 1..N / alternating, append lengths 0..N+1 + flush '
                       '+ null' % (maxcap, maxops),
                       'random: %d read and %d write histories of 3..25 operations on capacities %s' % (nrand, nrand, CAPS)]}


def histogram_keys(case, mr):
    w = case.split(' ')
    keys = ['%s cap=%s' % (w[0], w[1])]
    if mr:
        if 'F:starved' in mr:
            keys.append('starved')
        if 'E:' in mr:
            keys.append('refusal')
    return keys


def nontrivial(case, mr):
    prop, _, intl = mr.partition(' ## ')
    if case.startswith('R'):
        return any(c.isdigit() for c in intl)
    return any(p.startswith('ok:') and not p.endswith(':-') for p in prop.split(' '))


def _unhex(s):
    return b'' if s == '-' else bytes.fromhex(s)


def spec_check(case, ir, mr):
    """the property, restated on the observable results of one history (search/triage only)"""
    if ir is None:
        return 'no result from the implementation'
    if 'CRASH' in ir:
        return 'memory error / abort in the implementation: ' + ir
    w = case.split(' ')
    prop = ir.split(' ## ')[0].split(' ') if ir.split(' ## ')[0] else []
    if w[0] == 'R':
        cap = int(w[1]); stream = _unhex(w[2])
        chunks = [int(x) for x in w[3].split(',')] if w[3] != '-' else []
        ops = [] if w[4] == '-' else w[4].split(',')
        got = b''
        req_total = 0
        for o, r in zip(ops, prop):
            nn = o[0] != 'z'; l = int(o[1:])
            if r.startswith('G:'):
                b = _unhex(r[2:])
                if len(b) != l:
                    return 'get(%d) returned %d bytes' % (l, len(b))
                if l > 0 and (not nn or l > cap):
                    return 'get(%s) should have been refused' % o
                got += b
                if got != stream[:len(got)]:
                    return 'bytes returned are not the bytes of the source in order'
            elif r.startswith('E:'):
                if r != 'E:runtime_error' or l == 0 or (nn and l <= cap):
                    return 'unexpected exception %s for get(%s)' % (r, o)
            elif r.startswith('F:starved'):
                need = len(got) + l
                if all(c >= 1 for c in chunks) and len(chunks) >= len(stream) + 1 and need <= len(stream):
                    return 'refill does not terminate although the source has the data'
                return None
            else:
                return 'unexpected result ' + r
        if len(prop) != len(ops):
            return 'number of results differs from number of operations'
        return None
    cap = int(w[1])
    ops = [] if w[2] == '-' else w[2].split(',')
    appended = b''; sunk = b''
    if len(prop) != len(ops):
        return 'number of results differs from number of operations'
    for o, r in zip(ops, prop):
        if o[0] == 'x':
            # the sink refuses the first write of this operation: either the operation fails as a whole and leaves
            # everything as it was (it will be repeated), or it did not need the sink and succeeds
            if r == 'E:runtime_error':
                continue
            o = o[1:]
        if o[0] == 'n':
            l = int(o[1:])
            if l == 0 and not r.startswith('ok:'):
                return 'append(null,0) must be a no-op'
            if l > 0 and r != 'E:runtime_error':
                return 'append(null,%d) must throw runtime_error' % l
            if l > 0:
                continue
        if not r.startswith('ok:'):
            return 'unexpected result ' + r
        _, buffered, delta = r.split(':')
        buffered = int(buffered)
        if o[0] in 'abcd':
            blk = _unhex(o[1:])
            appended += blk
        sunk += _unhex(delta)
        if buffered > cap:
            return 'buffered() exceeds the capacity'
        if sunk != appended[:len(sunk)] or len(sunk) + buffered != len(appended):
            return 'sink content + buffered bytes is not what was appended'
        if o[0] == 'f' and buffered != 0:
            return 'flush left data in the buffer'
        if o[0] in 'abcd' and len(_unhex(o[1:])) >= cap and buffered != 0:
            return 'oversized block was not passed through'
    return None


def classify(case, ir, mr):
    return 'read' if case.startswith('R') else 'write'


def shrink(case):
    w = case.split(' ')
    idx = 4 if w[0] == 'R' else 2
    ops = [] if w[idx] == '-' else w[idx].split(',')
    for i in range(len(ops)):
        rest = ops[:i] + ops[i + 1:]
        yield ' '.join(w[:idx] + [','.join(rest) or '-'] + w[idx + 1:])

CLAIM = {
    'text': 'Coq theorems (Properties_C19.v) over an executable model of ReadBuffer/WriteBuffer: for every capacity, '
            'every history of get/append/flush and every chunking of the source the bytes handed out / delivered to '
            'the sink are the stream in order, no access leaves the internal buffer, oversized reads are refused and '
            'oversized writes passed through; with a sink that throws, the operations it refused leave no trace and can be '
            'repeated (C19_failing_sink_effective_operations, C19_failed_operation_can_be_repeated). The model is tied to the code by a correspondence check (exhaustive for '
            'small capacities, ASan+UBSan build of the real templates).',
    'note': 'trusted: Coq kernel, extraction (ExtrOcamlBasic), the hand-written model (validated by correspondence on '
            'every run), scripted source/sink of the harness; memory safety below the model (allocator) only through '
            'the sanitizer build',
    'technique': 'Coq proof by induction over operation histories (invariant + stream refinement); model/implementation '
                 'correspondence, exhaustive small scopes',
    'design_ref': 'DESIGN.md section 5, C19',
}
