"""C07  Arguments from a string, a file or the environment equal the same words on argv."""
import itertools
import os
import sys
sys.path.insert(0, os.path.dirname(__file__))
import args_common as A
import args_gen as G
import C02 as _c02

ID = 'C07'
MODEL_ID = 'ARGS'
HARNESS = A.HARNESS
INTERNAL_COMPARABLE = False   # behind '##' the harness prints exception class / texts, the driver a note: never equal
RULE = ('split cases: all strings up to length 6 (quick) / 7 (thorough) over {a, blank, \', ", backslash} + escaped '
        'joins of random word lists over printable characters (oracle: the words come back). source cases: a valid '
        'abstract line cut at use boundaries into argument-file lines (with comment and empty lines interspersed, with '
        'and without final newline), an environment variable and argv, words escaped where needed; oracle: same '
        'destination values as the whole line on argv; override cases: a scalar given in file/environment and again on '
        'argv; named-file cases: a part of the environment variable or of argv moved into a file named by --arg-file '
        '(optionally nested). Non-trivial: at least one word / one use.')
TRUSTED_BASE = _c02.TRUSTED_BASE + ['the harness writes the argument file to a private $HOME/.progargs/<prog>.pa under '
                                    '/verif/.work and sets the environment variable named after the program']
ASSUMPTIONS = ['words are non-empty (an empty quoted word is dropped by splitString - documented behaviour of the '
               'model, outside the round-trip statement)',
               'file and environment parts are cut at use boundaries (a key and its value stay in one source)']

ALPHA = ['a', ' ', "'", '"', '\\']


def esc(w):
    return ''.join(('\\' + c) if c in ' \'"\\' else c for c in w)


def render(rng, w):
    """one of the ways to write the word in a string: backslash escapes, or the whole word inside single or double
    quotes (a quote character or backslash inside is then escaped by a backslash)"""
    style = rng.below(4)
    if style <= 1 or w == '':
        return esc(w)
    q = "'" if style == 2 else '"'
    return q + ''.join(('\\' + c) if c in (q, '\\') else c for c in w) + q


def _split_ref(s):
    """reference splitting used only by the oracle of random quoted inputs"""
    out = []; cur = ''; inq = False; q = '-'; bs = False
    for ch in s:
        if bs:
            cur += ch; bs = False
        elif ch == '\\':
            bs = True
        elif inq:
            if ch == q:
                inq = False; q = '-'
            else:
                cur += ch
        elif ch in '\'"':
            inq = True; q = ch
        elif ch == ' ':
            if cur:
                out.append(cur); cur = ''
        else:
            cur += ch
    if cur:
        out.append(cur)
    return out


def gen_cases(tier, rng):
    cases = []
    maxlen = 6 if tier == 'quick' else 7
    for n in range(0, maxlen + 1):
        for t in itertools.product(ALPHA, repeat=n):
            cases.append('split:' + A.hx(''.join(t)) + ' kind:enum')
    # escaped joins: the round trip of the property
    nr = 1500 if tier == 'quick' else 15000
    chars = [chr(c) for c in range(33, 127)] + [' ', ' ', "'", '"', '\\', '\\']
    for _ in range(nr):
        ws = [''.join(rng.choice(chars) for _ in range(rng.range(1, 6))) for _ in range(rng.range(1, 5))]
        joined = (' ' * rng.range(1, 2)).join(esc(w) for w in ws)
        cases.append('split:' + A.hx(joined) + ' kind:escaped want:' + ','.join(A.hx(w) for w in ws))
    # all ways of quoting short words: bare / single / double quoted / backslash
    for _ in range(nr // 3):
        ws = [''.join(rng.choice('ab \'"\\') for _ in range(rng.range(1, 3))) for _ in range(rng.range(1, 3))]
        parts = []
        for w in ws:
            mode = rng.below(3)
            if mode == 0:
                parts.append(esc(w))
            else:
                qc = "'" if mode == 1 else '"'
                parts.append(qc + ''.join(('\\' + c) if c in (qc, '\\') else c for c in w) + qc)
        cases.append('split:' + A.hx(' '.join(parts)) + ' kind:quoted want:' + ','.join(A.hx(w) for w in ws))
    # sources
    ns = 600 if tier == 'quick' else 6000
    cases.append('H:f=16 arg:i:i0: file:2d692035 argv:- exp:i0=5 kind:file-no-newline')
    cases.append('H:f=16 arg:c:s0: arg:i:i0: file:%s argv:- exp:i0=17;s0=s%s kind:sources' % (A.hx('-c #ff80 -i 17\n'), A.hx('#ff80')))
    cases.append('H:f=16 arg:n:s0: arg:i:i0: file:%s argv:- exp:i0=17;s0=s%s kind:sources' % (A.hx("-n 'issue #17' -i 17\n"), A.hx('issue #17')))
    # the file named on the command line: words behind it in the environment variable stay overridable
    cases.append('H:f=32 arg:i:i0: arg:arg-file:af0: env:%s xfile:%s:%s argv:2d69,38 exp:i0=8 kind:named-file'
                 % (A.hx('--arg-file f1.pa -i 7'), A.hx('f1.pa'), A.hx('-i 5\n')))
    cases.append('H:f=0 arg:i:i0: arg:s:s0: arg:arg-file:af0: xfile:%s:%s argv:2d2d6172672d66696c65,66312e7061,2d69,38 exp:i0=8;s0=s78 kind:named-file'
                 % (A.hx('f1.pa'), A.hx('-i 5\n-s x')))
    cases.append('H:f=0 arg:i:i0: arg:arg-file:af0: argv:2d2d6172672d66696c65,6e6f66696c65 exp:reject kind:named-file')
    cases.append('H:f=0 arg:i:i0: arg:arg-file:af0: xfile:%s:%s argv:2d69,38,2d2d6172672d66696c65,66312e7061,2d69,39 exp:reject kind:named-file'
                 % (A.hx('f1.pa'), A.hx('-i 5\n')))
    # an environment variable whose first and last words are quoted with the same quote character
    for q in ("'", '"'):
        env = '%sin file%s -i 5 -n %smy name%s' % (q, q, q, q)
        cases.append('H:f=32 arg:-:s0: arg:i:i0: arg:n:s1: env:%s argv:- exp:i0=5;s0=s%s;s1=s%s kind:sources'
                     % (A.hx(env), A.hx('in file'), A.hx('my name')))
        env = '%s--name=my name%s' % (q, q)
        cases.append('H:f=32 arg:name:s0: arg:i:i0: env:%s argv:2d69,37 exp:i0=7;s0=s%s kind:sources' % (A.hx(env), A.hx('my name')))
    # "#" starts a comment in an argument FILE line only: in the environment variable and on the command line a word
    # that begins with "#" is a value like any other
    for first in ('#42', '#', '#tag -x'):
        w0 = first.split(' ')[0]
        cases.append('H:f=32 arg:-:s0: arg:i:i0: arg:n:s1: env:%s argv:- exp:i0=5;s0=s%s;s1=s%s kind:sources'
                     % (A.hx(w0 + ' -i 5 -n abc'), A.hx(w0), A.hx('abc')))
        cases.append('H:f=0 arg:-:s0: arg:i:i0: arg:n:s1: %s exp:i0=5;s0=s%s;s1=s%s kind:sources'
                     % (A.argv_tok([w0, '-i', '5', '-n', 'abc']), A.hx(w0), A.hx('abc')))
        cases.append('H:f=32 arg:v:vs0:multi arg:i:i0: env:%s %s exp:i0=5;vs0=[s%s,s%s] kind:sources'
                     % (A.hx('-i 5'), A.argv_tok(['-v', 'a', w0]), A.hx('a'), A.hx(w0)))
        cases.append('H:f=32 arg:v:vs0:multi arg:i:i0: env:%s %s exp:i0=5;vs0=[s%s,s%s] kind:sources'
                     % (A.hx('-v a ' + w0), A.argv_tok(['-i', '5']), A.hx('a'), A.hx(w0)))
    cases.append('H:f=48 arg:-:s0: arg:i:i0: file:%s env:%s argv:- exp:i0=5;s0=s%s kind:sources'
                 % (A.hx('# a comment\n-i 5\n'), A.hx('#x'), A.hx('#x')))
    # the separate values of a multi-value argument continue across the delivery boundaries (file line / file line,
    # file / environment, environment / command line, named file / rest of the line)
    mv = 'arg:v,values:vi0:multi arg:f:b0:init=0 '
    cases.append('H:f=16 ' + mv + 'file:%s argv:- exp:b0=0;vi0=[1,2,3] kind:multi-across' % A.hx('-v 1\n2\n3\n'))
    cases.append('H:f=16 ' + mv + 'file:%s argv:33,34 exp:b0=0;vi0=[1,2,3,4] kind:multi-across' % A.hx('--values 1 2'))
    cases.append('H:f=32 ' + mv + 'env:%s argv:32,33 exp:b0=0;vi0=[1,2,3] kind:multi-across' % A.hx('-v 1'))
    cases.append('H:f=48 ' + mv + 'file:%s env:%s argv:33 exp:b0=0;vi0=[1,2,3] kind:multi-across' % (A.hx('-v 1\n'), A.hx('2')))
    cases.append('H:f=48 ' + mv + 'file:%s env:%s argv:33 exp:reject kind:multi-across' % (A.hx('-v 1\n'), A.hx('-f 2')))
    cases.append('H:f=0 ' + mv + 'arg:arg-file:af0: xfile:%s:%s argv:2d2d6172672d66696c65,66312e7061,33 exp:b0=0;vi0=[1,2,3] kind:multi-across'
                 % (A.hx('f1.pa'), A.hx('-v 1 2')))
    # separate values delivered through the file / the environment do not count for the cardinality
    mvc = 'arg:v,values:vi0:multi/card=max~3 arg:n:i0: '
    cases.append('H:f=32 ' + mvc + 'env:%s argv:2d76,33,34,35 exp:i0=7;vi0=[1,2,3,4,5] kind:multi-across' % A.hx('-n 7 -v 1 2'))
    cases.append('H:f=32 ' + mvc + 'env:%s argv:2d76,33,34,35,36 exp:reject kind:multi-across' % A.hx('-n 7 -v 1 2'))
    cases.append('H:f=16 ' + mvc + 'file:%s argv:2d76,33,34,35 exp:i0=0;vi0=[1,2,9,3,4,5] kind:multi-across' % A.hx('-v 1 2\n9\n'))
    cases.append('H:f=32 ' + mvc + 'env:%s argv:34,35,36 exp:i0=0;vi0=[1,2,3,4,5,6] kind:multi-across' % A.hx('-v 1 2 3'))
    for nl in range(1, 4):
        for extra_line in ('', '# c\n', '\n'):
            content = '-v 1\n' + extra_line + ''.join('%d\n' % (k + 2) for k in range(nl))
            exp = ','.join(str(k) for k in range(1, nl + 2))
            cases.append('H:f=16 ' + mv + 'file:%s argv:- exp:b0=0;vi0=[%s] kind:multi-across' % (A.hx(content), exp))
    guard = 0
    made = 0
    while made < ns and guard < ns * 30:
        guard += 1
        args, cons = G.gen_config(rng, rng.range(2, 5), kinds=['b', 'i', 's', 'vi'], features=False)
        for a in args:
            a.card = None
        uses = G.gen_line(rng, args, [])
        if not uses or len(uses) < 2:
            continue
        for u in uses:
            if u.arg.kind == 's' and rng.chance(1, 2):
                u.values = [''.join(rng.choice('ab \'"\\x#') for _ in range(rng.range(1, 4)))]
                if u.values[0].startswith('-'):
                    u.values = ['q' + u.values[0]]
        c1 = rng.range(0, len(uses))
        c2 = rng.range(c1, len(uses))
        parts = [uses[:c1], uses[c1:c2], uses[c2:]]
        words = [G.spell(rng, p, args, True) for p in parts]
        flags = 0
        extra = []
        if parts[0] or rng.chance(1, 3):
            flags |= 0x10
            # file: one or more lines, comments and empty lines interspersed
            lines = []
            ws = words[0]
            # cut only between uses: spell each use separately for the line structure
            per_use = [G.spell(rng, [u], args, True) for u in parts[0]]
            words[0] = [w for pu in per_use for w in pu]
            cur = []
            hash_line = False
            for pu in per_use:
                cur += pu
                if rng.chance(1, 2):
                    real = ' '.join(render(rng, w) for w in cur)
                    hash_line = hash_line or real.startswith('#')
                    lines.append(real); cur = []
                    if rng.chance(1, 3):
                        lines.append(rng.choice(['', '# comment -x', '#']))
            if cur:
                real = ' '.join(render(rng, w) for w in cur)
                hash_line = hash_line or real.startswith('#')
                lines.append(real)
            if hash_line:
                continue      # an argument line that starts with '#' is a comment by definition
            content = '\n'.join(lines) + ('\n' if rng.chance(2, 3) else '')
            extra.append('file:' + A.hx(content))
        if parts[1] or rng.chance(1, 3):
            flags |= 0x20
            extra.append('env:' + A.hx(' '.join(render(rng, w) for w in words[1])))
        if any(w == '' for ws_ in words[:2] for w in ws_):
            continue      # an empty word cannot be delivered through a string
        exp = G.expected_store(args, uses)
        # override: a scalar from file/env given again on argv
        over = [u for u in parts[0] + parts[1] if u.arg.kind in ('i', 's') and not u.arg.checks and not u.arg.positional]
        kind = 'sources'
        if over and rng.chance(1, 3):
            u = rng.choice(over)
            nv = G.gen_value(rng, u.arg)
            u2 = G.Use(u.arg, [nv])
            words[2] = words[2] + G.spell(rng, [u2], args, True)
            exp = G.expected_store(args, uses + [u2])
            kind = 'override'
        et = 'exp:' + ';'.join('%s=%s' % kv for kv in sorted(exp.items()))
        argtoks = [a.token() for a in args]
        # a part of the environment variable or of argv delivered through a file NAMED on the command line
        # (--arg-file <name>): cut at use boundaries, optionally nested (the named file names a second file)
        where = rng.choice([1, 2]) if (flags & 0x20 and parts[1]) else 2
        if kind == 'sources' and parts[where] and rng.chance(1, 2) and not any(a.long == 'arg-file' for a in args):
            part = parts[where]
            per_use = [G.spell(rng, [u], args, True) for u in part]
            i = rng.range(0, len(part) - 1)
            j = rng.range(i + 1, len(part))
            moved = per_use[i:j]
            lines = [' '.join(esc(w) for w in pu) for pu in moved]
            if any(l.startswith('#') or l == '' for l in lines) or any(w == '' for pu in moved for w in pu):
                continue
            xf = []
            if len(lines) >= 2 and rng.chance(1, 3):
                cut = rng.range(1, len(lines) - 1)
                xf.append(('f2.pa', '\n'.join(lines[cut:]) + '\n'))
                lines = lines[:cut] + ['--arg-file f2.pa']
            xf.append(('f1.pa', '\n'.join(lines) + ('\n' if rng.chance(2, 3) else '')))
            ref = rng.choice(['--arg-file', '--arg-f', '--arg-file='])
            refw = [ref + 'f1.pa'] if ref.endswith('=') else [ref, 'f1.pa']
            neww = [w for pu in per_use[:i] for w in pu] + refw + [w for pu in per_use[j:] for w in pu]
            if any(w == '' for w in neww) and where == 1:
                continue
            words[where] = neww
            extra = [e for e in extra if not e.startswith('env:')] + \
                    (['env:' + A.hx(' '.join(render(rng, w) for w in words[1]))] if flags & 0x20 else [])
            argtoks.append('arg:arg-file:af0:')
            extra += ['xfile:%s:%s' % (A.hx(n), A.hx(t)) for n, t in xf]
            kind = 'named-file'
            # override behind the named file: a scalar delivered through it given again on argv
            over2 = [u for u in part[i:j] if u.arg.kind in ('i', 's') and not u.arg.checks and not u.arg.positional]
            if over2 and rng.chance(1, 2):
                u = rng.choice(over2)
                u2 = G.Use(u.arg, [G.gen_value(rng, u.arg)])
                words[2] = words[2] + G.spell(rng, [u2], args, True)
                exp = G.expected_store(args, uses + [u2])
                et = 'exp:' + ';'.join('%s=%s' % kv for kv in sorted(exp.items()))
        toks = ['H:f=%d' % flags] + argtoks + extra + [A.argv_tok(words[2]), et, 'kind:' + kind]
        cases.append(' '.join(toks))
        made += 1
    return {'cases': cases, 'exhaustive': True,
            'scopes': ['exhaustive: all strings of length 0..%d over {a,blank,\',",backslash} (%d)' % (maxlen, sum(5 ** k for k in range(maxlen + 1))),
                       '%d escaped joins, %d quoted word lists, %d source partitions' % (nr, nr // 3, made)]}


def _tok(case, p):
    for t in case.split(' '):
        if t.startswith(p):
            return t[len(p):]
    return None


def spec_check(case, ir, mr):
    if ir is None:
        return 'no result from the implementation'
    if 'CRASH' in ir:
        return 'memory error / abort: ' + ir
    sp = _tok(case, 'split:')
    if sp is not None:
        if 'CONSTRUCTORS-DIFFER' in ir:
            return 'the two constructors of the argument array disagree'
        got = ir.split(' ')[1][6:]
        text = bytes.fromhex(sp).decode('latin-1') if sp != '-' else ''
        want = _tok(case, 'want:')
        if want is not None:
            if got != want:
                return 'splitting the quoted words does not give the words back'
            return None
        ref = ','.join(A.hx(w) for w in _split_ref(text)) or '-'
        return None if got == ref else 'split result differs from the quoting rules'
    return _c02.spec_check(case, ir, mr)


def classify(case, ir, mr):
    k = _tok(case, 'kind:') or 'case'
    if k in ('sources', 'file-no-newline') and 'file:' in case:
        f = _tok(case, 'file:')
        if f and f != '-' and not f.endswith('0a'):
            return 'file-last-line'
    return k


def nontrivial(case, mr):
    return mr is not None and ('words=-' not in mr) and not mr.startswith('setup')


def histogram_keys(case, mr):
    return [_tok(case, 'kind:') or '?']


CLAIM = {
    'text': 'Coq theorems (Properties_C07.v): split(join(map escape ws)) = ws for every list of non-empty words over '
            'any characters, and split(join ss) = ws for EVERY quoted rendering ss of the words (inductive quoting relation: '
            'plain, backslash, single and double quoted segments; mutual induction over the five-way automaton of '
            'splitString); argument file lines, environment words and '
            'argv that are legal spellings are evaluated as ONE sequence of uses in source order by the same step '
            'function, with cardinality counting off for the first two (override); a file NAMED on the command line '
            '(--arg-file, ArgH/ArgFile.v: extension of the element loop, conservative when no such argument is defined) '
            'is evaluated in place - its uses are performed by the same step function in read mode file between the '
            'two halves of the handling of the argument itself, at every nesting depth, and the enclosing source '
            'continues in its own mode (C07_named_file_in_place, C07_named_file_words); the pinned file loop is proved to '
            'drop an unterminated last line and was repaired. Model tied by correspondence: exhaustive short strings '
            'for the splitter, generated source partitions with the whole-line values as oracle.',
    'note': 'words are joined by single blanks in the theorems (runs of blanks are covered by the exhaustive tie); '
            'reading the file / environment (getline, getenv) is library behaviour exercised by the harness only',
    'technique': 'Coq proof (automaton round trip by induction; source composition as corollary of the C01 simulation '
                 'theorem) + model/implementation correspondence, exhaustive short strings',
    'design_ref': 'DESIGN.md section 5, C07',
}
