"""C03  Every command line that obeys the declared rules is accepted."""
import os
import sys
sys.path.insert(0, os.path.dirname(__file__))
import args_common as A
import args_gen as G
import C02 as _c02

ID = 'C03'
MODEL_ID = 'ARGS'
HARNESS = A.HARNESS
INTERNAL_COMPARABLE = False   # behind '##' the harness prints exception class / texts, the driver a note: never equal
RULE = ('a case = random configuration of 3-8 arguments (so that most lines leave several arguments, checks, formats, '
        'constraints and hidden / deprecated definitions unused) + a valid abstract line in which requiring / excluding '
        'arguments stand before the arguments they refer to + one legal spelling; the property demands acceptance '
        '(exp: with the intended values). Non-trivial: accepted configuration.')
TRUSTED_BASE = _c02.TRUSTED_BASE
ASSUMPTIONS = _c02.ASSUMPTIONS + [
    'an argument listed in any_of/one_of and given twice on the command line is rejected by the library ("already '
    'used"); such lines are not generated (recorded as an observation in DESIGN.md)']


def gen_cases(tier, rng):
    n = 1900 if tier == 'quick' else 15000
    cases = []
    stats = {}
    cases.append('H:f=0 arg:l,left:b0:init=0/req=r arg:r,right:b1:init=0 argv:2d6c,2d2d7269676874 exp:b0=1;b1=1')
    cases.append('H:f=0 arg:input-file:s0: arg:input-dir:s1: arg:input:s2: argv:2d2d696e707574,35 exp:s0=s-;s1=s-;s2=s35')
    # exhaustive small scope for requirements: two flags that both require the same third argument, each naming
    # it by its short or by its long key; every order of every subset; the required argument spelled both ways
    import itertools
    for sx, sy in itertools.product(['o', 'output'], repeat=2):
        defs = 'arg:c,compress:b0:init=0/req=%s arg:e,encrypt:b1:init=0/req=%s arg:o,output:s0:' % (sx, sy)
        for r in (1, 2, 3):
            for perm in itertools.permutations(['c', 'e', 'o'], r):
                ok = all(('o' in perm and perm.index('o') > perm.index(x)) for x in perm if x in ('c', 'e'))
                for ospell in (['-o', 'f'], ['--output=f'], ['--out', 'f']):
                    w = []
                    for x in perm:
                        w += ospell if x == 'o' else ['-' + x]
                    exp = ('b0=%d;b1=%d;s0=%s' % ('c' in perm, 'e' in perm, 's66' if 'o' in perm else 's-')) if ok else 'reject'
                    cases.append('H:f=0 %s %s exp:%s' % (defs, A.argv_tok(w), exp))
    # arguments whose cardinality limit was removed (setCardinality( nullptr)) or raised may be given several times
    for w, exp in ((['-n', '1', '-n', '2'], 'b0=0;i0=2;s0=s-'), (['-n', '1', '--number=2', '-n', '3'], 'b0=0;i0=3;s0=s-'),
                   (['-s', 'a', '-v', '-s', 'b'], 'b0=1;i0=0;s0=s62'), (['-v', '-v'], 'b0=1;i0=0;s0=s-')):
        cases.append('H:f=0 arg:n,number:i0:card=none arg:s:s0:card=none arg:v:b0:init=0/card=none %s exp:%s' % (A.argv_tok(w), exp))
    cases.append('H:f=0 arg:n:i0:card=max~2 arg:s:s0: %s exp:i0=2;s0=s-' % A.argv_tok(['-n', '1', '-n', '2']))
    cases.append('H:f=0 arg:n:i0:card=range~1~3 arg:s:s0: %s exp:i0=3;s0=s-' % A.argv_tok(['-n', '1', '-n', '2', '-n', '3']))
    # a check and a formatter on the same argument: the check sees the value as given, the formatted value is stored
    for slot, opts, v, out in (('s0', 'chk=values~tcp~udp/fmt=upper', 'tcp', 'sTCP'.replace('TCP', A.hx('TCP'))),
                               ('s0', 'chk=values~TCP~UDP/fmt=lower', 'UDP', 's' + A.hx('udp')),
                               ('s0', 'fmt=upper/chk=values~tcp~udp', 'udp', 's' + A.hx('UDP')),
                               ('s0', 'chk=ivalues~Tcp/fmt=upper', 'tCP', 's' + A.hx('TCP')),
                               ('s0', 'chk=minlen~2/chk=maxlen~3/fmt=upper', 'ab', 's' + A.hx('AB')),
                               ('vs0', 'chk=values~a~b/fmt=upper', 'a,b', '[s%s,s%s]' % (A.hx('A'), A.hx('B')))):
        for w in (['-p', v], ['--proto=' + v], ['--pro', v]):
            cases.append('H:f=0 arg:p,proto:%s:%s arg:n:i0: %s exp:i0=0;%s=%s' % (slot, opts, A.argv_tok(w), slot, out))
    # "--" lets every following word be a value, however many follow and whatever they begin with
    for w, exp in ((['-o', '--', '-1', '-2', '-3'], 'b0=0;s0=s-;vi0=[-1,-2,-3];vs0=[]'),
                   (['-o', '1', '--', '-2', '3', '-4'], 'b0=0;s0=s-;vi0=[1,-2,3,-4];vs0=[]'),
                   (['-f', '--', '-alpha', '-beta'], 'b0=1;s0=s-;vi0=[];vs0=[s%s,s%s]' % (A.hx('-alpha'), A.hx('-beta'))),
                   (['-f', '--', 'plain', '-dashed', '--more'], 'b0=1;s0=s-;vi0=[];vs0=[s%s,s%s,s%s]' % (A.hx('plain'), A.hx('-dashed'), A.hx('--more'))),
                   (['-n', '--', '-x', '-y'], 'b0=0;s0=s%s;vi0=[];vs0=[s%s]' % (A.hx('-x'), A.hx('-y'))),
                   (['--', '-a', '-b', '-c'], 'b0=0;s0=s-;vi0=[];vs0=[s%s,s%s,s%s]' % (A.hx('-a'), A.hx('-b'), A.hx('-c')))):
        cases.append('H:f=0 arg:o:vi0:multi arg:f:b0:init=0 arg:n:s0: arg:-:vs0: %s exp:%s' % (A.argv_tok(w), exp))
    # a value from an argument file stays overridable on the command line, also when the file names a further file
    # in an earlier line
    cases.append('H:f=0 arg:n:i0: arg:v:b0:init=0 arg:arg-file:af0: xfile:%s:%s xfile:%s:%s %s exp:b0=1;i0=5'
                 % (A.hx('outer.pa'), A.hx('--arg-file inner.pa\n-n 3\n'), A.hx('inner.pa'), A.hx('-v\n'),
                    A.argv_tok(['--arg-file', 'outer.pa', '-n', '5'])))
    cases.append('H:f=0 arg:n:i0: arg:v:b0:init=0 arg:arg-file:af0: xfile:%s:%s xfile:%s:%s %s exp:b0=1;i0=5'
                 % (A.hx('outer.pa'), A.hx('-n 3\n--arg-file inner.pa\n-n 4\n'), A.hx('inner.pa'), A.hx('-v\n-n 9\n'),
                    A.argv_tok(['--arg-file', 'outer.pa', '-n', '5'])))
    guard = 0
    while len(cases) < n and guard < n * 30:
        guard += 1
        args, cons = G.gen_config(rng, rng.range(3, 8))
        uses = G.gen_line(rng, args, cons, maxuses=4)
        if uses is None:
            continue
        used = [u.arg for u in uses]
        for a in args:
            if a not in used and not a.mand and rng.chance(1, 3):
                a.opts.append(rng.choice(['hidden', 'depr', 'nodef']))
        exp = G.expected_store(args, uses)
        et = 'exp:' + ';'.join('%s=%s' % kv for kv in sorted(exp.items()))
        w = G.spell_with_ddash(rng, uses, args, True, stats)
        cases.append(G.case_line(args, cons, w, extra=(et,)))
    return {'cases': cases, 'exhaustive': False,
            'scopes': ['%d cases: random configurations x valid lines x one spelling; productions: %s' % (len(cases), stats)]}


spec_check = _c02.spec_check
nontrivial = _c02.nontrivial


def classify(case, ir, mr):
    toks = case.split(' ')
    if any('req=' in t for t in toks) and ir and ir.startswith('err'):
        return 'required-other-spelling'
    return 'valid-line-rejected'


def histogram_keys(case, mr):
    return [(mr or '?').split(' ')[0]]


CLAIM = {
    'text': 'Coq theorems (Properties_C03.v): completeness on the scalar fragment - a command line whose abstract '
            'content obeys every declared rule (record `valid`: known keys, values that pass checks and convert, '
            'uses within the cardinality, no use after an excluder, every required argument used afterwards, all_of / '
            'any_of / one_of met, mandatory arguments used) is accepted in EVERY legal spelling, whatever else is '
            'defined in the handler (C03_valid_line_accepted, by invariants over the run: provenance of the pending '
            'constraint entries, counters, handler-constraint tracking); acceptance is spelling independent '
            '(corollary of the C01 simulation theorem); per-rule acceptance lemma for one use; the pinned '
            'notification by spelling is proved to reject a valid line (C03_pinned_notify_refuted) and was repaired. '
            'Model tied to the code by correspondence on valid lines in configurations with many unused definitions '
            'and an exhaustive small-scope block for requirements named by short and long key.',
    'note': 'the completeness theorem covers flags, int, string and optional<int> destinations (vectors, level '
            'counters, differ/disjoint and the spellings outside ArgH/Spell.v by the tie only) and assumes that '
            'requires/excludes lists name each argument in one way (specs_canonical; the other case is in the tie). '
            'trusted: Coq kernel, extraction, hand-written model validated by correspondence',
    'technique': 'Coq proof (completeness by run invariants + spelling independence by simulation) + '
                 'model/implementation correspondence on generated valid lines',
    'design_ref': 'DESIGN.md section 5 (C01-C03) and 12.2',
}
