"""C20  Concurrency helpers keep their contract under every schedule (Singleton<T>::instance, ManagedThread).

Proof: Properties_C20.v instantiates the general theorems of coq/Conc/ with the protocol that
translate/tr_conc.py extracts from the C++ source on every run (coq/Conc/ConcGen.v).
Search/tie on the real code (extra_stage): forced schedules (plain build) and a ThreadSanitizer build of
harness/c20_harness.cpp for 2..16 threads."""
import importlib
import json
import os
import re
import sys

sys.path.insert(0, '/verif/lib')
import vf  # noqa

ID = 'C20'
HARNESS = None          # everything on the real code happens in extra_stage (no case-by-case model run)

RULE = ('forced schedules on the real templates: singleton - N threads released together, the object\'s constructor '
        'returns only after all others had time to pass the first check and queue at the mutex; managed thread - '
        'the hook point managed_thread.after_start holds the constructor until the thread function runs, N observers '
        'sample isActive() between "function started" and "function still running", the owner samples after join(); '
        'every configuration also under ThreadSanitizer without any synchronisation added by the harness. '
        'N = 2,3,4,8,16 (quick) / 2..16 (thorough).')
TRUSTED_BASE = [
    'translator translate/tr_conc.py: clang 14 JSON AST of an instantiation of ManagedThread (order of the '
    'CXXCtorInitializers = execution order, type of the flag, statements of the thread lambda); brace-aware text scan '
    'of Singleton<T>::instance() (accesses to the static pointer relative to the lock scope, declared pointer type). '
    'Regenerates coq/Conc/ConcGen.v on every run and refuses what it does not recognise',
    'interleaving semantics Conc/Interleave.v: sequentially consistent memory, atomic actions, a scheduled thread '
    'whose action is not enabled does not move; data race = two enabled conflicting accesses, one of them plain '
    '(Boehm/Adve formulation for SC executions)',
    'models Conc/Singleton.v and Conc/ManagedThread.v (how a protocol record unfolds into thread code); the user '
    'function of the managed thread is represented by its first and last action (STARTED / FINISHED)',
    'g++ 12 ThreadSanitizer (happens-before detector) and the forced-schedule harness harness/c20_harness.cpp; '
    'hook harness/common/verif_hooks.hpp (CELMA_VERIF only)',
]
ASSUMPTIONS = [
    'sequential consistency: the theorems say nothing about reorderings a weaker memory model allows for racy code; '
    'race freedom (proved) is what makes the SC reasoning sound for the repaired protocols (DRF-SC)',
    'the constructor of the singleton object does not itself call instance() of the same singleton; '
    'Singleton<T>::reset() is not called concurrently with the first accesses',
    'observers obtain the ManagedThread object only after its constructor has returned',
]


def translate(repo, coq):
    sys.path.insert(0, '/verif/translate')
    import tr_conc
    importlib.reload(tr_conc)
    return tr_conc.translate(repo, coq)


# ---------------------------------------------------------------------------------------------
# search / tie on the real code

TSAN_ENV = {'TSAN_OPTIONS': 'halt_on_error=0:exitcode=0:report_thread_leaks=0:second_deadlock_stack=0'}


def _kv(line):
    return dict(p.split('=', 1) for p in line.split() if '=' in p)


def _tsan_summary(err):
    n = len(re.findall(r'WARNING: ThreadSanitizer: data race', err))
    if n == 0:
        other = re.findall(r'WARNING: ThreadSanitizer: ([^\n(]+)', err)
        return 0, (other[0].strip() if other else ''), []
    summ = re.findall(r'SUMMARY: ThreadSanitizer: ([^\n]+)', err)
    frames = []
    for m in re.finditer(r'#\d+ ([^\n]*?) (\S*/src/celma/\S+:\d+)', err):
        f = m.group(2).split('/src/')[-1]
        if f not in frames:
            frames.append(f)
    return n, (summ[0] if summ else 'data race'), frames[:4]


def _replay_arg():
    if '--replay' in sys.argv:
        v = sys.argv[sys.argv.index('--replay') + 1]
        if os.path.exists(v):
            try:
                v = json.load(open(v)).get('case')
            except (ValueError, OSError):
                return None
        return v
    return None


# resolved when the plugin is loaded: run_check() clears replays/<ID>/ before extra_stage runs
_REPLAY = _replay_arg()


def _configs(tier):
    ns = [2, 3, 4, 8, 16] if tier == 'quick' else list(range(2, 17))
    fr, tr = (10, 4) if tier == 'quick' else (100, 30)
    out = []
    for mode in ('singleton', 'managed'):
        for n in ns:
            out.append(('plain', mode, n, fr, 'forced'))
            out.append(('tsan', mode, n, tr, 'free'))
            if mode == 'managed':
                # a first query right after the constructor (mostly before the thread function starts)
                out.append(('plain', mode, n, fr * 5, 'early'))
    return out


def _case(cfg):
    return '%s %s n=%d rounds=%d %s' % cfg


def _parse_case(s):
    w = s.split()
    return (w[0], w[1], int(w[2][2:]), int(w[3][7:]), w[4])


def extra_stage(tier, seed, work):
    res = {'violations': [], 'runs': 0, 'tsan_runs': 0, 'forced_runs': 0, 'samples_while_running': 0, 'early_queries_false': 0,
           'hook_present': None, 'configs': []}
    exes = {}
    for build, flags in (('plain', []), ('tsan', ['-fsanitize=thread'])):
        exe, err = vf.build_harness('c20_' + build, ['harness/c20_harness.cpp'], sanitize=False, extra_flags=flags)
        if exe is None:
            res['violations'].append({'label': 'harness-build', 'found_input': False,
                                      'text': 'harness/c20_harness.cpp does not compile against the tree: ' + err[-400:]})
            return res
        exes[build] = exe
    rp = _REPLAY
    cfgs = [_parse_case(rp)] if rp else _configs(tier)
    seen = set()

    def violation(label, cfg, text, observed):
        if label in seen:
            return
        seen.add(label)
        case = _case(cfg)
        res['violations'].append({
            'label': label, 'found_input': True, 'kind': 'forced-schedule' if cfg[0] == 'plain' else 'tsan',
            'text': text, 'case': case, 'observed': observed,
            'replay_cmd': "cd /verif && ./check C20 --replay '%s'" % case,
            'harness_cmd': '%s harness (harness/c20_harness.cpp, %s): %s %d %d %s' % (
                cfg[0], '-fsanitize=thread' if cfg[0] == 'tsan' else '-O1', cfg[1], cfg[2], cfg[3], cfg[4])})

    for cfg in cfgs:
        build, mode, n, rounds, sched = cfg
        rc, out, err = vf.sh([str(exes[build]), mode, str(n), str(rounds), sched],
                             env=TSAN_ENV if build == 'tsan' else None, timeout=300)
        res['runs'] += 1
        res['tsan_runs' if build == 'tsan' else 'forced_runs'] += 1
        line = next((l for l in out.splitlines() if l.startswith('mode=')), '')
        kv = _kv(line)
        if rc != 0 or not kv:
            violation('harness-crash', cfg, 'harness exit code %s: %s' % (rc, (err or out)[-300:]), line)
            continue
        res['configs'].append(line if build == 'plain' else line + ' tsan_races=%d' % _tsan_summary(err)[0])
        if mode == 'singleton':
            if int(kv['rounds_not_one_construction']) or int(kv['rounds_different_objects']) or int(kv['rounds_wrong_object']):
                violation('singleton-not-once', cfg,
                          'Singleton::instance(): %s of %s rounds with %s threads did not end with exactly one '
                          'construction handed to every caller (max constructions in a round: %s)' % (
                              kv['rounds_not_one_construction'], kv['rounds'], n, kv['max_constructions']), line)
        else:
            res['samples_while_running'] += int(kv['samples_while_running'])
            res['early_queries_false'] += int(kv.get('early_false', 0))
            if build == 'plain' and sched != 'early':
                res['hook_present'] = int(kv['hook_seen']) > 0
            if int(kv['inactive_while_running']):
                violation('managed-inactive-while-running', cfg,
                          'ManagedThread::isActive() returned false %s times (of %s samples) while the thread '
                          'function was observed running' % (kv['inactive_while_running'], kv['samples_while_running']), line)
            if int(kv.get('dtor_before_finish', 0)):
                violation('managed-destructor-does-not-join', cfg,
                          'the destructor of a ManagedThread returned in %s rounds before the thread function had '
                          'finished (the thread goes on and writes into the destroyed object)' % kv['dtor_before_finish'], line)
            if int(kv['active_after_join']):
                violation('managed-active-after-join', cfg,
                          'ManagedThread::isActive() returned true after join() in %s rounds' % kv['active_after_join'], line)
        if build == 'tsan':
            nr, summ, frames = _tsan_summary(err)
            if nr:
                violation(mode + '-race', cfg,
                          'ThreadSanitizer: %s (%d report%s; library frames: %s)' % (
                              summ, nr, '' if nr == 1 else 's', ', '.join(frames) or '-'), line)
            elif summ:
                violation(mode + '-tsan-' + summ.replace(' ', '-')[:30], cfg, 'ThreadSanitizer: ' + summ, line)
    if res['hook_present'] is False:
        res['note'] = ('hook point managed_thread.after_start is not in this tree: the managed-thread schedule was '
                       'not forced in the plain build (ThreadSanitizer build and proof obligations still apply)')
    res['configs'] = res['configs'][:8] + (['... %d more' % (len(res['configs']) - 8)] if len(res['configs']) > 8 else [])
    return res


CLAIM = {
    'text': 'Partial. Coq theorems (Properties_C20.v) for every number of threads and every schedule of an '
            'interleaving semantics with sequentially consistent memory: Singleton<T>::instance() constructs exactly '
            'one object and hands it to every caller, ManagedThread::isActive() is true whenever the thread function '
            'has been observed started and not finished and false after the join, and neither protocol reaches a data '
            'race (two enabled conflicting accesses, one non-atomic). The theorems are instantiated with the protocol '
            'that a translator extracts from the C++ source on every run (constructor initialisation order from '
            'clang\'s AST, access sequence of instance()), so re-ordering the initialisers or removing the check under '
            'the lock breaks a proof obligation. What hardware, compiler and allocator do below that model is exhibited '
            'only by forced schedules (hook point, delayed constructor) and a ThreadSanitizer build for 2..16 threads: '
            'that part is search/tie, not proof.',
    'note': 'trusted: Coq kernel, the translator (clang JSON AST + text scan), the SC interleaving semantics and its '
            'race definition, ThreadSanitizer; not covered: weak-memory behaviour of racy variants, Singleton::reset() '
            'concurrent with instance(), re-entrant construction',
    'technique': 'Coq proof by induction over schedules (invariants of an interleaving machine) over a protocol '
                 'extracted from the source; forced-schedule + ThreadSanitizer harness on the real templates',
    'design_ref': 'DESIGN.md section 5, C20; section 6 (hooks)',
}
