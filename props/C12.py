"""C12  Dynamic bitset behaves like a growable reference bit vector."""
import itertools

ID = 'C12'
HARNESS = {'name': 'c12', 'sources': ['harness/c12_harness.cpp'],
           'repo_sources': ['library/container/dynamic_bitset.cpp'], 'sanitize': True}

RULE = ('case = initial bitset A x operand bitset B x script of operations (test, const [], non-const [] read/write, '
        'set, reset, flip (single position and all), resize, assignment, ==, &= |= ^= and & | ^, ~, <<= << >>= >>); '
        'after every operation size, to_string, count, any/none/all, to_ulong and the sequences produced by forward, '
        'reverse and backward (operator--) iteration are compared. Exhaustive part: every bitset up to the scope size x '
        'every single operation with every position / shift distance 0..size+2, every pair of bitsets up to size 4 x '
        'every binary operator; random part: histories of 5..30 operations on sizes up to ~200 with positions '
        'concentrated at size-2..size+2 and at the 63/64/65 word boundary (seeded PRNG). A case is non-trivial when '
        'its script changes the bitset or is refused.')
TRUSTED_BASE = [
    'model Bitset/BsModel.v written by hand from dynamic_bitset.cpp / dynamic_bitset.hpp / '
    'detail/dynamic_bitset_iterator.hpp; tied by the correspondence check (this run) on every observer and on the '
    'iteration sequences after every operation',
    'extraction: ExtrOcamlBasic only; nat, N, Z stay extracted datatypes; ocaml/c12_driver.ml does I/O only',
    'C++ harness harness/c12_harness.cpp (g++ 12 -O1, ASan+UBSan; std::vector<bool> of libstdc++ 12)',
]
ASSUMPTIONS = [
    'positions and sizes stay below 2^52, where the double computation (pos + 1) * 1.5 is exact and equals '
    '(pos+1) + (pos+1)/2, and no size_t addition wraps; allocation does not fail',
    'operator== is only claimed between bitsets of equal size (the property restricts it so)',
]

OPS1 = ['test', 'idx', 'ref', 'reset', 'flip', 'shla', 'shl', 'shra', 'shr']     # one numeric argument
OPS2 = ['put', 'set', 'resize']                                                   # numeric + bool
OPS0 = ['setall', 'resetall', 'flipall', 'not']
OPSB = ['anda', 'ora', 'xora', 'and', 'or', 'xor', 'eq', 'assign']               # use operand B
# whole-object replacement from the operand B: vector<bool> (copy, move), DynamicBitset, std::bitset<N> (assignment
# and construction; N = size of B, instantiated in the harness for BS_SIZES)
OPSA = ['assignmv', 'assigndb', 'ctormv', 'assignbs', 'ctorbs']
BS_SIZES = (0, 1, 2, 3, 4, 5, 6, 7, 8, 9, 10, 16, 63, 64, 65, 100)


def _bits(s):
    return [] if s == '-' else [c == '1' for c in s]


def _str(b):
    return ''.join('1' if x else '0' for x in b) or '-'


def grow_size(pos):
    return (pos + 1) + (pos + 1) // 2


def ref_apply(a, tok, b, grown_size=None):
    """the reference bit vector: (result, new bits).  result '-', '0', '1' or 'E:out_of_range'.
    grown_size: size to grow to when the operation has to grow (None: the rule of the source)"""
    f = tok.split(':')
    op = f[0]
    p = int(f[1]) if len(f) > 1 else 0
    v = len(f) > 2 and f[2] == '1'
    n = len(a)

    def grown():
        if p < n:
            return list(a)
        g = grown_size if grown_size is not None else grow_size(p)
        return list(a) + [False] * (g - n)
    if op in ('test', 'idx'):
        return ('E:out_of_range', a) if p >= n else ('1' if a[p] else '0', a)
    if op == 'ref':
        d = grown()
        return ('1' if d[p] else '0', d)
    if op in ('put', 'set'):
        d = grown(); d[p] = v
        return '-', d
    if op == 'reset':
        d = grown(); d[p] = False
        return '-', d
    if op == 'flip':
        d = grown(); d[p] = not d[p]
        return '-', d
    if op == 'setall':
        return '-', [True] * n
    if op == 'resetall':
        return '-', []
    if op in ('flipall', 'not'):
        return '-', [not x for x in a]
    if op == 'resize':
        return '-', (a[:p] if p <= n else list(a) + [v] * (p - n))
    if op == 'assign' or op in OPSA:
        return '-', list(b)
    if op == 'eq':
        return ('1' if a == b else '0'), a
    if op in ('anda', 'and'):
        return '-', [a[i] and (b[i] if i < len(b) else False) for i in range(n)]
    if op in ('ora', 'or', 'xora', 'xor'):
        m = max(n, len(b))
        aa = list(a) + [False] * (m - n)
        bb = list(b) + [False] * (m - len(b))
        if op in ('ora', 'or'):
            return '-', [x or y for x, y in zip(aa, bb)]
        return '-', [x != y for x, y in zip(aa, bb)]
    if op in ('shla', 'shl'):
        if p == 0 or n == 0:
            return '-', a
        return '-', [False] * p + list(a)
    if op in ('shra', 'shr'):
        if p == 0 or n == 0:
            return '-', a
        return '-', [a[i + p] if i + p < n else False for i in range(n)]
    raise ValueError('bad op ' + tok)


GROWING = ('ref', 'put', 'set', 'reset', 'flip')


def ref_observers(a):
    n = len(a)
    pos = [i for i in range(n) if a[i]]
    s = ''.join('1' if a[n - 1 - k] else '0' for k in range(n)) or '-'
    ul = 'E:overflow_error' if any(i >= 64 for i in pos) else str(sum(1 << i for i in pos))
    seq = lambda l: '.'.join(map(str, l)) or '-'
    return [str(n), s, str(len(pos)),
            ('1' if pos else '0') + ('0' if pos else '1') + ('1' if len(pos) == n else '0'),
            ul, seq(pos), seq(pos[::-1]), seq(pos[::-1])]


OBS_NAMES = ['size', 'to_string', 'count', 'any/none/all', 'to_ulong', 'forward iteration', 'reverse iteration',
             'backward iteration (operator--)']


def _diagnose(case, ir):
    """(reason, label) when the implementation result violates the property on this case, else None"""
    w = case.split(' ')
    a = _bits(w[0]); b = _bits(w[1])
    ops = [] if w[2] == '-' else w[2].split(',')

    def guard_op(tok, n):
        f = tok.split(':') if tok else ['']
        return f[0] in ('reset', 'flip', 'idx', 'ref', 'put') and int(f[1]) == n
    if ir is None:
        return 'no result from the implementation', 'other'
    if 'CRASH' in ir:
        # which step was running is unknown; an out-of-bounds / null access in a script that
        # addresses position == size is attributed to the guard of reset/flip/operator[]
        lab = 'other'
        if 'heap-buffer-overflow' in ir or 'null' in ir or 'SEGV' in ir:
            cur = list(a)
            for tok in ops:
                if guard_op(tok, len(cur)):
                    lab = 'grow-guard-pos-eq-size'
                    break
                _, cur = ref_apply(cur, tok, b)
        return 'memory error / abort in the implementation: ' + ir, lab
    blocks = ir.split(' ## ')[0].replace(' ##', '').split(' ')
    if len(blocks) != len(ops) + 1:
        return 'number of result blocks differs from number of operations + 1', 'other'
    cur = list(a)
    prev = None
    for k, blk in enumerate(blocks):
        f = blk.split(';')
        if len(f) != 9:
            return 'malformed result block ' + blk, 'other'
        tok = ops[k - 1] if k > 0 else ''
        nbefore = len(cur)
        if k > 0:
            op = tok.split(':')[0]
            p = int(tok.split(':')[1]) if ':' in tok else 0
            gs = None
            if op in GROWING and p >= nbefore:
                # the property asks for growth beyond pos; the amount is the implementation's business
                try:
                    gs = int(f[1])
                except ValueError:
                    return 'malformed size', 'other'
                if gs <= p:
                    return ('%s at position %d >= size %d did not grow the bitset (size afterwards %d)'
                            % (op, p, nbefore, gs)), ('grow-guard-pos-eq-size' if p == nbefore else 'other')
            exp_r, cur = ref_apply(cur, tok, b, gs)
            if op == 'eq' and len(cur) != len(b):
                exp_r = f[0]          # not claimed for different sizes
            if f[0] != exp_r:
                return ('%s: result %s, reference %s' % (tok, f[0], exp_r)), \
                    ('grow-guard-pos-eq-size' if op == 'idx' and p == nbefore and exp_r.startswith('E:') else 'other')
        exp = ref_observers(cur)
        for name, got, want in zip(OBS_NAMES, f[1:], exp):
            if got != want:
                lab = 'other'
                if len(cur) == 0 and 'iteration' in name and got.startswith('E:out_of_range'):
                    lab = 'iterate-empty'
                elif (k > 0 and tok.startswith('shra:') and int(tok.split(':')[1]) > nbefore
                      and name == 'to_string' and prev is not None and got == prev[2]):
                    lab = 'shr-assign-beyond-size'
                return ('after %s: %s is %s, reference bit vector %s has %s'
                        % (tok or 'construction', name, got, _str(cur), want)), lab
        prev = f
    return None


def spec_check(case, ir, mr):
    d = _diagnose(case, ir)
    return d[0] if d else None


def classify(case, ir, mr):
    d = _diagnose(case, ir)
    return d[1] if d else 'other'


def nontrivial(case, mr):
    blocks = mr.split(' ##')[0].split(' ')
    if len(blocks) < 2:
        return blocks[0].split(';')[1] != '0' if blocks and ';' in blocks[0] else False
    first = blocks[0].split(';')[1:3]
    return any(b.startswith('E:') or b.split(';')[1:3] != first for b in blocks[1:])


def histogram_keys(case, mr):
    w = case.split(' ')
    n = 0 if w[0] == '-' else len(w[0])
    keys = ['size %s' % (n if n <= 6 else '7-61' if n < 62 else '62-66' if n <= 66 else '67-125' if n < 126 else '126+')]
    for tok in ([] if w[2] == '-' else w[2].split(',')):
        keys.append('op ' + tok.split(':')[0])
    if mr and 'E:' in mr:
        keys.append('refusal')
    return keys


def shrink(case):
    w = case.split(' ')
    ops = [] if w[2] == '-' else w[2].split(',')
    for i in range(len(ops) - 1, -1, -1):
        rest = ops[:i] + ops[i + 1:]
        yield ' '.join([w[0], w[1], ','.join(rest) or '-'])
    # shorter bitsets; A is never shrunk to the empty bitset (that one fails for its own reason
    # on a tree without fixes/C12-1 and would replace the failure being shrunk)
    if len(w[0]) > 1:
        yield ' '.join([w[0][:-1], w[1], w[2]])
    if w[1] != '-':
        yield ' '.join([w[0], w[1][:-1] or '-', w[2]])


# --------------------------------------------------------------------------

CORPUS = [
    # witnesses of the defects of the pinned tree (fixes/C12-1..3)
    '- - -',                               # range-for / rbegin() on an empty bitset threw out_of_range
    '101 - resetall',
    '1111 - shra:6',                       # >>= beyond the size left the bits, >> gives zeros
    '1111 - shr:6',
    '0' * 64 + ' - reset:64',              # pos == size: heap overflow, no growth
    '1' * 64 + ' - flip:64',
    '1' * 64 + ' - idx:64',
    '1' * 64 + ' - ref:64',
    '0' * 64 + ' - put:64:1',
    '111 - reset:3', '111 - flip:3', '111 - idx:3', '111 - ref:3', '111 - put:3:1',
    '- - reset:0', '- - flip:0', '- - put:0:1', '- - ref:0', '- - idx:0',
    # to_ulong boundary
    '0' * 63 + '1 - -', '0' * 64 + '1 - -', '1' * 64 + ' - shla:1',
    # growth rule
    '- - set:0:1,set:1:1,set:3:1,set:7:1', '10101 - put:20:1,flipall,shra:3,shla:70',
]


def _single_ops(n, lim):
    ops = []
    for p in range(0, n + 3):
        for o in OPS1:
            ops.append('%s:%d' % (o, p))
        for o in OPS2:
            ops.append('%s:%d:0' % (o, p))
            ops.append('%s:%d:1' % (o, p))
    return ops + OPS0


def _all_bitsets(maxn):
    for n in range(0, maxn + 1):
        for t in itertools.product('01', repeat=n):
            yield ''.join(t) or '-'


def gen_cases(tier, rng):
    cases = list(CORPUS)
    maxn = 5 if tier == 'quick' else 6
    for a in _all_bitsets(maxn):
        n = 0 if a == '-' else len(a)
        cases.append('%s - -' % a)
        for o in _single_ops(n, n + 2):
            cases.append('%s - %s' % (a, o))
    for a in _all_bitsets(4):
        for b in _all_bitsets(4):
            for o in OPSB:
                cases.append('%s %s %s' % (a, b, o))
    # whole-object replacement after the bitset held something else: every pair of small bitsets, and operands of
    # the sizes around the word boundary on top of longer / shorter / equally long content
    for a in _all_bitsets(4):
        for b in _all_bitsets(4):
            for o in OPSA:
                cases.append('%s %s %s' % (a, b, o))
                cases.append('%s %s setall,%s,flip:1' % (a, b, o))
    for nb in (16, 63, 64, 65, 100):
        for na in (0, 3, nb - 1, nb, nb + 1, 130):
            for fill in ('1', '10'):
                a = (fill * (na + 1))[:na] or '-'
                for bpat in ('0', '01', '1'):
                    b = (bpat * (nb + 1))[:nb]
                    for o in OPSA:
                        cases.append('%s %s %s' % (a, b, o))
    if tier != 'quick':
        for a in _all_bitsets(2):
            n = 0 if a == '-' else len(a)
            ops = _single_ops(n, n + 1)
            for o1 in ops:
                for o2 in ops:
                    cases.append('%s 101 %s,%s' % (a, o1, o2))
    # random histories
    nrand = 400 if tier == 'quick' else 4000
    sizes = [0, 1, 2, 3, 7, 8, 9, 31, 32, 33, 62, 63, 64, 65, 66, 100, 126, 127, 128, 129, 130, 190, 191, 192, 193, 200]
    for _ in range(nrand):
        n = rng.choice(sizes)
        dens = rng.below(4)
        a = [(rng.below(4) < dens) if dens else False for _ in range(n)]
        if rng.chance(1, 8):
            a = [True] * n
        nb = rng.choice(sizes) if rng.chance(1, 3) else max(0, n + rng.range(-2, 2))
        b = [rng.chance(1, 2) for _ in range(nb)]
        cur = list(a)
        ops = []
        for _ in range(rng.range(5, 30)):
            m = len(cur)

            def pos():
                r = rng.below(10)
                if m > 350:
                    return rng.below(m)
                if r < 4:
                    return max(0, m + rng.range(-2, 2))
                if r < 6:
                    return rng.choice([62, 63, 64, 65, 127, 128, 129])
                if r < 9:
                    return rng.below(m + 1)
                return m + rng.range(3, 40)
            k = rng.below(100)
            if k < 40:
                o = rng.choice(OPS1[:5])
                tok = '%s:%d' % (o, pos())
            elif k < 55:
                o = rng.choice(OPS1[5:])
                r = rng.below(6)
                d = (rng.below(4) if r < 2 else max(0, m + rng.range(-2, 3)) if r < 4 else
                     rng.choice([1, 63, 64, 65]) if r == 4 else rng.below(m + 2))
                if m > 350 and o in ('shla', 'shl'):
                    d = rng.below(3)
                tok = '%s:%d' % (o, d)
            elif k < 70:
                o = rng.choice(OPS2)
                p = pos()
                if o == 'resize':
                    p = min(p, 400)
                tok = '%s:%d:%d' % (o, p, rng.below(2))
            elif k < 80:
                tok = rng.choice(OPS0) if not rng.chance(1, 4) else 'flipall'
            else:
                tok = rng.choice(OPSB)
                if rng.chance(1, 4):
                    tok = rng.choice(OPSA if nb in BS_SIZES else OPSA[:3])
            ops.append(tok)
            _, cur = ref_apply(cur, tok, b)
        cases.append('%s %s %s' % (_str(a), _str(b), ','.join(ops)))
    return {'cases': cases, 'exhaustive': True,
            'scopes': ['exhaustive: all bitsets of size 0..%d x every single operation with positions / shift '
                       'distances 0..size+2 (both bool arguments)' % maxn,
                       'exhaustive: all pairs of bitsets of size 0..4 x {&=,|=,^=,&,|,^,==,=, assignment and construction from vector<bool>&&, DynamicBitset, std::bitset<N>}'] +
                      (['exhaustive: all bitsets of size 0..2 x all sequences of two operations'] if tier != 'quick' else []) +
                      ['random: %d histories of 5..30 operations, sizes %s' % (nrand, sizes)]}


CLAIM = {
    'text': 'Coq theorems (Properties_C12.v) over an executable model of DynamicBitset and its iterators: for every '
            'bitset and every history of operations (test, both operator[], set/reset/flip of one or all positions, '
            'resize, assignment, ==, &= |= ^= & | ^ ~, <<= << >>= >>) no access leaves the storage and after every step '
            'size, test, count, any, none, all, to_string, to_ulong, == and forward / reverse / backward iteration '
            'agree with a reference bit vector (size + function position -> bit) on which the same operations were '
            'applied; compound assignment equals the binary operator for every operand and shift distance; iteration '
            'yields exactly the ascending resp. descending set positions, nothing for an empty or all-zero bitset, '
            'terminates within size+1 steps and never tests outside [0,size); operations addressing a position at or '
            'beyond the size grow the bitset, read-only access there throws out_of_range. The model is tied to the code '
            'by a correspondence check (exhaustive for sizes up to 5/6 x every single operation x positions 0..size+2, '
            'all operand pairs up to size 4, random histories around the 64-bit word boundaries; ASan+UBSan build). '
            'Holds on the tree with fixes/C12-1..3; on the pinned tree the three defects are reported with their inputs '
            '(theorems C12_pinned_*_refuted).',
    'note': 'trusted: Coq kernel, extraction (ExtrOcamlBasic), the hand-written model (validated by correspondence on '
            'every run), harness; assumptions: positions/sizes below 2^52 (exact double growth computation, no size_t '
            'wrap), no allocation failure. Not modelled: move '
            'construction, to_string with other characters, operator-- of the reverse iterator (modelled, not proved '
            'about, not exercised); const and post-increment iterator variants are compared with the pre-increment ones '
            'inside the harness only.',
    'technique': 'Coq proof: loop invariants for the index loops, refinement of a functional reference bit vector by '
                 'induction over operation histories, iterator state machine = sorted positions; '
                 'model/implementation correspondence, exhaustive small scopes + seeded random histories',
    'design_ref': 'DESIGN.md section 5, C12; section 8 rows 11-13',
}
