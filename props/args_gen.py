"""Generators for the argument-handler properties: configurations, abstract command lines,
legal spellings, rule-breaking mutations.  Every random choice comes from the rng passed in."""
import os
import sys
sys.path.insert(0, os.path.dirname(__file__))
from args_common import hx, argv_tok  # noqa

SHORTS = 'abcdefgkmnpqrtuvwxyz'
LONGS = ['input', 'input-file', 'inp', 'output', 'out', 'verbose', 'level', 'list', 'left', 'right', 'name',
         'number', 'num', 'include', 'index', 'mode']
KINDS = ['b', 'i', 's', 'oi', 'vi', 'vs', 'lc']
WORDCH = 'abcXYZ019'


class Arg:
    def __init__(self):
        self.short = None
        self.long = None
        self.kind = 'b'
        self.slot = ''
        self.opts = []
        self.mand = False
        self.multi = False
        self.sep = ','
        self.card = None        # ('max',n) ('exact',n) ('range',a,b) or None = default
        self.checks = []        # ('lower',x) ...
        self.fmt = None
        self.excl = []          # list of Arg
        self.req = []
        self.clear = self.sort = self.uniq = self.uniq_err = False
        self.init = None
        self.display = []      # display options (hidden, nodef): no influence on the evaluation
        self.mix = False
        self.positional = False

    def keyspec(self, rng=None):
        if self.positional:
            return '-'
        if self.short and self.long:
            return '%s,%s' % (self.short, self.long)
        return self.short or self.long

    def ref(self, by, tag):
        """how argument [by] names this argument in a requires/excludes list: the short or the long key, fixed
        per (referring argument, referred argument) so that a case line is reproducible - two different arguments
        may name the same argument differently"""
        if self.short and self.long:
            return self.short if (sum(map(ord, by.slot + self.slot + tag)) % 2 == 0) else self.long
        return self.short or self.long

    def is_value(self):
        return self.kind != 'b'

    def is_vec(self):
        return self.kind in ('vi', 'vs')

    def token(self, rng=None):
        o = list(self.opts)
        if self.mand:
            o.append('man')
        if self.multi:
            o.append('multi')
        if self.sep != ',':
            o.append('sep=%02x' % ord(self.sep))
        if self.clear:
            o.append('clear')
        if self.sort:
            o.append('sort')
        if self.uniq:
            o.append('uniq!' if self.uniq_err else 'uniq')
        if self.card:
            o.append('card=' + '~'.join(str(x) for x in self.card))
        for c in self.checks:
            o.append('chk=' + '~'.join(str(x) for x in c))
        if self.fmt:
            o.append('fmt=' + self.fmt)
        if self.excl:
            o.append('excl=' + ';'.join(a.ref(self, 'x') for a in self.excl))
        if self.req:
            o.append('req=' + ';'.join(a.ref(self, 'r') for a in self.req))
        if self.init is not None:
            o.append('init=' + self.init)
        if self.mix:
            o.append('mix')
        o += self.display
        return 'arg:%s:%s:%s' % (self.keyspec(), self.slot, '/'.join(o))


def gen_config(rng, nargs, kinds=KINDS, features=True, prefix_family=True, positional=True):
    """a well-formed configuration: list of Arg + list of handler constraints (type, [Arg])"""
    shorts = list(SHORTS)
    rng.shuffle(shorts)
    longs = list(LONGS if prefix_family else [l for l in LONGS if l not in ('inp', 'out', 'num', 'input-file')])
    rng.shuffle(longs)
    count = {}
    args = []
    for _ in range(nargs):
        a = Arg()
        a.kind = rng.choice(kinds)
        n = count.get(a.kind, 0)
        if n >= 4:
            a.kind = 'b' if count.get('b', 0) < 4 else 'i'
            n = count.get(a.kind, 0)
            if n >= 4:
                continue
        count[a.kind] = n + 1
        a.slot = '%s%d' % (a.kind, n)
        form = rng.below(3)
        if form != 1:
            a.short = shorts.pop()
        if form != 0:
            a.long = longs.pop()
        # how other arguments refer to this one in requires/excludes
        a.refspec = a.short if (a.short and (not a.long or rng.chance(1, 2))) else a.long
        if a.kind == 'b':
            a.init = '0'
        # scalar destinations that hold a value before the evaluation (untouched defaults, pre-set optional)
        if features and a.kind in ('i', 'oi') and rng.chance(1, 3):
            a.init = str(rng.range(-9, 99))
        if features and a.kind == 's' and rng.chance(1, 3):
            a.init = hx(rng.choice(['dflt', 'k', 'X0']))
        # display options: hiding an argument / not printing its default changes the usage only
        if features and rng.chance(1, 5):
            a.display.append('hidden')
        if features and a.kind not in ('b', 'lc') and rng.chance(1, 8):
            a.display.append('nodef')
        if a.kind == 'lc' and features:
            a.mix = rng.chance(1, 4)
            if rng.chance(1, 3):
                a.checks.append(rng.choice([('upper', rng.range(3, 9)), ('lower', rng.range(-3, 1)), ('range', rng.range(-2, 1), rng.range(4, 9))]))
        if features:
            if a.kind in ('i', 'oi', 'vi') and rng.chance(1, 3):  # (level counters get their checks above)
                lo = rng.range(-5, 20)
                which = rng.below(3)
                if which == 0:
                    a.checks.append(('lower', lo))
                elif which == 1:
                    a.checks.append(('upper', lo + 10))
                else:
                    a.checks.append(('range', lo, lo + rng.range(1, 12)))
            if a.kind in ('s', 'vs') and rng.chance(1, 3):
                which = rng.below(3)
                if which == 0:
                    # a list of allowed values, compared exactly or without regard to case
                    a.checks.append((rng.choice(['values', 'ivalues']), 'abc', 'X0', 'b'))
                elif which == 1:
                    a.checks.append(('minlen', rng.range(1, 3)))
                else:
                    a.checks.append(('maxlen', rng.range(2, 4)))
            if a.kind in ('s', 'vs') and rng.chance(1, 5) and not any(c[0] in ('values', 'ivalues') for c in a.checks):
                a.fmt = rng.choice(['upper', 'lower'])
            if a.kind != 'b' and rng.chance(1, 6):
                a.mand = True
            if a.is_vec():
                a.multi = rng.chance(1, 3)
                if rng.chance(1, 4):
                    a.sep = rng.choice([';', ':', '.'])
                a.sort = rng.chance(1, 5)
                a.uniq = rng.chance(1, 5)
                a.uniq_err = a.uniq and rng.chance(1, 3)
                a.clear = rng.chance(1, 6)
                if rng.chance(1, 4):
                    a.init = '~'.join(['7', '3'] if a.kind == 'vi' else [hx('k'), hx('d')])
                if rng.chance(1, 4):
                    a.card = rng.choice([('max', 2), ('max', 3), ('exact', 2), ('range', 1, 3), ('range', 2, 4)])
            elif a.kind != 'b' and rng.chance(1, 8):
                a.card = ('max', 2)
        args.append(a)
    # a positional argument (key "-"): free words that belong to no multi-value argument
    if positional and rng.chance(1, 3):
        kd = rng.choice(['s', 'i'])
        n = count.get(kd, 0)
        if n < 4:
            a = Arg()
            a.kind = kd
            a.slot = '%s%d' % (kd, n)
            count[kd] = n + 1
            a.positional = True
            a.refspec = None
            args.insert(rng.below(len(args) + 1), a)
    cons = []
    if features and len(args) >= 2:
        for a in args:
            if rng.chance(1, 6):
                others = [x for x in args if x is not a and not x.positional]
                if others and not a.positional:
                    o = rng.choice(others)
                    (a.excl if rng.chance(1, 2) else a.req).append(o)
        if rng.chance(1, 4):
            sel = [x for x in args if not x.positional]
            if len(sel) >= 2:
                k = rng.range(2, min(3, len(sel)))
                rng.shuffle(sel)
                cons.append((rng.choice(['all_of', 'any_of', 'one_of']), sel[:k]))
        # value constraints: differ over scalars of one type, disjoint over two vectors of one type
        for kd in ('i', 's'):
            grp = [a for a in args if a.kind == kd and not a.positional]
            if len(grp) >= 2 and rng.chance(1, 3):
                rng.shuffle(grp)
                cons.append(('differ', grp[:rng.range(2, min(3, len(grp)))]))
        for kd in ('vi', 'vs'):
            grp = [a for a in args if a.kind == kd]
            if len(grp) >= 2 and rng.chance(1, 2):
                rng.shuffle(grp)
                cons.append(('disjoint', grp[:2]))
    return args, cons


def con_token(c):
    return 'con:%s:%s' % (c[0], ';'.join(a.refspec for a in c[1]))


def gen_value(rng, a, valid=True):
    """one element value (text) for argument a that passes its checks (valid) or is arbitrary"""
    if a.kind in ('i', 'oi', 'vi'):
        lo, hi = -50, 50
        for c in a.checks:
            if c[0] == 'lower':
                lo = max(lo, c[1])
            elif c[0] == 'upper':
                hi = min(hi, c[1] - 1)
            elif c[0] == 'range':
                lo, hi = max(lo, c[1]), min(hi, c[2] - 1)
        if not valid:
            bad = ['x', '', '1x', '99999999999', '-', '+', '1 2']
            if any(c[0] in ('lower', 'range') for c in a.checks):
                bad.append(str(lo - 1))
            if any(c[0] in ('upper', 'range') for c in a.checks):
                bad.append(str(hi + 1))
            return rng.choice(bad)
        if lo > hi:
            return str(lo)
        pick = rng.below(6)
        v = lo if pick == 0 else hi if pick == 1 else rng.range(lo, hi)
        s = str(v)
        if v >= 0 and rng.chance(1, 10):
            s = '+' + s
        return s
    # strings
    vals = None
    mn, mx = 0, 5
    icase = False
    for c in a.checks:
        if c[0] in ('values', 'ivalues'):
            vals = list(c[1:])
            icase = c[0] == 'ivalues'
        elif c[0] == 'minlen':
            mn = c[1]
        elif c[0] == 'maxlen':
            mx = c[1]
    if not valid:
        if vals:
            # not in the list: unrelated, an allowed value as a proper prefix / suffix, (exact list) other case
            bad = ['zz', vals[0] + 'x', vals[0][:-1] if len(vals[0]) > 1 else 'q', 'y' + vals[-1]]
            if not icase:
                bad.append(vals[0].swapcase())
            return rng.choice(bad)
        if mn > 0:
            return 'a' * (mn - 1)
        if mx < 5:
            return 'a' * (mx + 1)
        return ''
    if vals:
        v = rng.choice(vals)
        if icase and rng.chance(1, 2):
            v = ''.join(ch.upper() if rng.chance(1, 2) else ch.lower() for ch in v)
        return v
    if a.kind == 's' and mn == 0 and rng.chance(1, 8):
        return ''                       # the empty string is a value like any other
    n = rng.range(max(mn, 1), max(mn, 1, mx))
    # scalar strings also carry characters that mean something to the tokenizer ('=', '-', ...)
    alpha = WORDCH + '==-+/#(!' if a.kind == 's' else WORDCH
    v = ''.join(rng.choice(alpha) for _ in range(n))
    if a.kind == 's' and rng.chance(1, 6):
        # blanks are characters like any other: leading, inner, trailing, or nothing but blanks
        where = rng.below(4)
        v = (' ' + v) if where == 0 else (v + rng.choice([' ', '  ', '\t'])) if where == 1 else \
            (v[:1] + ' ' + v[1:]) if where == 2 else ' ' * rng.range(1, 2)
        if len(v) > max(mx, 1) and any(c[0] == 'maxlen' for c in a.checks):
            v = v[:mx]
        if len(v) < mn:
            v = v + 'a' * (mn - len(v))
    return v


class Use:
    def __init__(self, arg, values=None):
        self.arg = arg
        self.values = values or []     # element values (one for scalars, list for vectors)


def gen_line(rng, args, cons, maxuses=6):
    """a valid abstract line: list of Use obeying cardinality, mandatory, checks, constraints (strict sense:
    requiring/excluding arguments come before the arguments they refer to)"""
    uses = []
    order = list(args)
    rng.shuffle(order)
    chosen = [a for a in order if a.mand or rng.chance(1, 2)][:maxuses]
    # handler constraints
    for (t, grp) in cons:
        inl = [a for a in grp if a in chosen]
        if t in ('differ', 'disjoint'):
            continue
        if t == 'all_of':
            for a in grp:
                if a not in chosen:
                    chosen.append(a)
        elif t == 'any_of':
            for a in inl[1:]:
                chosen.remove(a)
        elif t == 'one_of':
            if not inl:
                chosen.append(grp[0])
            for a in inl[1:]:
                chosen.remove(a)
    # requires: add required partners; excludes: drop excluded partners
    changed = True
    guard = 0
    while changed and guard < 10:
        changed = False
        guard += 1
        for a in list(chosen):
            for r in a.req:
                if r not in chosen:
                    chosen.append(r)
                    changed = True
            for e in a.excl:
                if e in chosen and e is not a:
                    chosen.remove(e)
                    changed = True
    # order: a requiring/excluding argument before the ones it refers to
    ordered = []
    pending = list(chosen)
    guard = 0
    while pending and guard < 100:
        guard += 1
        for a in list(pending):
            # a may be placed when no pending argument refers to it
            if not any((a in b.req or a in b.excl) for b in pending if b is not a):
                ordered.append(a)
                pending.remove(a)
                break
        else:
            return None     # cyclic references: no valid order
    if pending:
        return None
    # validity w.r.t. all constraints again (the fix-point may have broken a handler constraint)
    for (t, grp) in cons:
        n = sum(1 for a in grp if a in ordered)
        if (t == 'all_of' and n != len(grp)) or (t == 'any_of' and n > 1) or (t == 'one_of' and n != 1):
            return None
    for a in ordered:
        for e in a.excl:
            if e in ordered:
                return None
        for r in a.req:
            if r not in ordered:
                return None
    if any(m.mand and m not in ordered for m in args):
        return None
    if rng.chance(1, 2):
        # move flags that nobody refers to and that refer to nobody next to each other (flag groups)
        free = [a for a in ordered if not a.is_value() and not a.req and not a.excl
                and not any(a in b.req or a in b.excl for b in ordered)]
        if len(free) >= 2:
            pos = ordered.index(free[0])
            rest_ = [a for a in ordered if a not in free]
            pos = min(pos, len(rest_))
            ordered = rest_[:pos] + free + rest_[pos:]
    # the positional argument takes a bare word: legal at the very beginning or behind an argument that cannot
    # take that word itself (not a multi-value argument, not an optional-value level counter)
    posargs = [a for a in ordered if a.positional]
    if posargs:
        pa = posargs[0]
        ordered.remove(pa)
        slots_ok = [0] + [k + 1 for k, b in enumerate(ordered) if not b.multi and b.kind != 'lc']
        # preferred: behind a flag that follows a multi-value argument (the flag must end the value list)
        pref = [k + 1 for k, b in enumerate(ordered) if b.kind == 'b' and k > 0 and ordered[k - 1].multi]
        ordered.insert(rng.choice(pref) if pref and rng.chance(2, 3) else rng.choice(slots_ok), pa)
    for a in ordered:
        if a.kind == 'lc':
            lo, hi = -50, 50
            for c in a.checks:
                if c[0] == 'lower':
                    lo = max(lo, c[1])
                elif c[0] == 'upper':
                    hi = min(hi, c[1] - 1)
                elif c[0] == 'range':
                    lo, hi = max(lo, c[1]), min(hi, c[2] - 1)
            once = any(a in grp for (t, grp) in cons if t in ('any_of', 'one_of'))
            if lo <= 1 and rng.chance(2, 3):
                kmax = max(1, min(3, hi))
                if a.card:
                    kmax = min(kmax, a.card[1])
                k = 1 if once else rng.range(1, kmax)
                if k > hi:
                    return None
                for _ in range(k):
                    uses.append(Use(a))           # increments
            else:
                if lo > hi:
                    return None
                lo2 = max(lo, -9 if a.long else 0)      # a negative value needs the --key=value form
                if lo2 > min(hi, 9):
                    return None
                uses.append(Use(a, [str(rng.range(lo2, min(hi, 9)))]))
        elif a.positional:
            v = None
            for _ in range(20):
                c = gen_value(rng, a)
                if c and not c.startswith('-') and not c.startswith('+') and c not in ('(', ')', '!'):
                    v = c
                    break
            if v is None:
                return None
            uses.append(Use(a, [v]))
        elif not a.is_value():
            uses.append(Use(a))
        elif a.is_vec():
            lo, hi = 1, 4
            if a.card:
                # every element counts once: the use itself in assignValue, further tokens in assign()
                if a.card[0] == 'max':
                    hi = a.card[1]
                elif a.card[0] == 'exact':
                    lo = hi = a.card[1]
                elif a.card[0] == 'range':
                    lo, hi = a.card[1], a.card[2]
            n = rng.range(lo, hi)
            vals = []
            guard = 0
            while len(vals) < n and guard < 50:
                guard += 1
                v = gen_value(rng, a)
                if a.clear and a.init and rng.chance(1, 3):
                    # a value equal to one of the defaults that clear-before-assign discards: not a duplicate
                    iv = rng.choice(a.init.split('~'))
                    iv = iv if a.kind == 'vi' else bytes.fromhex(iv).decode()
                    if run_checks_py(a, iv):
                        v = iv
                if a.uniq_err and _canon(a, v) in [_canon(a, x) for x in vals] + _init_canon(a):
                    continue
                vals.append(v)
            if len(vals) < n:
                return None
            uses.append(Use(a, vals))
        else:
            uses.append(Use(a, [gen_value(rng, a)]))
    if not value_constraints_ok(args, cons, uses):
        return None
    return uses


def _elems(text):
    inner = text[1:-1]
    return inner.split(',') if inner else []


def value_constraints_ok(args, cons, uses):
    """differ: used arguments of the list hold pairwise different values; disjoint: the final contents (initial
    content included) of the two containers share no element"""
    store = expected_store(args, uses)
    used = {id(u.arg) for u in uses}
    for (t, grp) in cons:
        if t == 'differ':
            vals = [store[a.slot] for a in grp if id(a) in used]
            if len(set(vals)) != len(vals):
                return False
        elif t == 'disjoint':
            e1, e2 = _elems(store[grp[0].slot]), _elems(store[grp[1].slot])
            if e1 and e2 and set(e1) & set(e2):
                return False
    return True


def _canon(a, v):
    if a.kind in ('i', 'oi', 'vi'):
        return int(v)
    if a.fmt == 'upper':
        return v.upper()
    if a.fmt == 'lower':
        return v.lower()
    return v


def _init_canon(a):
    if a.init is None or a.clear:
        return []
    if a.kind == 'vi':
        return [int(x) for x in a.init.split('~')]
    if a.kind == 'vs':
        return [bytes.fromhex(x).decode() for x in a.init.split('~')]
    return []


def abbrevs(a, args):
    """unambiguous proper abbreviations of a's long key (not equal to any long key, length >= 2)"""
    out = []
    if not a.long:
        return out
    longs = [x.long for x in args if x.long]
    for n in range(2, len(a.long)):
        p = a.long[:n]
        if p in longs:
            continue
        if sum(1 for l in longs if l.startswith(p)) == 1:
            out.append(p)
    return out


def spell(rng, uses, args, abbr=True, stats=None):
    """one legal surface spelling (list of argv words) of the abstract line"""
    words = []
    i = 0

    def note(k):
        if stats is not None:
            stats[k] = stats.get(k, 0) + 1
    while i < len(uses):
        u = uses[i]
        a = u.arg
        if a.positional:
            words.append(u.values[0])
            note('positional')
            i += 1
            continue
        if _flaglike(u):
            # a run of flags with short keys may be grouped behind one dash
            run = [u]
            j = i + 1
            while j < len(uses) and _flaglike(uses[j]) and uses[j].arg.short and a.short and rng.chance(3, 4):
                run.append(uses[j])
                j += 1
            can_end = (j < len(uses) and not _flaglike(uses[j]) and uses[j].arg.kind in ('i', 's', 'oi')
                       and bool(uses[j].arg.short) and not uses[j].arg.positional and bool(a.short))
            ends = can_end and rng.chance(1, 2)
            if len(run) > 1 or ends:
                # optionally end the group with a value-taking short key (glued or separate value)
                grp = '-' + ''.join(x.arg.short for x in run)
                if ends:
                    v = uses[j].values[0]
                    if rng.chance(1, 2) and v != '':
                        words.append(grp + uses[j].arg.short + v)
                        note('group+glued')
                    elif not v.startswith('-') and v != '' and v not in ('(', ')', '!'):
                        words += [grp + uses[j].arg.short, v]
                        note('group+sep')
                    else:
                        words.append(grp + uses[j].arg.short + v) if v != '' else words.extend([grp, '--%s=' % uses[j].arg.long] if uses[j].arg.long else [grp + uses[j].arg.short, v])
                        note('group+other')
                    j += 1
                else:
                    words.append(grp)
                    note('group')
                i = j
                continue
            words.append(_key_word(rng, a, args, abbr, note))
            i += 1
            continue
        # value argument
        vals = u.values
        if a.is_vec():
            # split the element list into chunks: first chunk joined by the separator after the key,
            # with multi-value mode further chunks as free words
            if a.multi and len(vals) > 1 and rng.chance(1, 2):
                cut = rng.range(1, len(vals) - 1)
                first, rest = vals[:cut], vals[cut:]
            else:
                first, rest = vals, []
            chunks = []
            while rest:
                k = rng.range(1, len(rest))
                chunks.append(a.sep.join(rest[:k]))
                rest = rest[k:]
            if any(ch.startswith('-') or ch == '' or ch in ('(', ')', '!') for ch in chunks):
                # a free value may not start with a dash: keep the whole list behind the key
                first, chunks = vals, []
            text = a.sep.join(first)
            words += _value_words(rng, a, args, abbr, text, note)
            for ch in chunks:
                words.append(ch)
                note('free-value')
        else:
            words += _value_words(rng, a, args, abbr, vals[0], note)
        i += 1
    return words


def spell_with_ddash(rng, uses, args, abbr=True, stats=None):
    """like spell(); when the line ends with a multi-value argument that has at least two elements, the elements
    after the first may be given as separate words behind "--" (then also with a leading dash)"""
    if uses and uses[-1].arg.is_vec() and uses[-1].arg.multi and len(uses[-1].values) >= 2 and rng.chance(1, 2):
        last = uses[-1]
        head = Use(last.arg, last.values[:1])
        tail = [v for v in last.values[1:]]
        if all(v != '' for v in tail):
            w = spell(rng, uses[:-1] + [head], args, abbr, stats)
            if stats is not None:
                stats['double-dash'] = stats.get('double-dash', 0) + 1
            return w + ['--'] + tail
    return spell(rng, uses, args, abbr, stats)


def _plain(a):
    return not a.positional and a.kind != 'lc'


def _flaglike(u):
    """a use spelled by its key alone: flags, and level counter increments"""
    return (not u.arg.is_value()) or (u.arg.kind == 'lc' and not u.values)


def _key_word(rng, a, args, abbr, note):
    forms = []
    if a.short:
        forms.append('-' + a.short)
    if a.long:
        forms.append('--' + a.long)
        if abbr:
            for p in abbrevs(a, args):
                forms.append('--' + p)
    w = rng.choice(forms)
    note('short' if not w.startswith('--') else ('long' if w[2:] == a.long else 'abbrev'))
    return w


def _value_words(rng, a, args, abbr, text, note):
    forms = []
    # a value that may not stand as a word of its own: leading dash, or exactly one control character
    dash = text.startswith('-') or text in ('(', ')', '!')
    if a.short:
        if not dash and (text != '' or a.kind == 's'):
            forms.append(('short-sep', ['-' + a.short, text]))
        if text != '' and a.kind != 'lc':      # optional value mode: no glued value
            forms.append(('short-glued', ['-' + a.short + text]))
    if a.long:
        names = [a.long] + (abbrevs(a, args) if abbr else [])
        for nme in names:
            tag = 'long' if nme == a.long else 'abbrev'
            if '=' not in nme:
                forms.append((tag + '-eq', ['--%s=%s' % (nme, text)]))
            if not dash and (text != '' or a.kind == 's'):
                forms.append((tag + '-sep', ['--' + nme, text]))
    if not forms:
        # only a short key and an empty or dashed value: empty value as its own word
        forms.append(('short-sep-empty', ['-' + a.short, text]))
    k, w = rng.choice(forms)
    note(k)
    return w


def case_line(args, cons, words, flags=0, extra=()):
    toks = ['H:f=%d' % flags] + [a.token() for a in args] + [con_token(c) for c in cons] + list(extra)
    toks.append(argv_tok(words))
    return ' '.join(toks)


def expected_store(args, uses):
    """the intended destination values (canonical text as printed by harness/driver) - the spec oracle of C01"""
    out = {}
    for a in args:
        if a.kind == 'b':
            out[a.slot] = '0'
        elif a.kind == 'i':
            out[a.slot] = a.init or '0'
        elif a.kind == 's':
            out[a.slot] = 's' + (a.init or '-')
        elif a.kind == 'oi':
            out[a.slot] = a.init or 'none'
        elif a.kind == 'vi':
            out[a.slot] = '[' + ','.join(str(int(x)) for x in (a.init.split('~') if a.init else [])) + ']'
        elif a.kind == 'vs':
            out[a.slot] = '[' + ','.join('s' + x for x in (a.init.split('~') if a.init else [])) + ']'
        elif a.kind == 'lc':
            out[a.slot] = '0'
    for u in uses:
        a = u.arg
        if a.kind == 'lc':
            out[a.slot] = str(int(u.values[0])) if u.values else str(int(out[a.slot]) + 1)
        elif a.kind == 'b':
            out[a.slot] = '1'
        elif a.kind in ('i', 'oi'):
            out[a.slot] = str(int(u.values[0]))
        elif a.kind == 's':
            out[a.slot] = 's' + hx(_canon(a, u.values[0]))
        elif a.is_vec():
            cur = [] if a.clear else list(_init_canon(a))
            for v in u.values:
                c = _canon(a, v)
                if a.uniq and c in cur:
                    continue
                cur.append(c)
            if a.sort:
                cur = sorted(cur) if a.kind == 'vi' else sorted(cur, key=lambda s: s.encode('latin-1'))
            if a.kind == 'vi':
                out[a.slot] = '[' + ','.join(str(x) for x in cur) + ']'
            else:
                out[a.slot] = '[' + ','.join('s' + hx(x) for x in cur) + ']'
    return out


# --------------------------------------------------------------------------
# rule-breaking mutations (C02)

MUTATIONS = ['drop-mandatory', 'duplicate', 'unknown-short', 'unknown-long', 'bad-value', 'boundary-value',
             'missing-value-end', 'missing-value-mid', 'excluded-after', 'required-missing', 'break-handler-constraint',
             'too-many-elements', 'too-few-elements', 'ambiguous-abbrev', 'value-for-flag', 'lone-dash',
             'break-value-constraint', 'break-value-constraint', 'level-mix']


def mutate(rng, kind, args, cons, uses):
    """returns the argv words of a command line that breaks exactly the named rule, or None when the
    mutation does not apply to this configuration / line"""
    uses = [Use(u.arg, list(u.values)) for u in uses]
    spell_ = lambda us: spell(rng, us, args, True)  # noqa
    if kind == 'drop-mandatory':
        cand = [i for i, u in enumerate(uses) if u.arg.mand and not ((u.arg.is_vec() or u.arg.kind == 'oi') and u.arg.init)
                and sum(1 for x in uses if x.arg is u.arg) == 1]
        if not cand:
            return None
        i = rng.choice(cand)
        a = uses[i].arg
        # nobody may then complain first about something else: fine, any exception counts
        del uses[i]
        return spell_(uses)
    if kind == 'duplicate':
        # a scalar with the default cardinality (at most one value) or a flag, given twice
        cand = [i for i, u in enumerate(uses) if ((u.arg.is_value() and not u.arg.is_vec()) or u.arg.kind == 'b')
                and not u.arg.card and _plain(u.arg)]
        if not cand:
            return None
        i = rng.choice(cand)
        again = Use(uses[i].arg, [gen_value(rng, uses[i].arg)] if uses[i].arg.is_value() else [])
        uses.insert(rng.range(i + 1, len(uses)), again)
        return spell_(uses)
    if kind in ('unknown-short', 'unknown-long'):
        w = spell_(uses)
        used_s = {a.short for a in args if a.short}
        if kind == 'unknown-short':
            free = [c for c in 'ABCDEFGHJKL' if c not in used_s]
            word = '-' + rng.choice(free)
        else:
            word = '--' + rng.choice(['zeta', 'quux', 'xylophone'])
        # insert at a word boundary that does not separate a key from its value: only at the very start
        # or the very end
        return [word] + w if rng.chance(1, 2) else w + [word]
    if kind in ('bad-value', 'boundary-value'):
        cand = [i for i, u in enumerate(uses) if u.arg.is_value() and (u.arg.kind in ('i', 'oi', 'vi') or u.arg.checks)
                and _plain(u.arg)]
        if not cand:
            return None
        i = rng.choice(cand)
        a = uses[i].arg
        if kind == 'boundary-value':
            ck = [c for c in a.checks if c[0] in ('lower', 'upper', 'range')]
            if not ck:
                return None
            c = rng.choice(ck)
            bad = str(c[1] - 1) if c[0] == 'lower' else str(c[1]) if c[0] == 'upper' else \
                rng.choice([str(c[1] - 1), str(c[2])])
        else:
            bad = gen_value(rng, a, valid=False)
            if a.kind in ('s', 'vs') and bad == '' and not any(c[0] == 'minlen' for c in a.checks):
                return None
            if a.is_vec() and (bad == '' or ' ' in bad):
                return None
        j = rng.below(len(uses[i].values))
        uses[i].values[j] = bad
        if a.is_vec() and len(uses[i].values) > 1:
            # keep the element list in one word so that the bad element cannot become a word of its own
            a_multi, a.multi = a.multi, False
            w = spell_(uses)
            a.multi = a_multi
            return w
        return spell_(uses)
    if kind == 'missing-value-end':
        cand = [a for a in args if a.is_value() and _plain(a) and a not in [u.arg for u in uses]]
        if not cand:
            return None
        a = rng.choice(cand)
        return spell_(uses) + [('-' + a.short) if a.short else ('--' + a.long)]
    if kind == 'missing-value-mid':
        cand = [a for a in args if a.is_value() and _plain(a) and a not in [u.arg for u in uses]]
        flags = [u for u in uses if not u.arg.is_value()]
        if not cand or not flags:
            return None
        a = rng.choice(cand)
        k = uses.index(rng.choice(flags))
        return spell_(uses[:k]) + [('-' + a.short) if a.short else ('--' + a.long)] + spell_(uses[k:])
    if kind == 'excluded-after':
        pairs = [(a, e) for a in args for e in a.excl]
        if not pairs:
            return None
        a, e = rng.choice(pairs)
        us = [u for u in uses if u.arg is not a and u.arg is not e]
        mk = lambda x: Use(x, [gen_value(rng, x) for _ in range(1)] if (x.is_value() and x.kind != 'lc') else [])  # noqa
        return spell_(us + [mk(a), mk(e)])
    if kind == 'required-missing':
        cand = [i for i, u in enumerate(uses) if any(r in [x.arg for x in uses] for r in u.arg.req)]
        if not cand:
            return None
        i = rng.choice(cand)
        r = rng.choice([r for r in uses[i].arg.req if r in [x.arg for x in uses]])
        if r.mand:
            return None
        # the requirement chain may pull in others; removing r is enough to break the rule of uses[i]
        return spell_([u for u in uses if u.arg is not r])
    if kind == 'level-mix':
        cand = [u for u in uses if u.arg.kind == 'lc' and not u.arg.mix and (u.arg.short or u.arg.long)]
        if not cand:
            return None
        u = rng.choice(cand)
        a = u.arg
        if a.card or any(a in grp for (t, grp) in cons if t in ('any_of', 'one_of')):
            return None
        # an increment and a set value for the same counter without "allow mix"
        extra = Use(a, ['2']) if not u.values else Use(a)
        if run_checks_py(a, '2') is False:
            return None
        k = max(i for i, x in enumerate(uses) if x.arg is a)
        return spell_(uses[:k + 1] + [extra] + uses[k + 1:])
    if kind == 'break-value-constraint':
        vc = [c for c in cons if c[0] in ('differ', 'disjoint')]
        if not vc:
            return None
        t, grp = rng.choice(vc)
        present = {id(u.arg): u for u in uses}
        if t == 'differ':
            # two listed arguments with the same value (a third, unused one may stand before them in the list)
            a, b = rng.choice([(x, y) for x in grp for y in grp if x is not y])
            ua = present.get(id(a))
            if ua is None:
                return None
            v = ua.values[0]
            if run_checks_py(b, v) is False:
                return None
            ub = present.get(id(b))
            if ub is None:
                for e in b.excl + a.excl:
                    if id(e) in present or e is a or e is b:
                        return None
                uses.append(Use(b, [v]))
            else:
                ub.values = [v]
            if _canon(a, v) != _canon(b, v):
                return None
            return spell_(uses)
        a, b = grp
        ua, ub = present.get(id(a)), present.get(id(b))
        if ua is None or ub is None or not ua.values:
            return None
        v = rng.choice(ua.values)
        if run_checks_py(b, v) is False or (b.uniq_err and _canon(b, v) in [_canon(b, x) for x in ub.values]):
            return None
        if _canon(a, v) != _canon(b, v):
            return None
        if b.card:
            return None
        # the common element not in first position: needs the unsorted case of the intersection test
        ub.values = ub.values + [v] if rng.chance(1, 2) else [v] + ub.values
        return spell_(uses)
    if kind == 'break-handler-constraint':
        hc = [c for c in cons if c[0] not in ('differ', 'disjoint')]
        if not hc:
            return None
        t, grp = rng.choice(hc)
        mk = lambda x: Use(x, [gen_value(rng, x)] if (x.is_value() and x.kind != 'lc') else [])  # noqa
        present = [u.arg for u in uses]
        if t == 'all_of':
            inl = [a for a in grp if a in present and not a.mand]
            if not inl:
                return None
            drop = rng.choice(inl)
            return spell_([u for u in uses if u.arg is not drop])
        if t == 'one_of' and rng.chance(1, 2):
            inl = [a for a in grp if a in present and not a.mand]
            if not inl:
                return None
            return spell_([u for u in uses if u.arg not in inl])
        other = [a for a in grp if a not in present]
        inl = [a for a in grp if a in present]
        need = 2 - len(inl)
        if need <= 0 or len(other) < need:
            return None
        rng.shuffle(other)
        return spell_(uses + [mk(x) for x in other[:need]])
    if kind in ('too-many-elements', 'too-few-elements'):
        cand = [i for i, u in enumerate(uses) if u.arg.is_vec() and u.arg.card]
        if not cand:
            return None
        i = rng.choice(cand)
        a = uses[i].arg
        c = a.card
        if kind == 'too-many-elements':
            limit = c[1] if c[0] in ('max', 'exact') else c[2]
            want = limit + 1
        else:
            if c[0] == 'max':
                return None
            want = (c[1] - 1)
            if want < 1:
                return None
        vals = []
        guard = 0
        while len(vals) < want and guard < 60:
            guard += 1
            v = gen_value(rng, a)
            if a.uniq and _canon(a, v) in [_canon(a, x) for x in vals] + _init_canon(a):
                continue
            vals.append(v)
        if len(vals) < want:
            return None
        uses[i].values = vals
        return spell_(uses)
    if kind == 'ambiguous-abbrev':
        longs = [a.long for a in args if a.long]
        for n in range(1, 6):
            for l in longs:
                p = l[:n]
                if len(p) >= 2 and p not in longs and sum(1 for x in longs if x.startswith(p)) >= 2:
                    return spell_(uses) + ['--' + p]
        return None
    if kind == 'value-for-flag':
        fl = [u for u in uses if not u.arg.is_value() and u.arg.long]
        if not fl or any(a.positional for a in args) or any(a.kind == 'lc' for a in args):
            return None
        # a free value with no multi-value argument before it and no positional argument
        if any(a.multi for a in args):
            return None
        return spell_(uses) + ['stray']
    if kind == 'lone-dash':
        return spell_(uses) + ['-']
    return None


def run_checks_py(a, v):
    """does the element text v pass the checks of argument a (python restatement used by generators only)"""
    try:
        for c in a.checks:
            if c[0] == 'lower' and int(v) < c[1]:
                return False
            if c[0] == 'upper' and int(v) >= c[1]:
                return False
            if c[0] == 'range' and not (c[1] <= int(v) < c[2]):
                return False
            if c[0] == 'values' and v not in c[1:]:
                return False
            if c[0] == 'ivalues' and v.lower() not in [x.lower() for x in c[1:]]:
                return False
            if c[0] == 'minlen' and len(v) < c[1]:
                return False
            if c[0] == 'maxlen' and len(v) > c[1]:
                return False
    except ValueError:
        return False
    return True
