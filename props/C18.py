"""C18  The usage lists exactly the visible arguments, each once."""
import itertools
import os
import re
import sys

sys.path.insert(0, os.path.dirname(__file__))
import args_common  # noqa

ID = 'C18'
# own harness (needs the error stream, own check/constraint classes and the digest); the library objects are the
# same translation units with the same flags as the shared argument-handler harness, so the object cache is shared
HARNESS = {'name': 'c18', 'sources': ['harness/c18_harness.cpp'], 'repo_sources': args_common.repo_sources(),
           'sanitize': True}

RULE = ('case = handler flags x usage line length x argument set x evaluated help arguments. Argument sets: 0..9 '
        'arguments, each mandatory/optional, hidden, deprecated/replaced, short-only/long-only/both keys, key texts '
        'of length 38..42 around the same-line threshold, destination kinds int/string/bool/level counter/optional/'
        'vector (default value printed or not, value unit), 0..2 checks and constraints, descriptions of 0..60 '
        'words with "nn" breaks, list lines and explicit newlines. Display settings: every combination of the '
        'constructor flags (usage hidden / usage deprecated) and of the evaluated arguments --print-hidden, '
        '--print-deprecated, --help-short, --help-long before (or after) -h/--help is enumerated for a family of '
        'argument sets; --help-arg for exact, abbreviated, ambiguous, hidden, standard and unknown keys; usage texts '
        '(IUsageText) before / after / unused, one or two, incl. the combinations the constructor refuses; '
        'descriptions whose first / middle / last word is 2 below .. 20 above the width of the description column '
        '(one-line and two-line layout, --help-arg); one level of sub-groups (handlers created with the constructor '
        'that shares the usage settings): every combination of the display settings on the main command line '
        'followed by the usage of the sub-group ("-i -h"), main usage / --help-arg with sub-group arguments. A case is '
        'non-trivial when the model prints at least one entry.')
TRUSTED_BASE = [
    'model Text/Usage.v written by hand from argument_desc.cpp, usage_params.cpp and handler.cpp (handleStartFlags, '
    'usage, helpArgument), rendering through the C17 model Text/TextBlockModel.v, keys and table look-up through the '
    'C05 models ArgH/Key.v and ArgH/Table.v; tied by the correspondence check (this run) on the digest of the text '
    'written to the output and error stream (captions, key texts, words per entry) and - as internal observable - '
    'on the complete raw text',
    'the digest function (Usage.digest) is mirrored by hand in harness/c18_harness.cpp; that it reads the model text as '
    'the spec digest is proved (C18_usage_digest)',
    'extraction: ExtrOcamlBasic only; nat and N stay extracted datatypes; ocaml/c18_driver.ml does I/O only',
    'C++ harness harness/c18_harness.cpp (std::ostringstream as output and error stream, own ICheck / IArgConstraint '
    'classes that only deliver a text, g++ -O1, ASan+UBSan)',
]
ASSUMPTIONS = [
    'the handler is used with "usage continues" (hfUsageCont); without it the usage ends the process',
    'printing the default value is only enabled for destination types that deliver one (defaultValue() overridden); '
    'setPrintDefault(true) on e.g. a boolean flag makes the usage throw and is outside the property',
    'one level of sub-groups only, sub-group handlers constructed with Handler( main, flags) and only their help '
    'flags; no sub-group paths ("a/b") for --help-arg; no argument groups; keys contain no blank',
    'the usage of a sub-group does not mark the usage of the MAIN handler as printed: its final checks (missing '
    'mandatory arguments of the main handler) still run afterwards - mirrored as the code behaves, not part of C18',
    'line length in the range accepted by setUsageLineLength (60..239)',
]

F = {'HelpShort': 1, 'HelpLong': 2, 'HelpArg': 4, 'HelpArgFull': 8, 'NoAbbr': 128, 'UsageHidden': 256,
     'ArgHidden': 512, 'UsageDeprecated': 1024, 'ArgDeprecated': 2048, 'UsageShort': 4096, 'UsageLong': 8192,
     'ListArgVar': 16384, 'UsageCont': 32768, 'EndValues': 65536}


def hx(s):
    return s.encode('latin-1').hex() if s else '-'


def unhx(h):
    return '' if h in ('-', '') else bytes.fromhex(h).decode('latin-1')


# ---------------------------------------------------------------- case <-> structure

def mk_arg(keyspec, kind='i', iv='', letters='', repl='', unit='', chk=(), con=(), desc=''):
    return {'key': keyspec, 'kind': kind, 'iv': iv, 'letters': letters, 'repl': repl, 'unit': unit,
            'chk': list(chk), 'con': list(con), 'desc': desc}


def arg_tok(a):
    return 'a:%s:%s:%s:%s:%s:%s:%s:%s:%s' % (
        a['key'], a['kind'], hx(a['iv']), a['letters'] or '-', hx(a['repl']), hx(a['unit']),
        '~'.join(hx(c) for c in a['chk']) or '-', '~'.join(hx(c) for c in a['con']) or '-', hx(a['desc']))


def mk_case(flags, width, cmds, args, t1=None, t2=None, groups=()):
    """t1 / t2: usage texts (position 'b'|'a'|'u', text) given to the constructor;
    groups: sub-groups (keyspec, flags of the sub-group handler, description, arguments)"""
    txt = ''.join(' %s=%s:%s' % (n, t[0], hx(t[1])) for n, t in (('t1', t1), ('t2', t2)) if t)
    r = 'f=%d w=%d c=%s%s %s' % (flags, width, ','.join(cmds) or '-', txt, ' '.join(arg_tok(a) for a in args))
    for (k, gf, gd, gargs) in groups:
        r += ' g:%s:%d:%s' % (k, gf, hx(gd)) + ''.join(' ' + arg_tok(a) for a in gargs)
    return r


def parse_texts(case):
    t = {}
    for tok in case.split(' '):
        if tok[:3] in ('t1=', 't2='):
            t[tok[:2]] = (tok[3], unhx(tok[5:]))
    return t.get('t1'), t.get('t2')


def parse_groups(case):
    groups = []
    for t in case.split(' '):
        if t.startswith('g:'):
            f = t.split(':')
            groups.append((f[1], int(f[2]), unhx(f[3]), []))
        elif t.startswith('a:') and groups:
            groups[-1][3].append(_parse_arg(t))
    return groups


def parse_parents(case):
    """parent of each sub-group: -1 = main handler (5th field of the g: token)"""
    out = []
    for t in case.split(' '):
        if t.startswith('g:'):
            f = t.split(':')
            out.append(int(f[4]) if len(f) > 4 else -1)
    return out


def path_expectation(case, flags, args, groups, q):
    """--help-arg=<path with slashes> : (expected error outcome or None, want_out, want_err, printed by the main handler);
    None when the oracle does not judge the path (empty components)"""
    parents = parse_parents(case)
    comps = q.split('/')
    if any(c == '' for c in comps):
        return None
    node = -1
    for j, comp in enumerate(comps[:-1]):
        kids = [(i, _std(*split_key(groups[i][0]), groups[i][2])) for i in range(len(groups)) if parents[i] == node]
        abbr = not ((flags if node < 0 else groups[node][1]) & F['NoAbbr'])
        how, d = lookup([k for _, k in kids], abbr, comp)
        if how == 'ambiguous':
            return ('err:runtime_error', [], [], False)
        if how == 'unknown':
            return (None, [], [('C', "*** ERROR: Sub-group argument '%s' is unknown!" % '/'.join(comps[j:]))], node < 0)
        node = [i for i, k in kids if k is d][0]
    nflags = flags if node < 0 else groups[node][1]
    own = (std_args(flags) + [descr(a) for a in args]) if node < 0 else \
        (std_args(nflags & 3) + [descr(a) for a in groups[node][3]])
    kids = [_std(*split_key(groups[i][0]), groups[i][2]) for i in range(len(groups)) if parents[i] == node]
    abbr = not (nflags & F['NoAbbr'])
    last = comps[-1]
    how, d = lookup(own, abbr, last)
    if how == 'unknown':
        how, d = lookup(kids, abbr, last)
    if how == 'ambiguous':
        return ('err:runtime_error', [], [], False)
    if how == 'unknown':
        return (None, [], [('C', "*** ERROR: Argument '%s' is unknown!" % last)], node < 0)
    qs, ql = split_key(last)
    return (None, [('C', "Argument '%s', usage:" % ('-' + qs if qs else '--' + ql)), ('W', _words(d['desc']))], [], node < 0)


def _parse_arg(t):
    f = t.split(':')
    return mk_arg(f[1], f[2], unhx(f[3]), '' if f[4] == '-' else f[4], unhx(f[5]), unhx(f[6]),
                  [unhx(c) for c in f[7].split('~')] if f[7] != '-' else [],
                  [unhx(c) for c in f[8].split('~')] if f[8] != '-' else [], unhx(f[9]))


def parse_case(case):
    """flags, width, commands and the arguments of the MAIN handler"""
    flags, width, cmds, args = 0, 80, [], []
    case = case.split(' g:')[0]
    for t in case.split(' '):
        if t.startswith('f='):
            flags = int(t[2:])
        elif t.startswith('w='):
            width = int(t[2:])
        elif t.startswith('c='):
            cmds = [] if t[2:] in ('-', '') else t[2:].split(',')
        elif t.startswith('a:'):
            f = t.split(':')
            args.append(mk_arg(f[1], f[2], unhx(f[3]), '' if f[4] == '-' else f[4], unhx(f[5]), unhx(f[6]),
                               [unhx(c) for c in f[7].split('~')] if f[7] != '-' else [],
                               [unhx(c) for c in f[8].split('~')] if f[8] != '-' else [], unhx(f[9])))
    return flags, width, cmds, args


# ---------------------------------------------------------------- the property restated (spec oracle)

def _std(short, long_, desc):
    return {'short': short, 'long': long_, 'man': False, 'hid': False, 'dep': False, 'repl': '', 'pd': False,
            'dt': None, 'unit': '', 'chk': [], 'con': [], 'desc': desc, 'kind': 'std'}


def std_args(f):
    r = []
    if f & 1 and f & 2:
        r.append(_std('h', 'help', 'Prints the program usage.'))
    elif f & 1:
        r.append(_std('h', '', 'Prints the program usage.'))
    elif f & 2:
        r.append(_std('', 'help', 'Prints the program usage.'))
    if f & F['HelpArg']:
        r.append(_std('', 'help-arg', 'Prints the usage for the given argument.'))
    if f & F['HelpArgFull']:
        r.append(_std('', 'help-arg-full', 'Prints the usage for the given argument.'))
    if f & F['ArgDeprecated']:
        r.append(_std('', 'print-deprecated', 'Also print deprecated and replaced arguments in the usage.'))
    if f & F['UsageShort']:
        r.append(_std('', 'help-short', 'Only print arguments with their short key in the usage.'))
    if f & F['UsageLong']:
        r.append(_std('', 'help-long', 'Only print arguments with their long key in the usage.'))
    if f & F['ListArgVar']:
        r.append(_std('', 'list-arg-vars', 'Prints the list of arguments and their destination variables.'))
    if f & F['EndValues']:
        r.append(_std('', 'endvalues', 'Marks the end of a multiple, separate value list.'))
    if f & F['ArgHidden']:
        r.append(_std('', 'print-hidden', 'Also print hidden arguments in the usage.'))
    return r


def split_key(spec):
    """(short, long) of a key specification without dashes"""
    parts = [p.lstrip('-') for p in spec.split(',')]
    if len(parts) == 1:
        p = parts[0]
        if spec == '-':
            return '', ''
        return (p, '') if len(p) == 1 and not spec.startswith('--') else ('', p)
    a, b = parts
    return (a, b) if len(a) == 1 else (b, a)


def descr(a):
    """user argument of a case -> what the usage should show for it"""
    short, long_ = split_key(a['key'])
    kind = a['kind']
    pd = kind in 'isl'
    for c in a['letters']:
        if c == 'p':
            pd = True
        elif c == 'n':
            pd = False
    iv = a['iv'] or ('0' if kind in 'il' else '')
    dt = {'i': iv, 's': '"' + iv + '"', 'l': iv}.get(kind)
    return {'short': short, 'long': long_, 'man': 'm' in a['letters'], 'hid': 'h' in a['letters'],
            'dep': 'd' in a['letters'] or bool(a['repl']), 'repl': a['repl'], 'pd': pd, 'dt': dt, 'unit': a['unit'],
            'chk': a['chk'], 'con': a['con'], 'desc': a['desc'], 'kind': kind}


def key_text(cont, d):
    if cont == 'all':
        if d['short']:
            return '-' + d['short'] + (',--' + d['long'] if d['long'] else '')
        return '--' + d['long']
    return '-' + d['short'] if cont == 'short' else '--' + d['long']


def _words(t):
    return [w for w in re.split('[ \n]+', t) if w and w != 'nn']


def entry_words(d):
    t = d['desc']
    if not d['man'] and d['pd']:
        t += '\nDefault value: ' + (d['dt'] or '') + (' [' + d['unit'] + ']' if d['unit'] else '')
    if d['chk']:
        t += '\nCheck: ' + ', '.join(d['chk'])
    if d['con']:
        t += '\nConstraint: ' + ', '.join(d['con'])
    if d['dep']:
        t += "\n[replaced by '" + d['repl'] + "']" if d['repl'] else '\n[deprecated]'
    if d['hid']:
        t += '\n[hidden]'
    return _words(t)


def visible(p, d):
    return ((p['hidden'] or not d['hid']) and (p['depr'] or not d['dep'])
            and (p['cont'] == 'all' or (p['cont'] == 'short' and d['short'] != '')
                 or (p['cont'] == 'long' and d['long'] != '')))


def expected_usage(p, ds):
    items = [('C', 'Usage:')]
    for man, cap in ((True, 'Mandatory arguments:'), (False, 'Optional arguments:')):
        vs = [d for d in ds if d['man'] == man and visible(p, d)]
        if vs:
            items.append(('C', cap))
            items += [('E', key_text(p['cont'], d), entry_words(d)) for d in vs]
    return items


def read_lines(items, text):
    """the layout-insensitive reading (Usage.add_line) of a usage text, continued on [items]"""
    for line in (text + '\n').split('\n'):
        toks = [w for w in line.split(' ') if w]
        if not toks:
            continue
        lead = len(line) - len(line.lstrip(' '))
        if lead == 0:
            items.append(('C', line))
        elif lead == 3:
            items.append(('E', toks[0], toks[1:]))
        elif items and items[-1][0] == 'E':
            items[-1] = ('E', items[-1][1], items[-1][2] + toks)
        else:
            items.append(('E', '', toks))
    return items


def texts_valid(t1, t2):
    if t1 is None:
        return t2 is None
    if t2 is None:
        return True
    return t1[0] != t2[0] and not (t1[0] == 'a' and t2[0] == 'b')


def parse_digest(s):
    items = []
    if s in ('-', ''):
        return items
    for it in s.split(';'):
        if it[0] == 'C':
            items.append(('C', unhx(it[1:])))
        else:
            k, _, ws = it[1:].partition(':')
            items.append(('E', unhx(k), [unhx(w) for w in ws.split(',')] if ws else []))
    return items


def lookup(ds, abbr, q):
    """('exact'|'abbr'|'ambiguous'|'unknown', descriptor)  for the key text q as typed"""
    short, long_ = split_key(q)
    part = []
    for d in ds:
        if short and d['short']:
            if short == d['short']:
                return 'exact', d
            continue
        if long_ and d['long'] and not (short and d['short']):
            if long_ == d['long']:
                return 'exact', d
            if abbr and d['long'].startswith(long_):
                part.append(d)
    if len(part) > 1:
        return 'ambiguous', None
    if part:
        return 'abbr', part[0]
    return 'unknown', None


def _violation(case, ir):
    """(label, reason) when the implementation result violates the property, else None"""
    if ir is None:
        return 'crash', 'no result from the implementation'
    if 'CRASH' in ir:
        return 'crash', 'memory error / abort in the implementation: ' + ir[:200]
    flags, width, cmds, args = parse_case(case)
    # set=<idx>:<value>: the argument was given this value before the other commands - its variable holds it
    for c in cmds:
        if c.startswith('set='):
            i, v = c[4:].split(':')
            if int(i) >= len(args):
                return None        # (a shrunk case whose argument is gone)
            args[int(i)] = dict(args[int(i)], iv=unhx(v))
    cmds = [c for c in cmds if not c.startswith('set=')]
    res = ir.split(' ##')[0].strip()
    t1, t2 = parse_texts(case)
    if not texts_valid(t1, t2):
        return None if res.startswith('setup:invalid_argument') else (
            'usage-texts', 'this combination of usage texts must be refused by the constructor, got ' + res[:60])
    if res.startswith('setup:'):
        return None   # the configuration was refused: nothing was printed
    groups = parse_groups(case)
    main_ds = std_args(flags) + [descr(a) for a in args]
    sub_entries = [_std(*split_key(k), gd) for (k, gf, gd, ga) in groups]
    ds = main_ds + sub_entries          # the description list of the main handler
    p = {'hidden': bool(flags & F['UsageHidden']), 'depr': bool(flags & F['UsageDeprecated']), 'cont': 'all'}
    want_out, want_err, printed, expect_err = [], [], False, None
    for c in cmds:
        if re.match(r's\d+$', c):
            # usage of a sub-group: exactly its visible arguments under the settings in force now; the main
            # handler does not count this as "usage printed"
            k, gf, gd, ga = groups[int(c[1:])]
            want_out += expected_usage(p, std_args(gf & 3) + [descr(a) for a in ga])
            continue
        if c == 'ph':
            p['hidden'] = True
        elif c == 'pd':
            p['depr'] = True
        elif c in ('hs', 'hl'):
            if p['cont'] != 'all':
                expect_err = 'err:runtime_error'    # short-only and long-only exclude each other
                break
            p['cont'] = 'short' if c == 'hs' else 'long'
        elif c in ('h', 'H'):
            if t1 and t1[0] == 'b':
                read_lines(want_out, t1[1])
            want_out += expected_usage(p, ds)
            after = t1 if t1 and t1[0] == 'a' else (t2 if t2 and t2[0] == 'a' else None)
            if after:
                read_lines(want_out, after[1])
            printed = True
        elif c.startswith('ha=') and '/' in unhx(c[3:]):
            pe = path_expectation(case, flags, args, groups, unhx(c[3:]))
            if pe is None:
                return None
            expect_err, po, pe_err, ptop = pe
            if expect_err:
                break
            want_out += po
            want_err += pe_err
            printed = printed or ptop
        elif c.startswith('ha='):
            q = unhx(c[3:])
            how, d = lookup(main_ds, not flags & F['NoAbbr'], q)
            if how == 'unknown':
                how, d = lookup(sub_entries, not flags & F['NoAbbr'], q)   # mArguments first, then mSubGroupArgs
            if how == 'ambiguous':
                expect_err = 'err:runtime_error'
                break
            printed = True
            if how == 'unknown':
                want_err.append(('C', "*** ERROR: Argument '%s' is unknown!" % q))
            else:
                qs, ql = split_key(q)
                want_out.append(('C', "Argument '%s', usage:" % ('-' + qs if qs else '--' + ql)))
                want_out.append(('W', _words(d['desc'])))
    if expect_err is None and not printed and any(d['man'] for d in ds):
        expect_err = 'err'
    # the same object prints its usage again after the evaluation (again=<n>): every printing lists exactly the
    # visible arguments under the settings in force
    m_again = re.search(r' again=(\d+)', case)
    if m_again and expect_err is None:
        for _ in range(int(m_again.group(1))):
            want_out += expected_usage(p, ds)
    if expect_err:
        return None if res.startswith(expect_err) else ('outcome', 'expected %s, got %s' % (expect_err, res[:80]))
    if res.startswith('err:'):
        if any(c in ('h', 'H') for c in cmds):
            lc = [d for d in ds if d['kind'] == 'l' and d['pd'] and not d['man'] and visible(p, d)]
            if lc:
                return 'level-counter-default', ('the usage ends with an exception (%s) instead of listing the '
                                                  'arguments: level counter argument %s' % (res, key_text('all', lc[0])))
            bad = [d for d in ds if d['pd'] and not d['man'] and d['dt'] is None and visible(p, d)]
            if bad:
                return None   # print default forced on a type without default text: outside the property
            return 'usage-throws', 'the usage ends with an exception: ' + res
        return 'outcome', 'unexpected exception ' + res
    m = re.match(r'ok D=(\S+) E=(\S+)$', res)
    if not m:
        return 'crash', 'unparsable result ' + res[:80]
    got_out, got_err = parse_digest(m.group(1)), parse_digest(m.group(2))
    # help-arg output: compare the words that follow the caption, whatever the line structure
    def norm(items):
        out = []
        for it in items:
            if it[0] == 'C':
                out.append(it)
            elif out and out[-1][0] == 'W':
                out[-1] = ('W', out[-1][1] + ([it[1]] if it[1] else []) + it[2])
            else:
                out.append(('W', ([it[1]] if it[1] else []) + it[2]))
        return out
    if any(c.startswith('ha=') for c in cmds):
        got_cmp, want_cmp = norm(got_out), [w for w in norm_want(want_out)]
        if got_cmp != want_cmp:
            lab = 'help-arg'
            for c in cmds:
                if c.startswith('ha='):
                    how, d = lookup(ds, not flags & F['NoAbbr'], unhx(c[3:]))
                    if how == 'abbr':
                        lab = 'help-arg-abbrev'
            return lab, 'help for one argument: expected %r, got %r' % (want_cmp[:4], got_cmp[:4])
    elif got_out != want_out:
        lab, why = _diff_label(want_out, got_out)
        if any(re.match(r's\d+$', c) for c in cmds):
            return 'sub-group-usage', ('usage of a sub-group / of a handler with sub-groups under the settings in force '
                                       '(hidden=%s deprecated=%s contents=%s): ' % (p['hidden'], p['depr'], p['cont'])) + why
        hpos = min([i for i, c in enumerate(cmds) if c in ('h', 'H')] or [len(cmds)])
        if lab == 'entry-missing' and (('ph' in cmds[:hpos] and flags & F['UsageHidden'])
                                       or ('pd' in cmds[:hpos] and flags & F['UsageDeprecated'])):
            return 'display-requested-twice', why + ' (display requested by the constructor flag and by the argument)'
        return lab, why
    if got_err != want_err:
        return 'error-stream', 'error stream: expected %r, got %r' % (want_err[:3], got_err[:3])
    return None


def norm_want(items):
    out = []
    for it in items:
        if it[0] == 'E':
            ws = [it[1]] + it[2]
            if out and out[-1][0] == 'W':
                out[-1] = ('W', out[-1][1] + ws)
            else:
                out.append(('W', ws))
        elif it[0] == 'W':
            if it[1]:
                out.append(it)
        else:
            out.append(it)
    return out


def _diff_label(want, got):
    def sections(items):
        sec, cur = {}, None
        for it in items:
            if it[0] == 'C':
                cur = it[1]
                sec.setdefault(cur, [])
            else:
                sec.setdefault(cur, []).append(it)
        return sec
    ws, gs = sections(want), sections(got)
    wk = [it[1] for s in ws.values() for it in s]
    gk = [it[1] for s in gs.values() for it in s]
    for k in wk:
        if gk.count(k) < wk.count(k):
            return 'entry-missing', 'the usage does not list the visible argument %s (listed: %r)' % (k, gk[:12])
    for k in gk:
        if gk.count(k) > wk.count(k):
            return ('entry-extra', 'the usage lists %s %d time(s), expected %d (hidden / deprecated / without such a '
                    'key, or duplicated)' % (k, gk.count(k), wk.count(k)))
    for cap in ws:
        if [it[1] for it in ws[cap]] != [it[1] for it in gs.get(cap, [])]:
            return 'section', 'under %r: expected the entries %r, got %r' % (
                cap, [it[1] for it in ws[cap]][:10], [it[1] for it in gs.get(cap, [])][:10])
    if [it for it in want if it[0] == 'C'] != [it for it in got if it[0] == 'C']:
        return 'section', 'captions: expected %r, got %r' % ([it[1] for it in want if it[0] == 'C'],
                                                              [it[1] for it in got if it[0] == 'C'])
    for a, b in zip(want, got):
        if a != b:
            return 'words', 'entry %s: expected the words %r, got %r' % (a[1], a[2][:14], b[2][:14])
    return 'words', 'usage differs from the expected one'


def spec_check(case, ir, mr):
    v = _violation(case, ir)
    return v[1] if v else None


def classify(case, ir, mr):
    v = _violation(case, ir)
    return v[0] if v else 'unclassified'


def nontrivial(case, mr):
    return mr.startswith('ok') and ('E2d' in mr.split(' ##')[0])


def histogram_keys(case, mr):
    flags, width, cmds, args = parse_case(case)
    keys = ['args=%d' % min(len(args), 9)]
    if any(c.startswith('ha=') for c in cmds):
        keys.append('help-arg')
    if any(c in ('h', 'H') for c in cmds):
        keys.append('usage:' + '+'.join(sorted(c for c in cmds if c in ('ph', 'pd', 'hs', 'hl'))))
    if mr and mr.startswith('err'):
        keys.append('err')
    t1, t2 = parse_texts(case)
    if t1 or t2:
        keys.append('usage-texts' if texts_valid(t1, t2) else 'usage-texts-refused')
    if ' g:' in case:
        keys.append('sub-group-usage:' + '+'.join(sorted(c for c in cmds if c in ('ph', 'pd', 'hs', 'hl')))
                    if any(re.match(r's\d+$', c) for c in cmds) else 'sub-groups-defined')
    ds = [descr(a) for a in args]
    if any(len(key_text('all', d)) >= 38 for d in ds):
        keys.append('long-key')
    return keys


# ---------------------------------------------------------------- generators

SHORTS = 'abcdfgijkmnoqrstuvwxyzABCDEFGHIJKLMNOPQRSTUVWXYZ0123456789'
STARTS = 'abcdfgijkmnoqrstuvwxyz'
LETTERS = 'abcdefghijklmnopqrstuvwxyz'
FAMILY = ['alpha', 'alphabet', 'alpine', 'al', 'beta', 'bet', 'gamma-ray', 'gamma', 'in', 'input', 'input-file']


def rword(rng, lo=1, hi=10):
    return ''.join(rng.choice(LETTERS) for _ in range(rng.range(lo, hi)))


def rtext(rng, nwords):
    """description: words, "nn" breaks, list lines, explicit newlines"""
    out, line = [], []
    for k in range(nwords):
        r = rng.below(24)
        if r == 0:
            line.append('nn')
        elif r == 1 and line:
            out.append(' '.join(line))
            line = []
        elif r == 2 and line:
            out.append(' '.join(line))
            line = ['-', rword(rng)] if rng.chance(1, 2) else ['-' + rword(rng)]
        elif r == 3:
            line.append(rword(rng, 12, 30))
        elif r == 4 and rng.chance(1, 2):
            # a word around / above the width of the description column (35 next to a 39 character key,
            # 74 in the two-line layout, 77 for --help-arg); first on its line in half of the cases
            w = 'w' * (rng.choice([35, 74, 77, 50, 60]) + rng.choice([-1, 0, 1, 20]))
            if line and rng.chance(1, 2):
                out.append(' '.join(line))
                line = []
            line.append(w)
        else:
            line.append(rword(rng))
    if line:
        out.append(' '.join(line))
    t = '\n'.join(out)
    if rng.chance(1, 12):
        t = t.replace(' ', '  ', 1)
    return t


def rargs(rng, n, long_keys=False, family=False):
    used_s, used_l, args = set(), set(), []
    for _ in range(n):
        form = rng.below(3)   # 0 short only, 1 long only, 2 both
        short = long_ = ''
        if form in (0, 2):
            for _ in range(20):
                short = rng.choice(SHORTS)
                if short not in used_s:
                    break
            else:
                form, short = 1, ''
            used_s.add(short)
        if form in (1, 2):
            for _ in range(20):
                if family and rng.chance(2, 3):
                    long_ = rng.choice(FAMILY)
                elif long_keys and rng.chance(1, 3):
                    # key text length 38..42:  "--" + long  or  "-x,--" + long
                    tl = rng.range(38, 42) - (5 if form == 2 else 2)
                    long_ = rng.choice(STARTS) + 'k' + ''.join(rng.choice(LETTERS + '-') for _ in range(tl - 3)) + 'z'
                else:
                    long_ = rng.choice(STARTS) + rword(rng, 1, 12)
                if long_ not in used_l and len(long_) > 1:
                    break
            else:
                long_ = 'q' + str(len(used_l)) + 'x'
            used_l.add(long_)
        keyspec = short + (',' if short and long_ else '') + long_
        if rng.chance(1, 10):
            keyspec = long_ + ',' + short if short and long_ else keyspec
        kind = rng.choice('iiissblov')
        letters = ''
        man = rng.chance(1, 4) and kind != 'b'     # a boolean flag cannot be made mandatory
        if man:
            letters += 'm'
        if rng.chance(1, 4):
            letters += 'h'
        repl = ''
        if not man and rng.chance(1, 4):
            if rng.chance(1, 2):
                letters += 'd'
            else:
                repl = rng.choice(['--new', '-n', 'other-arg', 'the new one'])
        pd = kind in 'isl'
        if rng.chance(1, 6):
            letters += 'n'
            pd = False
        elif kind in 'isl' and rng.chance(1, 8):
            letters += 'p'
        unit = rng.choice(['ms', 'kB', 'per cent']) if pd and rng.chance(1, 5) else ''
        iv = ''
        if kind in 'il':
            iv = str(rng.range(0, 5000)) if rng.chance(1, 2) else ''
        elif kind == 's':
            iv = rng.choice(['', 'abc', 'two words', '/tmp/x'])
        chk = [rng.choice(['Value >= 5', 'Value < 100', 'Length >= 2', 'is a file', 'x'])
               for _ in range(rng.choice([0, 0, 0, 1, 2]))] if kind != 'b' else []
        con = [rng.choice(['Requires input', 'excludes (s)', 'Requires y']) for _ in range(rng.choice([0, 0, 0, 1, 2]))]
        nw = rng.choice([0, 1, 3, 5, 8, 8, 12, 20, 40, 60])
        args.append(mk_arg(keyspec, kind, iv, letters, repl, unit, chk, con, rtext(rng, nw)))
    return args


def rusage_text(rng):
    """usage text: lines in column 0, lines indented like an entry (3) or deeper, empty lines"""
    lines = []
    for _ in range(rng.range(1, 5)):
        ind = rng.choice([0, 0, 0, 1, 3, 5, 8])
        lines.append(' ' * ind + ' '.join(rword(rng) for _ in range(rng.range(0, 6))))
    t = '\n'.join(lines)
    return t + '\n' if rng.chance(1, 4) else t


def rflags(rng):
    f = F['UsageCont'] | rng.choice([1, 2, 3, 3])
    for name in ('HelpArg', 'ArgHidden', 'ArgDeprecated', 'UsageShort', 'UsageLong'):
        if rng.chance(2, 3):
            f |= F[name]
    for name in ('HelpArgFull', 'NoAbbr', 'UsageHidden', 'UsageDeprecated', 'ListArgVar', 'EndValues'):
        if rng.chance(1, 5):
            f |= F[name]
    return f


def help_cmd(rng, f):
    if f & 1 and f & 2:
        return rng.choice(['h', 'H'])
    return 'h' if f & 1 else 'H'


def setting_cmds(f):
    r = []
    if f & F['ArgHidden']:
        r.append('ph')
    if f & F['ArgDeprecated']:
        r.append('pd')
    if f & F['UsageShort']:
        r.append('hs')
    if f & F['UsageLong']:
        r.append('hl')
    return r


ALLSET = (F['UsageCont'] | 3 | F['HelpArg'] | F['ArgHidden'] | F['ArgDeprecated'] | F['UsageShort'] | F['UsageLong'])

CORPUS = [
    # abbreviated key for --help-arg (pinned tree: caption, but no description)
    mk_case(ALLSET, 80, ['ha=' + hx('inp')], [mk_arg('i,input', 'i', '', 'm', desc='the input nn value')]),
    mk_case(ALLSET, 80, ['ha=' + hx('inp')], [mk_arg('input', 's', 'abc', '', desc='the input file')]),
    # display requested by the constructor flag and by the argument (pinned tree: switched off again)
    mk_case(ALLSET | F['UsageHidden'], 80, ['ph', 'h'], [mk_arg('s,secret', 'i', '', 'h', desc='a hidden one')]),
    mk_case(ALLSET | F['UsageDeprecated'], 80, ['pd', 'h'], [mk_arg('o,old', 'i', '', 'd', desc='an old one')]),
    # level counter argument (pinned tree: the usage throws)
    mk_case(ALLSET, 80, ['h'], [mk_arg('v,verbose', 'l', '', '', desc='verbose level'),
                                mk_arg('i', 'i', '7', '', desc='number')]),
    mk_case(ALLSET, 80, ['hs', 'h'], [mk_arg('verbose', 'l', '', '', desc='verbose level')]),
    # everything at once
    mk_case(ALLSET | F['UsageHidden'], 80, ['pd', 'H'], [
        mk_arg('i,input', 'i', '42', 'm', chk=['Value >= 5'], desc='the input nn value'),
        mk_arg('s', 's', 'abc', '', unit='ms', desc='a string'),
        mk_arg('verbose', 'b', '', 'h', desc=''),
        mk_arg('o,old', 'i', '', 'd', chk=['1 <= value < 10', 'x'], desc='old one'),
        mk_arg('n,new', 's', '', 'n', repl='--newer', desc='- first entry nn second\n- other'),
        mk_arg('x', 'v', '', '', con=['Requires input', 'excludes (s)'], desc='a vector'),
        mk_arg('-', 's', '', '', desc='positional')]),
    # usage texts: before + after, after only, indented like an entry, refused combinations
    mk_case(F['UsageCont'] | 1, 80, ['h'], [mk_arg('a', 'i', '', 'm', desc='x')],
            ('b', 'Program to do things.\n   with an indented line'), ('a', 'See also:\n     other things')),
    mk_case(F['UsageCont'] | 1, 80, ['h'], [mk_arg('a', 'i', '', '', desc='x y')], ('a', '      deeper than an entry')),
    mk_case(F['UsageCont'] | 1, 80, ['h'], [mk_arg('a', 'i', '', '', desc='x y')], ('u', 'never shown'), ('a', 'shown')),
    mk_case(F['UsageCont'] | 1, 80, ['h'], [], None, ('a', 'second only')),
    mk_case(F['UsageCont'] | 1, 80, ['h'], [], ('a', 'one'), ('b', 'two')),
    mk_case(F['UsageCont'] | 1, 80, ['h'], [], ('b', 'one'), ('b', 'two')),
    # sub-group usage after a display option on the main command line (seeded: private copy of the settings)
    mk_case(ALLSET, 80, ['ph', 's0'], [mk_arg('t,top', 'i', '', 'n', desc='toplevel')],
            groups=[('i', 3, 'input arguments', [mk_arg('c', 'i', '', 'n', desc='cachearg'),
                                                 mk_arg('s,secret', 'i', '', 'nh', desc='secretarg')])]),
    mk_case(ALLSET, 80, ['hl', 's0', 'pd', 'h'], [mk_arg('t,top', 'i', '', 'n', desc='toplevel')],
            groups=[('i,input', 2, 'input arguments', [mk_arg('c', 'i', '', 'n', desc='cachearg'),
                                                       mk_arg('f,file', 's', '', 'n', desc='filearg'),
                                                       mk_arg('former', 'i', '', 'n', repl='-c', desc='formerarg')])]),
    mk_case(ALLSET, 80, ['s0'], [mk_arg('t,top', 'i', '', 'm', desc='mandatory on top: still checked')],
            groups=[('i', 1, 'input arguments', [mk_arg('c', 'i', '', 'm', desc='cachearg')])]),
    mk_case(ALLSET, 80, ['ha=' + hx('i')], [], groups=[('i,input', 1, 'input arguments nn second line', [])]),
    # no visible argument at all; only mandatory; only optional
    mk_case(F['UsageCont'] | 1, 80, ['h'], []),
    mk_case(F['UsageCont'] | 1 | F['UsageLong'], 80, ['hl', 'h'], [mk_arg('a', 'i', '', 'm', desc='x')]),
    mk_case(F['UsageCont'] | 2, 80, [], [mk_arg('a', 'i', '', 'm', desc='x')]),
    mk_case(F['UsageCont'] | 2, 80, ['H'], [mk_arg('a', 'i', '', 'm', desc='x')]),
    # key of exactly 39 / 40 / 41 characters
    mk_case(F['UsageCont'] | 1, 80, ['h'], [mk_arg('k' * 37, 'i', '', '', desc='thirty-nine'), mk_arg('b', 'i', '', 'm', desc='short')]),
    mk_case(F['UsageCont'] | 1, 80, ['h'], [mk_arg('k' * 38, 'i', '', '', desc='forty'), mk_arg('b', 'i', '', 'm', desc='short')]),
    mk_case(F['UsageCont'] | 1, 80, ['h'], [mk_arg('k' * 39, 'i', '', 'h', desc='forty-one but hidden'), mk_arg('b', 'i', '', 'm', desc='short')]),
    mk_case(F['UsageCont'] | 1 | F['UsageShort'], 80, ['hs', 'h'], [mk_arg('c,' + 'k' * 39, 'i', '', '', desc='long key not shown')]),
    # ambiguous abbreviation, exact match among abbreviations, unknown
    mk_case(ALLSET, 80, ['ha=' + hx('al')], [mk_arg('alpha', 'i', '', '', desc='one'), mk_arg('alpine', 'i', '', '', desc='two')]),
    mk_case(ALLSET, 80, ['ha=' + hx('al')], [mk_arg('alpha', 'i', '', '', desc='one'), mk_arg('al', 'i', '', 'h', desc='two')]),
    mk_case(ALLSET | F['NoAbbr'], 80, ['ha=' + hx('alp')], [mk_arg('alpha', 'i', '', '', desc='one')]),
    mk_case(ALLSET, 80, ['ha=' + hx('zz')], [mk_arg('alpha', 'i', '', '', desc='one')]),
    mk_case(ALLSET, 80, ['ha=' + hx('help-a')], []),
    mk_case(ALLSET, 80, ['ha=' + hx('help')], []),
]


def long_word_cases():
    """descriptions whose first / middle / last word (also the first word after an embedded newline) has a length
    around and above the width of the description column: 80 - indent - 1 characters still fit"""
    cases = []
    f_usage = F['UsageCont'] | 1
    f_harg = F['UsageCont'] | 1 | F['HelpArg']
    layouts = [('one-line', 'k' * 37, 80 - (6 + 39)),     # key text "--" + 37 = 39 characters, same line
               ('one-line-short', 'kk', 80 - (6 + 4)),    # key text "--kk"
               ('two-line', 'k' * 38, 80 - 6),            # key text of 40 characters: description on its own lines
               ('help-arg', 'key', 80 - 3)]
    for name, key, limit in layouts:
        for delta in (-2, -1, 0, 1, 20):
            w = 'w' * (limit + delta)
            for desc in (w + ' aa bb', 'aa ' + w + ' bb', 'aa bb ' + w, 'aa\n' + w + ' bb', w, '- ' + w + ' aa',
                         'aa nn ' + w):
                args = [mk_arg(key, 'i', '', 'n', desc=desc), mk_arg('b', 'i', '', 'mn', desc='short')]
                if name == 'help-arg':
                    cases.append(mk_case(f_harg, 80, ['ha=' + hx(key)], args))
                else:
                    cases.append(mk_case(f_usage, 80, ['h'], args))
    return cases


def family_sets(rng, n):
    """argument sets that cover mandatory x hidden x deprecated x key form"""
    sets = []
    base = []
    k = 0
    for man in (True, False):
        for hid in (False, True):
            for dep in ((False, True) if not man else (False,)):
                for form in (0, 1, 2):
                    short = SHORTS[k]
                    long_ = 'key%d' % k
                    spec = [short, long_, short + ',' + long_][form]
                    base.append(mk_arg(spec, 'i', str(k), ('m' if man else '') + ('h' if hid else '') + ('d' if dep else ''),
                                       desc='argument number %d' % k))
                    k += 1
    sets.append(base)
    for _ in range(n):
        sets.append(rargs(rng, rng.range(1, 7), long_keys=rng.chance(1, 2)))
    return sets


SUBKEYS = ['e,extra', 'l', 'part', 'e', 'left,l', 'p,part']


def rgroups(rng, n):
    ks, groups = [], []
    for _ in range(n):
        for _ in range(10):
            k = rng.choice(SUBKEYS)
            if not any(set(k.split(',')) & set(o.split(',')) for o in ks):
                break
        else:
            break
        ks.append(k)
        groups.append((k, rng.choice([1, 2, 3, 3]), rtext(rng, rng.choice([1, 3, 8])),
                       rargs(rng, rng.choice([0, 1, 2, 3, 5]), long_keys=rng.chance(1, 3))))
    return groups


def subgroup_cases(rng, nsets):
    """the usage of a sub-group after display settings given on the main command line"""
    cases = []
    sets = family_sets(rng, nsets)
    main_args = [mk_arg('t,top', 'i', '', 'n', desc='toplevel'), mk_arg('z', 's', '', 'h', desc='hidden on top')]
    for gargs in sets:
        for uh, ud in itertools.product((0, 1), repeat=2):
            f = ALLSET | (F['UsageHidden'] if uh else 0) | (F['UsageDeprecated'] if ud else 0)
            for ph, pd in itertools.product((0, 1), repeat=2):
                for cont in ([], ['hs'], ['hl']):
                    cmds = (['ph'] if ph else []) + (['pd'] if pd else []) + cont + ['s0']
                    cases.append(mk_case(f, 80, cmds, main_args, groups=[('i,input', 3, 'input arguments', gargs)]))
    return cases


def path_cases():
    """--help-arg with a path through sub-groups of depth 1..3: every prefix, exact and abbreviated keys, unknown
    components at every position, with and without abbreviations in each handler, a mandatory argument in the main
    handler (its final checks run unless the main handler answers itself)"""
    out = []
    for fmain, fg, fd in ((0, 0, 0), (F['NoAbbr'], 0, 0), (0, F['NoAbbr'], 0), (0, 0, F['NoAbbr'])):
        for man in (False, True):
            f = F['UsageCont'] | F['HelpArg'] | fmain
            main = [mk_arg('v,verbose', 'b', desc='be verbose'), mk_arg('n,number', 'i', letters='m' if man else '', desc='a number')]
            groups = [('g,group', fg, 'the group', [mk_arg('i,inner', 'i', desc='inner value'), mk_arg('index', 'i', desc='an index')]),
                      ('d,deep', fd, 'deeper', [mk_arg('x,xray', 'i', desc='x marks the spot')]),
                      ('o,other', 0, 'another group', [mk_arg('x', 'i', desc='the other x')]),
                      ('e,even-deeper', 0, 'third level', [mk_arg('z,zulu', 's', desc='the last one')])]
            parents = [-1, 0, -1, 1]
            for q in ('g/i', 'g/d/x', 'g/d', 'group/deep/xray', 'g/d/y', 'g/q/x', 'q/d/x', 'g/d/x/z', 'g/deep/xr', 'gr/de/xr',
                      'g/in', 'g/ind', 'g/d/e/z', 'g/d/e/zu', 'g/d/e', 'o/x', 'o/d/x', 'g/o/x', 'g/d/e/q', 'g/d/q/z', 'g/v', 'o/h',
                      '/x', 'g/', 'g//x', 'group/i'):
                c = mk_case(f, 80, ['ha=' + hx(q)], main)
                for (k, gf, gd, ga), p in zip(groups, parents):
                    c += ' g:%s:%d:%s%s' % (k, gf, hx(gd), '' if p < 0 else ':%d' % p) + ''.join(' ' + arg_tok(a) for a in ga)
                out.append(c)
    return out


def value_then_help_cases():
    """an argument is given a value, THEN the usage is requested: the entry still has its default-value line (with
    the value the variable holds now), unit, checks and constraints; and the free-value argument (key "-") in the
    complete, the short-only and the long-only usage"""
    out = []
    f = ALLSET
    args = [mk_arg('n,number', 'i', '42', '', unit='ms', chk=['Value >= 5'], desc='a number'),
            mk_arg('name', 's', 'abc', 'p', desc='a name'), mk_arg('l', 'l', '', '', desc='level'),
            mk_arg('q', 'i', '', 'n', desc='quiet number'), mk_arg('-', 's', '', '', desc='the free value')]
    for sets in ([], ['set=0:' + hx('5')], ['set=1:' + hx('xyz')], ['set=0:' + hx('7'), 'set=1:' + hx('two words')],
                 ['set=3:' + hx('9')], ['set=4:' + hx('free')], ['set=2:' + hx('3')]):
        for cont in ([], ['hs'], ['hl']):
            out.append(mk_case(f, 80, sets + cont + ['h'], args))
    return out


def gen_cases(tier, rng):
    cases = list(CORPUS) + long_word_cases() + subgroup_cases(rng, 6 if tier == 'quick' else 30) + path_cases() + value_then_help_cases()
    # every combination of the display settings for a family of argument sets
    nsets = 12 if tier == 'quick' else 60
    for args in family_sets(rng, nsets):
        for uh, ud in itertools.product((0, 1), repeat=2):
            f = ALLSET | (F['UsageHidden'] if uh else 0) | (F['UsageDeprecated'] if ud else 0)
            for ph, pd in itertools.product((0, 1), repeat=2):
                for cont in ([], ['hs'], ['hl'], ['hs', 'hl'], ['hl', 'hs']):
                    cmds = (['ph'] if ph else []) + (['pd'] if pd else []) + cont + ['h']
                    cases.append(mk_case(f, 80, cmds, args))
                    if len(cont) < 2 and (ph + pd + uh + ud + len(cont)) % 2 == 0:
                        # the usage printed again by the same object, once and twice; also without -h before
                        cases.append(mk_case(f, 80, cmds, args) + ' again=%d' % (1 + (ph + ud) % 2))
                        if not any('m' in a['letters'] for a in args):
                            cases.append(mk_case(f, 80, cmds[:-1], args) + ' again=2')
    nrand = 1500 if tier == 'quick' else 15000
    for _ in range(nrand):
        f = rflags(rng)
        args = rargs(rng, rng.choice([0, 1, 2, 3, 4, 5, 6, 9]), long_keys=rng.chance(1, 2), family=rng.chance(1, 4))
        width = 80 if rng.chance(2, 3) else rng.range(60, 239)
        sc = [c for c in setting_cmds(f) if rng.chance(1, 2)]
        rng.shuffle(sc)
        r = rng.below(10)
        if r < 6 or not f & F['HelpArg']:
            cmds = sc + [help_cmd(rng, f)]
            if rng.chance(1, 8) and len(cmds) > 1:
                rng.shuffle(cmds)       # a setting given after the help argument comes too late
            if rng.chance(1, 25):
                cmds = sc               # no usage requested: the final checks run
        else:
            ds = std_args(f) + [descr(a) for a in args]
            keys = [d['short'] for d in ds if d['short']] + [d['long'] for d in ds if d['long']]
            q = rng.choice(keys) if keys and not rng.chance(1, 6) else rword(rng, 1, 4)
            m = rng.below(6)
            if m == 0 and len(q) > 2:
                q = q[:rng.range(1, len(q) - 1)]          # abbreviation (or a short key when one character)
            elif m == 1:
                q = q + 'x'
            cmds = sc + ['ha=' + hx(q)]
        if rng.chance(1, 6):
            # one level of sub-groups: settings, then the usage of a sub-group, perhaps more settings and the
            # usage of the main handler (never -h directly after the sub-group request: it would go to the sub-group)
            groups = rgroups(rng, rng.choice([1, 1, 2]))
            args = [a for a in args if 'm' not in a['letters']] if rng.chance(3, 4) else args
            sc2 = [c for c in setting_cmds(f) if c not in sc and rng.chance(1, 3)]
            r = rng.below(6)
            if r == 0:
                cmds = sc + [help_cmd(rng, f)]                     # main usage lists the sub-group arguments
            elif r == 1 and f & F['HelpArg']:
                cmds = sc + ['ha=' + hx(rng.choice(groups[0][0].split(',')))]
            else:
                cmds = sc + ['s%d' % rng.below(len(groups))] + sc2 + ([help_cmd(rng, f)] if sc2 and rng.chance(1, 2) else [])
            cases.append(mk_case(f, width, cmds, args, groups=groups))
            continue
        t1 = t2 = None
        if any(c in ('h', 'H') for c in cmds) and rng.chance(1, 4):
            t1 = (rng.choice('bbau'), rusage_text(rng))
            if rng.chance(1, 2):
                t2 = (rng.choice('abu'), rusage_text(rng))
            elif rng.chance(1, 12):
                t1, t2 = None, t1           # only the second text: refused
        again = ' again=%d' % rng.range(1, 3) if rng.chance(1, 8) else ''
        cases.append(mk_case(f, width, cmds, args, t1, t2) + again)
    return {'cases': cases, 'exhaustive': True,
            'scopes': ['exhaustive: %d argument sets (one covering mandatory x hidden x deprecated x short/long/both) x '
                       'usage-hidden x usage-deprecated flags x --print-hidden x --print-deprecated x '
                       '{all, short, long, short then long, long then short}' % (nsets + 1),
                       'random: %d cases (flags, 0..9 arguments, key lengths around 40, descriptions of 0..60 words, '
                       'line lengths 60..239, usage texts before / after / unused incl. refused combinations, settings '
                       'before/after the help argument, --help-arg with exact / '
                       'abbreviated / ambiguous / unknown keys)' % nrand,
                       'corpus: %d hand-made cases; %d descriptions whose first / middle / last word is 2 below .. 20 '
                       'above the width of the description column (one-line, two-line layout, --help-arg)'
                       % (len(CORPUS), len(long_word_cases()))]}


def shrink(case):
    flags, width, cmds, args = parse_case(case)
    groups = parse_groups(case)
    if groups:
        for gi, (k, gf, gd, ga) in enumerate(groups):
            for i in range(len(ga)):
                yield mk_case(flags, width, cmds, args, groups=groups[:gi] + [(k, gf, gd, ga[:i] + ga[i + 1:])] + groups[gi + 1:])
        for i in range(len(args)):
            yield mk_case(flags, width, cmds, args[:i] + args[i + 1:], groups=groups)
        for i in range(len(cmds)):
            if len(cmds) > 1:
                yield mk_case(flags, width, cmds[:i] + cmds[i + 1:], args, groups=groups)
        return
    t1, t2 = parse_texts(case)
    if t1 or t2:
        # first try without the texts, then keep them fixed
        yield mk_case(flags, width, cmds, args)
        for i in range(len(args)):
            yield mk_case(flags, width, cmds, args[:i] + args[i + 1:], t1, t2)
        return
    for i in range(len(args)):
        yield mk_case(flags, width, cmds, args[:i] + args[i + 1:])
    for i in range(len(cmds)):
        if len(cmds) > 1:
            yield mk_case(flags, width, cmds[:i] + cmds[i + 1:], args)
    for i, a in enumerate(args):
        ws = a['desc'].split(' ')
        if len(ws) > 1:
            yield mk_case(flags, width, cmds, args[:i] + [dict(a, desc=' '.join(ws[:len(ws) // 2]))] + args[i + 1:])
        for fld in ('chk', 'con'):
            if a[fld]:
                yield mk_case(flags, width, cmds, args[:i] + [dict(a, **{fld: a[fld][1:]})] + args[i + 1:])
        if a['unit']:
            yield mk_case(flags, width, cmds, args[:i] + [dict(a, unit='')] + args[i + 1:])
        if a['repl']:
            yield mk_case(flags, width, cmds, args[:i] + [dict(a, repl='', letters=a['letters'] + 'd')] + args[i + 1:])
    if width != 80:
        yield mk_case(flags, 80, cmds, args)
    for name in ('HelpArgFull', 'ListArgVar', 'EndValues', 'NoAbbr'):
        if flags & F[name]:
            yield mk_case(flags & ~F[name], width, cmds, args)


CLAIM = {
    'text': 'Coq theorems (Properties_C18.v) over an executable model of ArgumentDesc::print/printArguments/doPrint/key, '
            'UsageParams, Handler::handleStartFlags/usage/helpArgument that renders through the C17 text-block model: for '
            'every argument list, every setting of print-hidden / print-deprecated / contents and every line width the '
            'usage is the mandatory section followed by the optional one, each with its caption and one entry per '
            'visible argument of its class in definition order (C18_usage_section, _section_order); for every way of '
            'identifying an argument the number of its entries equals the number of visible arguments identified, and '
            'the listed arguments are a rearrangement of exactly the visible ones (C18_usage_each_visible_once, '
            '_lists_exactly_visible); an entry starts with the key text and its words are the key text plus every word '
            'of the description and of the configured default value / check / constraint / deprecated / hidden lines '
            '(C18_usage_entry_complete, _extras_configured, _key_text_complete); short-only / long-only display lists '
            'exactly arguments with such a key (C18_usage_short_long_only); --help-arg prints the description of the '
            'argument it found or reports the key as unknown (C18_help_arg_known_or_unknown); a requested display is on '
            'afterwards and the usage does not throw (C18_display_requested, _usage_never_throws); the '
            'layout-insensitive digest that harness and driver print, computed from the characters the model writes, '
            'equals the digest computed directly from the visible arguments (C18_usage_digest, _digest_key_good); usage '
            'texts are accepted / refused as handleStartFlags says, written verbatim before / after the usage and do '
            'not disturb its digest (C18_usage_texts); the usage printed for a sub-group is the usage of exactly that '
            'handler\'s arguments under the settings in force at that moment - the display options given on the main '
            'command line included - so it lists the sub-group\'s visible arguments, each once, and reads as their '
            'digest (C18_subgroup_usage, _subgroup_settings_shared); the same object printing its usage again adds exactly '
            'the text of a first printing (C18_usage_printed_again); --help-arg with a path group/.../argument through '
            'sub-groups of any depth is answered by the handler at the end of the path as a plain key is, an unknown '
            'component is reported with the rest of the path, the answer is never silent (C18_help_path_follows_the_groups, '
            '_unknown_group, _answers, _total). The model is tied to '
            'the code by a correspondence check on a layout-insensitive digest of the text written to the output and '
            'error stream (captions, ordered key texts, words per entry) and on the raw text as internal observable.',
    'note': 'three defects of the pinned tree found and repaired (fixes/C18-1..3): --help-arg with an abbreviated key '
            'printed no description; the usage threw for level counter arguments; --print-hidden / --print-deprecated '
            'switched the display off when the constructor flag had switched it on. trusted: Coq kernel, extraction, '
            'the hand-written model (validated by correspondence on every run), the digest function mirrored in the '
            'harness (its agreement with the spec digest is now a Coq theorem, no longer only the Python oracle); '
            'domain: hfUsageCont, one level of sub-groups, no argument groups, print-default only on types that deliver a default value, key '
            'characters neither blank nor newline; not modelled: the "Properties" block of --help-arg-full (needs '
            'variable / type names, value mode, cardinality and format texts in the descriptor), partial output before '
            'an exception',
    'technique': 'Coq proof: counting lemma over the two-pass printer (induction over the argument list with the '
                 'printed-counter as invariant), filter/permutation reasoning, C17 words-preserved for the entries; '
                 'model/implementation correspondence with enumerated display settings',
    'design_ref': 'DESIGN.md section 5, C18',
}
