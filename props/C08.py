"""C08  Evaluating through an argument group equals one handler owning all arguments."""
import os
import sys
sys.path.insert(0, os.path.dirname(__file__))
import args_common as A
import args_gen as G
import C02 as _c02

ID = 'C08'
MODEL_ID = 'ARGS'
HARNESS = A.HARNESS
INTERNAL_COMPARABLE = False   # behind '##' the harness prints exception class / texts, the driver a note: never equal
RULE = ('a case = random configuration (2-6 arguments) distributed over 1..3 member handlers of an argument group '
        '(requires/excludes and handler constraints kept inside one member) + either a valid abstract line (oracle: the '
        'destination values a single handler owning all arguments stores) or a rule-breaking mutation of it (oracle: '
        'rejection), in a random legal spelling; plus definitions of the same key in two members (oracle: refused). '
        'Non-trivial: accepted configuration evaluated through Groups::evalArguments.')
TRUSTED_BASE = _c02.TRUSTED_BASE + ['model ArgH/Groups.v of Groups::evalArguments written by hand; the group singleton is '
                                    'reset between cases by the harness']
ASSUMPTIONS = _c02.ASSUMPTIONS + ['requires/excludes constraints that name an argument of another member handler are '
                                  'not generated: each member has its own constraint container, the property speaks '
                                  'of rules attached inside a member']


def _partition(rng, args, cons):
    k = rng.range(1, 3)
    mem = [[] for _ in range(k)]
    where = {}
    for a in args:
        j = rng.below(k)
        mem[j].append(a)
        where[id(a)] = j
    mem = [m for m in mem if m]
    for j, m in enumerate(mem):
        for a in m:
            where[id(a)] = j
    for a in args:
        a.excl = [e for e in a.excl if where[id(e)] == where[id(a)]]
        a.req = [e for e in a.req if where[id(e)] == where[id(a)]]
    mcons = [[] for _ in mem]
    kept = []
    for c in cons:
        js = {where[id(a)] for a in c[1]}
        if len(js) == 1:
            mcons[js.pop()].append(c)
            kept.append(c)
    return mem, mcons, kept


def _line(mem, mcons, words, extra):
    toks = []
    if sum(len(w) for w in words) % 5 == 0:
        toks.append('GS:f=32768')      # Groups singleton with hfUsageCont: no influence on the evaluation
    for j, m in enumerate(mem):
        toks.append('G:m%d:f=0' % j)
        toks += [a.token() for a in m]
        toks += [G.con_token(c) for c in mcons[j]]
    toks.append(A.argv_tok(words))
    return ' '.join(toks + list(extra))


def gen_cases(tier, rng):
    n = 1200 if tier == 'quick' else 12000
    cases = []
    stats = {}
    # corpus: pinned-tree witnesses
    cases.append('G:a:f=0 arg:l,left:b0:init=0/req=r arg:r,right:b1:init=0 G:b:f=0 arg:x:i0: argv:2d6c,2d78,33 exp:reject mut:group-end-checks')
    cases.append('G:a:f=0 arg:l:b0:init=0 arg:m:b1:init=0 con:one_of:l;m G:b:f=0 arg:x:b2:init=0 argv:2d78 exp:reject mut:group-end-checks')
    cases.append('G:b:f=0 arg:x:b0:init=0 G:a:f=0 arg:l:vi0:multi argv:2d6c,31,2d78,32 exp:reject mut:group-free-value')
    cases.append('G:m0:f=0 arg:-:s0: G:m1:f=0 arg:l:vi0:multi argv:2d6c,31,32 exp:s0=s-;vi0=[1,2] mut:none')
    cases.append('G:a:f=0 arg:l:b0:init=0 G:b:f=0 arg:l,long:b1:init=0 argv:- exp:setup mut:shared-key')
    cases.append('G:a:f=0 arg:a,xray:b0:init=0 G:b:f=0 arg:b,xray:b1:init=0 argv:- exp:setup mut:shared-key')
    cases.append('G:a:f=0 arg:a,xray:b0:init=0 G:b:f=0 arg:a,yankee:b1:init=0 argv:- exp:setup mut:shared-key')
    cases.append('G:m0:f=0 arg:output:b0:init=0 G:m1:f=0 arg:out:b1:init=0 argv:2d2d6f7574 exp:b0=0;b1=1 mut:none')
    # the same key in two members in every definition order (both handlers exist first)
    for o in ('0,1', '1,0'):
        for k0, k1 in (('x', 'x'), ('x,xray', 'x'), ('x', 'x,xray'), ('xray', 'y,xray'), ('x,xray', 'x,yankee'), ('x,xray', 'y,xray')):
            cases.append('G:a:f=0 arg:%s:b0:init=0 G:b:f=0 arg:%s:b1:init=0 argv:- exp:setup mut:shared-key order:%s' % (k0, k1, o))
    # valid lines with interleaved definitions
    cases.append('G:a:f=0 arg:l:b0:init=0 arg:m:i0: G:b:f=0 arg:x:b1:init=0 arg:y:i1: argv:2d6c,2d79,34,2d78 exp:b0=1;b1=1;i0=0;i1=4 mut:none order:1,0,1,0')
    # "--endvalues" (handler flag hfEndValues of one member) ends the value list of a multi-value argument of any
    # member: the next free word is the positional argument's (outside the model: judged by the expected values)
    import itertools
    mems = {'a': 'arg:f:b0:init=0', 'b': 'arg:l,list:vi0:multi', 'c': 'arg:-:s0:'}
    for order in itertools.permutations('abc'):
        for ev in 'abc':
            toks = []
            for m in order:
                toks.append('G:%s:f=%d' % (m, 0x10000 if m == ev else 0))
                toks.append(mems[m])
            for w, exp in ((['-l', '1', '2', '--endvalues', 'x3'], 'b0=0;s0=s%s;vi0=[1,2]' % A.hx('x3')),
                           (['-l', '1', '2', 'x3'], 'reject'),
                           (['-l', '1', '--endvalues', '-f'], 'b0=1;s0=s-;vi0=[1]'),
                           (['-l', '1', '2', '-f', 'x3'], 'b0=1;s0=s%s;vi0=[1,2]' % A.hx('x3'))):
                cases.append(' '.join(toks) + ' ' + A.argv_tok(w) + ' exp:%s mut:%s' % (exp, 'bad-value' if exp == 'reject' else 'none'))
    # a sub-group argument owned by a member handler (outside the model: judged by the expected values)
    for order in (('a', 'b'), ('b', 'a')):
        parts = {'a': 'G:a:f=0 arg:v:b0:init=0', 'b': 'G:b:f=0 arg:n:i0: S:o,output:f=0 arg:f,file:s0: arg:q:b1:init=0'}
        pre = ' '.join(parts[m] for m in order)
        for w, exp in ((['-o', '-f', 'x'], 'b0=0;b1=0;i0=0;s0=s78'), (['-v', '-o', '-q', '-n', '4'], 'b0=1;b1=1;i0=4;s0=s-'),
                       (['--output', '--file=y', '-v'], 'b0=1;b1=0;i0=0;s0=s79'), (['-o', '-x'], 'reject'), (['-f', 'x'], 'reject')):
            cases.append('%s %s exp:%s mut:%s' % (pre, A.argv_tok(w), exp, 'unknown-short' if exp == 'reject' else 'none'))
    # rules on the sub-group argument of a member (mandatory, cardinality) are enforced through the group as in
    # stand-alone evaluation
    for order in (('a', 'b'), ('b', 'a')):
        for rule, lines in (('man', ((['-v'], 'reject'), ([], 'reject'), (['-n', '3'], 'reject'),
                                     (['-o', '-f', 'x'], 'b0=0;i0=0;s0=s78'), (['-v', '--output', '-n', '2'], 'b0=1;i0=2;s0=s-'))),
                            ('card=range~2~3', ((['-o', '-f', 'x'], 'reject'), (['-o', '-v'], 'reject'),
                                                (['-o', '-f', 'x', '-o', '-v'], 'b0=1;i0=0;s0=s78'),
                                                (['-o', '-o', '-o', '-o'], 'reject'), (['-v'], 'b0=1;i0=0;s0=s-'))),
                            ('card=exact~1', ((['-o', '-o'], 'reject'), (['-o', '-n', '5'], 'b0=0;i0=5;s0=s-'),
                                              (['-v'], 'b0=1;i0=0;s0=s-')))):
            parts = {'a': 'G:a:f=0 arg:v:b0:init=0', 'b': 'G:b:f=0 arg:n:i0: S:o,output:f=0:%s arg:f,file:s0:' % rule}
            pre = ' '.join(parts[m] for m in order)
            for w, exp in lines:
                cases.append('%s %s exp:%s mut:%s' % (pre, A.argv_tok(w), exp, 'subgroup-rule' if exp == 'reject' else 'none'))
    # the key of a sub-group argument is a key of the group like any other: taken once
    for k0, k1 in (('g', 'g'), ('g,go', 'g'), ('g', 'g,go'), ('go', 'x,go'), ('g,go', 'g,gone')):
        cases.append('G:a:f=0 arg:%s:b0:init=0 G:b:f=0 arg:x:b1:init=0 S:%s:f=0 arg:q:b2:init=0 argv:- exp:setup mut:shared-key' % (k0, k1))
        cases.append('G:a:f=0 arg:k:b0:init=0 S:%s:f=0 arg:q:b2:init=0 G:b:f=0 arg:%s:b1:init=0 argv:- exp:setup mut:shared-key' % (k0, k1))
        cases.append('G:a:f=0 arg:k:b0:init=0 S:%s:f=0 arg:q:b2:init=0 G:b:f=0 arg:x:b1:init=0 S:%s:f=0 arg:r:b3:init=1 argv:- exp:setup mut:shared-key' % (k0, k1))
        cases.append('G:a:f=0 arg:%s:b0:init=0 G:c:f=0 arg:y:i0: G:b:f=0 arg:x:b1:init=0 S:%s:f=0 arg:q:b2:init=0 argv:- exp:setup mut:shared-key' % (k0, k1))
    # ... and distinct keys are accepted
    cases.append('G:a:f=0 arg:g:b0:init=0 G:b:f=0 arg:x:b1:init=0 S:h:f=0 arg:q:b2:init=0 argv:2d68,2d71,2d67 exp:b0=1;b1=0;b2=1 mut:none')
    # members that are value handlers (Groups::getArgValueHandler): the same key in two members is refused whoever
    # makes the second definition; evaluation as for any member
    for o in ('0,1', '1,0'):
        for t0, t1 in (('GV', 'G'), ('G', 'GV'), ('GV', 'GV')):
            for k0, k1 in (('n', 'n'), ('n,number', 'number'), ('number', 'x,number'), ('-', '-')):
                cases.append('%s:a:f=0 arg:%s:i0: %s:b:f=0 arg:%s:i1: argv:- exp:setup mut:shared-key order:%s' % (t0, k0, t1, k1, o))
    cases.append('GV:a:f=0 arg:n:i0: G:b:f=0 arg:x:b0:init=0 GV:c:f=0 arg:l:vi0:multi argv:2d78,2d6e,34,2d6c,31,32 exp:b0=1;i0=4;vi0=[1,2] mut:none')
    cases.append('GV:a:f=128 arg:number:i0: G:b:f=0 arg:name:s0: argv:2d2d6e756d,34 exp:reject mut:unknown-long')
    cases.append('GV:a:f=0 arg:number:i0: G:b:f=0 arg:x:b0:init=0 argv:2d2d6e756d,34 exp:b0=0;i0=4 mut:none')
    # the same key in two members with the flags of the Groups singleton that are passed on to the members
    for gs in (0x20000, 0x8000, 0x28000):
        for nm in (2, 3):
            for tgt in range(nm):
                for src in range(nm):
                    if src == tgt:
                        continue
                    toks = ['GS:f=%d' % gs]
                    for j in range(nm):
                        toks.append('G:m%d:f=0' % j)
                        toks.append('arg:k%d:b%d:init=0' % (j, j))
                        if j == src:
                            toks.append('arg:x,xray:i0:')
                        if j == tgt:
                            toks.append('arg:x:i1:')
                    order = [j for j in range(nm) for _ in range(2 if j in (src, tgt) else 1)]
                    cases.append(' '.join(toks) + ' argv:- exp:setup mut:shared-key')
                    cases.append(' '.join(toks) + ' argv:- exp:setup mut:shared-key order:' + ','.join(map(str, sorted(order, key=lambda j: (j != src, j)))))
    # the Groups singleton created with "continue after the usage": the end-of-line checks still run
    cases.append('GS:f=32768 G:a:f=0 arg:m:i0:man G:b:f=0 arg:x:b0:init=0 argv:2d78 exp:reject mut:drop-mandatory')
    cases.append('GS:f=32768 G:a:f=0 arg:m:i0:man G:b:f=0 arg:x:b0:init=0 argv:- exp:reject mut:empty-line')
    cases.append('GS:f=32768 G:a:f=0 arg:l:b0:init=0/req=r arg:r:b1:init=0 G:b:f=0 arg:x:i0: argv:2d6c,2d78,33 exp:reject mut:group-end-checks')
    cases.append('GS:f=32768 G:a:f=0 arg:l:b0:init=0 arg:m:b1:init=0 con:all_of:l;m G:b:f=0 arg:x:b2:init=0 argv:2d6c,2d78 exp:reject mut:group-end-checks')
    cases.append('GS:f=32768 G:a:f=0 arg:m:i0: G:b:f=0 arg:x:b0:init=0 argv:2d78,2d6d,34 exp:b0=1;i0=4 mut:none')
    # the empty command line: the end-of-line checks of every member still run
    cases.append('G:a:f=0 arg:m:i0:man G:b:f=0 arg:x:b0:init=0 argv:- exp:reject mut:empty-line')
    cases.append('G:a:f=0 arg:x:b0:init=0 G:b:f=0 arg:m:s0:man argv:- exp:reject mut:empty-line')
    cases.append('G:a:f=0 arg:l:b0:init=0 arg:m:b1:init=0 con:one_of:l;m G:b:f=0 arg:x:b2:init=0 argv:- exp:reject mut:empty-line')
    cases.append('G:a:f=0 arg:x:b0:init=0 G:b:f=0 arg:l:b1:init=0 arg:m:b2:init=0 con:all_of:l;m argv:- exp:reject mut:empty-line')
    cases.append('G:a:f=0 arg:x:b0:init=0 G:b:f=0 arg:y:i0: argv:- exp:b0=0;i0=0 mut:none')
    n += len(cases)
    guard = 0
    while len(cases) < n and guard < n * 30:
        guard += 1
        args, cons = G.gen_config(rng, rng.range(2, 6))
        mem, mcons, cons = _partition(rng, args, cons)
        if rng.chance(1, 12):
            # nothing on the command line: rejected exactly when something is mandatory (an argument, or a handler
            # constraint all_of / one_of, which need at least one use; any_of means at most one)
            must = any(a.mand and not ((a.is_vec() or a.kind == 'oi') and a.init) for a in args) or \
                any(c[0] in ('all_of', 'one_of') for c in cons)
            if must:
                cases.append(_line(mem, mcons, [], ('exp:reject', 'mut:empty-line')))
            elif not G.value_constraints_ok(args, cons, []):
                continue          # e.g. two vectors with the same initial content in a disjoint constraint
            else:
                exp = G.expected_store(args, [])
                cases.append(_line(mem, mcons, [], ('exp:' + ';'.join('%s=%s' % kv for kv in sorted(exp.items())), 'mut:none')))
            continue
        uses = G.gen_line(rng, args, cons)
        if uses is None:
            continue
        r = rng.below(10)
        if r < 5:
            w = G.spell(rng, uses, args, True, stats)
            exp = G.expected_store(args, uses)
            cases.append(_line(mem, mcons, w, ('exp:' + ';'.join('%s=%s' % kv for kv in sorted(exp.items())), 'mut:none')))
        elif r < 9:
            kind = G.MUTATIONS[rng.below(len(G.MUTATIONS))]
            w = G.mutate(rng, kind, args, cons, uses)
            if w is None:
                continue
            stats[kind] = stats.get(kind, 0) + 1
            cases.append(_line(mem, mcons, w, ('exp:reject', 'mut:' + kind)))
        elif len(mem) >= 2:
            # the same key defined in two members
            src = rng.below(len(mem))
            a = rng.choice(mem[src])
            dup = G.Arg()
            dup.kind = 'b'; dup.slot = 'b3'; dup.init = '0'
            form = rng.below(4)
            if form == 0 and a.short:
                dup.short, dup.long = a.short, None
            elif form == 1 and a.long:
                dup.short, dup.long = None, a.long
            elif form == 2 and a.long:
                # same long key, another short key: a contradicting pair across members
                free = [ch for ch in 'ABCDEFGH' if ch not in [x.short for x in args]]
                dup.short, dup.long = free[0], a.long
            elif a.short:
                dup.short, dup.long = a.short, 'zz-other-long'
            else:
                dup.short, dup.long = None, a.long
            if not dup.short and not dup.long:
                continue
            if any(x.slot == 'b3' for x in args):
                continue
            mem2 = [list(m) for m in mem]
            # the duplicate goes into any other member, at any position, and the definitions are made in a random
            # interleaving over the members (all handlers exist before the first argument is defined)
            tgt = rng.choice([j for j in range(len(mem2)) if j != src])
            mem2[tgt].insert(rng.below(len(mem2[tgt]) + 1), dup)
            extra = ['exp:setup', 'mut:shared-key']
            gs = rng.choice([None, None, 0x8000, 0x20000, 0x28000])      # flags of the Groups singleton
            if gs is not None:
                extra.append('GS:f=%d' % gs)
            if rng.chance(2, 3):
                order = [j for j, m in enumerate(mem2) for _ in m]
                rng.shuffle(order)
                extra.append('order:' + ','.join(map(str, order)))
            cases.append(_line(mem2, mcons, [], extra))
    return {'cases': cases, 'exhaustive': False,
            'scopes': ['%d random configurations partitioned over 1..3 members; productions/mutations %s' % (len(cases), stats)]}


def spec_check(case, ir, mr):
    if ir is None:
        return 'no result from the implementation'
    if 'CRASH' in ir:
        return 'memory error / abort: ' + ir
    exp = _c02._exp(case)
    out = ir.split(' ')[0]
    if exp == 'setup':
        return None if out == 'setup' else 'the same key in two member handlers was not refused'
    if out == 'setup':
        return 'a legal group configuration was refused'
    return _c02.spec_check(case, ir, mr)


def _abbrev_region(case):
    """the known finding: abbreviations are resolved per member handler in member order. True when the command
    line holds a long-key word that is a proper prefix of a long key of the group and either is the exact long key
    of a member, or is a prefix of long keys of two different members, or of two keys at all"""
    members = []
    for t in case.split(' '):
        if t.startswith('G:') or t.startswith('GV:'):
            members.append([])
        elif t.startswith('arg:') and members:
            spec = t.split(':')[1]
            for part in spec.split(','):
                q = part.lstrip('-')
                if len(q) > 1:
                    members[-1].append(q)
    longs = [(j, l) for j, m in enumerate(members) for l in m]
    for t in case.split(' '):
        if t.startswith('argv:') and t != 'argv:-':
            for hw in t[5:].split(','):
                if hw == '-':
                    continue
                w = bytes.fromhex(hw).decode('latin-1')
                if not w.startswith('--') or len(w) < 4:
                    continue
                name = w[2:].split('=')[0]
                pref = [(j, l) for (j, l) in longs if l.startswith(name) and l != name]
                exact = [(j, l) for (j, l) in longs if l == name]
                if pref and (exact or len(pref) >= 2):
                    return True
    return False


def classify(case, ir, mr):
    if (case.startswith('G:') or case.startswith('GS:') or case.startswith('GV:')) and _abbrev_region(case):
        return 'group-abbrev-per-member'
    for t in case.split(' '):
        if t.startswith('mut:'):
            return t[4:]
    return 'case'


nontrivial = _c02.nontrivial


def histogram_keys(case, mr):
    return [classify(case, None, None) + ':' + (mr.split(' ')[0] if mr else '?')]


CLAIM = {
    'text': 'Coq theorems (Properties_C08.v) over the model of Groups::evalArguments. THE PROPERTY as one theorem '
            '(C08_group_equals_one_handler; ArgH/GenSim.v, GroupsSim.v, MergeProofs.v, GroupsMerge.v): for every group '
            'whose members do not refer to each other, every line of uses named by keys and every spelling of it '
            'that designates the same arguments in the group and in the single handler, the group accepts the line '
            'exactly when the ONE handler owning all arguments and handler constraints accepts it, and every '
            'destination ends with the same value. Proved through two unbounded simulations: group = each member on '
            'its own part of the line (C08_group_is_members_on_their_parts, C08_group_accepts_what_members_accept, '
            'C08_group_line_is_fold_of_uses incl. free values) and single handler = its blocks on their parts '
            '(C08_one_handler_splits: the constraint container of the merged handler is an interleaving of the '
            'members\' containers). Per step: routing to the first owner, unknown to all is rejected, shared keys are '
            'refused at definition time; the defects of the pinned group evaluation are proved '
            '(C08_pinned_group_refuted, C08_free_value_routing) and were repaired. For abbreviations that resolve '
            'differently per member the equality is false of the faithful model (C08_group_abbrev_refuted, known '
            'finding group-abbrev-per-member) - exactly the spellings the hypothesis of the theorem excludes. Tie: '
            'correspondence through the real Groups singleton with the single-handler values as oracle. Members that own '
            'sub-group arguments: the same loop with another member step (ArgH/GroupsGen.v; '
            'C08_generic_loop_is_eval_group, C08_members_with_subgroups_conservative), tied through the same harness; '
            'the key of a sub-group argument that another member uses was accepted by the pinned tree - repaired.',
    'note': 'hypotheses of the main theorem: keyed uses (free values / positional arguments are covered by '
            'C08_group_line_is_fold_of_uses, the routing witnesses and the tie), handler constraints all_of / any_of / '
            'one_of (value constraints differ / disjoint address arguments by position: tie only), requires / '
            'excludes / handler constraints that stay inside a member (each member has its own constraint '
            'container); one known finding (cross-member abbreviations) listed in known_findings.json',
    'technique': 'Coq proof (generic simulation spelled line = fold over uses instantiated with the member-state list; '
                 'projection lemma by induction over the line; decomposition of a single handler into independent '
                 'blocks with the pending-constraint container as an interleaving, iterated over the member list; '
                 'refutation witnesses by vm_compute) + model/implementation correspondence on partitioned '
                 'configurations',
    'design_ref': 'DESIGN.md section 5, C08',
}
