"""C10  Fixed-capacity string never touches memory outside itself and stays well-formed.

Also holds the case generators shared with C11 (props/C11.py loads this file)."""
import itertools

ID = 'C10'
HARNESS = {'name': 'c10',
           'sources': ['harness/c10_harness.cpp', 'harness/c10_p1.cpp', 'harness/c10_p2.cpp',
                       'harness/c10_p3.cpp', 'harness/c10_p4.cpp', 'harness/c10_p5.cpp', 'harness/c10_p6.cpp',
                       'harness/c10_p7.cpp', 'harness/c10_p8.cpp', 'harness/c10_p9.cpp', 'harness/c10_p10.cpp',
                       'harness/c10_p11.cpp'],
           'sanitize': True}

NPOS = 2 ** 64 - 1
BIGS = [2 ** 64 - 1, 2 ** 64 - 2, 2 ** 63]
LARGE_CAPS = [4, 5, 8, 10, 30, 254, 255, 256, 300]
ALL_CAPS = [1, 2, 3, 4, 5, 8, 10, 30, 254, 255, 256, 300]

RULE = ('case = capacity L (or pair L/S: the second object is a FixedString<S>) x initial content of the object and of a '
        'second object x list of operations '
        '(mode A: any argument values). Exhaustive part: L in 1..2 (quick) / 1..3 (thorough), every content over '
        '{a,b} of length 0..L, every modelled operation (90 entry points) with every position/count argument in '
        '0..L+2 and {2^64-1, 2^64-2, 2^63} (third/fourth numeric arguments from a reduced set), source strings of '
        'length 0..L+2; each operation is applied to a freshly constructed object (ctor step in front of it); '
        'thorough adds all two-step mutator histories on L=1..2 (stale bytes behind the terminator). Random part: '
        'histories of 4..24 operations on L in {4,5,8,10,255,256,300} with positions/counts around length, L, '
        '254..257 and the huge values, sources up to 2L+8 characters (sprintf up to 600). Error path of sprintf: both '
        'ways to make vsnprintf fail (unconvertible wide character; more than INT_MAX characters) after prior content '
        'empty/short/full on every capacity of the harness, inspected right after the call and after a following '
        'observer/append; a trigger that does not fire on the C library in use is not generated. Two capacities: '
        'every operation that takes the other object with 16 ordered pairs of different capacities from '
        '{1,2,3,20,30,255,256}, contents empty/short/full on each side and longer than the whole other object, each '
        'object in its own exact-size heap block. A case is non-trivial '
        'when at least one step is executed by the model (not refused as outside the caller contract).')
TRUSTED_BASE = [
    'model FixedStr/FsModel.v (+FsBase.v) written by hand from fixed_string.hpp, length_type.hpp and the two iterator '
    'headers; tied by the correspondence check (this run): after every step length(), strlen, the content, the return '
    'value; the complete L+1 buffer bytes of both objects are compared as internal observables',
    'extraction: ExtrOcamlBasic only; N/positive stay extracted datatypes; ocaml/c10_driver.ml does I/O only (prints '
    'the well-formedness verdict as the property demands it)',
    'C++ harness harness/c10_*.cpp: objects in malloc blocks of exactly sizeof(FixedString<L>), padding bytes '
    'pattern-checked, C string arguments in exact-size heap blocks, g++ 12 -O1 ASan+UBSan; std::string arguments '
    'shorter than 16 characters live in the SSO buffer where an over-read is only seen through the result',
    'length type: FsModel.lenmod (thresholds 256 / 65536 / 2^32) written by hand from length_type.hpp (no translator); '
    'exercised by the harness at L = 255, 256, 300 only',
]
ASSUMPTIONS = [
    'pointers passed in are non-null and point to valid C strings; for (pointer, count) overloads that read count '
    'characters (insert, find, find_first/last_(not_)of) the caller provides count readable characters',
    'iterator arguments were obtained from the object they are used with (for append: from the other object) and '
    'form a valid range; operator[] / iterator operator[] are documented as unchecked and are not called with '
    'indices behind the terminator',
    'source objects are not the object itself (no aliasing of *this with an argument)',
    'vsnprintf behaves as ISO C specifies (writes at most L characters and the terminator, returns the full length; '
    'when it fails it returns a negative value and has written only inside the L+1 bytes it was given)',
    'sizeof(size_t) = 8',
]


def hx(s):
    return ''.join('%02x' % ord(c) for c in s) if s else '-'


def contents(L, alpha='ab'):
    out = ['']
    for n in range(1, L + 1):
        out += [''.join(t) for t in itertools.product(alpha, repeat=n)]
    return out


def sources(L):
    out = ['']
    for n in range(1, L + 3):
        out.append('a' * n)
        out.append('b' + 'a' * (n - 1))
        if n >= 2:
            out.append(('ab' * n)[:n])
    return out


def positions(L, mode):
    if mode == 'A':
        return list(range(0, L + 3)) + BIGS
    return list(range(0, L + 3)) + [NPOS]


def small_extra(L, mode):
    return [0, 1, L + 1, NPOS] if mode == 'A' else [0, 1, L + 1, NPOS]


def nstr(v):
    return 'n' if v == NPOS else str(v)


FAMS = ['find', 'rfind', 'ffo', 'ffno', 'flo', 'flno']


def all_ops(L, mode, olen):
    """every operation token for the exhaustive part (mutators and observers)"""
    P = positions(L, mode)
    X = small_extra(L, mode)
    S = sources(L)
    CH = ['61', '62']
    mut, obs = [], []
    for s in S:
        h = hx(s)
        mut += ['asg_c:' + h, 'asg_s:' + h, 'ctor_c:' + h, 'ctor_s:' + h, 'app_s:' + h, 'app_c:' + h, 'sprintf:' + h]
        obs += ['cmp_s:' + h, 'cmp_c:' + h, 'sw_s:' + h, 'sw_c:' + h, 'ew_s:' + h, 'ew_c:' + h, 'ct_s:' + h, 'ct_c:' + h]
    mut += ['asg_fs', 'ctor_mv', 'ctor_cp', 'app_fs', 'swap', 'clear', 'pop']
    obs += ['cmp_fs', 'sw_fs', 'ew_fs', 'ct_fs', 'front', 'back', 'len', 'empty', 'str', 'eq', 'ne',
            'itf', 'citf', 'itr', 'citr']
    for ch in CH:
        mut += ['push:' + ch, 'pe_ch:' + ch]
        obs += ['sw_ch:' + ch, 'ew_ch:' + ch, 'ct_ch:' + ch]
    cnts = P if mode == 'A' else list(range(0, L + 3))
    for i in P:
        mut += ['ins_fs:%s' % nstr(i), 'erase_it:%s' % nstr(i), 'ins_it:%s:62' % nstr(i)]
        obs += ['at:%s' % nstr(i)]
        for c in P:
            mut += ['erase:%s:%s' % (nstr(i), nstr(c)), 'erase_itr:%s:%s' % (nstr(i), nstr(c)),
                    'app_fss:%s:%s' % (nstr(i), nstr(c)), 'rep_fs:%s:%s' % (nstr(i), nstr(c))]
            obs += ['substr:%s:%s' % (nstr(i), nstr(c)), 'copy:%s:%s' % (nstr(c), nstr(i)),
                    'cmpp_fs:%s:%s' % (nstr(i), nstr(c))]
            for p2 in X:
                for c2 in X:
                    obs.append('cmppp_fs:%s:%s:%s:%s' % (nstr(i), nstr(c), nstr(p2), nstr(c2)))
                    mut.append('rep_fss:%s:%s:%s:%s' % (nstr(i), nstr(c), nstr(p2), nstr(c2)))
        for c in cnts:
            mut += ['ins_nc:%s:%s:62' % (nstr(i), nstr(c)), 'ins_itn:%s:%s:62' % (nstr(i), nstr(c))]
            for c2 in ([0, 1, L, L + 2] + (BIGS[:1] if mode == 'A' else [])):
                mut.append('rep_nc:%s:%s:%s:62' % (nstr(i), nstr(c), nstr(c2)))
        for k in X:
            mut.append('ins_fss:%s:%s:%s' % (nstr(i), nstr(k), nstr(X[(P.index(i)) % len(X)])))
        for s in S:
            h = hx(s)
            mut += ['ins_c:%s:%s' % (nstr(i), h), 'ins_s:%s:%s' % (nstr(i), h)]
            for k in range(0, len(s) + 2):
                mut.append('ins_pc:%s:%s:%d' % (nstr(i), h, k))
        for s in S[::2]:
            h = hx(s)
            for c in X + [L]:
                mut += ['rep_s:%s:%s:%s' % (nstr(i), nstr(c), h), 'rep_c:%s:%s:%s' % (nstr(i), nstr(c), h)]
                obs += ['cmpp_s:%s:%s:%s' % (nstr(i), nstr(c), h), 'cmpp_c:%s:%s:%s' % (nstr(i), nstr(c), h)]
                for c2 in [0, 1, len(s), len(s) + 1, NPOS]:
                    mut.append('rep_pc:%s:%s:%s:%s' % (nstr(i), nstr(c), h, nstr(c2)))
                    obs.append('cmppp_c:%s:%s:%s:%s' % (nstr(i), nstr(c), h, nstr(c2)))
                    mut.append('rep_ss:%s:%s:%s:%s:%s' % (nstr(i), nstr(c), h, nstr(c2 if c2 != len(s) + 1 else 1), nstr(X[(c2 + i) % len(X)])))
                    obs.append('cmppp_s:%s:%s:%s:%s:%s' % (nstr(i), nstr(c), h, nstr(c2 if c2 != len(s) + 1 else 1), nstr(X[(c2 + i) % len(X)])))
    for c in cnts:
        for ch in CH[:1]:
            mut.append('app_nc:%s:%s' % (nstr(c), ch))
    for s in S:
        h = hx(s)
        for p in P:
            for c in X + [len(s)]:
                mut.append('app_ss:%s:%s:%s' % (h, nstr(p), nstr(c)))
        for k in list(range(0, len(s) + 2)) + [NPOS]:
            mut.append('app_pc:%s:%s' % (h, nstr(k)))
        for i in P[:L + 3]:
            for a_, b_ in [(0, NPOS), (1, 1), (0, 1), (NPOS, NPOS)]:
                mut.append('ins_ss:%s:%s:%s:%s' % (nstr(i), h, nstr(a_), nstr(b_)))
            mut.append('ins_ss:%s:%s:%d:%s' % (nstr(i), h, len(s), nstr(NPOS)))
            mut.append('ins_ss:%s:%s:%d:%s' % (nstr(i), h, len(s) + 1, nstr(1)))
    for p in range(0, olen + 2):
        for q in range(0, olen + 2):
            mut.append('app_it:%d:%d' % (p, q))
    # iterator stepping
    for nm in ('it', 'rit'):
        for pos in P:
            obs += ['%s:%s:inc:0' % (nm, nstr(pos)), '%s:%s:dec:0' % (nm, nstr(pos))]
            for v in P:
                obs += ['%s:%s:add:%s' % (nm, nstr(pos), nstr(v)), '%s:%s:sub:%s' % (nm, nstr(pos), nstr(v))]
    # find family
    for fam in FAMS:
        for pos in P:
            obs.append('F%s_fs:%s' % (fam, nstr(pos)))
            for ch in CH:
                obs.append('F%s_ch:%s:%s' % (fam, ch, nstr(pos)))
            for s in S:
                h = hx(s)
                obs += ['F%s_s:%s:%s' % (fam, h, nstr(pos)), 'F%s_c:%s:%s' % (fam, h, nstr(pos))]
                for k in range(0, len(s) + 2):
                    obs.append('F%s_pc:%s:%d:%s' % (fam, h, k, nstr(pos)))
    return mut, obs


MUT_FAMILIES = ('asg', 'ctor', 'ins', 'erase', 'push', 'pop', 'app', 'pe', 'sprintf', 'rep', 'swap', 'clear')  # sprintf_lc / sprintf_wide: family 'sprintf'


def is_mutator(tok):
    n = tok.split(':')[0]
    return n.split('_')[0] in MUT_FAMILIES


def pack(mode, L, init, oinit, ops, reinit, chunk=24):   # L: capacity or 'L/S'
    """cases of [chunk] operations; each one applied to a freshly constructed object when [reinit]"""
    out = []
    cur = []
    for o in ops:
        if reinit:
            cur.append('ctor_c:' + hx(init))
        cur.append(o)
        if len(cur) >= chunk * (2 if reinit else 1):
            out.append('%s %s %s %s %s' % (mode, L, hx(init), hx(oinit), ' '.join(cur)))
            cur = []
    if cur:
        out.append('%s %s %s %s %s' % (mode, L, hx(init), hx(oinit), ' '.join(cur)))
    return out


# witnesses of the defects of the pinned tree (DESIGN.md section 8 rows 1-8 and the ones found by this check)
CORPUS_A = [
    'A 10 6161616363636363 - ins_c:3:62626262',
    'A 10 6161616363636363 - ins_nc:3:4:62',
    'A 10 616263 - app_ss:78797a:1:n',
    'A 10 30313233343536373839 6162 swap',
    'A 10 68656c6c6f 6162 erase:0:n swap',
    'A 10 30313233343536 - rep_c:2:1:6162636465666768',
    'A 10 616263 - copy:n:1',
    'A 10 616263 - cmpp_c:1:n:61626364656667686970717273747576',
    'A 10 616263 - Frfind_c:6263:18446744073709551614',
    'A 10 616263 - ins_nc:1:18446744073709551615:61',
    'A 10 616263 - ins_nc:5:18446744073709551615:61',
    'A 10 616263 - app_nc:n:61',
    'A 10 616263 - rep_nc:1:1:n:61',
    'A 10 616263 - ins_ss:1:6162:5:1',
    'A 10 61626364 - substr:2:18446744073709551614',
    'A 10 616263 - it:3:dec:0',
    'A 10 616263 - rit:3:inc:0',
    'A 20/3 %s 727272 eq ne' % ('71' * 20),
    'A 256/30 %s %s ne eq' % ('71' * 256, '72' * 30),
]
CORPUS_D = [
    'D 10 6162 6163 ne eq',
    'D 10 6162 616263 ne',
    'D 10 676f6f6462796578 - rep_c:7:2:20616e6420',
    'D 10 616263 - cmpp_c:1:n:6263',
    'D 10 616263 - cmpp_c:3:0:61',
    'D 10 616263 61 cmppp_fs:3:0:0:1',
    'D 10 616263 - rep_c:3:0:78',
    'D 10 616263 - copy:n:1',
    'D 10 616263 - app_ss:78797a:1:n',
    'D 255 - - sprintf:' + '61' * 260,
    'D 10 - - sprintf:' + '61' * 12,
    'D 10 616263 - it:3:dec:0 it:3:sub:2 rit:3:dec:0 rit:3:sub:1',
    'D 10 616263 - Frfind_ch:00:n',
]


def gen_exhaustive(mode, caps, rng=None):
    cases = []
    for L in caps:
        others = ['', 'a', 'ab'[:L], 'b' * L]
        others = list(dict.fromkeys(others))
        for oi, oinit in enumerate(others):
            mut, obs = all_ops(L, mode, len(oinit))
            for init in contents(L):
                if oi > 0:
                    # the full argument space is enumerated with the first "other" object; the remaining ones
                    # only for the operations that use it
                    m2 = [t for t in mut if t.split(':')[0] in ('asg_fs', 'ctor_mv', 'ctor_cp', 'app_fs', 'swap', 'ins_fs',
                                                                'ins_fss', 'app_fss', 'rep_fs', 'rep_fss', 'app_it')]
                    o2 = [t for t in obs if t.split(':')[0] in ('cmp_fs', 'sw_fs', 'ew_fs', 'ct_fs', 'eq', 'ne', 'cmpp_fs',
                                                                'cmppp_fs') or t.split(':')[0].endswith('_fs')]
                else:
                    m2, o2 = mut, obs
                cases += pack(mode, L, init, oinit, m2, True)
                cases += pack(mode, L, init, oinit, o2, False, chunk=48)
    return cases


def gen_two_step(mode, caps):
    """all pairs (first mutator that leaves stale bytes) x (second mutator) on small capacities"""
    cases = []
    for L in caps:
        firsts = ['erase:0:n', 'erase:1:n', 'pop', 'clear', 'erase:0:1', 'asg_c:' + hx('b'), 'sprintf:' + hx('b' * (L + 1))]
        for init in contents(L)[-(2 ** L):]:
            for oinit in ['', 'ab'[:L]]:
                mut, obs = all_ops(L, mode, len(oinit))
                second = [t for t in mut if t.split(':')[0] not in ('ctor_c', 'ctor_s', 'ctor_mv', 'ctor_cp')]
                for f1 in firsts:
                    ops = []
                    for t in second[::3]:
                        ops += ['ctor_c:' + hx(init), f1, t, 'str', 'itf']
                    for i in range(0, len(ops), 100):
                        cases.append('%s %d %s %s %s' % (mode, L, hx(init), hx(oinit), ' '.join(ops[i:i + 100])))
    return cases


def rnd_text(rng, n, alpha='abc'):
    return ''.join(rng.choice(alpha) for _ in range(n))


def rnd_pos(rng, L, cur, mode):
    r = rng.below(14)
    if r < 4:
        return rng.range(0, max(cur, 1))
    if r < 6:
        return cur + rng.range(0, 2)
    if r < 8:
        return max(0, L - 1 + rng.range(0, 3))
    if r == 8:
        return rng.range(254, 257)
    if r == 9:
        return NPOS
    if r == 10 and mode == 'A':
        return rng.choice(BIGS)
    return rng.range(0, L + 2)


def rnd_len(rng, L):
    r = rng.below(10)
    if r < 4:
        return rng.range(0, 4)
    if r < 6:
        return max(0, L - 2 + rng.range(0, 4))
    if r == 6:
        return 2 * L + rng.range(0, 8)
    if r == 7:
        return rng.range(250, 262)
    return rng.range(0, L + 2)


def rnd_op(rng, L, mode, olen):
    p = lambda: nstr(rnd_pos(rng, L, rng.range(0, L), mode))
    c = lambda: nstr(rnd_pos(rng, L, rng.range(0, L), mode))
    sc = lambda: nstr(rng.choice([0, 1, 2, 3, L, NPOS] if mode == 'D' else [0, 1, 2, 3, L, L + 1, NPOS, BIGS[1]]))
    s = lambda: hx(rnd_text(rng, min(rnd_len(rng, L), 620)))
    ss = lambda: hx(rnd_text(rng, rng.range(0, 5)))
    ch = lambda: rng.choice(['61', '62', '63'])
    k = rng.below(63)
    table = [
        lambda: 'asg_c:' + s(), lambda: 'asg_s:' + s(), lambda: 'asg_fs', lambda: 'ctor_c:' + s(), lambda: 'ctor_mv',
        lambda: 'ins_nc:%s:%s:%s' % (p(), sc(), ch()), lambda: 'ins_c:%s:%s' % (p(), s()), lambda: 'ins_s:%s:%s' % (p(), s()),
        lambda: 'ins_ss:%s:%s:%s:%s' % (p(), s(), sc(), c()), lambda: 'ins_fs:' + p(), lambda: 'ins_fss:%s:%s:%s' % (p(), sc(), c()),
        lambda: 'ins_it:%s:%s' % (p(), ch()), lambda: 'ins_itn:%s:%s:%s' % (p(), sc(), ch()),
        lambda: 'erase:%s:%s' % (p(), c()), lambda: 'erase_it:' + p(), lambda: 'push:' + ch(), lambda: 'pop',
        lambda: 'app_nc:%s:%s' % (sc(), ch()), lambda: 'app_s:' + s(), lambda: 'app_fs', lambda: 'app_ss:%s:%s:%s' % (s(), sc(), c()),
        lambda: 'app_fss:%s:%s' % (sc(), c()), lambda: 'app_pc:%s:%s' % (s(), c()), lambda: 'app_c:' + s(),
        lambda: 'sprintf:' + s(), lambda: 'rep_fs:%s:%s' % (p(), c()), lambda: 'rep_s:%s:%s:%s' % (p(), c(), s()),
        lambda: 'rep_fss:%s:%s:%s:%s' % (p(), c(), sc(), c()), lambda: 'rep_ss:%s:%s:%s:%s:%s' % (p(), c(), s(), sc(), c()),
        lambda: 'rep_c:%s:%s:%s' % (p(), c(), s()), lambda: 'rep_pc:%s:%s:%s:%s' % (p(), c(), s(), c()),
        lambda: 'rep_nc:%s:%s:%s:%s' % (p(), c(), sc(), ch()), lambda: 'swap', lambda: 'clear',
        lambda: 'cmp_fs', lambda: 'cmp_s:' + s(), lambda: 'cmpp_s:%s:%s:%s' % (p(), c(), s()), lambda: 'cmpp_fs:%s:%s' % (p(), c()),
        lambda: 'cmppp_fs:%s:%s:%s:%s' % (p(), c(), sc(), c()), lambda: 'cmppp_s:%s:%s:%s:%s:%s' % (p(), c(), s(), sc(), c()),
        lambda: 'sw_s:' + ss(), lambda: 'ew_s:' + ss(), lambda: 'ct_s:' + ss(), lambda: 'ct_ch:' + ch(),
        lambda: 'substr:%s:%s' % (p(), c()), lambda: 'copy:%s:%s' % (c(), p()), lambda: 'at:' + p(), lambda: 'back',
        lambda: 'eq', lambda: 'ne', lambda: 'itf', lambda: 'itr', lambda: 'str', lambda: 'len',
        lambda: 'F%s_s:%s:%s' % (rng.choice(FAMS), ss(), p()), lambda: 'F%s_ch:%s:%s' % (rng.choice(FAMS), ch(), p()),
        lambda: 'F%s_fs:%s' % (rng.choice(FAMS), p()), lambda: 'F%s_c:%s:%s' % (rng.choice(FAMS), ss(), p()),
        lambda: 'erase_itr:%s:%s' % (p(), p()), lambda: 'app_it:%d:%d' % (0, rng.range(0, olen)),
        lambda: '%s:%s:%s:%s' % (rng.choice(['it', 'rit']), p(), rng.choice(['inc', 'dec', 'add', 'sub']), c()),
        lambda: '%s:%s:%s:%s' % (rng.choice(['it', 'rit']), p(), rng.choice(['inc', 'dec']), '0'),
        lambda: 'sprintf_lc:' + ss(),
    ]
    return table[k % len(table)]()


def gen_random(mode, rng, n):
    cases = []
    for _ in range(n):
        L = rng.choice(LARGE_CAPS)
        init = rnd_text(rng, min(rnd_len(rng, L), 400))
        oinit = rnd_text(rng, min(rnd_len(rng, L), 400))
        ops = [rnd_op(rng, L, mode, min(len(oinit), L)) for _ in range(rng.range(4, 24))]
        if not probe_sprintf_triggers()['lc']:
            ops = [o.replace('sprintf_lc:', 'sprintf:') for o in ops]
        cases.append('%s %d %s %s %s' % (mode, L, hx(init), hx(oinit), ' '.join(ops)))
    return cases


# ---------------------------------------------------------------------------------------------------
# sprintf whose vsnprintf call fails (error path: length 0, terminator at 0)

_probe_cache = {}


def probe_sprintf_triggers(want_wide=True):
    """Ask the harness (i.e. the C library it is linked with) whether the two ways to make vsnprintf fail
    really fail here.  Returns {'lc': bool, 'wide': bool}.  A trigger that does not fire is not generated
    (and reported in the scopes); it never raises an alarm."""
    key = 'all' if want_wide else 'lc'
    if key in _probe_cache:
        return _probe_cache[key]
    import sys
    sys.path.insert(0, '/verif/lib')
    import vf
    res = {'lc': False, 'wide': False}
    exe, err = vf.build_harness(HARNESS['name'], HARNESS['sources'], HARNESS.get('repo_sources', ()),
                                sanitize=HARNESS.get('sanitize', True), extra_flags=HARNESS.get('flags', ()))
    if exe is not None:
        d = vf.WORK / 'C10_probe'
        d.mkdir(parents=True, exist_ok=True)
        cf = d / 'probe.txt'
        lines = ['p0 A 4 - - sprintf_lc:6162']
        if want_wide:
            lines.append('p1 A 4 - - sprintf_wide:6162')
        cf.write_text('\n'.join(lines) + '\n')
        out = vf.run_cases(exe, cf, timeout=120)
        res['lc'] = 'p0' in out and 'nofire' not in out['p0'] and 'CRASH' not in out['p0']
        res['wide'] = 'p1' in out and 'nofire' not in out['p1'] and 'CRASH' not in out['p1']
        try:
            cf.unlink()
            d.rmdir()
        except OSError:
            pass
    _probe_cache[key] = res
    return res


def gen_sprintf_fail(mode, tier):
    """the failing sprintf after every kind of prior content (empty, short, full at L) on every capacity of
    the harness, followed by nothing / by observers / by an append; the object is inspected right after
    the failing call (every step prints length, strlen, terminator verdict, bytes)"""
    quick = tier == 'quick'
    fired = probe_sprintf_triggers()
    cases = []
    info = []
    followers = [[], ['str', 'len', 'empty', 'itf', 'cmp_c:' + hx('abc'), 'back'], ['app_c:' + hx('xy')],
                 ['push:7a', 'str']]
    if fired['lc']:
        n = 0
        for L in ALL_CAPS:
            priors = ['', 'q', 'q' * L]
            for prior in dict.fromkeys(priors):
                for text in ['abc', 'a' * (L + 3)] + ([] if quick else ['', 'ab' * L]):
                    for fol in followers:
                        cases.append('%s %d %s - %s' % (mode, L, hx(prior), ' '.join(['sprintf_lc:' + hx(text)] + fol)))
                        n += 1
        info.append('failing sprintf (%%lc with a wide character that cannot be converted): %d cases, every capacity '
                    'of the harness x prior content empty/short/full x followed by nothing/observers/append' % n)
    else:
        info.append('failing sprintf (%lc): the C library converted the character, trigger did not fire, 0 cases')
    if fired['wide']:
        # every call writes 2^31 characters of padding (about 4 s): a few cases only
        caps = [2, 255] if quick else [1, 2, 30, 254, 255, 256]
        n = 0
        for i, L in enumerate(caps):
            prior = ['q' * L, '', 'q'][i % 3]
            fol = followers[(i + 2) % len(followers)]
            cases.append('%s %d %s - %s' % (mode, L, hx(prior), ' '.join(['sprintf_wide:' + hx('abc')] + fol)))
            n += 1
        info.append('failing sprintf (field widths of more than INT_MAX characters): %d cases on L in %s' % (n, caps))
    else:
        info.append('failing sprintf (more than INT_MAX characters): vsnprintf did not fail, trigger did not fire, 0 cases')
    return cases, info


# ---------------------------------------------------------------------------------------------------
# two objects of different capacities (the template overloads taking FixedString< S>)

MIXED_PAIRS = [(1, 3), (3, 1), (2, 20), (20, 2), (3, 20), (20, 3), (3, 30), (30, 3), (20, 255), (255, 20),
               (30, 256), (256, 30), (255, 256), (256, 255), (3, 256), (256, 3)]


def mixed_ops(L, S, mode, big):
    """every operation that takes the other object, for a pair of capacities"""
    m = min(L, S)
    if big:
        P = [0, 1, m, NPOS]
        X = [0, S, NPOS]
    else:
        P = sorted(set([0, 1, m, S, S + 1, L])) + [NPOS] + ([BIGS[1]] if mode == 'A' else [])
        X = [0, 1, S, NPOS]
    mut = ['asg_fs', 'ctor_fs', 'app_fs']
    obs = ['cmp_fs', 'sw_fs', 'ew_fs', 'ct_fs', 'eq', 'ne']
    for i in P:
        mut.append('ins_fs:%s' % nstr(i))
        for c in P:
            mut += ['app_fss:%s:%s' % (nstr(i), nstr(c)), 'rep_fs:%s:%s' % (nstr(i), nstr(c))]
            obs.append('cmpp_fs:%s:%s' % (nstr(i), nstr(c)))
        for k in X:
            for c in X:
                mut.append('ins_fss:%s:%s:%s' % (nstr(i), nstr(k), nstr(c)))
    P4 = P if not big else [0, m, NPOS]
    P4 = P4[:5] if len(P4) > 5 else P4
    for i in P4:
        for c in P4:
            for p2 in X:
                for c2 in X:
                    mut.append('rep_fss:%s:%s:%s:%s' % (nstr(i), nstr(c), nstr(p2), nstr(c2)))
                    obs.append('cmppp_fs:%s:%s:%s:%s' % (nstr(i), nstr(c), nstr(p2), nstr(c2)))
    return mut, obs


def gen_mixed(mode, tier):
    """object and other object of different capacities, both orders; contents empty / short / full on each
    side, and the left content longer than the whole right object (and vice versa)"""
    cases = []
    nops = 0
    for (L, S) in MIXED_PAIRS:
        big = max(L, S) > 100
        mut, obs = mixed_ops(L, S, mode, big)
        lefts = ['', 'q', 'q' * L] + (['q' * min(L, S + 2)] if L > S + 1 else [])
        rights = ['', 'r', 'r' * S] + (['q' * (S - 1) + 'r'] if S > 1 else [])
        if big and tier == 'quick':
            lefts = lefts[1:]
            rights = rights[1:]
        cap = '%d/%d' % (L, S)
        for a in dict.fromkeys(lefts):
            for b in dict.fromkeys(rights):
                cs = pack(mode, cap, a, b, mut, True, chunk=24 if not big else 12)
                cs += pack(mode, cap, a, b, obs, False, chunk=48 if not big else 24)
                cases += cs
                nops += len(mut) + len(obs)
    info = ['two objects of different capacities %s (object/other, both orders): %d cases, %d operations taking the '
            'other object (assign, converting constructor, insert, append, replace, compare, starts_with, ends_with, '
            'contains, ==, !=) x contents empty/short/full on each side and longer than the other whole object'
            % (['%d/%d' % p for p in MIXED_PAIRS], len(cases), nops)]
    return cases, info


def gen_cases(tier, rng):
    quick = tier == 'quick'
    caps = [1, 2] if quick else [1, 2, 3]
    cases = list(CORPUS_A)
    cases += gen_exhaustive('A', caps)
    if not quick:
        cases += gen_two_step('A', [1, 2])
    nrand = 1500 if quick else 15000
    cases += gen_random('A', rng, nrand)
    fail_cases, fail_info = gen_sprintf_fail('A', tier)
    cases += fail_cases
    mixed_cases, mixed_info = gen_mixed('A', tier)
    cases += mixed_cases
    fail_info = fail_info + mixed_info
    return {'cases': cases, 'exhaustive': True,
            'scopes': ['exhaustive: L in %s, all contents over {a,b}, every operation with positions/counts in 0..L+2 and '
                       '{2^64-1, 2^64-2, 2^63}, sources of length 0..L+2 (24 operations per case, each on a freshly '
                       'constructed object)' % caps]
                      + ([] if quick else ['exhaustive: two-step mutator histories on L in 1..2'])
                      + ['random: %d histories of 4..24 operations on L in %s' % (nrand, LARGE_CAPS)] + fail_info}


def steps(r):
    if r is None:
        return []
    return (r.split(' ## ')[0]).split(' ') if r.split(' ## ')[0] else []


def histogram_keys(case, mr):
    w = case.split(' ')
    keys = ['%s L=%s' % (w[0], w[1])]
    fams = set()
    for t in w[4:]:
        n = t.split(':')[0]
        fams.add(n if n.startswith('sprintf') else n.split('_')[0])
    keys += sorted('op ' + f for f in fams)
    return keys


def nontrivial(case, mr):
    return any(s != 'ood' and not s.startswith('unsupported') for s in steps(mr))


def first_bad_step(case, ir, pred):
    ops = case.split(' ')[4:]
    st = steps(ir)
    for i, s in enumerate(st):
        if pred(s):
            return i, (ops[i] if i < len(ops) else '?')
    return None, None


def spec_check(case, ir, mr):
    """C10 restated on the observable result of one history: no memory error, no abort, and after every
    step the object is well-formed (length <= L, terminator at length, padding untouched, strlen = length
    when no NUL was stored)"""
    if ir is None:
        return 'no result from the implementation'
    if 'CRASH' in ir:
        return 'memory error / abort in the implementation: ' + ir[:120]
    if 'unsupported' in ir or 'bad-case' in ir:
        return 'harness does not know this case: ' + ir[:80]
    i, op = first_bad_step(case, ir, lambda s: 'BAD' in s)
    if i is not None:
        return 'after step %d (%s) the object is not well-formed: %s' % (i, op, steps(ir)[i][:100])
    if len(steps(ir)) != len(case.split(' ')[4:]):
        return 'number of results differs from number of operations'
    return None


def op_family(tok):
    n = tok.split(':')[0]
    if n.startswith('F'):
        return n.split('_')[0][1:]
    return n


def classify(case, ir, mr):
    ops = case.split(' ')[4:]
    if ir is not None and 'CRASH' in ir and '@' in ir:
        try:
            k = int(ir.split(' ')[0].rsplit('@', 1)[1])
            return op_family(ops[k])
        except (ValueError, IndexError):
            pass
    if ir is None or 'CRASH' in ir:
        real = [o for o in ops if not o.startswith('ctor_c')] or ops
        # the step the model refuses / faults on, else the last operation
        ms = steps(mr)
        for i, s in enumerate(ms):
            if s.startswith('F:') or s.startswith('T:'):
                return op_family(ops[i])
        return op_family(real[-1]) if real else 'crash'
    i, op = first_bad_step(case, ir, lambda s: 'BAD' in s)
    if i is not None:
        return op_family(op)
    ist, mst = steps(ir), steps(mr)
    for i, (a, b) in enumerate(zip(ist, mst)):
        if a != b:
            return op_family(ops[i])
    return 'unclassified'


def shrink(case):
    w = case.split(' ')
    head, ops = w[:4], w[4:]
    # drop one operation (or a ctor+operation pair), then halves
    if len(ops) > 2:
        yield ' '.join(head + ops[:len(ops) // 2])
        yield ' '.join(head + ops[len(ops) // 2:])
    for i in range(len(ops)):
        yield ' '.join(head + ops[:i] + ops[i + 1:])
        if i + 1 < len(ops):
            yield ' '.join(head + ops[:i] + ops[i + 2:])
    # shorter initial contents
    for j in (2, 3):
        if head[j] != '-':
            for repl in ('-', head[j][:2 * (len(head[j]) // 4)] or '-'):
                if repl != head[j]:
                    h2 = list(head)
                    h2[j] = repl
                    yield ' '.join(h2 + ops)
        if head[j] != '-' and len(head[j]) > 2:
            h2 = list(head)
            h2[j] = head[j][:-2]
            yield ' '.join(h2 + ops)


CLAIM = {
    'text': 'Coq theorems (Properties_C10.v) over an executable model of FixedString<L>: for every two capacities 1 <= L, Lo < '
            '2^64-1 (object / other object, independent), every pair of well-formed objects, every one of the 91 modelled entry points (all mutators incl. the error path of sprintf and the '
            'converting constructor, all '
            'observers incl. the 30 find overloads, both traversal directions and single iterator steps) and all size_t argument values - positions and counts up to '
            '2^64-1 - the operation returns normally, no access leaves the object, its source arguments or the destination of '
            'copy(), and the object is well-formed afterwards (L+1 bytes, length <= L, terminator at the length, '
            'strlen = length when no NUL is stored); the same along any history (induction). The model is tied to the code by a '
            'correspondence check (exhaustive for L <= 2/3, ASan+UBSan build, byte-exact heap placement of the objects). Eight '
            'defects of the pinned tree were found by the check and are repaired by fixes/C10-1..7 and C11-3 (witnesses kept as '
            'C10_*_pinned_refuted theorems and as corpus cases).',
    'note': 'trusted: Coq kernel, extraction (ExtrOcamlBasic), the hand-written model (validated by correspondence on every '
            'run), the harness. Not modelled (neither proved nor run): operator[] / operator- / relational operators of the '
            'iterator classes, postfix ++/--, insert(const_iterator, initializer_list), the six iterator overloads of replace(), '
            'operator+= / operator= overloads that only forward to append()/assign(), operator<<, data(), operator[] '
            '(documented as unchecked); template overloads taking FixedString<S> are run with S = L and with 16 '
            'ordered pairs S != L, and proved for all pairs. The caller contract '
            '(ASSUMPTIONS) is part of the statement.',
    'technique': 'Coq proof (invariant preservation and absence of Fault for checked buffer primitives, 2^64 wrap-around '
                 'arithmetic, induction over histories); model/implementation correspondence with exhaustive small scopes',
    'design_ref': 'DESIGN.md section 5, C10/C11; section 8 rows 1-6',
}
