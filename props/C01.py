"""C01  Command-line values reach their typed destinations, whatever the spelling."""
import os
import sys
sys.path.insert(0, os.path.dirname(__file__))
import args_common as A
import args_gen as G
import C02 as _c02

ID = 'C01'
MODEL_ID = 'ARGS'
HARNESS = A.HARNESS
INTERNAL_COMPARABLE = False   # behind '##' the harness prints exception class / texts, the driver a note: never equal
RULE = ('a case = random well-formed configuration (2-6 arguments of the modelled kinds, keys with shared prefixes) + a '
        'valid abstract line + one legal spelling drawn from the grammar (short/long key, abbreviation, "=", glued, '
        'separate, flag groups, element lists and free values for multi-value arguments); each line is spelled 4 '
        'times, and lines of distinct arguments without order-sensitive rules additionally in 2 other orders; token exp: carries the intended destination values. Non-trivial: accepted configuration with at '
        'least one use.')
TRUSTED_BASE = _c02.TRUSTED_BASE
ASSUMPTIONS = _c02.ASSUMPTIONS + [
    'the theorems cover the spellings of ArgH/Spell.v (spell: long flag, --k=v, --k v, flag groups, glued and separate '
    'value behind a short key) and of the extended grammar xspell (free values, "--", optional values); "!" and '
    'control characters are covered by the correspondence only']


def gen_cases(tier, rng):
    n = 1500 if tier == 'quick' else 15000
    cases = []
    stats = {}
    cases.append('H:f=0 arg:v:b0:init=0 arg:n,number:i0: arg:name:s0: argv:2d766e35,2d2d6e616d653d78 exp:b0=1;i0=5;s0=s78')
    # a flag ends the value list of a multi-value argument: the next free word is the positional argument
    for (vk, first, more, pk, pv, pexp) in [('vi0', '1', ['2'], 's0', 'peter', 's' + A.hx('peter')),
                                             ('vi0', '1,2', [], 'i0', '17', '17'),
                                             ('vs0', 'a', ['b', 'c'], 's0', 'd', 's' + A.hx('d'))]:
        for flagw in ('-f', '--flag'):
            for keyw in (['-v', first], ['--values=' + first], ['--val', first]):
                elems = first.split(',') + more
                show = '[' + ','.join(elems if vk == 'vi0' else ['s' + A.hx(e) for e in elems]) + ']'
                w = keyw + more + [flagw, pv]
                cases.append('H:f=0 arg:v,values:%s:multi arg:f,flag:b0:init=0 arg:-:%s: %s exp:b0=1;%s=%s;%s=%s'
                             % (vk, pk, A.argv_tok(w), pk, pexp, vk, show))
    # an exact long key that is a prefix of two (three) other long keys, defined before, between and after them, in
    # every spelling of the value; the abbreviations that stay unique still work
    import itertools as _it
    for order in _it.permutations(['include', 'input', 'in']):
        defs = ' '.join('arg:%s:i%d:' % (k, ['include', 'input', 'in'].index(k)) for k in order)
        for w, exp in ((['--in', '42'], 'i0=0;i1=0;i2=42'), (['--in=42'], 'i0=0;i1=0;i2=42'), (['--inc', '7'], 'i0=7;i1=0;i2=0'),
                       (['--inp=8', '--in', '9'], 'i0=0;i1=8;i2=9'), (['--include=1', '--input=2', '--in=3'], 'i0=1;i1=2;i2=3')):
            cases.append('H:f=0 %s %s exp:%s' % (defs, A.argv_tok(w), exp))
    # a flag whose cardinality limit was removed may be repeated: it stays set, in every spelling
    for w in (['-v', '-v'], ['-vv'], ['-v', '--verbose'], ['-vcvc'], ['-v', '-c', '-v', '-v'], ['--verbose', '--verb', '-v', '-v']):
        nv = sum(x.count('v') if not x.startswith('--') else 1 for x in w)
        nc = sum(x.count('c') for x in w if not x.startswith('--'))
        for init in (0, 1):
            cases.append('H:f=0 arg:v,verbose:b0:init=%d/card=none arg:c:b1:init=%d/card=none arg:x:b2: %s exp:b0=%d;b1=%d;b2=1'
                         % (init, init, A.argv_tok(w), 1 - init, (1 - init) if nc else init))
    # a flag whose destination is a std::optional< bool> (outside the model): used, it holds true - whatever it held
    # before - unless unsetFlag() was called; unused it keeps what it held
    for init, io in ((None, 'none'), ('1', '1'), ('0', '0')):
        for w in (['-o'], ['--opt-flag'], ['--opt'], ['-fo'], ['-of'], []):
            for unset in (False, True):
                used = any('o' in x for x in w)
                val = ('0' if unset else '1') if used else io
                fl = '1' if any(x in ('-fo', '-of') for x in w) else '0'
                opts = '/'.join(([('init=' + init)] if init else []) + (['unset'] if unset else []))
                cases.append('H:f=0 arg:o,opt-flag:ob0:%s arg:f:b0:init=0 %s exp:b0=%s;ob0=%s' % (opts, A.argv_tok(w), fl, val))
    # integer destinations of every width: the whole range of the type is representable (outside the model, which
    # has the one integer kind int: judged by the intended values)
    for slot, vals in (('ul0', ['0', '9223372036854775807', '9223372036854775808', '18446744073709551615', '12345678901234567890']),
                       ('ll0', ['-9223372036854775808', '9223372036854775807', '-1', '4294967296']),
                       ('uh0', ['0', '65535', '32768']), ('h0', ['-32768', '32767', '-1']),
                       ('u0', ['4294967295', '2147483648', '0'])):
        for v in vals:
            for w in (['-n', v], ['--number=' + v], ['--num', v], ['-n' + v]):
                if v.startswith('-') and w[0] in ('-n', '--num'):
                    continue          # a separate word with a leading dash is not a value
                cases.append('H:f=0 arg:n,number:%s: arg:f:b0:init=0 %s exp:b0=0;%s=%s' % (slot, A.argv_tok(w), slot, v))
    # floating-point destinations (outside the model: judged by the intended value, printed as a hexadecimal
    # floating-point number so that the comparison is exact)
    def c_hex(x):
        h = float(x).hex()
        sign = '-' if h.startswith('-') else ''
        h = h.lstrip('-')
        mant, _, ex = h.partition('p')
        if '.' in mant:
            mant = mant.rstrip('0').rstrip('.')
        return sign + mant + 'p' + ex
    for v in ('1.5', '0.1', '-2.25', '1e10', '-1.5e-7', '.5', '5.', '0', '-0.0', '1e308', '4.9e-324', '3.141592653589793',
              '123456789012345678', '1E3', '+7.25'):
        for w in (['-x', v], ['--ratio=' + v], ['--rat', v], ['-x' + v]):
            if v.startswith('-') and w[0] in ('-x', '--rat'):
                continue
            cases.append('H:f=0 arg:x,ratio:d0: arg:f:b0:init=0 %s exp:b0=0;d0=%s' % (A.argv_tok(w), c_hex(v)))
    n += len(cases)
    guard = 0
    while len(cases) < n and guard < n * 30:
        guard += 1
        args, cons = G.gen_config(rng, rng.range(2, 6))
        uses = G.gen_line(rng, args, cons)
        if not uses:
            continue
        exp = G.expected_store(args, uses)
        et = 'exp:' + ';'.join('%s=%s' % kv for kv in sorted(exp.items()))
        for _ in range(4):
            w = G.spell_with_ddash(rng, uses, args, True, stats)
            cases.append(G.case_line(args, cons, w, extra=(et,)))
        # distinct arguments in any order: same assignment, other orders (only where no rule is order-sensitive:
        # no requires / excludes on a used argument, no positional value, no multi-value argument that would take
        # a following free word)
        if (len(uses) >= 2 and len({id(u.arg) for u in uses}) == len(uses)
                and not any(u.arg.excl or u.arg.req or u.arg.positional or u.arg.multi for u in uses)
                and not any(a.positional for a in args)):
            for _ in range(2):
                us2 = list(uses)
                rng.shuffle(us2)
                w = G.spell(rng, us2, args, True, stats)
                stats['reordered'] = stats.get('reordered', 0) + 1
                cases.append(G.case_line(args, cons, w, extra=(et,)))
    return {'cases': cases, 'exhaustive': False,
            'scopes': ['%d cases: random configurations x valid lines x 4 spellings; productions used: %s' % (len(cases), stats)]}


spec_check = _c02.spec_check
nontrivial = _c02.nontrivial


def classify(case, ir, mr):
    return 'spelling'


def histogram_keys(case, mr):
    return [(mr or '?').split(' ')[0]]


CLAIM = {
    'text': 'Coq theorems (Properties_C01.v): for every configuration, every list of uses and EVERY legal spelling of '
            'it (inductive grammar: short/long key, abbreviation, "=", glued, separate, grouped flags ending in a '
            'value key; extended grammar xspell of ArgH/GenSim.v + HandlerSim.v: free values as words of their own - '
            'further values of a multi-value argument, positional argument -, "--" followed by values, and arguments '
            'with an optional value such as level counters: key alone, -vvv, --k=v, --k v, -k v) the model of the iterator + handler loop equals the spelling-free fold over the uses '
            '(simulation proof, unbounded); a use stores the converted value and leaves other destinations alone; '
            'exact keys and unambiguous abbreviations designate their argument in every definition order. Model tied '
            'to the code by correspondence on generated spellings with intended values as oracle.',
    'note': 'staged: "!" (inversion) and control characters are in the model and the tie, not in the spelling grammar '
            'of the theorem; destination kinds outside the model are listed in the '
            'evidence. trusted: Coq kernel, extraction, hand-written model validated by correspondence',
    'technique': 'Coq proof (simulation between argument-list iterator/handler loop and a fold over abstract uses, '
                 'induction over the spelling derivation) + model/implementation correspondence',
    'design_ref': 'DESIGN.md section 5, C01-C03',
}
