"""C16  Every delivered log message is rendered exactly as its format definition says."""
import itertools
import time

ID = 'C16'
HARNESS = {
    'name': 'c16', 'sources': ['harness/c16_harness.cpp'], 'sanitize': True,
    'repo_sources': [
        'library/log/formatting/format.cpp', 'library/log/formatting/creator.cpp',
        'library/log/detail/log_msg.cpp', 'library/log/detail/log_attributes_container.cpp',
        'library/log/log_attributes.cpp', 'library/log/detail/log_scoped_attribute.cpp',
        'library/log/detail/stream_log.cpp', 'library/log/detail/log_dest_stream.cpp',
        'library/log/detail/format_stream_default.cpp',
        'library/log/logging.cpp', 'library/log/detail/log.cpp', 'library/log/detail/i_log_dest.cpp',
        'library/log/filter/filters.cpp', 'library/log/filter/detail/log_filter_classes.cpp',
        'library/log/filter/detail/duplicate_policy_factory.cpp',
        'library/log/detail/log_data.cpp', 'library/log/detail/log_dest_data.cpp',
        'library/common/exception_base.cpp', 'library/common/extract_funcname.cpp',
    ],
}

RULE = ('a case is a script: Creator stream operations (new Creator with/without auto separator, width, left, format '
        'string, separator change, constant text, attribute, the 14 field manipulators and field(constant|attribute)), '
        'attribute operations (global add/remove, scoped attributes opened and closed innermost-first, LogAttributes '
        'objects with outer chains, add / remove by name / remove last) and messages (level, class, error number, '
        'line, time stamp with microseconds, pid, thread id, file, function, text, optional LogAttributes object). '
        'Each message is formatted by Format(def) into a fresh ostringstream and sent through Logging::log to a '
        'LogDestStream with the same formatter. Exhaustive: every field kind x widths {0,1,5,12,-2} x alignment, '
        'every option (width/left/format string) set before the first of two fields of every kind pair sample, '
        'attribute shadowing tables over {absent, empty, value} on message chain (depth 2) and global store. Random: '
        'definitions of 1..8 declarations, custom date formats, scopes nested up to depth 4, time stamps across day '
        'boundaries. Non-trivial: at least one message with a non-empty rendering.')
TRUSTED_BASE = [
    'model Log/FormatModel.v + Log/AttrModel.v written by hand from creator.cpp/.hpp, format.cpp, log_msg.hpp, '
    'log_defs.hpp, log_attributes_container.cpp, log_attributes.cpp, log_scoped_attribute.cpp; std::ostream padding '
    '(setw/left/right, width reset by every string output) and std::to_string are modelled library behaviour; tied '
    'by the correspondence check of this run on the complete text of every message',
    'strftime/localtime: Section variable of the model; the correspondence run instantiates it with the expansions '
    'computed by the C library through Python time.strftime(gmtime) (TZ=UTC, C locale), so a wrong table shows up as '
    'a disagreement',
    'extraction: ExtrOcamlBasic only; nat, N, Z, ascii, string stay extracted datatypes; ocaml/c16_driver.ml does '
    'parsing / printing only',
    'C++ harness harness/c16_harness.cpp (sets the private time stamp / pid / thread id / file / function members of '
    'LogMsg directly; g++ -O1, ASan+UBSan)',
]
ASSUMPTIONS = [
    'strings hold no NUL character; the destination stream is in its default state (fill blank, right adjusted, '
    'width 0) when Format::format is called',
    'time stamps are non-negative; custom date formats have a non-empty expansion; TZ=UTC, C locale in the tie',
    'scoped attributes are destroyed innermost first (C++ block scopes); single thread',
]

KINDS = ['co', 'da', 'ti', 'ms', 'us', 'dt', 'pi', 'th', 'ln', 'fu', 'fi', 'le', 'cl', 'er', 'tx', 'at']
DATE_KINDS = {'da': '%F', 'ti': '%T', 'dt': '%F %T'}
LEVELS = ['undefined', 'Fatal Error', 'Error', 'Warning', 'Info', 'Debug', 'Full Debug']
CLASSES = ['undefined', 'SysCall', 'Data', 'Communication', 'Application', 'Accounting', 'Operator Action']
TIMESTAMPS = [0, 86399, 86400, 951782399, 951782400, 1500000000, 1609459199, 1609459200, 1583020799]
DATE_FORMATS = ['%Y%m%d', '%H:%M', 'day %j of %Y', '%a %b %e', '%d.%m.%y %H-%M-%S', '%%', '%A, %d %B %Y', '%D %R', 'T']


def _hex(s):
    return s.encode('latin-1').hex() if s else '-'


def _unhex(h):
    return '' if h in ('-', '') else bytes.fromhex(h).decode('latin-1')


def _msg(attrs=None, level=4, cls=4, err=0, line=42, ts=1500000000, us=0, pid=4711, tid=140737353934656,
         file='main.cpp', func='main', text='hello world'):
    return 'M%s:%d:%d:%d:%d:%d:%d:%d:%d:%s:%s:%s' % ('-' if attrs is None else attrs, level, cls, err, line, ts, us,
                                                    pid, tid, _hex(file), _hex(func), _hex(text))


def _strftime(fmt, ts):
    return time.strftime(fmt, time.gmtime(ts))


def _finish(ops):
    """adds the strftime table for every (format, time stamp) the script can ask for"""
    fmts = set(DATE_KINDS.values())
    tss = set()
    for o in ops:
        if o[0] == 'f':
            f = _unhex(o[1:])
            if f:
                fmts.add(f)
        elif o[0] == 'M':
            tss.add(int(o[1:].split(':')[5]))
    table = ','.join('%s@%d=%s' % (_hex(f), ts, _hex(_strftime(f, ts))) for f in sorted(fmts) for ts in sorted(tss))
    return '%s %s' % (table or '-', ';'.join(ops) or '-')


LONG_FMT = 'x' * 120 + ' %Y-%m-%d'     # expands to 130 characters
CORPUS = [
    # a message attribute with an empty value must shadow the global one
    ['K~', 'a' + _hex('name'), 'GA%s:%s' % (_hex('name'), _hex('global')), 'LN-', 'LA0:%s:-' % _hex('name'), _msg(attrs=0)],
    # the same one level up the chain
    ['K~', 'c' + _hex('['), 'a' + _hex('n'), 'c' + _hex(']'), 'GA%s:%s' % (_hex('n'), _hex('g')), 'LN-',
     'LA0:%s:-' % _hex('n'), 'LN0', _msg(attrs=1)],
    # a custom date format that expands to 130 characters
    ['K~', 'f' + _hex(LONG_FMT), 'tda', _msg()],
    ['K~', 'f' + _hex('y' * 126), 'tti', _msg(), 'f' + _hex('y' * 127), 'tdt', _msg()],
    # the unit test examples
    ['K~', 'w20', 'l', 'tfi', 'c' + _hex(':'), 'w6', 'tln', _msg(file='filename.cpp', line=1234)],
    ['K' + _hex('|'), 'tda', 'tti', 'w8', 'tle', 'l', 'w14', 'tcl', 'ttx', 's~', 'c' + _hex('#'), 'ter',
     _msg(level=2, cls=1, err=13)],
]


def _rand_str(rng, pool):
    return rng.choice(pool)


def gen_cases(tier, rng):
    cases = [_finish(c) for c in CORPUS]
    # every kind x width x alignment, with a neighbour field that must not inherit anything
    for k in KINDS:
        for wd in (0, 1, 5, 12, 30, -2):
            for left in (False, True):
                ops = ['K~']
                if wd:
                    ops.append('w%d' % wd)
                if left:
                    ops.append('l')
                if k in DATE_KINDS:
                    pass
                if k == 'co':
                    ops.append('f' + _hex('const'))
                if k == 'at':
                    ops.append('f' + _hex('name'))
                ops += ['t' + k, 'c' + _hex('|'), 'ttx', 'GA%s:%s' % (_hex('name'), _hex('val'))]
                ops.append(_msg(ts=86399, us=7042, err=-3, line=7))
                cases.append(_finish(ops))
    # custom date formats whose expansion begins or ends with blanks (%e, %k, %l pad with a blank; literal blanks):
    # the field is exactly the expansion, in every width and alignment, for one- and two-digit days and hours
    for fmt in ('%e.%m.%Y', '%k:%M', '%l %p', ' %H', '  %d  ', '%e', '%t%H'):
        for ts in (86400 * 0 + 3600 * 5 + 61, 86400 * 8 + 3600 * 9, 86400 * 9 + 3600 * 10, 86400 * 29 + 3600 * 23 + 3599):
            for k in ('da', 'ti', 'dt'):
                for opt in ([], ['w14'], ['w14', 'l'], ['w2']):
                    ops = ['K~', 'c' + _hex('[')] + opt + ['f' + _hex(fmt), 't' + k, 'c' + _hex(']'), _msg(ts=ts, us=1)]
                    cases.append(_finish(ops))
    # option reset: each option before the first field only, all kind pairs of a sample
    sample = ['da', 'ms', 'pi', 'le', 'tx', 'at', 'co', 'dt']
    for k1 in KINDS:
        for k2 in sample:
            for opt in (['w9'], ['l', 'w9'], ['f' + _hex('%H.%M')], ['w7', 'l', 'f' + _hex('%j')]):
                for sep in ('~', '-', _hex(', ')):
                    ops = ['K' + sep] + opt + ['t' + k1, 't' + k2, 'GA%s:%s' % (_hex('%H.%M'), _hex('A1')),
                                               'GA%s:%s' % (_hex('%j'), _hex('A2')), _msg(ts=951782399, us=999999)]
                    cases.append(_finish(ops))
    # attribute shadowing table: inner object, outer object, global store x {absent, empty, value}
    vals = [None, '', 'v']
    for vi, vo, vg in itertools.product(vals, repeat=3):
        for second in (None, '', 'w'):      # a second, newer definition in the inner object
            ops = ['K~', 'c' + _hex('<'), 'a' + _hex('n'), 'c' + _hex('>')]
            if vg is not None:
                ops.append('GA%s:%s' % (_hex('n'), _hex('G' + vg if vg else '')))
            ops.append('LN-')
            if vo is not None:
                ops.append('LA0:%s:%s' % (_hex('n'), _hex('O' + vo if vo else '')))
            ops.append('LN0')
            if vi is not None:
                ops.append('LA1:%s:%s' % (_hex('n'), _hex('I' + vi if vi else '')))
            if second is not None:
                ops.append('LA1:%s:%s' % (_hex('n'), _hex('S' + second if second else '')))
            ops += [_msg(attrs=1), _msg(attrs=0), _msg()]
            if second is not None:
                ops += ['LR1:' + _hex('n'), _msg(attrs=1), 'LP1', _msg(attrs=1)]
            cases.append(_finish(ops))
    # scoped attributes: nestings up to depth 4 over two names
    names = ['a', 'b']
    for depth in range(1, 5):
        for ns in itertools.product(names, repeat=depth):
            ops = ['K' + _hex('/'), 'a' + _hex('a'), 'a' + _hex('b'), 'GA%s:%s' % (_hex('a'), _hex('ga')), _msg()]
            for i, n in enumerate(ns):
                ops += ['SO%s:%s' % (_hex(n), _hex('%s%d' % (n, i))), _msg()]
            for _ in ns:
                ops += ['SC', _msg()]
            cases.append(_finish(ops))
    # random scripts
    nrand = 6000 if tier == "quick" else 60000
    anames = ['a', 'b', 'req', '']
    avals = ['1', '22', '', 'x y', 'value']
    texts = ['', 'hello', 'multi word text', 'x']
    seps = ['~', '-', _hex('|'), _hex(', '), _hex(' ')]
    for _ in range(nrand):
        ops = ['K' + rng.choice(seps)]
        nobj = 0
        depth = 0
        nsteps = rng.range(3, 14)
        for _ in range(nsteps):
            r = rng.below(20)
            if r < 8:      # a declaration
                if rng.chance(1, 3):
                    ops.append('w%d' % (rng.range(0, 12) if not rng.chance(1, 10) else -rng.range(1, 3)))
                if rng.chance(1, 4):
                    ops.append('l')
                if rng.chance(1, 3):
                    ops.append('f' + _hex(rng.choice(DATE_FORMATS)))
                if rng.chance(1, 8):
                    ops.append('s' + rng.choice(seps))
                if rng.chance(1, 10):
                    ops.append('w%d' % rng.range(0, 12))     # overwritten width
                k = rng.below(18)
                if k == 16:
                    ops.append('c' + _hex(rng.choice(['-', ' ', '[', 'text: ', ''])))
                elif k == 17:
                    ops.append('a' + _hex(rng.choice(anames)))
                else:
                    ops.append('t' + KINDS[k])
            elif r < 10:
                ops.append('GA%s:%s' % (_hex(rng.choice(anames)), _hex(rng.choice(avals))))
            elif r == 10:
                ops.append('GR' + _hex(rng.choice(anames)))
            elif r < 13 and depth < 4:
                ops.append('SO%s:%s' % (_hex(rng.choice(anames)), _hex(rng.choice(avals))))
                depth += 1
            elif r == 13 and depth > 0:
                ops.append('SC')
                depth -= 1
            elif r == 14 and nobj < 4:
                ops.append('LN' + ('-' if nobj == 0 or rng.chance(1, 3) else str(rng.below(nobj))))
                nobj += 1
            elif r < 17 and nobj > 0:
                ops.append('LA%d:%s:%s' % (rng.below(nobj), _hex(rng.choice(anames)), _hex(rng.choice(avals))))
            elif r == 17 and nobj > 0:
                ops.append(rng.choice(['LR%d:%s' % (rng.below(nobj), _hex(rng.choice(anames))), 'LP%d' % rng.below(nobj)]))
            elif r == 18:
                ops.append('K' + rng.choice(seps))
            else:
                ops.append(_rand_msg(rng, nobj, texts))
        ops.append(_rand_msg(rng, nobj, texts))
        cases.append(_finish(ops))
    return {'cases': cases, 'exhaustive': True,
            'scopes': ['exhaustive: 16 field kinds x widths {0,1,5,12,30,-2} x alignment; option reset over 16 x 8 kind '
                       'pairs x 4 option sets x 3 separators; attribute shadowing {absent,empty,value}^3 x newer '
                       'definition; scoped attributes nested to depth 4 over 2 names',
                       'random: %d scripts of 3..14 steps (declarations, attribute operations, scopes to depth 4, '
                       'LogAttributes chains, messages across day boundaries)' % nrand]}


def _rand_msg(rng, nobj, texts):
    return _msg(attrs=None if nobj == 0 or rng.chance(1, 3) else rng.below(nobj),
                level=rng.range(0, 6), cls=rng.range(0, 6), err=rng.choice([0, 1, 13, -5, 5000]),
                line=rng.choice([0, 7, 1234, 99999]), ts=rng.choice(TIMESTAMPS),
                us=rng.choice([0, 1, 999, 1000, 123456, 999999]), pid=rng.choice([1, 4711, 99999]),
                tid=rng.choice([1, 255, 140737353934656]), file=rng.choice(['main.cpp', 'x.hpp', '']),
                func=rng.choice(['main', 'Class::method', '']), text=rng.choice(texts))


# ---------------------------------------------------------------------------
# the property restated on the observable result (search / triage only)

def _reference(case, empty_is_absent=False, long_dates=None):
    """expected text of every message of the script, by the property's reading
    (empty_is_absent: the lookup of the pinned code, used to label a mismatch only;
    long_dates: list collecting the messages with a date expansion of 127+ characters)"""
    table_s, ops_s = case.split(' ')
    table = {}
    if table_s != '-':
        for e in table_s.split(','):
            k, v = e.split('=')
            table[k] = _unhex(v)
    sep, fmt, width, left = '', '', 0, False
    fields = []
    glob = []              # (name, value), oldest first
    scopes = []
    objs = []              # [entries, outer]
    outs = []

    def add(kind, const):
        nonlocal fmt, width, left
        if sep and fields:
            fields.append(('co', sep, 0, False))
        fields.append((kind, const, width, left))
        fmt, width, left = '', 0, False

    def find(entries, n):
        for k, v in reversed(entries):
            if k == n:
                return None if (empty_is_absent and v == '') else v
        return None

    def remove(entries, n):
        for i in range(len(entries) - 1, -1, -1):
            if entries[i][0] == n:
                del entries[i]
                return

    for o in ops_s.split(';'):
        if not o or o == '-':
            continue
        a = o[1:]
        c = o[0]
        if c == 'K':
            sep, fmt, width, left = ('' if a == '~' else _unhex(a)), '', 0, False
        elif c == 'w':
            width = int(a)
        elif c == 'l':
            left = True
        elif c == 'f':
            fmt = _unhex(a)
        elif c == 's':
            sep = '' if a == '~' else _unhex(a)
        elif c == 'c':
            add('co', _unhex(a))
        elif c == 'a':
            add('at', _unhex(a))
        elif c == 't':
            add(a, fmt)
        elif c == 'G':
            f = a[1:].split(':')
            if a[0] == 'A':
                glob.append((_unhex(f[0]), _unhex(f[1])))
            else:
                remove(glob, _unhex(f[0]))
        elif c == 'S':
            if a[0] == 'O':
                f = a[1:].split(':')
                glob.append((_unhex(f[0]), _unhex(f[1])))
                scopes.append(_unhex(f[0]))
            elif scopes:
                remove(glob, scopes.pop())
        elif c == 'L':
            f = a[1:].split(':')
            if a[0] == 'N':
                objs.append([[], None if f[0] == '-' else int(f[0])])
            else:
                i = int(f[0])
                if i < len(objs):
                    if a[0] == 'A':
                        objs[i][0].append((_unhex(f[1]), _unhex(f[2])))
                    elif a[0] == 'R':
                        remove(objs[i][0], _unhex(f[1]))
                    elif objs[i][0]:
                        objs[i][0].pop()
        elif c == 'M':
            f = a.split(':')
            lvl, cls, err, line, ts, us, pid, tid = (int(x) for x in f[1:9])
            total = ts * 1000000 + us
            text = ''
            for kind, const, wd, lf in fields:
                if kind == 'co':
                    s = const
                elif kind in DATE_KINDS:
                    s = table.get('%s@%d' % (_hex(const or DATE_KINDS[kind]), total // 1000000), '??')
                    if long_dates is not None and len(s) >= 127:
                        long_dates.append(len(outs))
                elif kind == 'ms':
                    s = '%03d' % (total // 1000 % 1000)
                elif kind == 'us':
                    s = '%06d' % (total % 1000000)
                elif kind == 'pi':
                    s = str(pid)
                elif kind == 'th':
                    s = hex(tid)
                elif kind == 'ln':
                    s = str(line)
                elif kind == 'fu':
                    s = _unhex(f[10])
                elif kind == 'fi':
                    s = _unhex(f[9])
                elif kind == 'le':
                    s = LEVELS[lvl] if 0 <= lvl < 7 else 'undefined'
                elif kind == 'cl':
                    s = CLASSES[cls] if 0 <= cls < 7 else 'undefined'
                elif kind == 'er':
                    s = str(err)
                elif kind == 'tx':
                    s = _unhex(f[11])
                else:
                    s = None
                    i = None if f[0] == '-' else int(f[0])
                    seen = 0
                    while i is not None and i < len(objs) and seen <= len(objs):
                        s = find(objs[i][0], const)
                        if s is not None:
                            break
                        i = objs[i][1]
                        seen += 1
                    if s is None:
                        s = find(glob, const)
                    if s is None:
                        s = ''
                if wd > len(s):
                    s = s + ' ' * (wd - len(s)) if lf else ' ' * (wd - len(s)) + s
                text += s
            outs.append(text)
    return outs


def _violation(case, ir):
    if ir is None:
        return 'crash', 'no result from the implementation'
    if 'CRASH' in ir:
        return _label(case, None, None, 'crash'), 'memory error / abort in the implementation: ' + ir
    prop = ir.split(' ##')[0].strip()
    toks = [] if prop == 'none' else prop.split(' ')
    want = _reference(case)
    if len(toks) != len(want):
        return 'render', '%d results for %d messages' % (len(toks), len(want))
    for k, (t, w) in enumerate(zip(toks, want)):
        if '!via-log:' in t:
            return 'render', 'message %d: text through Logging::log differs from Format::format: %s' % (k, t)
        if t.startswith('E:') or t.startswith('F:') or t == 'badmsg':
            return _label(case, k, None), 'message %d: %s' % (k, t)
        try:
            got = _unhex(t)
        except ValueError:
            return 'render', 'message %d: unparsable result %s' % (k, t[:40])
        if got != w:
            return _label(case, k, got), 'message %d rendered as %r, the definition says %r' % (k, got[:200], w[:200])
    return None


def _label(case, k, got, default='render'):
    """which finding explains the mismatch in message k (None: the run died somewhere)"""
    long_dates = []
    pinned = _reference(case, empty_is_absent=True, long_dates=long_dates)
    if (k in long_dates) or (k is None and long_dates):
        return 'strftime-buffer'
    if k is not None and got is not None and k < len(pinned) and got == pinned[k]:
        return 'attr-empty-value'
    return default


def spec_check(case, ir, mr):
    v = _violation(case, ir)
    return v[1] if v else None


def classify(case, ir, mr):
    v = _violation(case, ir)
    return v[0] if v else 'unclassified'


def nontrivial(case, mr):
    prop = mr.split(' ##')[0].strip()
    return any(t not in ('-', '') and not t.startswith('F:') for t in prop.split(' '))


def histogram_keys(case, mr):
    ops = case.split(' ')[1].split(';')
    keys = []
    if any(o.startswith('SO') for o in ops):
        keys.append('scoped')
    if any(o.startswith('LN') for o in ops):
        keys.append('msg-attributes')
    if any(o[0] == 'f' for o in ops if o):
        keys.append('format-string')
    if any(o[0] == 'w' for o in ops if o):
        keys.append('width')
    keys.append('messages=%d' % min(4, sum(1 for o in ops if o.startswith('M'))))
    return keys


def shrink(case):
    table_s, ops_s = case.split(' ')
    ops = ops_s.split(';')
    for i in range(len(ops)):
        if ops[i].startswith('LN'):
            continue      # object numbers must stay valid
        rest = ops[:i] + ops[i + 1:]
        if any(o.startswith('M') for o in rest):
            yield _finish(rest)


CLAIM = {
    'text': 'Coq theorems (Properties_C16.v) over an executable model of formatting::Creator / Format and the log '
            'attribute stores: for every stream expression the definition built is the declared field sequence '
            '(options apply to the next field only, separators exactly between fields); for every definition, message, '
            'attribute state and strftime the text is the concatenation in definition order of the field contents, '
            'each padded to its width on the requested side and never cut; attribute fields show the newest '
            'definition in the message object, its outer objects, then the global store (also for empty values); '
            'well-nested scoped attributes leave the attribute state as found. Two defects of the pinned code are '
            'proved on copies of the old functions (_refuted/_partial) and repaired by fixes/C16-1, C16-2. The model '
            'is tied to the code by a correspondence check on the text of every message (ASan+UBSan build).',
    'note': 'trusted: Coq kernel, extraction (ExtrOcamlBasic), the hand-written model incl. the modelled std::ostream '
            'padding and std::to_string behaviour (validated by correspondence on every run); strftime/localtime are a '
            'parameter of the theorems, instantiated in the tie by the C library (TZ=UTC, C locale); the harness writes '
            'the private members of LogMsg (time stamp, pid, thread id, file, function) directly',
    'technique': 'Coq proof by induction over declarations / fields / scope nesting; model/implementation '
                 'correspondence with exhaustive small tables (field kinds x widths x alignment, attribute shadowing '
                 '{absent,empty,value}^3, scope nestings to depth 4) and seeded random scripts',
    'design_ref': 'DESIGN.md section 5, C16; section 8 row 30',
}
