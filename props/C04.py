"""C04  Argument evaluation is memory-safe for every argument vector and source."""
import os
import sys
sys.path.insert(0, os.path.dirname(__file__))
import args_common as A
import args_gen as G
import C02 as _c02

ID = 'C04'
MODEL_ID = 'ARGS'
HARNESS = A.HARNESS
INTERNAL_COMPARABLE = False   # behind '##' the harness prints exception class / texts, the driver a note: never equal
RULE = ('a case = configuration (random, of the modelled destination kinds) + handler flags (none / argument file / '
        'environment variable / both / no abbreviations) + program name of length 0..40 (with and without slashes) + an '
        'argument vector that is either byte-level fuzz (all byte values 1..255, empty words, words of only dashes, '
        '"=", brackets, "!"), or a grammar-aware mutation of a valid line (chopped words, inserted "--", "-", "=", '
        'control characters, doubled dashes, very long words); plus container destinations given more values than they hold '
        '(judged by the sanitizers only). The harness is built with ASan+UBSan; observable: '
        'normal return / exception / sanitizer report. Non-trivial: at least one word.')
TRUSTED_BASE = _c02.TRUSTED_BASE + [
    'g++ 12 AddressSanitizer + UndefinedBehaviorSanitizer (bounds, null, alignment, object-size; without vptr and '
    'signed-integer-overflow) as the observer of invalid memory accesses in the real code; argv words are separately '
    'allocated exact-size heap blocks']
ASSUMPTIONS = ['argc >= 1 and argv[0..argc-1] are valid C strings (the calling convention of main)',
               'PARTIAL: the theorems cover the index/size logic of the model (iterator positions, loop termination, '
               'hand-sized buffers); std::string, Boost, iostream internals and the allocator are observed only '
               'through the sanitizer run']

SPECIAL = ['-', '--', '---', '=', '==', '-=', '--=', '--=x', '(', ')', '!', '-(', '-!', '--!', '', ' ', '-a-', '-a-b=c',
           '--a', '--a=', '--a==', '-=-', '!!', '()', '-,', '--,', ',', '-a,b', '--a,b']


def _progname(rng):
    n = rng.range(0, 40)
    s = ''.join(rng.choice('abcXYZ09._/') for _ in range(n))
    return 'prog:' + A.hx(s)


def _fuzz_word(rng):
    r = rng.below(10)
    if r < 3:
        return rng.choice(SPECIAL)
    if r < 6:
        n = rng.range(0, 8)
        return ''.join(chr(rng.range(1, 255)) for _ in range(n))
    if r < 8:
        n = rng.range(1, 6)
        return ''.join(rng.choice('-=a(!)b,;: ') for _ in range(n))
    if r == 8:
        return '-' + ''.join(rng.choice('abcnvxyz-=') for _ in range(rng.range(1, 6)))
    return rng.choice(['-', '--']) + 'x' * rng.range(100, 400)


def _mutate_words(rng, words):
    w = list(words)
    for _ in range(rng.range(1, 3)):
        r = rng.below(8)
        if not w or r == 0:
            w.insert(rng.below(len(w) + 1), _fuzz_word(rng))
        elif r == 1:
            i = rng.below(len(w)); w[i] = w[i][:rng.below(len(w[i]) + 1)]
        elif r == 2:
            i = rng.below(len(w)); w[i] = w[i] + rng.choice(['=', '-', '==x', '('])
        elif r == 3:
            i = rng.below(len(w)); w[i] = '-' + w[i]
        elif r == 4:
            w.insert(rng.below(len(w) + 1), '--')
        elif r == 5:
            del w[rng.below(len(w))]
        elif r == 6:
            i = rng.below(len(w)); w[i] = w[i].replace('=', '')
        else:
            i = rng.below(len(w)); j = rng.below(len(w)); w[i], w[j] = w[j], w[i]
    return w


def gen_cases(tier, rng):
    n = 2500 if tier == 'quick' else 25000
    cases = []
    # corpus: program-name copy of the pinned tree (any name, with the file / environment source switched on)
    for L in range(0, 41):
        nm = 'p' * L
        cases.append('H:f=16 prog:%s arg:i:i0: argv:2d69,35 kind:progname' % A.hx(nm))
        cases.append('H:f=32 prog:%s arg:i:i0: argv:2d69,35 kind:progname' % A.hx('/' * (L % 3) + nm))
    # long program names (path components included) with the sources that copy the program name
    for L in (100, 254, 255, 256, 257, 300, 511, 512, 1000, 4100):
        for pre in ('', 'some/dir/'):
            nm = pre + 'q' * (L - len(pre))
            cases.append('H:f=16 prog:%s arg:i:i0: argv:2d69,35 kind:progname' % A.hx(nm))
            cases.append('H:f=32 prog:%s arg:i:i0: argv:2d69,35 kind:progname' % A.hx(nm))
    # fixed-size and other container destinations (outside the handler model: the driver answers "unsupported",
    # the case is judged by the sanitizers only): more values than the destination holds, in every option
    # combination that touches the capacity test, in one list, over several uses and as free values
    seqs = [['1', '2', '3', '4', '5'], ['6', '5', '5', '4', '3', '2', '1'], ['1', '1', '2', '2', '3', '3', '4', '4', '5'],
            ['0', '15', '16', '17'], ['9', '8', '7']]
    for kind in ('ai', 'ri', 'ti', 'bs', 'vb', 'ms', 'si', 'qi'):
        for opts in ([], ['uniq'], ['uniq!'], ['multi'], ['uniq', 'multi'], ['sort'], ['sort', 'uniq']):
            for seq in seqs:
                vals = [v + ',1' for v in seq] if kind == 'ms' else seq
                sep = ';' if kind == 'ms' else ','
                for form in range(3):
                    if form == 0:
                        w = ['-c', sep.join(vals)]
                    elif form == 1:
                        w = [x for v in vals for x in ('-c', v)]
                    else:
                        w = ['-c', vals[0]] + vals[1:]
                    cases.append('H:f=0 arg:c,cont:%s0:%s %s kind:container-overflow'
                                 % (kind, '/'.join(opts), A.argv_tok(w)))
    # ... with the cardinality of the argument removed or replaced (fixed-size destinations install one of their own)
    for kind in ('ai', 'ri', 'ti', 'bs', 'vb', 'ms', 'si', 'qi', 'vi'):
        for card in ('card=none', 'card=max~2', 'card=exact~3', 'card=range~1~2'):
            for seq in (['1', '2', '3'], ['7'], ['1', '2', '3', '4', '5', '6']):
                vals = [v + ',1' for v in seq] if kind == 'ms' else (['1', 'x', '3'] + seq[3:] if kind == 'ti' and len(seq) > 1 else seq)
                sep = ';' if kind == 'ms' else ','
                for form in range(3):
                    w = ['-c', sep.join(vals)] if form == 0 else ([x for v in vals for x in ('-c', v)] if form == 1 else ['-c', vals[0]] + vals[1:])
                    for extra in ([], ['multi']):
                        cases.append('H:f=0 arg:c,cont:%s0:%s %s kind:container-overflow'
                                     % (kind, '/'.join([card] + extra), A.argv_tok(w)))
    # position destinations (vector<bool>, bitset) with huge positions: "position + 1" and the growth computation
    # must not wrap (found on the unchanged tree: -v 18446744073709551615 wrote outside the vector; repaired)
    for v in ('18446744073709551615', '18446744073709551614', '9223372036854775808', '9223372036854775807', '1000000', '100000', '-1',
              '00018446744073709551615', '18446744073709551616', '99999999999999999999'):
        for kind in ('vb', 'bs'):
            for opts in ([], ['fmt=lower']):
                cases.append('H:f=0 arg:c,cont:%s0:%s %s kind:container-overflow' % (kind, '/'.join(opts), A.argv_tok(['-c', v])))
                cases.append('H:f=0 arg:c,cont:%s0:%s %s kind:container-overflow' % (kind, '/'.join(opts), A.argv_tok(['-c', '3,' + v])))
    # (a position that is representable but needs more memory than there is ends the instrumented run in the
    # allocator of the sanitizer - counted as "resource limit", no verdict: two cases only)
    cases.append('H:f=0 arg:c,cont:vb0: %s kind:container-overflow' % A.argv_tok(['-c', '1000000000000']))
    cases.append('H:f=0 arg:c,cont:vb0: %s kind:container-overflow' % A.argv_tok(['-c', '4611686018427387904']))
    # negative, huge and malformed positions for bit-set destinations of one word (16 bits) and of several words
    # (200 bits, a heap block of its own), in every spelling that lets a leading dash through
    for kind in ('bs', 'bsl', 'vb'):
        for w in (['--bits=-1'], ['-b-1'], ['-b', '2,-1'], ['-b', '7', '--', '-3'], ['--bits=-64'], ['--bits=-65'], ['-b-200'], ['--bits=199'],
                  ['--bits=200'], ['--bits=201'], ['-b', '1,199,200'], ['--bits=-9223372036854775808'], ['--bits=-2147483649'], ['--bits=4294967295'],
                  ['--bits=2147483648'], ['-b', '3', '-b-1']):
            if kind == 'vb' and any(x in ('--bits=4294967295', '--bits=2147483648') for x in w):
                continue          # (a valid position: the instrumented resize to 2^31.. bits takes minutes)
            for opts in ([], ['multi'], ['unset'], ['fmt=lower']):
                cases.append('H:f=0 arg:b,bits:%s0:%s %s kind:container-overflow' % (kind, '/'.join(opts), A.argv_tok(w)))
    # every short word over the characters that steer the argument iterator ("-", "=", a flag, a value argument, a
    # character nobody knows), alone and followed by a further word: the positions the iterator remembers inside
    # a word (value behind "=", rest of a group of flags) must stay inside the word
    import itertools as _it
    for L in range(1, 6 if tier == 'quick' else 7):
        for t in _it.product('-=axq', repeat=L):
            w = '-' + ''.join(t)
            if tier == 'quick' and L == 5 and (sum(map(ord, w)) % 3):
                continue
            for tail in ([], ['v']):
                cases.append('H:f=0 arg:a:b0:init=0 arg:x,xlong:i0: arg:-:s0: %s kind:iterator-words' % A.argv_tok([w] + tail))
    for w in ('-a-x=', '-a--xlong=', '-a-=', '-a--=', '-aa-x=', '-a-x=5', '-a--xlong=5', '--xlong=', '--=', '-=', '-a=', '-x=', '-ax='):
        for tail in ([], ['v'], ['-a'], ['--']):
            cases.append('H:f=0 arg:a:b0:init=0 arg:x,xlong:i0: %s kind:iterator-words' % A.argv_tok([w] + tail))
            cases.append('H:f=0 arg:a:b0:init=0 arg:x,xlong:s0: arg:-:s1: %s kind:iterator-words' % A.argv_tok([w] + tail))
    # range-string destinations (bitset of 1024 positions in a heap block of its own, vector): positions at and
    # beyond the size, ranges across the end, huge values, malformed ranges (sanitizers only)
    for v in ('0', '1023', '1024', '1025', '1020-1030', '3,5000', '1087', '1088', '2048', '65536', '4294967296', '999999999999999999', '5-3', '1-', '-1', '1--2', '1,,2', '1-3[2]', '1-10{3,4}', '', 'a', '1000-1100[10]'):
        cases.append('H:f=0 arg:r,range:rb0: %s kind:range-dest' % A.argv_tok(['-r', v]))
        cases.append('H:f=0 arg:r,range:rb0: %s kind:range-dest' % A.argv_tok(['--range=' + v]))
        cases.append('H:f=0 arg:r,range:rv0: %s kind:range-dest' % A.argv_tok(['-r', v]))
    cases.append('H:f=16 prog:%s arg:r:rb0: file:%s argv:- kind:range-dest' % (A.hx('prb'), A.hx('-r 1024\n')))
    cases.append('H:f=32 prog:%s arg:r:rb0: env:%s argv:- kind:range-dest' % (A.hx('prb'), A.hx('-r 1020-1030')))
    # long value lists for destinations with formatters (general and per position): the table of formatters is
    # addressed by the position of the value
    long_ = ','.join('v%02d' % k for k in range(24))
    longi = ','.join(str(k) for k in range(24))
    for kind, lst in (('vs', long_), ('vi', longi), ('ai', longi), ('ri', longi), ('ti', '1,x,2,3,4,5,6,7,8,9,10,11,12'), ('si', longi), ('li', longi)):
        for opts in (['fmt=upper'], ['fmtpos=0~upper'], ['fmtpos=2~lower'], ['fmt=lower', 'fmtpos=1~upper'], ['fmtpos=0~upper', 'fmtpos=3~upper']):
            for form in (0, 1):
                vals = lst.split(',')
                w = ['-c', lst] if form == 0 else [x for v in vals for x in ('-c', v)]
                cases.append('H:f=0 arg:c,cont:%s0:%s %s kind:long-list' % (kind, '/'.join(opts), A.argv_tok(w)))
    # sub-group arguments (outside the handler model, judged by the sanitizers): the main handler passes the words
    # behind the sub-group key to another handler and advances the argument iterator itself - the sub-group key as
    # the last word, followed by known / unknown / fuzzed words, inside a group of short flags, given twice
    base = 'H:f=0 arg:v:b0:init=0 arg:n,number:i0: S:o,output:f=0 arg:f,file:s0: arg:q:b1:init=0 '
    sublines = [['-o'], ['--output'], ['-v', '-o'], ['-vo'], ['-o', '-f', 'x'], ['-o', '-q'], ['-o', '-q', '-v'],
                ['-o', '-f'], ['-o', '-o'], ['-vo', '-qf', 'x'], ['-n', '5', '-o'], ['-o', '-n', '5'], ['-o', '--file=a', '-v'],
                ['-o', '-x'], ['-o', 'free'], ['-o', '--'], ['-o', '-'], ['--out'], ['-o', '-f', 'x', '-o', '-q']]
    for w in sublines:
        cases.append(base + A.argv_tok(w) + ' kind:sub-group')
    for _ in range(60 if tier == 'quick' else 600):
        w = [rng.choice(['-o', '--output', '-vo', '-v', '-q', '-f', 'x', '-n', '5', '--', '-', '-oq', '-of', '--file=y'])
             for _ in range(rng.range(1, 5))]
        if rng.chance(1, 3):
            w.insert(rng.below(len(w) + 1), _fuzz_word(rng))
        cases.append(base + A.argv_tok(w) + ' kind:sub-group')
    # an argument in value mode "command" (takes the rest of the command line as its value) in every position,
    # also as the very last word and through the file / environment sources (outside the model: sanitizers only)
    cbase = 'arg:v:b0:init=0 arg:n:i0: arg:x,exec:s0:vm=cmd '
    for w in (['-x'], ['--exec'], ['-v', '-x'], ['-vx'], ['-x', 'a', 'b'], ['-n', '5', '-x'], ['-x', '-v'], ['-x', '--', 'q'],
              ['--exec=ls', '-l'], ['-x', ''], ['-v', '--exe']):
        cases.append('H:f=0 ' + cbase + A.argv_tok(w) + ' kind:command-mode')
    for content in ('-v -x', '-x', '-n 7 -x\n-v', '-x a b\n'):
        cases.append('H:f=16 prog:%s %sfile:%s argv:- kind:command-mode' % (A.hx('pcm'), cbase, A.hx(content)))
        cases.append('H:f=32 prog:%s %senv:%s argv:2d76 kind:command-mode' % (A.hx('pcm'), cbase, A.hx(content.replace('\n', ' '))))
    # strings that end inside an escape or a quotation, through every way a string reaches the splitter
    for head in ('', 'a', '-i 5', '-i 5 ', "'", '"a', '-n "x'):
        for tail in ('\\', '\\\\', "'\\", '"\\', ' \\', 'a\\', "'", '"', "\\'", '\\"'):
            txt = head + tail
            cases.append('split:%s kind:string-end' % A.hx(txt))
            cases.append('H:f=0 arg:i:i0: arg:n:s0: line:%s kind:string-end' % A.hx(txt))
            cases.append('H:f=32 prog:%s arg:i:i0: arg:n:s0: env:%s argv:- kind:string-end' % (A.hx('pse'), A.hx(txt)))
            cases.append('H:f=16 prog:%s arg:i:i0: arg:n:s0: file:%s argv:- kind:string-end' % (A.hx('pse'), A.hx(txt + '\n-i 6')))
    # --help-arg / --help-arg-full with every kind of value: ordinary argument, sub-group, paths with slashes,
    # unknown keys (usage output continues: hfUsageCont; outside the model, sanitizers only)
    hb = 'H:f=%d arg:l,list:vi0: arg:n,number:i0: arg:f:b0:init=0 S:o,output:f=%d arg:q,quiet:b1:init=0 arg:file:s0: ' % (0x4 | 0x8 | 0x8000, 0x8000)
    for opt in ('--help-arg', '--help-arg-full'):
        for v in ('l', 'list', '-l', '--number', 'o', 'o/q', 'output/file', 'o/x', 'l/f', '--number/x', 'n/', '/n', '/', 'o/q/r',
                  'x', '', 'o/', 'lis', 'f/f', '-o/-q'):
            cases.append(hb + A.argv_tok([opt + '=' + v]) + ' kind:help-arg')
            cases.append(hb + A.argv_tok([opt, v]) + ' kind:help-arg')
    # argument files that name argument files: a file that names itself, a cycle of two, chains at the nesting limit
    af = 'H:f=0 arg:i:i0: arg:arg-file:af0: '
    cases.append(af + 'xfile:66312e7061:%s argv:2d2d6172672d66696c65,66312e7061 kind:arg-file-nesting' % A.hx('--arg-file f1.pa\n'))
    cases.append(af + 'xfile:66312e7061:%s xfile:66322e7061:%s argv:2d2d6172672d66696c65,66312e7061 kind:arg-file-nesting'
                 % (A.hx('-i 1\n--arg-file f2.pa\n'), A.hx('--arg-file=f1.pa')))
    for depth in (2, 9, 10, 11, 12):
        toks = []
        for k in range(1, depth + 1):
            content = ('--arg-file f%d.pa\n' % (k + 1)) if k < depth else '-i 5\n'
            toks.append('xfile:%s:%s' % (A.hx('f%d.pa' % k), A.hx(content)))
        cases.append(af + ' '.join(toks) + ' argv:2d2d6172672d66696c65,66312e7061 kind:arg-file-nesting')
        cases.append('H:f=16 prog:%s arg:i:i0: arg:arg-file:af0: file:%s %s argv:- kind:arg-file-nesting'
                     % (A.hx('pnest'), A.hx('--arg-file f1.pa\n'), ' '.join(toks)))
    # ... and the depth must survive the return from a nested file: a file that first names a harmless file and
    # then itself (directly, through a second file, after two harmless ones)
    plain = 'xfile:%s:%s ' % (A.hx('plain.pa'), A.hx('-i 3\n'))
    for content in ('--arg-file plain.pa\n--arg-file f1.pa\n', '--arg-file plain.pa\n--arg-file plain.pa\n--arg-file=f1.pa\n',
                    '-i 1\n--arg-file plain.pa\n-i 2\n--arg-file f1.pa\n'):
        cases.append(af + plain + 'xfile:66312e7061:%s argv:2d2d6172672d66696c65,66312e7061 kind:arg-file-nesting' % A.hx(content))
        cases.append('H:f=16 prog:%s arg:i:i0: arg:arg-file:af0: file:%s %sxfile:66312e7061:%s argv:- kind:arg-file-nesting'
                     % (A.hx('pnest'), A.hx('--arg-file f1.pa\n'), plain, A.hx(content)))
    cases.append(af + plain + 'xfile:66312e7061:%s xfile:66322e7061:%s argv:2d2d6172672d66696c65,66312e7061 kind:arg-file-nesting'
                 % (A.hx('--arg-file f2.pa\n'), A.hx('--arg-file plain.pa\n--arg-file f1.pa\n')))
    cases.append(af + plain + 'xfile:66312e7061:%s argv:2d2d6172672d66696c65,706c61696e2e7061,2d2d6172672d66696c65,66312e7061 kind:arg-file-nesting'
                 % A.hx('--arg-file plain.pa\n--arg-file f1.pa\n'))
    # lines of blanks / tabs only, empty lines and indented comments in a file, behind short and behind long lines
    # (the line buffer is then on the heap)
    longline = '-i 5 ' + '--verbose ' * 4
    for body in ('   \n', '\t\n', ' \t \n', '\n', '  # indented comment\n', ' \n#\n \n', '     ', '\t'):
        for pre in ('', '-i 1\n', longline + '\n', longline + '\n-i 2\n'):
            for post in ('', '-i 9\n'):
                content = pre + body + post
                cases.append('H:f=0 arg:i:i0:card=none arg:verbose:b0:init=0/card=none arg:arg-file:af0:card=none xfile:%s:%s argv:2d2d6172672d66696c65,66312e7061 kind:file-blank-lines'
                             % (A.hx('f1.pa'), A.hx(content)))
                cases.append('H:f=16 prog:%s arg:i:i0:card=none arg:verbose:b0:init=0/card=none file:%s argv:- kind:file-blank-lines'
                             % (A.hx('pblank'), A.hx(content)))
    # a directory where an argument file is expected: nothing to read, the evaluation must come back
    cases.append('H:f=0 arg:v:b0:init=0 arg:arg-file:af0: xdir:%s argv:2d2d6172672d66696c65,6431 kind:directory-as-file' % A.hx('d1'))
    cases.append('H:f=0 arg:v:b0:init=0 arg:arg-file:af0: xdir:%s argv:2d2d6172672d66696c653d6431,2d76 kind:directory-as-file' % A.hx('d1'))
    cases.append('H:f=0 arg:v:b0:init=0 arg:arg-file:af0: xdir:2e argv:2d2d6172672d66696c653d2e kind:directory-as-file')
    n += len(cases)
    guard = 0
    while len(cases) < n and guard < n * 20:
        guard += 1
        args, cons = G.gen_config(rng, rng.range(1, 5))
        flags = rng.choice([0, 0, 0x10, 0x20, 0x30, 0x80, 0x90])
        extra = [_progname(rng)]
        give_sources = rng.chance(1, 2)
        if give_sources:
            # the sources are found through the base name of the program: use a plain one (the fuzzed names are
            # exercised without file / environment content)
            nm = ''.join(rng.choice(['', 'd/', '/x/y/', './'])) + 'p' + ''.join(rng.choice('abc019') for _ in range(rng.range(0, 30)))
            extra = ['prog:' + A.hx(nm)]
        if flags & 0x10 and give_sources:
            lines = [' '.join(_fuzz_word(rng).replace('\n', '') for _ in range(rng.range(0, 3))) for _ in range(rng.range(0, 3))]
            content = '\n'.join(lines) + ('\n' if rng.chance(1, 2) else '')
            content = content.replace('\x00', '')
            extra.append('file:' + A.hx(content))
        if flags & 0x20 and give_sources:
            e = ' '.join(_fuzz_word(rng) for _ in range(rng.range(0, 3))).replace('\x00', '')
            extra.append('env:' + A.hx(e))
        if rng.chance(1, 2):
            words = [_fuzz_word(rng) for _ in range(rng.range(0, 6))]
            kind = 'fuzz'
        else:
            uses = G.gen_line(rng, args, cons)
            if uses is None:
                continue
            words = _mutate_words(rng, G.spell(rng, uses, args, True))
            kind = 'mutated-line'
        toks = ['H:f=%d' % flags] + [a.token() for a in args] + [G.con_token(c) for c in cons] + extra
        toks += [A.argv_tok(words), 'kind:' + kind]
        cases.append(' '.join(toks))
    return {'cases': cases, 'exhaustive': False,
            'scopes': ['program names of every length 0..40 with file and environment source; %d fuzzed / mutated argument vectors' % len(cases)]}


def spec_check(case, ir, mr):
    if ir is None:
        return 'no result from the implementation (process died?)'
    if 'CRASH' in ir:
        return 'invalid memory access / abort in the implementation: ' + ir.split('CRASH')[1][:80]
    out = ir.split(' ')[0]
    if out not in ('ok', 'err', 'setup'):
        return 'unexpected outcome ' + out
    if ' ## non-std' in ir:
        return 'an exception not derived from std::exception escaped'
    return None


def classify(case, ir, mr):
    if 'kind:progname' in case or ('H:f=16' in case or 'H:f=32' in case or 'H:f=48' in case or 'H:f=144' in case):
        if ir and 'CRASH' in ir:
            return 'progname-copy'
    return 'memory'


def nontrivial(case, mr):
    return 'argv:-' not in case


def histogram_keys(case, mr):
    k = [t[5:] for t in case.split(' ') if t.startswith('kind:')]
    return [(k[0] if k else '?') + ':' + ((mr or '?').split(' ')[0])]


CLAIM = {
    'text': 'PARTIAL. Coq theorems (Properties_C04.v): for ANY words the argument list iterator never reads outside a '
            'word and the remaining input strictly shrinks (position invariant + measure), so the evaluation of any '
            'argument vector / file lines / environment words under any configuration ends with a normal return or an '
            'exception (the model never reaches Fault, the fuel of the loop is never exhausted) - also with an argument '
            'that names an argument file, for any set of files incl. files that name themselves (C04_named_files_total; '
            'the pinned code recursed until the stack overflowed: found by this check, repaired); the hand-sized '
            'buffers (program-name copy, pointer array) are proved large enough, the pinned program-name copy is '
            'proved one byte short and was repaired. What is below the model (std::string, Boost, iostreams, '
            'allocator) is observed by the ASan+UBSan build of the real code on fuzzed argument vectors, which is a '
            'search, not a proof. Sub-group arguments: C04_subgroups_total; argument groups, with plain members and with '
            'members that own sub-group arguments: C04_groups_total, C04_groups_with_subgroups_total.',
    'note': 'partial: proof covers the modelled index/size logic only; memory safety of library internals rests on the '
            'sanitizer-instrumented correspondence run',
    'technique': 'Coq proof (iterator invariant + termination measure, totality of the handler loop by induction on '
                 'fuel) + sanitizer-instrumented model/implementation correspondence on fuzzed argv',
    'design_ref': 'DESIGN.md section 5, C04',
}
