"""C14  A log message reaches exactly the destinations whose filters it passes."""
import itertools
import sys

sys.path.insert(0, '/verif/translate')
import tr_c14_ops  # noqa

ID = 'C14'
HARNESS = {
    'name': 'c14', 'sources': ['harness/c14_harness.cpp'], 'sanitize': True,
    'repo_sources': [
        'library/log/logging.cpp', 'library/log/detail/log.cpp', 'library/log/detail/i_log_dest.cpp',
        'library/log/filter/filters.cpp', 'library/log/filter/detail/log_filter_classes.cpp',
        'library/log/filter/detail/duplicate_policy_factory.cpp', 'library/log/detail/log_msg.cpp',
        'library/common/exception_base.cpp', 'library/common/extract_funcname.cpp',
        'library/log/detail/log_data.cpp', 'library/log/detail/log_dest_data.cpp',
        'library/log/detail/log_attributes_container.cpp', 'library/log/log_attributes.cpp',
        'library/log/detail/stream_log.cpp',
    ],
}

RULE = ('a case is a script on a fresh Logging singleton: duplicate-policy changes, creation of logs and recording '
        'destinations, filter settings (max/min/exact level 0..6, class lists) on logs and destinations, then '
        'messages: "T<ids>" sends all 49 (level, class) pairs to the id mask and asks the level pre-check for all 7 '
        'levels, "V<name>" the same by log name, "M<name>" / "I<ids>" send the 49 messages through the real '
        'LOG_LEVEL macro by name / by id. Exhaustive: every history of at most 2 (quick) / 3 (thorough) settings out of 4 types x 7 '
        'parameters with every duplicate policy in front of every later setting, on the log and (<= 2) on the '
        'destination; all 127 non-empty subsets of the 7 class names plus spelling variants; all id masks 0..63 over '
        '4 logs; a family of log names that are prefixes of each other in every creation order; seeded random worlds. Non-trivial: the model delivers at least one message and withholds one.')
TRUSTED_BASE = [
    'model Log/FilterModel.v written by hand from filters.cpp, the four filter headers, log.cpp, i_log_dest.cpp, '
    'logging.cpp, helper_function.hpp; comparison operators, enum orders, class texts, isLevelFilter set and the '
    'bitset size are regenerated from the source by translate/tr_c14_ops.py (Log/FilterOpsGen.v) before every proof '
    'run; everything else is tied by the correspondence check of this run',
    'extraction: ExtrOcamlBasic only; nat, N, ascii, string stay extracted datatypes; ocaml/c14_driver.ml does I/O '
    'and the 49+7 loop of a T/V operation only',
    'C++ harness harness/c14_harness.cpp (recording ILogDest, Logging::reset() per case, g++ 12 -O1, ASan+UBSan)',
]
ASSUMPTIONS = [
    'levels and classes of messages are enumerator values 0..6 (StreamLog range-checks what the macros pass)',
    'the level pre-check is asked for one log id or one log name, as the library documents (several ids -> exception)',
    'no user-defined filter types, no removal of destinations; single thread',
]

CLASS_TEXTS = ['undefined', 'SysCall', 'Data', 'Communication', 'Application', 'Accounting', 'Operator Action']


def translate(repo, coq):
    return tr_c14_ops.translate(repo, coq)


def _hex(s):
    return s.encode().hex()


# ---------------------------------------------------------------------------
# reference interpreter of the property (used for triage only)

class _Exc(Exception):
    def __init__(self, name):
        self.name = name


def _parse_classes(text, bits):
    sel = set()
    for t in [t for t in text.split(',') if t]:
        idx = next((i for i, n in enumerate(CLASS_TEXTS) if n.lower() == t.lower()), 0)
        if idx == 0:
            raise _Exc('E:runtime_error')
        if idx >= bits:
            raise _Exc('E:out_of_range')
        sel.add(idx)
    if not sel:
        raise _Exc('E:runtime_error')
    return sel


def _accepts(filters, l, c):
    for t, p in filters.items():
        if t == 'M' and not l <= p:
            return False
        if t == 'm' and not l >= p:
            return False
        if t == 'l' and not l == p:
            return False
        if t == 'c' and c not in p:
            return False
    return True


def _rle(items):
    out = []
    last, n = None, 0
    for s in items:
        if s == last:
            n += 1
        else:
            if n:
                out.append(last + ('*%d' % n if n > 1 else ''))
            last, n = s, 1
    if n:
        out.append(last + ('*%d' % n if n > 1 else ''))
    return ','.join(out) + ','


def _unrle(s):
    out = []
    for part in s.split(','):
        if not part:
            continue
        if '*' in part:
            a, n = part.rsplit('*', 1)
            out += [a] * int(n)
        else:
            out.append(part)
    return out


def reference(case, reset_on_ctor=False, bits=7):
    """list of expected result tokens; for pre-checks a tuple ('q', [per level: set of allowed answers])"""
    pol = 'i'
    logs = []   # dicts name, id, filters, dests [(name, filters)]
    out = []

    def find(name):
        return next((g for g in logs if g['name'] == name), None)

    def find_spec(spec):
        """log given by name or by '#<ids>' (getLog( id_t): several ids -> exception)"""
        if spec.startswith('#'):
            ids = int(spec[1:])
            sel = [g for g in logs if ids & g['id']]
            if sel and ids != sel[0]['id']:
                raise _Exc('E:runtime_error')
            return sel[0] if sel else None
        return find(spec)

    def deliver(sel, l, c):
        r = []
        for g in sel:
            if _accepts(g['filters'], l, c):
                for dn, df in g['dests']:
                    if _accepts(df, l, c):
                        r.append(g['name'] + '/' + dn)
        return '+'.join(r) or '-'

    def by_ids(ids):
        return [g for g in logs if ids & g['id']]

    def precheck(kind, spec, l):
        # allowed property observables of discard_by_level: '.' = answer consistent with the
        # deliveries, 'E' = exception (only for an id mask that names several logs)
        if kind == 'id':
            sel = by_ids(spec)
            if sel and spec != sel[0]['id']:
                return {'E'}
        return {'.'}

    for o in ([] if case in ('-', '') else case.split(';')):
        if not o:
            continue
        a = o[1:]
        k = o[0]
        if k == 'P':
            pol = a
            out.append('ok')
        elif k == 'L':
            g = find(a)
            if g is None:
                if len(logs) >= 31:
                    out.append('E:runtime_error')
                    continue
                g = {'name': a, 'id': 1 << len(logs), 'filters': {}, 'dests': []}
                logs.append(g)
                if reset_on_ctor:
                    pol = 'i'
            out.append('id%d' % g['id'])
        elif k == 'D':
            ln, dn = a.split('/', 1)
            try:
                g = find_spec(ln)
            except _Exc as e:
                out.append(e.name)
                continue
            if g is None:
                out.append('nolog')
                continue
            g['dests'].append((dn, {}))
            if reset_on_ctor:
                pol = 'i'
            out.append('ok')
        elif k == 'F':
            tgt, st = a.split(':', 1)
            ln, _, dn = tgt.partition('/')
            try:
                g = find_spec(ln)
            except _Exc as e:
                out.append(e.name)
                continue
            if g is None:
                out.append('nolog')
                continue
            if dn:
                f = next((df for n, df in g['dests'] if n == dn), None)
                if f is None:
                    out.append('E:runtime_error')
                    continue
            else:
                f = g['filters']
            t = st[0]
            try:
                if t in f:
                    if pol == 'e':
                        raise _Exc('E:runtime_error')
                    if pol == 'r':
                        f[t] = _parse_classes(bytes.fromhex(st[1:]).decode(), bits) if t == 'c' else int(st[1])
                else:
                    f[t] = _parse_classes(bytes.fromhex(st[1:]).decode(), bits) if t == 'c' else int(st[1])
                out.append('ok')
            except _Exc as e:
                out.append(e.name)
        elif k in 'SN':
            spec, m = a.rsplit(':', 1)
            l, c = int(m[0]), int(m[1])
            sel = by_ids(int(spec)) if k == 'S' else [g for g in [find(spec)] if g]
            out.append(deliver(sel, l, c))
        elif k in 'QR':
            spec, m = a.rsplit(':', 1)
            out.append(('q', [precheck('id' if k == 'Q' else 'name', int(spec) if k == 'Q' else spec, int(m[0]))]))
        elif k in 'TV':
            sel = by_ids(int(a)) if k == 'T' else [g for g in [find(a)] if g]
            tbl = [deliver(sel, l, c) for l in range(7) for c in range(7)]
            out.append(('t', tbl, [precheck('id' if k == 'T' else 'name', int(a) if k == 'T' else a, l)
                                   for l in range(7)]))
        elif k in 'MI':
            # the guarded macros deliver what the plain send delivers; an id mask naming several logs
            # makes the pre-check throw (documented restriction)
            if k == 'I':
                sel = by_ids(int(a))
                if sel and int(a) != sel[0]['id']:
                    out.append(('m', ['E:runtime_error'] * 49))
                    continue
            else:
                sel = [g for g in [find(a)] if g]
            out.append(('m', [deliver(sel, l, c) for l in range(7) for c in range(7)]))
        else:
            out.append('?')
    return out


def _compare(case, ir, **flags):
    """None when the implementation result is what the property (with the given reading) asks for,
    else (reason, index of the operation)"""
    try:
        exp = reference(case, **flags)
    except Exception as ex:   # noqa
        return ('reference interpreter failed: %r' % ex, -1)
    got = ir.split(' ## ')[0].split(' ') if ir.split(' ## ')[0] else []
    ops = [o for o in case.split(';') if o] if case not in ('-', '') else []
    if len(got) != len(exp):
        return ('number of results (%d) differs from number of operations (%d)' % (len(got), len(exp)), len(got))
    for i, (e, g) in enumerate(zip(exp, got)):
        if isinstance(e, str):
            if e != g:
                return ('operation %s: expected %s, implementation answered %s' % (ops[i], e, g), i)
        elif e[0] == 'm':
            if not g.startswith('m:'):
                return ('operation %s: unexpected result %s' % (ops[i], g[:60]), i)
            tbl = _unrle(g[2:])
            if len(tbl) != 49:
                return ('operation %s: malformed table' % ops[i], i)
            for j, (x, y) in enumerate(zip(e[1], tbl)):
                if x != y:
                    return ('operation %s (level-guarded macro), message (level %d, class %d): expected '
                            'deliveries %s, got %s' % (ops[i], j // 7, j % 7, x, y), i)
        elif e[0] == 'q':
            ans = {'q': '.'}.get(g, 'E' if g == 'E:runtime_error' else g)
            if ans not in e[1][0]:
                return ('pre-check %s answered %s; allowed %s' % (ops[i], g, sorted(e[1][0])), i)
        else:
            if not g.startswith('t:') or 'q:' not in g:
                return ('operation %s: unexpected result %s' % (ops[i], g[:60]), i)
            tpart, qpart = g[2:].split('q:')
            tbl = _unrle(tpart)
            if len(tbl) != 49 or len(qpart) != 7:
                return ('operation %s: malformed table' % ops[i], i)
            for j, (x, y) in enumerate(zip(e[1], tbl)):
                if x != y:
                    return ('operation %s, message (level %d, class %d): expected deliveries %s, got %s'
                            % (ops[i], j // 7, j % 7, x, y), i)
            for l in range(7):
                if qpart[l] not in e[2][l]:
                    return ('operation %s: pre-check for level %d: %s (X = discarded although a message of that '
                            'level is delivered, E = exception), allowed %s' % (ops[i], l, qpart[l], sorted(e[2][l])), i)
    return None


def _triage(case, ir):
    if ir is None:
        return ('no result from the implementation', 'no-result')
    if 'CRASH' in ir:
        lab = 'crash'
        if 'heap-use-after-free' in ir or 'double-free' in ir:
            lab = 'replace-throw-dangling' if 'Pr' in case and ':c' in case else 'use-after-free'
        return ('memory error / abort in the implementation: ' + ir[-120:], lab)
    r = _compare(case, ir)
    if r is None:
        return None
    # which reading of the pinned code explains the answer?
    if _compare(case, ir, bits=6) is None:
        return (r[0], 'classes-operator-action')
    if _compare(case, ir, reset_on_ctor=True) is None:
        return (r[0], 'policy-reset-by-ctor')
    if _compare(case, ir, reset_on_ctor=True, bits=6) is None:
        return (r[0], 'classes-operator-action+policy-reset-by-ctor')
    ops = [o for o in case.split(';') if o]
    kind = ops[r[1]][0] if 0 <= r[1] < len(ops) else '?'
    return (r[0], {'F': 'filter-setting', 'S': 'routing', 'N': 'routing', 'T': 'filtering', 'V': 'filtering',
                   'Q': 'pre-check', 'R': 'pre-check', 'M': 'macro-by-name', 'I': 'macro-by-id',
                   'L': 'log-creation', 'D': 'log-by-name'}.get(kind, 'other'))


def spec_check(case, ir, mr):
    t = _triage(case, ir)
    return t[0] if t else None


def classify(case, ir, mr):
    t = _triage(case, ir)
    return t[1] if t else 'none'


# ---------------------------------------------------------------------------
# generators

def _settings():
    s = []
    for t in 'Mml':
        for l in range(7):
            s.append('%s%d' % (t, l))
    for c in CLASS_TEXTS:
        s.append('c' + _hex(c))
    return s


CORPUS = [
    # the three defects of the pinned tree
    'La;Da/x;Fa:c' + _hex('Operator Action') + ';T1',
    'La;Da/x;Pr;Fa:M2;Lb;Fa:M4;T1',
    'La;Da/x;Pr;Fa:M2;Da/y;Fa:M4;T1',
    'La;Da/x;Pr;Fa:c' + _hex('Data') + ';Fa:c;T1',
    'La;Da/x;Pr;Fa:c' + _hex('Data') + ';Fa:c' + _hex('nope') + ';T1;Fa:c' + _hex('Accounting') + ';T1',
    # cached level filter follows the last level setting, also when it is ignored / replaced
    'La;Da/x;Fa:M4;Fa:m2;T1;Fa:M1;T1;Pr;Fa:l3;Fa:m5;T1;Fa:M6;T1',
    'La;Da/x;Fa:M3;Pe;Fa:M5;Fa:m1;T1',
    # routing
    'La;Lb;Da/x;Db/y;Db/z;Fb/y:l3;S3:31;S3:21;S2:31;S1:31;S4:31;Q3:1;Q1:1;Q4:1;Nb:31;Nc:31;Rc:3;Rb:3;Fb/q:M1;Fq:M1;Dq/x',
    'La;La;Lb;Da/x;Da/x;Fa/x:M2;T1;T3;T2;Va;Vb;Vc',
    # names that are prefixes of each other, the longer one created first: by name every log answers for itself
    'Lnet.debug;D#1/x;Lnet;D#2/y;F#1:m5;F#2:M2;Mnet;Vnet;Mnet.debug;Vnet.debug;I1;I2;Mne;Vne',
    'Lnet.debug;Dnet.debug/x;Lnet;Dnet/y;Fnet.debug:m5;Fnet:M2;Vnet;Mnet;Vnet.debug;Mnet.debug;I1;I2;Mne;Vne',
    'La;Lb;D#1/x;D#2/y;D#3/z;D#4/z;D#0/z;F#2:M1;F#2/y:m1;F#3:M1;F#8:M1;F#1/q:M1;T3',
]


FAMILY = ['net', 'net.debug', 'n', 'netx', 'db']
FAMILY_SETTINGS = ['M2', 'm5', 'l4', 'm3', 'M4', 'c' + _hex('Data,Accounting'), 'M0', 'l6']
UNKNOWN_NAMES = ['ne', 'net.', 'd', 'netxx', 'net.debug.x']


def _family_case(order, rot, interleaved, dest_filters=False, by_id=True):
    """logs of the prefix family created in the given order, every log with its own filter (set
    through the log id, or by name), then every name and every id probed by plain send, pre-check and
    the guarded macros"""
    st = {nm: FAMILY_SETTINGS[(FAMILY.index(nm) + rot) % len(FAMILY_SETTINGS)] for nm in order}
    ref = {nm: ('#%d' % (1 << i) if by_id else nm) for i, nm in enumerate(order)}
    ops = []
    for nm in order:
        ops += ['L' + nm, 'D%s/x' % ref[nm]]
        if interleaved:
            ops.append('F%s:%s' % (ref[nm], st[nm]))
    if not interleaved:
        for nm in reversed(order):
            ops.append('F%s:%s' % (ref[nm], st[nm]))
    if dest_filters:
        for i, nm in enumerate(order):
            ops.append('F%s/x:%s' % (ref[nm], FAMILY_SETTINGS[(i + rot + 3) % len(FAMILY_SETTINGS)]))
    for nm in FAMILY:
        ops += ['M' + nm, 'V' + nm] if rot % 2 == 0 else ['V' + nm, 'M' + nm]
    for nm in UNKNOWN_NAMES[:2 + rot % 3]:
        ops += ['V' + nm, 'M' + nm]
    for i in range(len(order)):
        ops += ['T%d' % (1 << i), 'I%d' % (1 << i)]
    ops += ['I3', 'I0', 'I%d' % (1 << len(order))]
    return ';'.join(ops)


def _random_case(rng):
    names = ['a', 'b', 'c', 'd', 'e']
    nlogs = rng.range(1, 5)
    ops = []
    dests = {}
    sets = _settings()
    for i in range(nlogs):
        ops.append('L' + names[i])
        dests[names[i]] = []
        for j in range(rng.range(0, 3)):
            dn = rng.choice(['x', 'y', 'z'])
            ops.append('D%s/%s' % (names[i], dn))
            dests[names[i]].append(dn)
    live = names[:nlogs]
    for _ in range(rng.range(1, 8)):
        r = rng.below(10)
        if r < 2:
            ops.append('P' + rng.choice('ier'))
        elif r == 2 and len(live) < 5:
            n = names[len(live)]
            live.append(n)
            dests[n] = []
            ops.append('L' + n)
        elif r == 3:
            ln = rng.choice(live)
            dn = rng.choice(['x', 'y', 'z', 'w'])
            ops.append('D%s/%s' % (ln, dn))
            dests[ln].append(dn)
        else:
            ln = rng.choice(live)
            if rng.chance(1, 2) and dests[ln]:
                tgt = ln + '/' + rng.choice(dests[ln])
            else:
                tgt = ln
            if rng.chance(1, 5):
                k = rng.range(0, 3)
                cl = [rng.choice(CLASS_TEXTS + ['bogus', '']) for _ in range(k)]
                st = 'c' + _hex(','.join(cl))
            else:
                st = rng.choice(sets)
            ops.append('F%s:%s' % (tgt, st))
        if rng.chance(1, 4):
            ops.append('T%d' % rng.range(0, 63))
    for _ in range(rng.range(1, 3)):
        ops.append('T%d' % rng.range(0, (1 << len(live)) - 1))
    ops.append('V' + rng.choice(live + ['nolog']))
    ops.append('T%d' % (1 << rng.below(len(live))))
    return ';'.join(ops)


def gen_cases(tier, rng):
    cases = list(CORPUS)
    sets = _settings()
    depth = 2 if tier == 'quick' else 3
    pols = ['', 'Pe;', 'Pr;']
    # every history of settings on the log (destination unfiltered)
    for n in range(1, depth + 1):
        for combo in itertools.product(sets, repeat=n):
            for ps in itertools.product(pols, repeat=n - 1):
                body = 'Fa:' + combo[0]
                for p, s in zip(ps, combo[1:]):
                    body += ';' + p + 'Fa:' + s
                cases.append('La;Da/x;' + body + ';T1')
    # ... and on the destination (log unfiltered), histories of at most 2
    for n in range(1, 3):
        for combo in itertools.product(sets, repeat=n):
            for ps in itertools.product(pols, repeat=n - 1):
                body = 'Fa/x:' + combo[0]
                for p, s in zip(ps, combo[1:]):
                    body += ';' + p + 'Fa/x:' + s
                cases.append('La;Da/x;' + body + ';T1')
    # one setting on the log, one on the destination
    for s1 in sets:
        for s2 in sets:
            cases.append('La;Da/x;Da/y;Fa:%s;Fa/y:%s;T1' % (s1, s2))
    # all non-empty subsets of the class names, spelling variants
    for mask in range(1, 128):
        names = [CLASS_TEXTS[i] for i in range(7) if mask >> i & 1]
        cases.append('La;Da/x;Fa:c%s;T1' % _hex(','.join(names)))
        if mask % 2 == 0:
            cases.append('La;Da/x;Fa/x:c%s;T1' % _hex(','.join(reversed([n.upper() for n in names]))))
            cases.append('La;Da/x;Fa:c%s;T1' % _hex(',' + ',,'.join(n.lower() for n in names) + ','))
            cases.append('La;Da/x;Pr;Fa:c%s;Fa:c%s;T1' % (_hex('Data'), _hex(','.join(names + names))))
    for bad in ['', ',', ' Data', 'Data ', 'Data;Accounting', 'Operator  Action', 'OperatorAction', 'Dat', 'Dataa',
                'Data,undefined', 'Data,bogus', 'bogus,Data']:
        for p in ['', 'Pr;', 'Pe;']:
            cases.append('La;Da/x;%sFa:c%s;T1;Fa:c%s;T1' % (p, _hex('Accounting'), _hex(bad)))
    # routing: four logs, destinations with different filters, every id mask (bit 4/5: no such log)
    world = ('La;Lb;Lc;Ld;Da/x;Db/x;Db/y;Dc/x;Dc/y;Dc/z;Fb:M3;Fb/y:m2;Fc/x:l4;Fc/z:c%s;Fd:m1;Fa/x:c%s'
             % (_hex('Data,Operator Action'), _hex('SysCall,Data')))
    for ids in range(0, 64):
        cases.append('%s;T%d' % (world, ids))
    for nm in 'abcde':
        cases.append('%s;V%s' % (world, nm))
    # the 31-log limit
    many = ';'.join('L%d' % i for i in range(33))
    cases.append(many + ';D30/x;D31/x;S1073741824:11;S2147483648:11;S3221225472:11;Q1073741824:1;Q2147483648:1')
    # log names that are prefixes of each other: every creation order of the family (and of its
    # sub-families), different filters per log, addressed by name and by id, plain and through the macros
    sizes = (2, 5) if tier == 'quick' else (2, 3, 4, 5)
    rots = (0, 1, 2) if tier == 'quick' else tuple(range(len(FAMILY_SETTINGS)))
    for k in sizes:
        for order in itertools.permutations(FAMILY, k):
            for rot in (rots if k == 5 else rots[:2]):
                cases.append(_family_case(order, rot, interleaved=(rot % 2 == 0), dest_filters=(rot % 3 == 2)))
            # the same world set up through GET_LOG( name)
            cases.append(_family_case(order, 0, interleaved=True, by_id=False))
    nrand = 600 if tier == 'quick' else 6000
    for _ in range(nrand):
        cases.append(_random_case(rng))
        # random worlds over the prefix family
        k = rng.range(2, 5)
        order = rng.shuffle(list(FAMILY))[:k]
        c = _family_case(order, rng.below(len(FAMILY_SETTINGS)), rng.chance(1, 2), rng.chance(1, 2),
                         by_id=rng.chance(2, 3))
        if rng.chance(1, 2):
            c = 'P' + rng.choice('er') + ';' + c + ';F%s:%s;V%s;M%s' % (order[0], rng.choice(FAMILY_SETTINGS),
                                                                      order[0], order[-1])
        cases.append(c)
    return {'cases': cases, 'exhaustive': True,
            'scopes': ['exhaustive: every history of <= %d settings (28 settings; ignore/exception/replace before '
                       'every later setting) on a log x all 49 (level, class) messages x 7 pre-check levels' % depth,
                       'exhaustive: every history of <= 2 settings on a destination; every pair (log setting, '
                       'destination setting)',
                       'exhaustive: all 127 non-empty subsets of the class names (+ spelling variants, malformed lists)',
                       'exhaustive: all id masks 0..63 over four logs with six filtered destinations; by name',
                       'exhaustive: log names with shared prefixes %s: every creation order of the family and of '
                       'its sub-families of sizes %s, %d filter assignments, every name (and unknown names %s) '
                       'and every id probed by plain send, level pre-check and the real LOG_LEVEL macros'
                       % (FAMILY, list(sizes), len(rots), UNKNOWN_NAMES),
                       'random: %d worlds of 1..5 logs, 0..4 destinations each, 1..8 settings / policy changes / '
                       'late logs and destinations' % nrand]}


def histogram_keys(case, mr):
    ops = [o for o in case.split(';') if o]
    nset = sum(1 for o in ops if o[0] == 'F')
    keys = ['settings=%d' % min(nset, 4)]
    if any(o[0] == 'P' for o in ops):
        keys.append('policy-change')
    if any(o[0] == 'F' and ':c' in o for o in ops):
        keys.append('class-filter')
    if mr and 'E:' in mr:
        keys.append('exception')
    return keys


def nontrivial(case, mr):
    prop = mr.split(' ## ')[0]
    return '/' in prop and '-' in prop


def shrink(case):
    ops = [o for o in case.split(';') if o]
    for i in range(len(ops)):
        rest = ops[:i] + ops[i + 1:]
        if rest:
            yield ';'.join(rest)


CLAIM = {
    'text': 'Coq theorems (Properties_C14.v) over an executable model of Filters / the four filter classes / Log / '
            'ILogDest / Logging: level filters accept exactly l<=m, l>=m, l=m for every level; a class-list filter '
            'exists exactly for non-empty lists of real class names and accepts exactly the named classes (all token '
            'lists; all 64 subsets from text); for every history of settings the level pre-check never refuses a level '
            'of a message that passes; ignore/exception/replace do what they say and the configured policy survives '
            'the creation of logs and destinations; for every reachable world the deliveries of a message are the list '
            'comprehension over selected logs and their destinations (each once, in order) and a "discard" of '
            'discard_by_level implies no delivery; a log addressed by name (getLog( name), log( name, msg), '
            'pre-check by name) is the log with exactly that name in every creation order - names that are '
            'prefixes of each other included - so by name = by the id of that log, and the level-guarded macros '
            '(pre-check, then StreamLog -> Logging::log) deliver exactly what the plain send delivers. Comparison operators, enum orders, class texts and the bitset '
            'size are regenerated from the source before every proof run; the rest of the model is tied by an '
            'exhaustive-small-scope correspondence check under ASan/UBSan.',
    'note': 'trusted: Coq kernel, extraction (ExtrOcamlBasic), regex-level translator, the hand-written model '
            '(validated by correspondence on every run), recording destination of the harness. Three defects of the '
            'pinned tree are repaired by fixes/C14-1..3; the pre-check is only claimed for a single id / name '
            '(several ids throw, as documented).',
    'technique': 'Coq proof: invariants over histories of settings and of world operations, finite-domain computation '
                 'lifted by forallb_forall for the class texts; translator for operators/enums; model/implementation '
                 'correspondence, exhaustive histories of <= 2 (quick) / 3 (thorough) settings x 49 messages; '
                 'a family of log names with shared prefixes in every creation order, probed by name and by id '
                 'through plain send, pre-check and the real LOG_LEVEL macros',
    'design_ref': 'DESIGN.md section 5, C14',
}
