"""C05  A key designates exactly one argument, independent of definition order."""
import itertools
import os
import sys
sys.path.insert(0, os.path.dirname(__file__))
import args_common as A

ID = 'C05'
HARNESS = A.HARNESS
INTERNAL_COMPARABLE = False   # behind '##' the harness prints exception class / texts, the driver a note: never equal

RULE = ('a case = ordered list of flag arguments (key specifications from a family with prefix relations, short/long/'
        'both, 0..3 leading dashes, both orders around the comma) + handler flags (abbreviations on/off) + one '
        'command-line word (an exact short key, an exact long key, or a prefix of a long key). All ordered '
        'selections of up to 3 (quick) / 4 (thorough) specifications are enumerated, so every definition order of '
        'every set occurs. Non-trivial: the table is accepted and the word is looked up.')
TRUSTED_BASE = [
    'model ArgH/Key.v + ArgH/Table.v written by hand from argument_key.cpp, storage.hpp, argument_container.cpp; '
    'tied by the correspondence check through the real Handler (addArgument + evalArguments)',
    'extraction: ExtrOcamlBasic only; ocaml/c05_driver.ml turns a command-line word into a key the way '
    'ArgListIterator/evalSingleArgument do (-c -> ArgumentKey(char), --word -> ArgumentKey(string))',
    'C++ harness harness/args_harness.cpp (g++ 12 -O1, ASan+UBSan), prog_args library sources compiled from the tree',
]
ASSUMPTIONS = ['keys are looked up one word at a time; the interplay with values and flag groups is C01',
               'a long key of one letter (spec "--a") cannot be typed (--a is read as the short key a): outside the '
               'generated family, see DESIGN.md']

SPECS = ['i', 'o', 'input', 'inp', 'input-a', 'input-b', 'out', 'i,input', 'input,i', '-i,--inp', 'o,out',
         '--input', '-o', 'x,input-a', 'in', 'o,input', '---x', 'i,o', 'in,out', ',', 'i,']
WORDS_LONG = ['i', 'in', 'inp', 'inpu', 'input', 'input-', 'input-a', 'input-b', 'o', 'ou', 'out', 'outx', 'x']


def _case(specs, abbr, word):
    toks = ['H:f=%d' % (0 if abbr else 0x80)]
    for n, sp in enumerate(specs):
        toks.append('arg:%s:b%d:init=0' % (sp, n))
    toks.append(A.argv_tok([word] if word else []))
    return ' '.join(toks)


def _case_try(specs, abbr, word):
    """the same, but every definition may be refused (the caller catches the exception): what was refused must not
    leave anything behind"""
    toks = ['H:f=%d' % (0 if abbr else 0x80)]
    for n, sp in enumerate(specs):
        toks.append('arg:%s:b%d:init=0/try' % (sp, n))
    toks.append(A.argv_tok([word] if word else []))
    return ' '.join(toks)


def _case_staged(steps, abbr, word):
    """definitions and look-ups in the given interleaving: steps = [('d', spec) | ('p', word)]"""
    toks = ['H:f=%d' % (0 if abbr else 0x80)]
    n = 0
    for kind, x in steps:
        if kind == 'd':
            toks.append('arg:%s:b%d:init=0' % (x, n))
            n += 1
        else:
            toks.append('probe:' + x.encode().hex())
    toks.append(A.argv_tok([word] if word else []))
    return ' '.join(toks)


def _h(sel):
    """deterministic hash of a selection (the built-in hash of strings changes from run to run)"""
    return sum((i + 1) * sum(map(ord, x)) for i, x in enumerate(sel))


def gen_cases(tier, rng):
    cases = []
    # corpus: the pinned-tree witness first
    cases.append(_case(['input-file', 'input-dir', 'input'], True, '--input'))
    cases.append(_case(['input', 'input-file', 'input-dir'], True, '--input'))
    # definitions that are refused and survived: every ordered pair / triple of a family with conflicts, then
    # every key of the family, exact and abbreviated
    fam = ['v,verbose', 'v,version', 'verbose', 'x,verbose', 'version', 'i,input', 'j,input', 'input', 'i']
    fwords = ['-v', '-x', '-i', '-j', '--verbose', '--version', '--ver', '--versi', '--verb', '--input', '--inp']
    for n in (2, 3):
        for sel in itertools.permutations(fam, n):
            if n == 3 and tier == 'quick' and (_h(sel) % 4 != 0):
                continue
            for abbr in (True, False):
                for w in fwords:
                    cases.append(_case_try(list(sel), abbr, w))
    # look-ups between the definitions (getArgHandler / argumentExists before all arguments are defined): a look-up
    # is a function of the table as it stands.  (a) one look-up between two definitions, then the same or another
    # word on the command line; (b) every word looked up after every definition, in rotating order
    sfam = ['input', 'inp', 'input-a', 'inpu', 'i,in', 'o,out', 'i']
    swords = ['--inp', '--input', '--in', '--inpu', '--input-', '-i', '--o', '--out', '--x']
    for d1, d2 in itertools.permutations(sfam, 2):
        for abbr in (True, False):
            for w in swords[:6]:
                for w2 in ([w] if tier == 'quick' else [w, '--inp', '--in']):
                    cases.append(_case_staged([('d', d1), ('p', w), ('d', d2)], abbr, w2))
    for sel in itertools.permutations(sfam, 3):
        if tier == 'quick' and _h(sel) % 3 != 0:
            continue
        for abbr in (True, False):
            steps = []
            for j, d in enumerate(sel):
                steps.append(('d', d))
                r = (_h(sel) + j) % len(swords)
                steps += [('p', w) for w in swords[r:] + swords[:r]]
            for w in (swords[_h(sel) % 6], swords[(_h(sel) + 3) % 6]):
                cases.append(_case_staged(steps, abbr, w))
    # sub-group arguments live in a container of their own: their keys and abbreviations obey the same rules
    for abbr in (True, False):
        for main in (['i,input'], ['in'], ['i,input', 'inp'], [], ['output', 'outer'], ['output']):
            for sub in ('o,output', 'input-dir', 'output', 'x,index', 'inp', 'in', 'out'):
                for w in ['-o', '-i', '-x', '--output', '--out', '--outp', '--in', '--inp', '--input', '--input-', '--input-dir', '--ind', '--index']:
                    toks = ['H:f=%d' % (0 if abbr else 0x80)]
                    toks += ['arg:%s:b%d:init=0' % (sp, n) for n, sp in enumerate(main)]
                    toks += ['S:%s:f=%d' % (sub, 0 if abbr else 0x80), 'arg:q:b3:init=0', A.argv_tok([w])]
                    cases.append(' '.join(toks))
    # the sub-group handler has its own abbreviation setting - also when it was created with the constructor for
    # sub-groups, which takes other settings from the main handler: words behind the sub-group key
    for fm, fs in ((0, 0), (0, 0x80), (0x80, 0), (0x80, 0x80)):
        for ctor in ('', ':subctor'):
            for w in ('--file', '--fil', '--f', '--quiet', '--qu', '-q', '--verbose', '--verb', '--nothing'):
                cases.append('H:f=%d arg:v,verbose:b0:init=0 S:o,output:f=%d%s arg:file:b1:init=0 arg:q,quiet:b2:init=0 %s'
                             % (fm, fs, ctor, A.argv_tok(['-o', w])))
    # the key of a sub-group argument and the key of a plain argument of the same handler: one key, one argument -
    # whichever of the two is defined first
    for abbr in (True, False):
        for plain, sub in (('output', 'output'), ('o,output', 'o'), ('o', 'o,output'), ('o,output', 'x,output'),
                           ('o,output', 'o,out'), ('output', 'out'), ('o', 'x')):
            for w in ('-o', '--output', '--out'):
                f = 0 if abbr else 0x80
                cases.append('H:f=%d arg:%s:b0:init=0 S:%s:f=%d arg:q:b3:init=0 %s' % (f, plain, sub, f, A.argv_tok([w])))
                cases.append('H:f=%d arg:k:b1:init=0 S:%s:f=%d arg:q:b3:init=0 late:arg:%s:b0:init=0 %s' % (f, sub, f, plain, A.argv_tok([w])))
    # long keys in which a prefix occurs again further on (no-notify / --no, abab / --ab), alone and next to keys
    # that share the prefix: every definition order, every prefix of every key
    rep = ['no-notify', 'abab', 'abc', 'log-logfile', 'a,abab', 'no', 'log']
    for n in (1, 2, 3):
        for sel in itertools.permutations(rep, n):
            if n == 3 and (_h(sel) % (3 if tier == 'quick' else 1) != 0):
                continue
            longs = [sp.split(',')[-1] for sp in sel]
            ws = sorted({'--' + l[:k] for l in longs for k in range(2, len(l) + 1)} | {'--abx', '--lo'})
            for abbr in (True, False):
                for w in ws:
                    cases.append(_case(list(sel), abbr, w))
    nmax = 3 if tier == 'quick' else 4
    pool = SPECS[:16] if tier == 'quick' else SPECS
    words = ['-i', '-o', '-x'] + ['--' + w for w in WORDS_LONG]
    for n in range(1, nmax + 1):
        for sel in itertools.permutations(range(len(pool)), n):
            specs = [pool[i] for i in sel]
            if n == nmax and tier == 'quick':
                # sample the largest layer: keep selections whose index sum hits a seeded residue
                if (sum(sel) + 7 * sel[0]) % 3 != 0:
                    continue
            if n == 4 and (sum(sel) + 5 * sel[0] + 3 * sel[1]) % 16 != 0:
                continue
            for abbr in (True, False):
                # every definition list with a small set of lookups; the full word list for small n
                ws = words if n <= 2 else [words[(sum(sel) + j) % len(words)] for j in range(3)] + ['--input', '--inp']
                for w in ws:
                    cases.append(_case(specs, abbr, w))
    return {'cases': cases, 'exhaustive': True,
            'scopes': ['all ordered selections of 1..2 specifications from %d x all %d words x abbreviations on/off; '
                       'ordered selections of %d (and 4 in thorough) sampled by residue x 5 words' % (len(pool), len(words), 3)]}


def _parse(spec):
    """clean specifications only: returns (short, long) or None when the spec is outside the clean family"""
    if spec.count(',') > 1 or ' ' in spec or spec == ',':
        return 'bad'
    parts = spec.split(',')
    out = [None, None]
    for p in parts:
        q = p.lstrip('-')
        if len(p) - len(q) > 2 or q == '' or (len(q) > 1 and q[1] == '-' and len(parts) == 1):
            return 'odd'
        if len(q) == 1 and len(p) - len(q) < 2:
            if out[0]:
                return 'bad'
            out[0] = q
        else:
            if out[1] or len(q) == 1:
                return 'odd'
            out[1] = q
    if len(parts) == 2 and (out[0] is None or out[1] is None):
        return 'bad'
    return tuple(out)


def _designates(seen_s, seen_l, abbr, word):
    """the slot the word designates under the property, None = rejected (unknown or ambiguous)"""
    if word.startswith('--'):
        w = word[2:]
        if len(w) == 1:
            return seen_s.get(w)          # --a is read as the short key a
        if w in seen_l:
            return seen_l[w]
        m = [sl for l, sl in seen_l.items() if l.startswith(w)] if abbr else []
        return m[0] if len(m) == 1 else None
    return seen_s.get(word[1:])


def spec_check(case, ir, mr):
    if ir is None:
        return 'no result from the implementation'
    if 'CRASH' in ir:
        return 'memory error / abort: ' + ir
    toks = case.split(' ')
    abbr = toks[0] == 'H:f=0'
    defs = []
    subdefs = []
    sub_abbr = True
    in_sub = False
    for t in toks:
        if t.startswith('S:'):
            sub_abbr = 'f=128' not in t.split(':')[2]
            # a sub-group argument of the main handler: its key belongs to the family; the arguments that follow
            # belong to the sub-group handler
            defs.append((_parse(t.split(':')[1]), 'SUB', False))
            in_sub = True
        elif t.startswith('late:arg:'):
            # defined on the main handler after the sub-group argument was added
            _, _, spec, slot, opts = t.split(':', 4)
            defs.append((_parse(spec), slot, 'try' in opts.split('/')))
        elif t.startswith('arg:') and in_sub:
            _, spec, slot, opts = t.split(':', 3)
            subdefs.append((_parse(spec), slot))
            continue
        elif t.startswith('arg:'):
            _, spec, slot, opts = t.split(':', 3)
            defs.append((_parse(spec), slot, 'try' in opts.split('/')))
        elif t.startswith('probe:'):
            defs.append(('probe', bytes.fromhex(t[6:]).decode(), False))
    words = [bytes.fromhex(x).decode() for x in toks[-1][5:].split(',')] if toks[-1] != 'argv:-' else []
    word = words[0] if words else None
    sub_word = words[1] if len(words) > 1 else None
    if any(k in ('odd',) for k, _, _ in defs):
        return None          # outside the clean family: no judgement
    outcome = ir.split(' ')[0]
    # definition: refused iff a short or long key is already taken or the spec is malformed
    seen_s, seen_l = {}, {}
    refused = False
    expected_probes = []
    for k, slot, tolerated in defs:
        if k == 'probe':
            expected_probes.append((slot, _designates(seen_s, seen_l, abbr, slot)))
            continue
        if k == 'bad':
            if tolerated:
                continue      # the refusal is survived: nothing of this definition may remain
            refused = True
            break
        s, l = k
        if (s and s in seen_s) or (l and l in seen_l):
            if tolerated:
                continue
            refused = True
            break
        if s:
            seen_s[s] = slot
        if l:
            seen_l[l] = slot
    if refused:
        return None if outcome == 'setup' else 'a definition whose key is already taken (or malformed) was accepted'
    if outcome == 'setup':
        return 'a legal set of definitions was refused'
    if expected_probes:
        got = [x for x in ir.split(' ## ')[0].split(' ') if x.startswith('probes=')]
        got = got[0][7:].split(',') if got else []
        if len(got) != len(expected_probes):
            return 'look-ups between the definitions: %d answers for %d look-ups' % (len(got), len(expected_probes))
        for (w, e), g in zip(expected_probes, got):
            if (e is None and g not in ('none', 'amb')) or (e is not None and g != e):
                return 'looked up between the definitions, key %s designates %s but the answer was %s' % (w, e or 'nothing', g)
    if word is None:
        return None
    if word.startswith('--'):
        w = word[2:]
        if len(w) == 1:
            expect = seen_s.get(w)          # --a is read as the short key a
            exact = expect is not None
        else:
            exact = w in seen_l
            expect = seen_l.get(w)
        if not exact and len(w) > 1:
            m = [sl for l, sl in seen_l.items() if l.startswith(w)] if abbr else []
            expect = m[0] if len(m) == 1 else None
    else:
        expect = seen_s.get(word[1:])
    vals = dict(x.split('=') for x in ir.split(' ## ')[0].split(' ')[1:] if '=' in x)
    hit = [s for s, v in vals.items() if v == '1']
    if expect == 'SUB' and sub_word is not None:
        # a word behind the key of the sub-group argument: looked up in the sub-group handler, with the
        # abbreviation setting of THAT handler
        if any(k in ('odd', 'bad') for k, _ in subdefs):
            return None
        ss, sl = {}, {}
        for (ks, kl), slot in subdefs:
            if ks:
                ss[ks] = slot
            if kl:
                sl[kl] = slot
        e2 = _designates(ss, sl, sub_abbr, sub_word)
        if e2 is None:
            # the sub-group handler does not know the word: the main handler evaluates it
            e2 = _designates(seen_s, seen_l, abbr, sub_word)
            if e2 == 'SUB':
                return None
        if e2 is None:
            return None if outcome == 'err' else 'word %s behind the sub-group key is known to nobody but was accepted (set %s)' % (sub_word, hit)
        if outcome != 'ok' or hit != [e2]:
            return 'behind the sub-group key, %s designates %s but the result is %s %s' % (sub_word, e2, outcome, hit)
        return None
    if expect == 'SUB':
        # the key of a sub-group argument: accepted, no destination of the main handler is touched
        return None if outcome == 'ok' and not hit else 'key %s designates the sub-group argument but the result is %s %s' % (word, outcome, hit)
    if expect is None:
        return None if outcome == 'err' else 'an unknown or ambiguous key was accepted (set %s)' % hit
    if outcome != 'ok':
        return 'key %s designates %s but was rejected' % (word, expect)
    if hit != [expect]:
        return 'key %s designates %s but %s was set' % (word, expect, hit)
    return None


def _subgroup_region(case):
    """known finding: sub-group arguments are kept in a container of their own that is searched first; a long-key
    word for which BOTH containers hold a key starting with it is resolved inside the sub-group container alone"""
    toks = case.split(' ')
    if not any(t.startswith('S:') for t in toks) or toks[-1] in ('argv:-',):
        return False
    try:
        word = bytes.fromhex(toks[-1][5:]).decode()
    except ValueError:
        return False
    if not word.startswith('--') or len(word) < 4:
        return False
    w = word[2:]
    main, sub, in_sub = [], [], False
    for t in toks:
        if t.startswith('S:'):
            k = _parse(t.split(':')[1]); in_sub = True
            if isinstance(k, tuple) and k[1]:
                sub.append(k[1])
        elif (t.startswith('arg:') and not in_sub) or t.startswith('late:arg:'):
            k = _parse(t.split(':')[2 if t.startswith('late:') else 1])
            if isinstance(k, tuple) and k[1]:
                main.append(k[1])
    if set(main) & set(sub):
        return False          # the same long key in both containers: the definition itself must be refused
    if w in sub:
        return False          # the exact key of a sub-group argument: the sub-group container is right to take it
    return any(l.startswith(w) for l in main) and any(l.startswith(w) for l in sub)


def classify(case, ir, mr):
    if _subgroup_region(case):
        return 'subgroup-abbrev-per-container'
    return 'findArg-order' if '2d2d' in case.split(' ')[-1] else 'lookup'


def nontrivial(case, mr):
    return mr is not None and not mr.startswith('setup')


def histogram_keys(case, mr):
    if not mr:
        return []
    p, _, i = mr.partition(' ##')
    return [p.split(' ')[0] + ('/' + i.strip() if i.strip() else '')]


def shrink(case):
    toks = case.split(' ')
    args = [i for i, t in enumerate(toks) if t.startswith('arg:')]
    for i in args:
        yield ' '.join(toks[:i] + toks[i + 1:])


CLAIM = {
    'text': 'Coq theorems (Properties_C05.v) over the model of ArgumentKey, Storage::addArgument and '
            'ArgumentContainer::findArg: a definition is refused exactly when its short or long key is taken, an exact '
            'key selects its own argument for every permutation of the definitions, a proper prefix selects an '
            'argument iff abbreviations are on and exactly one long key starts with it (else ambiguous / unknown), '
            'independent of order; look-ups between the definitions have no memory (C05_lookup_has_no_memory, '
            'C05_staged_exact_key_order_independent); no word is the exact key of a plain and of a sub-group argument '
            '(C05_subgroup_key_one_argument; the pinned tree accepted such definitions - repaired). The pinned findArg is '
            'proved order dependent (C05_pinned_findArg_refuted) and was repaired. Model tied to the code by '
            'correspondence through the real Handler (definitions, look-ups through getArgHandler, evaluation).',
    'note': 'trusted: Coq kernel, extraction, hand-written model validated by correspondence on every run, the '
            'word-to-key step of the driver; one-letter long keys are outside the generated family',
    'technique': 'Coq proof (pairwise table invariant, permutation invariance, induction over the table scan); '
                 'model/implementation correspondence over all definition orders of small key families',
    'design_ref': 'DESIGN.md section 5, C05',
}
